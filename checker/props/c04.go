package props

import (
	"fmt"
	"go/constant"
	"go/token"
	"go/types"
	"strings"

	"godcheck/core"

	"golang.org/x/tools/go/ssa"
)

func init() { register("C04", c04) }

const (
	c04HandlerPkg = "api/handler"
	c04TokenPkg   = "api/token"
	c04SecPkg     = "api/internal/security"
	c04AuthPkg    = "rpc/internal/auth"
	c04IcPkg      = "rpc/internal/serverinterceptors"
	c04CodecPkg   = "lib/codec"
)

// the registered JWT claim names (RFC 7519 §4.1): the only keys that may be withheld from the context
var c04Registered = map[string]bool{"aud": true, "exp": true, "jti": true, "iat": true, "iss": true, "nbf": true, "sub": true}

// c04Binding returns the value bound to free variable fv where its closure is created.
func c04Binding(fv *ssa.FreeVar) ssa.Value {
	fn := fv.Parent()
	par := fn.Parent()
	if par == nil {
		return nil
	}
	idx := -1
	for i, x := range fn.FreeVars {
		if x == fv {
			idx = i
		}
	}
	for _, b := range par.Blocks {
		for _, in := range b.Instrs {
			if mc, ok := in.(*ssa.MakeClosure); ok && mc.Fn == fn && idx >= 0 && idx < len(mc.Bindings) {
				return mc.Bindings[idx]
			}
		}
	}
	return nil
}

// c04Origin resolves a (load of a) captured or spilled variable to the unique
// value stored into it (typically a parameter of an enclosing function);
// nil when the variable is assigned more than once.
func c04Origin(v ssa.Value) ssa.Value {
	v = core.Strip(v)
	u, ok := v.(*ssa.UnOp)
	if !ok || u.Op != token.MUL {
		if fv, ok := v.(*ssa.FreeVar); ok { // captured by value
			if b := c04Binding(fv); b != nil {
				return c04Origin(b)
			}
		}
		return v
	}
	addr := u.X
	for i := 0; i < 6; i++ {
		fv, ok := addr.(*ssa.FreeVar)
		if !ok {
			break
		}
		addr = c04Binding(fv)
		if addr == nil {
			return nil
		}
	}
	al, ok := addr.(*ssa.Alloc)
	if !ok {
		return v
	}
	var val ssa.Value
	n := 0
	for _, r := range *al.Referrers() {
		if st, ok := r.(*ssa.Store); ok && st.Addr == al {
			val = st.Val
			n++
		}
	}
	if n != 1 {
		return nil
	}
	return core.Strip(val)
}

// c04OriginIs matches values whose origin is exactly want.
func c04OriginIs(want ssa.Value) func(ssa.Value) bool {
	return func(v ssa.Value) bool { return want != nil && c04Origin(v) == want }
}

// c04StatusCode returns the constant code of a status.Error/Errorf call value.
func c04StatusCode(v ssa.Value) (int64, bool) {
	c, ok := core.Forward(v).(*ssa.Call)
	if !ok {
		return 0, false
	}
	n := core.CalleeName(c)
	if n != "google.golang.org/grpc/status.Error" && n != "google.golang.org/grpc/status.Errorf" {
		return 0, false
	}
	return core.ConstInt(c.Call.Args[0])
}

func c04IsWriteHeader(code int64) func(ssa.Instruction) bool {
	return func(in ssa.Instruction) bool {
		c := core.AsCall(in)
		if c == nil || !b2Invoke(nil, "WriteHeader")(in) {
			return false
		}
		n, ok := core.ConstInt(c.Common().Args[0])
		return ok && (code < 0 || n == code)
	}
}

// c04FieldNamed matches a load of a struct field called name (any struct type).
func c04FieldNamed(name string) func(ssa.Value) bool {
	return func(v ssa.Value) bool {
		return strings.HasSuffix(core.FieldAddrNameOfLoad(core.Forward(core.Strip(v))), "."+name)
	}
}

func c04UsesValue(c ssa.CallInstruction, pred func(ssa.Value) bool) bool {
	cc := c.Common()
	if pred(cc.Value) {
		return true
	}
	for _, a := range cc.Args {
		if pred(a) {
			return true
		}
	}
	return false
}

func c04(r *core.Run) {
	defer c04Extra(r)
	p := r.P
	r.Explanation = "Decides on every path: (JWT) the gate that calls Parser.ParseToken (a closure of the middleware, or the ServeHTTP method of a handler object whose unexported fields are resolved to what the middleware stores into them) reaches next.ServeHTTP only with err == nil ∧ tok.Valid ∧ claims type-ok, every failing arm passes a function that writes 401 on all its paths, every non-registered claim key (the ignored set may be a switch, a helper or a constant package-level table, which is evaluated) reaches context.WithValue(ctx, k, v) with a loop-carried ctx that is the context of the request given to next; ParseToken, evaluated path by path for an empty and a non-empty prevSecret with every attempt's outcome open (control flow as written: nested ifs, early returns or a loop over the ordered pair; locals in variables, structs or arrays), parses only with secret or a non-empty prevSecret, returns a failure only after every available secret was tried, returns a nil error only with the token of an attempt that succeeded; the key function returns the secret it was given; Authorize is given (r, secret, opts.PrevSecret) and engine.appendAuthHandler appends it whenever jwt is enabled. (Signature) for each of DELETE/GET/POST/PUT (method test as a switch, comparisons, a helper or a lookup in a constant package-level table) the gate closure uses next only after ParseContentSecurity err == nil ∧ VerifySignature == CodeSignaturePass (the failure callbacks excepted), the default callback calls next only when !strict and otherwise writes 403 and is installed when no callback is given; ParseContentSecurity succeeds only with a configured decryptor and successful decryption/decoding and takes key and timestamp from the decrypted secret; the MAC input depends on header timestamp, r.Method, path, query and body hash, is keyed with the header key and compared with the header signature; the path/query that enter the MAC are those of r.URL; the timestamp window is two-sided and symmetric (normal form); HmacBase64/Hmac key and feed the MAC with their arguments; engine.signatureVerifier lets a route through unsigned only when signatures are off or (no keys ∧ !Strict). (RPC) Authenticate reaches validate only with metadata present and non-empty app/token lists and values, passes (apps[0], tokens[0]) in that order, all other exits are Unauthenticated; validate returns nil only under (store error ∧ !strict) or token == expected, looks the app up under (a.key, app); both interceptors call the handler only after Authenticate returned nil with the call's context; setupInterceptors installs both when Auth is set with StrictControl as strictness."
	r.NotDecided = "cryptographic validity (golang-jwt, crypto/hmac, the RSA decryptor are trusted); effects of the adaptive secret ordering over histories of requests; time-claim validation inside golang-jwt; the cache's 5-minute staleness."

	c04jwt(r, p)
	c04sig(r, p)
	c04rpc(r, p)
}

// ---------------------------------------------------------------- JWT

func c04jwt(r *core.Run, p *core.Prog) {
	isParseTok := core.CallMethod("token.Parser", "ParseToken")
	// the protected handler: a captured http.Handler (the gate is a closure) or a field of the gate object
	// that holds the middleware's http.Handler parameter (the gate is a handler object, c04_gate.go)
	isNextVal := c04WrappedHandler(p)
	isNext := b2Invoke(isNextVal, "ServeHTTP")
	// role: the functions of the package that call ParseToken (the gate closure itself, or a verifying helper of it)
	var parsers []*ssa.Function
	isParser := map[*ssa.Function]bool{}
	for _, f := range b2PkgFuncs(p, c04HandlerPkg) {
		if len(core.Instrs(f, isParseTok)) > 0 {
			parsers = append(parsers, f)
			isParser[f] = true
		}
	}
	isVerifierCall := func(in ssa.Instruction) bool {
		c, ok := in.(*ssa.Call)
		return ok && c.Call.StaticCallee() != nil && isParser[c.Call.StaticCallee()]
	}
	// role: the gates are the functions that run the protected handler and verify the token, directly or through a verifying helper
	var gates []*ssa.Function
	for _, f := range b2PkgFuncs(p, c04HandlerPkg) {
		if len(core.Instrs(f, isNext)) == 0 {
			continue
		}
		if isParser[f] || len(core.Instrs(f, isVerifierCall)) > 0 {
			gates = append(gates, f)
		}
	}
	// role: functions of the package that write 401
	unauthFns := map[*ssa.Function]bool{}
	for _, f := range b2PkgFuncs(p, c04HandlerPkg) {
		if len(core.Instrs(f, c04IsWriteHeader(401))) > 0 {
			unauthFns[f] = true
		}
	}
	isUnauth0 := func(in ssa.Instruction) bool {
		if c04IsWriteHeader(401)(in) {
			return true
		}
		c := core.AsCall(in)
		return c != nil && c.Common().StaticCallee() != nil && unauthFns[c.Common().StaticCallee()]
	}
	// … or pass a 401 writer on every path (a thin wrapper such as a reject method of the gate object)
	unauthVia := map[*ssa.Function]bool{}
	for _, f := range b2PkgFuncs(p, c04HandlerPkg) {
		if !unauthFns[f] && f.Parent() == nil && len(core.Instrs(f, isUnauth0)) > 0 && core.MustPass(core.Entry(f), isUnauth0, core.IsReturn) == nil {
			unauthVia[f] = true
		}
	}
	isUnauth := func(in ssa.Instruction) bool {
		if isUnauth0(in) {
			return true
		}
		c := core.AsCall(in)
		return c != nil && c.Common().StaticCallee() != nil && unauthVia[c.Common().StaticCallee()]
	}
	isTok := func(v ssa.Value) bool { return core.IsResult(v, 0, isParseTok) }
	type namedAtom struct {
		a    core.Atom
		what string
	}
	tokenAtoms := []namedAtom{
		{core.ErrNil(1, isParseTok), "ParseToken returned an error"},
		{core.BoolVal(func(v ssa.Value) bool {
			if !b2LoadOfField("Token.Valid", "")(v) {
				return false
			}
			u, ok := core.Forward(v).(*ssa.UnOp)
			if !ok {
				return false
			}
			fa, ok := u.X.(*ssa.FieldAddr)
			return ok && isTok(fa.X)
		}), "the token is not Valid"},
		{core.BoolVal(func(v ssa.Value) bool {
			e, ok := v.(*ssa.Extract)
			if !ok || e.Index != 1 {
				return false
			}
			ta, ok := e.Tuple.(*ssa.TypeAssert)
			return ok && ta.CommaOk && b2LoadOfField("Token.Claims", "")(ta.X)
		}), "the claims are not MapClaims"},
	}

	r.Check("D1/K2/jwt-gate", "next.ServeHTTP is reachable only with ParseToken err == nil ∧ tok.Valid ∧ claims.(MapClaims) ok — tested in the gate closure itself, or in a verifying helper that returns a nil error only then and whose error the gate tests; every failing arm passes a 401 writer (or a wrapper that passes one on all its paths) before returning; next is the handler the gate closure captured or the field of the gate object that holds the middleware's handler parameter", func(o *core.O) {
		if !o.Need(len(gates) > 0, "a function of api/handler that runs next.ServeHTTP and verifies the token with (*token.Parser).ParseToken") {
			return
		}
		for _, g := range gates {
			r.Fn(core.FuncName(g))
			nexts := core.Instrs(g, isNext)
			o.Site(len(nexts), core.FuncName(g))
			atoms := tokenAtoms
			if !isParser[g] {
				// verification delegated: the helper must succeed only under the three conditions, the gate must test its error
				atoms = nil
				for _, c := range core.Calls(g, isVerifierCall) {
					h := c.Common().StaticCallee()
					r.Fn(core.FuncName(h))
					res := h.Signature.Results()
					if res.Len() == 0 || res.At(res.Len()-1).Type().String() != "error" {
						o.Unres("%s verifies the token but does not report failure as an error result", core.FuncName(h))
						continue
					}
					ei := res.Len() - 1
					okRet := func(in ssa.Instruction) bool {
						ret, ok := in.(*ssa.Return)
						return ok && len(ret.Results) == ei+1 && b2MayBeNil(core.Result(ret, ei))
					}
					if len(core.Instrs(h, okRet)) == 0 {
						o.Fail(p.Pos(h.Pos()), "%s never succeeds", core.FuncName(h))
					}
					for _, at := range tokenAtoms {
						if core.EdgeCount(h, at.a) == 0 {
							o.Fail(p.Pos(h.Pos()), "%s never tests whether %s", core.FuncName(h), at.what)
							continue
						}
						if w := core.Requires(h, okRet, at.a); w != nil {
							o.Fail(p.InstrPos(w), "%s reports success although %s", core.FuncName(h), at.what)
						}
					}
					cc := c
					atoms = append(atoms, namedAtom{core.ErrNil(ei, core.Is(cc)), core.FuncName(h) + " reported a failed verification"})
				}
			}
			for _, at := range atoms {
				hold, fail := core.EdgesOf(g, at.a)
				if len(hold) == 0 {
					o.Fail(p.Pos(g.Pos()), "%s never tests whether %s", core.FuncName(g), at.what)
					continue
				}
				if w := core.Requires(g, isNext, at.a); w != nil {
					o.Fail(p.InstrPos(w), "the protected handler runs although %s", at.what)
				}
				if w, ok := core.Reach(core.Q{From: b2Heads(fail), Target: core.IsReturn, Blocked: isUnauth}); ok {
					o.Fail(p.InstrPos(w), "when %s the closure returns without answering 401", at.what)
				}
			}
		}
	})

	r.Check("D1/K1/unauthorized-writes-401", "every function of api/handler that writes 401 does so on all its paths, to a writer derived from its ResponseWriter, and writes no other status", func(o *core.O) {
		if !o.Need(len(unauthFns) > 0, "a function of api/handler writing 401") {
			return
		}
		for f := range unauthFns {
			r.Fn(core.FuncName(f))
			o.Site(len(core.Instrs(f, c04IsWriteHeader(-1))), core.FuncName(f))
			if w := core.MustPass(core.Entry(f), c04IsWriteHeader(401), core.IsReturn); w != nil {
				o.Fail(p.InstrPos(w), "%s can return without writing 401", core.FuncName(f))
			}
			for _, in := range core.Instrs(f, c04IsWriteHeader(-1)) {
				c := core.AsCall(in)
				if !c04IsWriteHeader(401)(in) {
					o.Fail(p.InstrPos(in), "%s writes a status other than 401", core.FuncName(f))
				}
				if len(f.Params) > 0 && !core.DependsOn(c.Common().Value, b2Param(f, 0)) {
					o.Fail(p.InstrPos(in), "%s writes 401 to a writer unrelated to the response", core.FuncName(f))
				}
			}
		}
	})

	r.Check("D1/K8/claims-forwarded", "every claim key outside the seven registered names reaches context.WithValue(ctx, k, v) (in the gate or in the helper that builds its context); ctx is loop-carried from r.Context() and is the context of the request handed to next", func(o *core.O) {
		if !o.Need(len(gates) > 0, "JWT gate closure") {
			return
		}
		isWV := core.CallTo("context.WithValue")
		isReqCtx := b2IsCallVal(core.CallTo("(*net/http.Request).Context"))
		for _, g := range gates {
			// the forwarder: the gate itself or an in-package helper it calls that contains the WithValue loop
			fwd := map[*ssa.Function]bool{}
			if len(core.Calls(g, isWV)) > 0 {
				fwd[g] = true
			}
			for _, c := range core.Calls(g, func(in ssa.Instruction) bool { c, ok := in.(*ssa.Call); return ok && b2CalleeIn(c, c04HandlerPkg) }) {
				if h := c.Common().StaticCallee(); len(core.Calls(h, isWV)) > 0 {
					fwd[h] = true
				}
			}
			if len(fwd) == 0 {
				o.Fail(p.Pos(g.Pos()), "claims are never put into the request context")
				continue
			}
			isFwdCall := func(in ssa.Instruction) bool {
				c, ok := in.(*ssa.Call)
				return ok && c.Call.StaticCallee() != nil && c.Call.StaticCallee() != g && fwd[c.Call.StaticCallee()]
			}
			for f := range fwd {
				r.Fn(core.FuncName(f))
				wvs := core.Calls(f, isWV)
				o.Site(len(wvs), core.FuncName(f))
				var keyEx *ssa.Extract
				for _, in := range core.Instrs(f, func(in ssa.Instruction) bool {
					e, ok := in.(*ssa.Extract)
					if !ok || e.Index != 1 {
						return false
					}
					_, ok = e.Tuple.(*ssa.Next)
					return ok
				}) {
					keyEx = in.(*ssa.Extract)
				}
				if keyEx == nil {
					o.Unres("%s: no range over the claims found", core.FuncName(f))
					continue
				}
				isK := b2IsValue(keyEx)
				consts := append(b2StrConstsDeep(f, isK), c04TableStrKeys(f, isK)...)
				for _, s := range append([]string{"\x00custom-claim"}, consts...) {
					if c04Registered[s] {
						continue
					}
					cut := core.CutSet(c04AssumeEq(f, isK, s))
					if w, ok := core.Reach(core.Q{From: []core.At{core.After(keyEx)}, Blocked: isWV, Cut: cut, Target: func(in ssa.Instruction) bool {
						_, isNextIter := in.(*ssa.Next)
						return isNextIter || core.IsReturn(in) || isNext(in)
					}}); ok {
						name := s
						if s == "\x00custom-claim" {
							name = "<any custom claim>"
						}
						o.Fail(p.InstrPos(w), "claim %q is not forwarded into the request context", name)
					}
				}
				for _, c := range wvs {
					a := core.Args(c)
					if !isK(a[1]) {
						o.Fail(p.InstrPos(c), "the context key is %s, not the claim name", core.Describe(a[1]))
					}
					if e, ok := core.Strip(a[2]).(*ssa.Extract); !ok || e.Index != 2 || e.Tuple != keyEx.Tuple {
						o.Fail(p.InstrPos(c), "the context value is %s, not the claim value", core.Describe(a[2]))
					}
					if !core.DependsOn(a[0], b2IsValue(c.(*ssa.Call))) {
						o.Fail(p.InstrPos(c), "the context is not accumulated across claims (each claim starts from a fresh context, only the last one survives)")
					}
					fromReq := core.DependsOn(a[0], isReqCtx)
					if !fromReq && f != g {
						// helper: the base context is a parameter that the gate binds to r.Context()
						for i, pa := range f.Params {
							if !core.DependsOn(a[0], b2IsValue(pa)) {
								continue
							}
							for _, gc := range core.Calls(g, isFwdCall) {
								if gc.Common().StaticCallee() == f && i < len(core.Args(gc)) && core.DependsOn(core.Args(gc)[i], isReqCtx) {
									fromReq = true
								}
							}
						}
					}
					if !fromReq {
						o.Fail(p.InstrPos(c), "the claims context is not derived from the request's context")
					}
				}
				if f != g {
					for _, ret := range core.Returns(f) {
						if !core.DependsOn(core.Result(ret, 0), b2IsCallVal(isWV)) {
							o.Fail(p.InstrPos(ret), "%s does not return the context that carries the claims", core.FuncName(f))
						}
					}
				}
			}
			carries := func(v ssa.Value) bool {
				return core.DependsOn(v, b2IsCallVal(isWV)) || core.DependsOn(v, b2IsCallVal(isFwdCall))
			}
			for _, in := range core.Instrs(g, isNext) {
				req := core.Args(in.(ssa.CallInstruction))[2]
				wc, _ := core.ResultOf(core.Forward(req))
				if wc == nil || core.CalleeName(wc) != "(*net/http.Request).WithContext" {
					o.Fail(p.InstrPos(in), "next is given %s, not r.WithContext(ctx)", core.Describe(req))
					continue
				}
				if !carries(wc.Call.Args[1]) {
					o.Fail(p.InstrPos(in), "the request handed to next does not carry the claims context")
				}
				if ri := c04ParamOfType(g, "*net/http.Request"); ri >= 0 && !b2Param(g, ri)(wc.Call.Args[0]) {
					o.Fail(p.InstrPos(in), "the request handed to next is not the incoming request")
				}
			}
		}
	})

	r.Check("D2/K8/authorize-secrets", "the incoming request is parsed with Authorize's secret and the configured PrevSecret, in that order (looking through a verifying helper's parameters)", func(o *core.O) {
		az := p.Func(c04HandlerPkg, "", "Authorize")
		if !o.Need(az != nil && len(gates) > 0 && len(parsers) > 0, "handler.Authorize and its gate closure") {
			return
		}
		isGateReq := func(v ssa.Value) bool {
			pa, ok := v.(*ssa.Parameter)
			if !ok || !strings.HasSuffix(pa.Type().String(), "net/http.Request") {
				return false
			}
			for _, g := range gates {
				if pa.Parent() == g {
					return true
				}
			}
			return false
		}
		for _, f := range parsers {
			for _, c := range core.Calls(f, isParseTok) {
				o.Site(1, core.FuncName(f))
				a := core.Args(c)
				if !b2AllOrigins(p, a[1], isGateReq) {
					o.Fail(p.InstrPos(c), "ParseToken is not given the incoming request")
				}
				if !c04AllOrigins(p, a[2], func(v ssa.Value) bool { return v == ssa.Value(az.Params[0]) || c04Origin(v) == ssa.Value(az.Params[0]) }) {
					o.Fail(p.InstrPos(c), "the current secret passed to ParseToken is %s, not Authorize's secret parameter", core.Describe(a[2]))
				}
				if !b2AllOrigins(p, a[3], b2FieldLoadS("AuthorizeOptions.PrevSecret")) {
					o.Fail(p.InstrPos(c), "the previous secret passed to ParseToken is %s, not opts.PrevSecret", core.Describe(a[3]))
				}
			}
		}
		// WithPrevSecret stores its argument
		if wp := p.Func(c04HandlerPkg, "", "WithPrevSecret"); o.Need(wp != nil, "handler.WithPrevSecret") {
			n := 0
			for _, f := range core.WithAnon(wp) {
				for _, st := range core.StoresToField(f, "AuthorizeOptions.PrevSecret") {
					n++
					if c04Origin(st.Val) != ssa.Value(wp.Params[0]) && core.Strip(st.Val) != ssa.Value(wp.Params[0]) {
						o.Fail(p.InstrPos(st), "WithPrevSecret stores %s", core.Describe(st.Val))
					}
				}
			}
			o.Site(n, core.FuncName(wp))
			if n == 0 {
				o.Fail(p.Pos(wp.Pos()), "WithPrevSecret does not set PrevSecret")
			}
		}
	})

	// ---- ParseToken
	pt := p.Func(c04TokenPkg, "Parser", "ParseToken")
	isPFR := core.CallTo("github.com/golang-jwt/jwt/v4/request.ParseFromRequest")
	var doFns []*ssa.Function
	for _, f := range b2PkgFuncs(p, c04TokenPkg) {
		if len(core.Instrs(f, isPFR)) > 0 && f.Parent() == nil {
			doFns = append(doFns, f)
		}
	}
	isDo := func(in ssa.Instruction) bool {
		c, ok := in.(*ssa.Call)
		if !ok {
			return false
		}
		for _, f := range doFns {
			if c.Call.StaticCallee() == f {
				return true
			}
		}
		return false
	}

	r.Check("D2/K1/prev-secret-retry", "ParseToken, evaluated path by path for (secret, prevSecret) = (S, \"\") and (S, P) with the outcome of every attempt left open: every attempt parses the incoming request with secret or with a non-empty prevSecret; a failure is returned only after every available secret has been tried (a failed first attempt is followed by the other secret before any return); a nil error is returned only after an attempt succeeded and with that attempt's token — whatever the control flow is spelled like (nested ifs, early returns, a loop over the ordered pair)", func(o *core.O) {
		if !o.Need(pt != nil && len(pt.Params) == 4 && len(doFns) > 0, "(*token.Parser).ParseToken(r, secret, prevSecret) and the function calling request.ParseFromRequest") {
			return
		}
		r.Fn(core.FuncName(pt))
		calls := core.Calls(pt, isDo)
		o.Site(len(calls), core.FuncName(pt))
		if len(calls) == 0 {
			o.Fail(p.Pos(pt.Pos()), "ParseToken never parses")
			return
		}
		for _, c := range calls {
			if len(core.Args(c)) >= 3 && !b2Param(pt, 1)(core.Args(c)[1]) {
				o.Fail(p.InstrPos(c), "the attempt does not parse the incoming request")
			}
		}
		const markS, markP = "\x00c04-current-secret", "\x00c04-previous-secret"
		said := map[string]bool{}
		fail := func(where, format string, a ...any) {
			msg := fmt.Sprintf(format, a...)
			if !said[where+msg] {
				said[where+msg] = true
				o.Fail(where, "%s", msg)
			}
		}
		for _, sc := range []struct {
			prev string
			need []string
			what string
		}{{"", []string{markS}, "prevSecret empty"}, {markP, []string{markS, markP}, "prevSecret set"}} {
			ex := &c04Exec{Fn: pt, IsEvent: func(c ssa.CallInstruction) bool { return isDo(c) },
				Params: map[*ssa.Parameter]c04SV{pt.Params[2]: constant.MakeString(markS), pt.Params[3]: constant.MakeString(sc.prev)}}
			ex.Run()
			if ex.Incomplete != "" {
				o.Unres("ParseToken (%s) cannot be evaluated path by path: %s", sc.what, ex.Incomplete)
				return
			}
			name := func(s string) string {
				switch s {
				case markS:
					return "secret"
				case markP:
					return "prevSecret"
				}
				return fmt.Sprintf("%q", s)
			}
			attempts := 0
			for _, end := range ex.Ends {
				if end.Ret == nil || len(end.Results) != 2 {
					continue // a panic forwards nothing
				}
				tried := map[string]bool{}
				var okTok []c04SV // tokens of the attempts known to have succeeded on this path
				untestedTok := map[*c04Opaque]c04SV{}
				for _, ev := range end.Events {
					attempts++
					sec, isConst := ev.Args[len(ev.Args)-1].(constant.Value)
					switch {
					case !isConst || sec.Kind() != constant.String:
						fail(p.InstrPos(ev.Call), "an attempt uses %s, which is neither secret nor prevSecret", c04Show(ev.Args[len(ev.Args)-1]))
					case constant.StringVal(sec) == "":
						fail(p.InstrPos(ev.Call), "prevSecret is tried although it may be empty (a token signed with the empty key would verify)")
					case constant.StringVal(sec) != markS && constant.StringVal(sec) != markP:
						fail(p.InstrPos(ev.Call), "an attempt uses the constant %s, which is neither secret nor prevSecret", sec.ExactString())
					default:
						tried[constant.StringVal(sec)] = true
					}
					if len(ev.Res) != 2 {
						continue
					}
					if eo, ok := ev.Res[1].(*c04Opaque); ok {
						if isNil, known := end.Facts[c04NilKey(eo)]; known && isNil {
							okTok = append(okTok, ev.Res[0])
						} else if !known {
							untestedTok[eo] = ev.Res[0]
						}
					}
				}
				isOK := func(tok c04SV) bool {
					for _, t := range okTok {
						if t == tok {
							return true
						}
					}
					return false
				}
				complete := func() {
					if len(end.Events) == 0 || len(okTok) > 0 {
						return
					}
					for _, s := range sc.need {
						if !tried[s] {
							if len(sc.need) == 2 {
								fail(p.InstrPos(end.Ret), "after the first secret failed ParseToken returns without trying the other secret (%s is never tried on this path)", name(s))
							} else {
								fail(p.InstrPos(end.Ret), "the only attempt on this path does not use secret")
							}
						}
					}
				}
				tok, err := end.Results[0], end.Results[1]
				errNil, errKnown := false, false
				eo, isOpaque := err.(*c04Opaque)
				if _, isNilConst := err.(c04NilV); isNilConst {
					errNil, errKnown = true, true
				} else if isOpaque {
					errNil, errKnown = end.Facts[c04NilKey(eo)]
				}
				switch {
				case errKnown && errNil:
					if len(okTok) == 0 {
						fail(p.InstrPos(end.Ret), "ParseToken returns a nil error on a path where no attempt succeeded (caller dereferences a nil/unverified token)")
					} else if !isOK(tok) {
						fail(p.InstrPos(end.Ret), "the token returned with a nil error is %s, not the token of the attempt that succeeded", c04Show(tok))
					}
				case isOpaque && !errKnown && untestedTok[eo] != nil:
					// an attempt's (token, error) handed on untested: faithful when it is that attempt's pair
					if untestedTok[eo] != tok {
						fail(p.InstrPos(end.Ret), "the token returned is %s, not the result of the attempt whose error is returned", c04Show(tok))
					}
					complete()
				default:
					complete()
				}
			}
			if attempts == 0 {
				fail(p.Pos(pt.Pos()), "ParseToken never parses (%s)", sc.what)
			}
		}
	})

	r.Check("D2/K8/key-func", "the key function handed to request.ParseFromRequest returns exactly the secret the parsing helper was given, and the helper parses the request it was given", func(o *core.O) {
		if !o.Need(len(doFns) > 0, "function of api/token calling request.ParseFromRequest") {
			return
		}
		for _, f := range doFns {
			r.Fn(core.FuncName(f))
			for _, c := range core.Calls(f, isPFR) {
				o.Site(1, core.FuncName(f))
				a := core.Args(c)
				if !b2Param(f, len(f.Params)-2)(a[0]) {
					o.Fail(p.InstrPos(c), "ParseFromRequest is not given the request parameter")
				}
				mc, ok := core.Strip(a[2]).(*ssa.MakeClosure)
				if !ok {
					o.Unres("key function is %s, not a closure", core.Describe(a[2]))
					continue
				}
				kf := mc.Fn.(*ssa.Function)
				r.Fn(core.FuncName(kf))
				for _, ret := range core.Returns(kf) {
					if c04Origin(core.Result(ret, 0)) != ssa.Value(f.Params[len(f.Params)-1]) {
						o.Fail(p.InstrPos(ret), "the key function returns %s, not the secret given to %s", core.Describe(core.Result(ret, 0)), core.FuncName(f))
					}
					if !core.IsNil(core.Result(ret, 1)) {
						o.Fail(p.InstrPos(ret), "the key function returns an error")
					}
				}
			}
		}
	})

	r.Check("D2/K8/engine-jwt", "engine.appendAuthHandler: whenever jwt is enabled the chain handed on contains handler.Authorize(jwt.secret …) (with jwt.prevSecret when configured)", func(o *core.O) {
		f := p.Func("api", "engine", "appendAuthHandler")
		if !o.Need(f != nil, "api.engine.appendAuthHandler") {
			return
		}
		r.Fn(core.FuncName(f))
		isAz := core.CallTo("api/handler.Authorize")
		azs := core.Calls(f, isAz)
		o.Site(len(azs), core.FuncName(f))
		if len(azs) == 0 {
			o.Fail(p.Pos(f.Pos()), "appendAuthHandler never builds the JWT gate")
			return
		}
		enabled := core.BoolVal(b2FieldLoadS("jwtSetting.enabled"))
		hold, _ := core.EdgesOf(f, enabled)
		if len(hold) == 0 {
			o.Fail(p.Pos(f.Pos()), "jwt.enabled is not tested")
		}
		isAppendAz := func(in ssa.Instruction) bool {
			c := core.AsCall(in)
			if c == nil || !b2Invoke(nil, "Append")(in) {
				return false
			}
			for _, a := range c.Common().Args {
				if core.DependsOn(a, b2IsCallVal(isAz)) {
					return true
				}
			}
			return false
		}
		if w, ok := core.Reach(core.Q{From: b2Heads(hold), Target: core.IsReturn, Blocked: isAppendAz}); ok {
			o.Fail(p.InstrPos(w), "jwt enabled but a path returns without appending the Authorize gate")
		}
		// every appended chain is the one handed on
		for _, ac := range core.Calls(f, isAppendAz) {
			acv, ok := ac.(*ssa.Call)
			if !ok {
				continue
			}
			for _, ret := range core.Returns(f) {
				if _, reach := core.Reach(core.Q{From: []core.At{core.After(ac)}, Target: core.Is(ret)}); !reach {
					continue
				}
				if !core.DependsOn(core.Result(ret, 0), b2IsValue(acv)) {
					o.Fail(p.InstrPos(ac), "the chain with the Authorize gate appended here is not the one handed on (result of chn.Append dropped)")
				}
			}
		}
		for _, c := range azs {
			a := core.Args(c)
			if !b2FieldLoadS("jwtSetting.secret")(a[0]) {
				o.Fail(p.InstrPos(c), "Authorize is given %s, not jwt.secret", core.Describe(a[0]))
			}
			for _, wp := range core.Calls(f, core.CallTo("api/handler.WithPrevSecret")) {
				if !b2FieldLoadS("jwtSetting.prevSecret")(core.Args(wp)[0]) {
					o.Fail(p.InstrPos(wp), "WithPrevSecret is given %s, not jwt.prevSecret", core.Describe(core.Args(wp)[0]))
				}
			}
		}
		// a configured prevSecret is passed on: on the prevSecret-non-empty arm an Authorize call depends on WithPrevSecret
		ne, _ := core.EdgesOf(f, b2NonEmpty(b2FieldLoadS("jwtSetting.prevSecret")))
		if len(ne) == 0 {
			// unconditional form is fine if every Authorize call carries WithPrevSecret
			for _, c := range azs {
				if !core.DependsOn(core.Args(c)[1], b2IsCallVal(core.CallTo("api/handler.WithPrevSecret"))) {
					o.Fail(p.InstrPos(c), "the previous secret is not handed to Authorize")
				}
			}
		} else if w, ok := core.Reach(core.Q{From: b2Heads(ne), Target: core.IsReturn, Blocked: func(in ssa.Instruction) bool {
			c := core.AsCall(in)
			return c != nil && isAz(in) && len(core.Args(c)) > 1 && core.DependsOn(core.Args(c)[1], b2IsCallVal(core.CallTo("api/handler.WithPrevSecret")))
		}}); ok {
			o.Fail(p.InstrPos(w), "a configured previous secret is not handed to Authorize (tokens signed with it are rejected during rotation)")
		}
	})
}

// ---------------------------------------------------------------- content security

func c04sig(r *core.Run, p *core.Prog) {
	isParseCS := core.CallTo(c04SecPkg + ".ParseContentSecurity")
	isVerify := core.CallTo(c04SecPkg + ".VerifySignature")
	csh := p.Func(c04HandlerPkg, "", "ContentSecurityHandler")
	var gates []*ssa.Function
	for _, f := range b2PkgFuncs(p, c04HandlerPkg) {
		if len(core.Instrs(f, isParseCS)) > 0 {
			gates = append(gates, f)
		}
	}
	isCbType := func(t types.Type) bool {
		n, ok := t.(*types.Named)
		return ok && n.Obj().Name() == "UnsignedCallback"
	}
	isRunner := func(c ssa.CallInstruction) bool { // the callbacks runner or a direct callback call
		cc := c.Common()
		if cc.IsInvoke() {
			return false
		}
		if isCbType(cc.Value.Type()) {
			return true
		}
		if f := cc.StaticCallee(); f != nil {
			for _, pa := range f.Params {
				if sl, ok := pa.Type().Underlying().(*types.Slice); ok && isCbType(sl.Elem()) {
					return true
				}
			}
		}
		return false
	}
	isNextVal := b2FreeVarOfType(b2TypeIs("net/http.Handler"))
	passCode := int64(0)
	if v, ok := b2ConstOf(p, "api/httpx", "CodeSignaturePass"); ok {
		passCode, _ = constant.Int64Val(v)
	}

	r.Check("D3/K2/signature-gate", "for each of DELETE, GET, POST, PUT the gate closure uses next (directly or through CryptoHandler) only after ParseContentSecurity err == nil ∧ VerifySignature(r, header, tolerance) == CodeSignaturePass; failures go to the callbacks with the configured strictness", func(o *core.O) {
		if !o.Need(len(gates) > 0 && csh != nil && len(csh.Params) == 4, "closure of handler.ContentSecurityHandler calling security.ParseContentSecurity") {
			return
		}
		for _, g := range gates {
			r.Fn(core.FuncName(g))
			if !o.Need(len(g.Params) == 2, "gate signature (w, r)") {
				return
			}
			isM := b2LoadOfField("Request.Method", core.Describe(g.Params[1]))
			_ = b2StrConstsCompared
			useNext := func(in ssa.Instruction) bool {
				c := core.AsCall(in)
				return c != nil && !isRunner(c) && c04UsesValue(c, isNextVal)
			}
			uses := core.Instrs(g, useNext)
			o.Site(len(uses), core.FuncName(g))
			if len(uses) == 0 {
				o.Fail(p.Pos(g.Pos()), "the gate never runs the protected handler")
			}
			parseOK := core.ErrNil(1, isParseCS)
			sigOK := core.Cmp(token.EQL, func(v ssa.Value) bool { return core.IsResult(v, 0, isVerify) }, core.IsConstInt(passCode))
			for _, m := range []string{"DELETE", "GET", "POST", "PUT"} {
				assume := c04AssumeEq(g, isM, m)
				for _, at := range []struct {
					a    core.Atom
					what string
				}{{parseOK, "the X-Content-Security header did not parse/decrypt"}, {sigOK, "VerifySignature did not return CodeSignaturePass"}} {
					hold, _ := core.EdgesOf(g, at.a)
					if len(hold) == 0 {
						o.Fail(p.Pos(g.Pos()), "the gate never tests whether %s", at.what)
						continue
					}
					if w, ok := core.Reach(core.Q{From: []core.At{core.Entry(g)}, Target: useNext, Cut: core.CutSet(assume, hold)}); ok {
						o.Fail(p.InstrPos(w), "%s request: the protected handler runs although %s", m, at.what)
					}
				}
			}
			for _, c := range core.Calls(g, isVerify) {
				a := core.Args(c)
				if !b2Param(g, 1)(a[0]) {
					o.Fail(p.InstrPos(c), "VerifySignature is not given the incoming request")
				}
				if !core.IsResult(a[1], 0, isParseCS) {
					o.Fail(p.InstrPos(c), "VerifySignature is not given the parsed header")
				}
				if c04Origin(a[2]) != ssa.Value(csh.Params[1]) {
					o.Fail(p.InstrPos(c), "VerifySignature is given %s, not the configured tolerance", core.Describe(a[2]))
				}
				if w := core.Requires(g, core.Is(c), parseOK); w != nil {
					o.Fail(p.InstrPos(c), "VerifySignature runs on a header that failed to parse (nil header)")
				}
			}
			for _, c := range core.Calls(g, func(in ssa.Instruction) bool { c := core.AsCall(in); return c != nil && isRunner(c) }) {
				for i, a := range core.Args(c) {
					if b, ok := a.Type().Underlying().(*types.Basic); ok && b.Kind() == types.Bool {
						if c04Origin(a) != ssa.Value(csh.Params[2]) {
							o.Fail(p.InstrPos(c), "the failure callbacks are told strict=%s (argument %d), not the configured strictness", core.Describe(a), i)
						}
					}
				}
			}
			for _, c := range core.Calls(g, core.CallTo(c04HandlerPkg+".CryptoHandler")) {
				k := core.Args(c)[0]
				if !b2LoadOfField("ContentSecurityHeader.Key", "")(k) || !core.DependsOn(k, b2IsCallVal(isParseCS)) {
					o.Fail(p.InstrPos(c), "CryptoHandler is keyed with %s, not the verified header's key", core.Describe(k))
				}
			}
		}
	})

	// default failure callback (role: the in-package function installed by ContentSecurityHandler)
	var hvf *ssa.Function
	if csh != nil {
		for _, b := range csh.Blocks {
			for _, in := range b.Instrs {
				for _, op := range in.Operands(nil) {
					if f, ok := (*op).(*ssa.Function); ok && f.Pkg == csh.Pkg && len(f.Params) == 5 {
						hvf = f
					}
				}
			}
		}
	}
	r.Check("D3/K2/verification-failure", "the default failure callback runs next only when !strict and otherwise writes 403 on every path; it is installed whenever no callback is supplied; the runner hands (w, r, next, strict, code) on unchanged", func(o *core.O) {
		if !o.Need(hvf != nil && csh != nil, "the default UnsignedCallback referenced by ContentSecurityHandler") {
			return
		}
		r.Fn(core.FuncName(hvf), core.FuncName(csh))
		isNext := b2Invoke(b2Param(hvf, 2), "ServeHTTP")
		strict := core.BoolVal(b2Param(hvf, 3))
		hold, _ := core.EdgesOf(hvf, strict)
		o.Site(len(core.Instrs(hvf, isNext))+len(hold), core.FuncName(hvf))
		if len(hold) == 0 {
			o.Fail(p.Pos(hvf.Pos()), "the callback does not test strict")
			return
		}
		if w := core.Requires(hvf, isNext, core.Not(strict)); w != nil {
			o.Fail(p.InstrPos(w), "strict mode: the protected handler runs for an unverified request")
		}
		if w, ok := core.Reach(core.Q{From: b2Heads(hold), Target: core.IsReturn, Blocked: c04IsWriteHeader(403)}); ok {
			o.Fail(p.InstrPos(w), "strict mode: a path returns without answering 403")
		}
		for _, in := range core.Instrs(hvf, c04IsWriteHeader(-1)) {
			if !c04IsWriteHeader(403)(in) {
				o.Fail(p.InstrPos(in), "the callback writes a status other than 403")
			}
		}
		_, lax := core.EdgesOf(hvf, strict)
		if w, ok := core.Reach(core.Q{From: b2Heads(lax), Target: core.IsReturn, Blocked: isNext}); ok {
			o.Fail(p.InstrPos(w), "non-strict mode: the request is neither passed on nor answered")
		}
		// installation
		empty := core.Cmp(token.EQL, core.IsLenOf(func(v ssa.Value) bool {
			return c04Origin(v) == ssa.Value(csh.Params[3]) || b2Param(csh, 3)(v) || core.DependsOn(v, b2Param(csh, 3))
		}), core.IsConstInt(0))
		eh, _ := core.EdgesOf(csh, empty)
		if len(eh) == 0 {
			o.Fail(p.Pos(csh.Pos()), "ContentSecurityHandler does not test for an empty callback list")
		}
		isInstall := func(in ssa.Instruction) bool {
			st, ok := in.(*ssa.Store)
			if !ok {
				return false
			}
			if _, ok := st.Addr.(*ssa.Alloc); !ok {
				return false
			}
			return core.DependsOn(st.Val, func(v ssa.Value) bool { return v == ssa.Value(hvf) })
		}
		if w, ok := core.Reach(core.Q{From: b2Heads(eh), Target: core.IsReturn, Blocked: isInstall}); ok {
			o.Fail(p.InstrPos(w), "no callback supplied and the default one is not installed: a failed verification is neither rejected nor passed on")
		}
		// runner passes its parameters on
		for _, f := range b2PkgFuncs(p, c04HandlerPkg) {
			for _, c := range core.Calls(f, func(in ssa.Instruction) bool {
				c := core.AsCall(in)
				return c != nil && !c.Common().IsInvoke() && isCbType(c.Common().Value.Type())
			}) {
				o.Site(1, core.FuncName(f))
				for i, a := range core.Args(c) {
					if i >= len(f.Params) || !b2Param(f, i)(a) {
						o.Fail(p.InstrPos(c), "%s hands argument %d = %s to the callback instead of its own parameter", core.FuncName(f), i, core.Describe(a))
					}
				}
			}
		}
	})

	// ---- ParseContentSecurity
	r.Check("D4/K2/parse-header", "ParseContentSecurity succeeds only with a configured decryptor for the fingerprint and successful DecryptBase64 and key decoding; Key and Timestamp come from the decrypted secret, Signature from the request header", func(o *core.O) {
		f := p.Func(c04SecPkg, "", "ParseContentSecurity")
		if !o.Need(f != nil && len(f.Params) == 2, "security.ParseContentSecurity(decryptors, r)") {
			return
		}
		r.Fn(core.FuncName(f))
		okRet := b2RetConst(1, "nil")
		rets := core.Instrs(f, okRet)
		o.Site(len(rets), core.FuncName(f))
		if len(rets) == 0 {
			o.Fail(p.Pos(f.Pos()), "ParseContentSecurity never succeeds")
			return
		}
		isDecrypt := b2Invoke(nil, "DecryptBase64")
		isDecode := core.CallMethod("base64.Encoding", "DecodeString")
		found := core.BoolVal(func(v ssa.Value) bool {
			l, i := c03LookupResult(v)
			return l != nil && i == 1 && b2Param(f, 0)(l.X)
		})
		for _, at := range []struct {
			a    core.Atom
			what string
		}{{found, "no decryptor is configured for the fingerprint"}, {core.ErrNil(1, isDecrypt), "the secret did not decrypt"}, {core.ErrNil(1, isDecode), "the key is not valid base64"}} {
			if w := core.Requires(f, okRet, at.a); w != nil {
				o.Fail(p.InstrPos(w), "a header is accepted although %s", at.what)
			}
		}
		for _, c := range core.Calls(f, isDecrypt) {
			l, i := c03LookupResult(core.Forward(core.Args(c)[0]))
			if l == nil || i != 0 || !b2Param(f, 0)(l.X) {
				o.Fail(p.InstrPos(c), "the decryptor used is not decryptors[fingerprint]")
			}
		}
		isPlain := func(v ssa.Value) bool { return core.IsResult(v, 0, isDecrypt) }
		want := map[string]func(ssa.Value) bool{
			"Key":       func(v ssa.Value) bool { return core.IsResult(v, 0, isDecode) && core.DependsOn(v, isPlain) },
			"Timestamp": func(v ssa.Value) bool { return core.DependsOn(v, isPlain) },
			"Signature": func(v ssa.Value) bool {
				return core.DependsOn(v, b2Param(f, 1)) && !core.DependsOn(v, isPlain)
			},
		}
		for fld, good := range want {
			sts := core.StoresToField(f, "ContentSecurityHeader."+fld)
			if len(sts) == 0 {
				o.Fail(p.Pos(f.Pos()), "ContentSecurityHeader.%s is never set", fld)
			}
			for _, st := range sts {
				if !good(st.Val) {
					o.Fail(p.InstrPos(st), "ContentSecurityHeader.%s is set from %s", fld, core.Describe(st.Val))
				}
			}
		}
	})

	// ---- VerifySignature
	vs := p.Func(c04SecPkg, "", "VerifySignature")
	isMac := core.CallTo(c04CodecPkg+".HmacBase64", c04CodecPkg+".Hmac")
	retPass := func(in ssa.Instruction) bool {
		ret, ok := in.(*ssa.Return)
		if !ok || len(ret.Results) != 1 {
			return false
		}
		n, ok := core.ConstInt(core.Result(ret, 0))
		return ok && n == passCode
	}
	// sources of path / query: loads of URL.Path / URL.RawQuery, directly or as result i of an in-package helper
	type uriSrc struct {
		load ssa.Value
		fn   *ssa.Function
	}
	uriSources := func(v ssa.Value, field string) (out []uriSrc, ok bool) {
		seen := map[ssa.Value]bool{}
		var walk func(v ssa.Value, fn *ssa.Function) bool
		walk = func(v ssa.Value, fn *ssa.Function) bool {
			v = core.Forward(v)
			if seen[v] {
				return true
			}
			seen[v] = true
			if b2LoadOfField("URL."+field, "")(v) {
				out = append(out, uriSrc{v, fn})
				return true
			}
			if ph, isPhi := v.(*ssa.Phi); isPhi {
				for _, e := range ph.Edges {
					if !walk(e, fn) {
						return false
					}
				}
				return true
			}
			c, i := core.ResultOf(v)
			if c == nil || !b2CalleeIn(c, c04SecPkg) {
				return false
			}
			g := c.Call.StaticCallee()
			for _, ret := range core.Returns(g) {
				if i >= len(ret.Results) || !walk(core.Result(ret, i), g) {
					return false
				}
			}
			return true
		}
		ok = walk(v, vs)
		return
	}
	// elements of the MAC input: the values stored into the slice/array that feeds the MAC body
	macParts := func(body ssa.Value) []ssa.Value {
		var parts []ssa.Value
		seen := map[ssa.Value]bool{}
		var walk func(v ssa.Value)
		walk = func(v ssa.Value) {
			if v == nil || seen[v] {
				return
			}
			seen[v] = true
			// a part held in a field of a local struct (written once, possibly copied once as a
			// whole into a value receiver) is the value stored into that field
			if fv := core.ForwardField(v); fv != v {
				walk(fv)
				return
			}
			switch x := v.(type) {
			case *ssa.Call:
				n := core.CalleeName(x)
				if n == "strings.Join" || strings.HasPrefix(n, "fmt.Sprint") || n == "builtin:append" {
					for _, a := range x.Call.Args {
						walk(a)
					}
					return
				}
			case *ssa.Slice:
				walk(x.X)
				return
			case *ssa.Alloc:
				for _, ref := range *x.Referrers() {
					if ia, ok := ref.(*ssa.IndexAddr); ok {
						for _, r2 := range *ia.Referrers() {
							if st, ok := r2.(*ssa.Store); ok && st.Addr == ia {
								walk(st.Val)
							}
						}
					}
				}
				return
			case *ssa.BinOp:
				if x.Op == token.ADD {
					walk(x.X)
					walk(x.Y)
					return
				}
			case *ssa.MakeInterface:
				walk(x.X)
				return
			case *ssa.Const:
				return
			}
			parts = append(parts, v)
		}
		walk(body)
		return parts
	}

	r.Check("D4/K8/mac-coverage", "VerifySignature: the MAC body depends on header.Timestamp, r.Method, a path, a query and the body hash; the key is header.Key; CodeSignaturePass is returned only when the header's Signature equals the MAC, the timestamp parsed and the window test passed", func(o *core.O) {
		if !o.Need(vs != nil && len(vs.Params) == 3, "security.VerifySignature(r, header, tolerance)") {
			return
		}
		r.Fn(core.FuncName(vs))
		macs := core.Calls(vs, isMac)
		o.Site(len(macs), core.FuncName(vs))
		if len(macs) != 1 {
			o.Fail(p.Pos(vs.Pos()), "expected exactly one MAC computation in VerifySignature, found %d", len(macs))
			return
		}
		mac := macs[0]
		a := core.Args(mac)
		hdr := core.Describe(vs.Params[1])
		if !b2LoadOfField("ContentSecurityHeader.Key", hdr)(a[0]) {
			o.Fail(p.InstrPos(mac), "the MAC key is %s, not the header's decrypted key", core.Describe(a[0]))
		}
		isBodyHash := func(v ssa.Value) bool {
			c, ok := v.(*ssa.Call)
			if !ok || !b2CalleeIn(c, c04SecPkg) {
				return false
			}
			g := c.Call.StaticCallee()
			hashes := len(core.Instrs(g, core.CallTo("crypto/sha256.New", "crypto/sha256.Sum256"))) > 0
			readsBody := len(core.Instrs(g, func(in ssa.Instruction) bool {
				v, ok := in.(ssa.Value)
				return ok && core.FieldAddrName(v) == "Request.Body"
			})) > 0
			return hashes && readsBody && len(c.Call.Args) == 1 && b2Param(vs, 0)(c.Call.Args[0])
		}
		have := map[string]bool{}
		for _, part := range macParts(a[1]) {
			switch {
			case b2LoadOfField("ContentSecurityHeader.Timestamp", hdr)(part):
				have["timestamp"] = true
			case b2LoadOfField("Request.Method", core.Describe(vs.Params[0]))(part):
				have["method"] = true
			case isBodyHash(core.Forward(part)):
				have["body"] = true
			default:
				if s, ok := uriSources(part, "Path"); ok && len(s) > 0 {
					have["path"] = true
				} else if s, ok := uriSources(part, "RawQuery"); ok && len(s) > 0 {
					have["query"] = true
				}
			}
		}
		for _, k := range []string{"timestamp", "method", "path", "query", "body"} {
			if !have[k] {
				o.Fail(p.InstrPos(mac), "the MAC input does not contain the %s: altering it is not detected", map[string]string{
					"timestamp": "header timestamp", "method": "request method", "path": "request path", "query": "query string", "body": "body hash"}[k])
			}
		}
		isMacVal := b2IsValue(mac.(*ssa.Call))
		isSig := b2LoadOfField("ContentSecurityHeader.Signature", hdr)
		sigEq := core.AnyOf(
			core.Cmp(token.EQL, isSig, isMacVal),
			core.BoolVal(func(v ssa.Value) bool {
				c, ok := v.(*ssa.Call)
				if !ok {
					return false
				}
				n := core.CalleeName(c)
				return (n == "crypto/hmac.Equal") && core.DependsOn(c, isSig) && core.DependsOn(c, isMacVal)
			}),
		)
		if len(core.Instrs(vs, retPass)) == 0 {
			o.Fail(p.Pos(vs.Pos()), "VerifySignature never passes")
		}
		if w := core.Requires(vs, retPass, sigEq); w != nil {
			o.Fail(p.InstrPos(w), "CodeSignaturePass is returned although the header's signature was not found equal to the MAC")
		}
		isParseInt := core.CallTo("strconv.ParseInt", "strconv.Atoi", "strconv.ParseUint")
		if w := core.Requires(vs, retPass, core.ErrNil(1, isParseInt)); w != nil {
			o.Fail(p.InstrPos(w), "CodeSignaturePass is returned although the timestamp did not parse")
		}
		for _, c := range core.Calls(vs, isParseInt) {
			if !b2LoadOfField("ContentSecurityHeader.Timestamp", hdr)(core.Args(c)[0]) {
				o.Fail(p.InstrPos(c), "the timestamp checked against the clock is %s, not the MAC'd header timestamp", core.Describe(core.Args(c)[0]))
			}
		}
		for _, ret := range core.Returns(vs) {
			if _, ok := core.ConstInt(core.Result(ret, 0)); !ok {
				o.Unres("VerifySignature returns a computed code %s", core.Describe(core.Result(ret, 0)))
			}
		}
	})

	r.Check("D4/K8/mac-covers-request-uri", "the path and query that enter the MAC are r.URL.Path and r.URL.RawQuery of the request being served (not values a client can choose independently of the URL it requests)", func(o *core.O) {
		if !o.Need(vs != nil && len(vs.Params) == 3, "security.VerifySignature") {
			return
		}
		macs := core.Calls(vs, isMac)
		if !o.Need(len(macs) == 1, "the MAC computation in VerifySignature") {
			return
		}
		n := 0
		for _, part := range macParts(core.Args(macs[0])[1]) {
			for _, field := range []string{"Path", "RawQuery"} {
				srcs, ok := uriSources(part, field)
				if !ok {
					continue
				}
				for _, s := range srcs {
					n++
					fa := core.Forward(s.load).(*ssa.UnOp).X.(*ssa.FieldAddr)
					base := core.Forward(fa.X)
					okBase := false
					if b2LoadOfField("Request.URL", "")(base) {
						if rp, ok := base.(*ssa.UnOp).X.(*ssa.FieldAddr).X.(*ssa.Parameter); ok && strings.HasSuffix(rp.Type().String(), "net/http.Request") {
							okBase = true
						}
					}
					if !okBase {
						o.Fail(p.InstrPos(s.load.(ssa.Instruction)), "%s: the %s that enters the MAC is taken from %s, not from r.URL: a request signed for one URI verifies when sent to another", core.FuncName(s.fn), field, core.Describe(fa.X))
					}
				}
			}
		}
		o.Site(n, core.FuncName(vs))
	})

	r.Check("D4/K7/tolerance-two-sided", "the timestamp window is two-sided and symmetric: evaluated on concrete (seconds, now, tolerance) triples, the MAC comparison / CodeSignaturePass is unreachable when the timestamp is more than the tolerance older or newer than now, and reachable when it is within the tolerance on either side (any spelling, helper or inline)", func(o *core.O) {
		if !o.Need(vs != nil && len(vs.Params) == 3, "security.VerifySignature") {
			return
		}
		isS := func(v ssa.Value) bool {
			e, ok := core.Forward(v).(*ssa.Extract)
			return ok && e.Index == 0 && core.IsResult(e, 0, core.CallTo("strconv.ParseInt", "strconv.Atoi"))
		}
		isN := func(v ssa.Value) bool {
			c, ok := v.(*ssa.Call)
			return ok && (core.CalleeName(c) == "(time.Time).Unix")
		}
		isTol := b2Param(vs, 2)
		if len(core.Instrs(vs, func(in ssa.Instruction) bool { v, ok := in.(ssa.Value); return ok && isN(v) })) == 0 {
			o.Unres("VerifySignature: the current time is not read as time.Now().Unix()")
			return
		}
		target := core.Or(retPass, isMac)
		if len(core.Instrs(vs, target)) == 0 {
			o.Fail(p.Pos(vs.Pos()), "VerifySignature neither computes the MAC nor passes")
			return
		}
		type vec struct {
			s, n, tol float64
			inside    bool
			what      string
		}
		var vecs []vec
		for _, tol := range []float64{0, 5, 900} {
			base := 1.7e9
			vecs = append(vecs,
				vec{base, base + tol + 1, tol, false, "older than now − tolerance"},
				vec{base + tol + 1, base, tol, false, "further in the future than now + tolerance"},
				vec{base, base, tol, true, "equal to now"})
			if tol >= 2 {
				vecs = append(vecs,
					vec{base, base + tol - 1, tol, true, "older than now but within the tolerance"},
					vec{base + tol - 1, base, tol, true, "in the future but within the tolerance"})
			}
		}
		n := 0
		for _, vc := range vecs {
			vc := vc
			ev := &c04Eval{
				leaf: func(v ssa.Value) (float64, bool) {
					switch {
					case isS(core.Forward(v)):
						return vc.s, true
					case isN(v):
						return vc.n, true
					case isTol(v):
						return vc.tol * 1e9, true
					}
					return 0, false
				},
				relevant: func(v ssa.Value) bool {
					return core.DependsOn(v, func(x ssa.Value) bool { return isS(x) || isN(x) })
				},
			}
			w := ev.reach(vs, target)
			n++
			switch {
			case ev.Undecided != nil:
				o.Unres("VerifySignature: a condition on the timestamp at %s cannot be evaluated (seconds=%.0f now=%.0f tolerance=%.0fs)", p.InstrPos(ev.Undecided), vc.s, vc.n, vc.tol)
				return
			case !vc.inside && w != nil:
				o.Fail(p.InstrPos(w), "the signature is evaluated/accepted for a timestamp %s (seconds=%.0f now=%.0f tolerance=%.0fs): the window is not two-sided", vc.what, vc.s, vc.n, vc.tol)
			case vc.inside && w == nil:
				o.Fail(p.Pos(vs.Pos()), "a timestamp %s is rejected (seconds=%.0f now=%.0f tolerance=%.0fs): the window is not symmetric with the configured tolerance", vc.what, vc.s, vc.n, vc.tol)
			}
		}
		o.Site(n, core.FuncName(vs))
	})

	r.Check("D4/K8/hmac", "codec.HmacBase64 encodes Hmac(key, body) of its own arguments; codec.Hmac keys HMAC-SHA256 with key and writes body before Sum", func(o *core.O) {
		hb, hm := p.Func(c04CodecPkg, "", "HmacBase64"), p.Func(c04CodecPkg, "", "Hmac")
		if !o.Need(hb != nil && hm != nil && len(hb.Params) == 2 && len(hm.Params) == 2, "codec.HmacBase64 / codec.Hmac") {
			return
		}
		r.Fn(core.FuncName(hb), core.FuncName(hm))
		isHm := core.CallTo(c04CodecPkg + ".Hmac")
		cs := core.Calls(hb, isHm)
		o.Site(len(cs), core.FuncName(hb))
		if len(cs) == 0 {
			o.Fail(p.Pos(hb.Pos()), "HmacBase64 does not call Hmac")
		}
		for _, c := range cs {
			a := core.Args(c)
			if !b2Param(hb, 0)(a[0]) || !b2Param(hb, 1)(a[1]) {
				o.Fail(p.InstrPos(c), "HmacBase64 calls Hmac(%s, %s) instead of (key, body)", core.Describe(a[0]), core.Describe(a[1]))
			}
		}
		for _, ret := range core.Returns(hb) {
			if !core.DependsOn(core.Result(ret, 0), b2IsCallVal(isHm)) {
				o.Fail(p.InstrPos(ret), "HmacBase64 does not return the encoded MAC")
			}
		}
		news := core.Calls(hm, core.CallTo("crypto/hmac.New"))
		o.Site(len(news), core.FuncName(hm))
		if len(news) != 1 {
			o.Fail(p.Pos(hm.Pos()), "Hmac does not create exactly one hmac.New")
			return
		}
		h := news[0].(*ssa.Call)
		na := core.Args(h)
		if !b2Param(hm, 0)(na[1]) {
			o.Fail(p.InstrPos(h), "hmac.New is keyed with %s, not key", core.Describe(na[1]))
		}
		if f, ok := core.Strip(na[0]).(*ssa.Function); !ok || core.Short(core.FuncName(f)) != "crypto/sha256.New" {
			o.Fail(p.InstrPos(h), "hmac.New does not use sha256.New")
		}
		isH := func(v ssa.Value) bool { return core.Strip(core.Forward(v)) == ssa.Value(h) }
		isWrite := func(in ssa.Instruction) bool {
			c := core.AsCall(in)
			if c == nil {
				return false
			}
			a := core.Args(c)
			switch {
			case core.CalleeName(c) == "io.WriteString" && len(a) == 2:
				return isH(a[0]) && b2Param(hm, 1)(a[1])
			case b2Invoke(isH, "Write")(in) && len(a) == 2:
				return core.DependsOn(a[1], b2Param(hm, 1))
			}
			return false
		}
		isSum := b2Invoke(isH, "Sum")
		if len(core.Instrs(hm, isSum)) == 0 {
			o.Fail(p.Pos(hm.Pos()), "Hmac never finalises the MAC")
		}
		if w := core.Precedes(hm, isWrite, isSum); w != nil {
			o.Fail(p.InstrPos(w), "the MAC is finalised on a path on which body was not written into it")
		}
		for _, ret := range core.Returns(hm) {
			c, _ := core.ResultOf(core.Result(ret, 0))
			if c == nil || !isSum(c) {
				o.Fail(p.InstrPos(ret), "Hmac returns %s, not h.Sum(…)", core.Describe(core.Result(ret, 0)))
			} else if !core.IsNil(core.Args(c)[1]) {
				o.Fail(p.InstrPos(ret), "Sum is given a non-nil prefix")
			}
		}
	})

	r.Check("D4/K8/body-hash", "the body-hash helper feeds the request body into the SHA-256 whose Sum it returns, before Sum", func(o *core.O) {
		n := 0
		for _, f := range b2PkgFuncs(p, c04SecPkg) {
			news := core.Calls(f, core.CallTo("crypto/sha256.New"))
			if len(news) == 0 {
				continue
			}
			r.Fn(core.FuncName(f))
			for _, nw := range news {
				n++
				h := nw.(*ssa.Call)
				isH := func(v ssa.Value) bool { return core.Strip(core.Forward(v)) == ssa.Value(h) }
				isFeed := func(in ssa.Instruction) bool {
					c := core.AsCall(in)
					if c == nil {
						return false
					}
					a := core.Args(c)
					if (core.CalleeName(c) == "io.Copy" || core.CalleeName(c) == "io.CopyN") && isH(a[0]) {
						return core.DependsOn(a[1], b2FieldLoadS("Request.Body"))
					}
					if b2Invoke(isH, "Write")(in) {
						return core.DependsOn(a[1], b2FieldLoadS("Request.Body"))
					}
					return false
				}
				isSum := b2Invoke(isH, "Sum")
				if len(core.Instrs(f, isSum)) == 0 {
					o.Fail(p.InstrPos(h), "%s: the hash is never finalised", core.FuncName(f))
				}
				if w := core.Precedes(f, isFeed, isSum); w != nil {
					o.Fail(p.InstrPos(w), "%s: the hash is finalised before the request body was fed into it (every body has the same hash)", core.FuncName(f))
				}
				for _, ret := range core.Returns(f) {
					if !core.DependsOn(core.Result(ret, 0), b2IsCallVal(isSum)) {
						o.Fail(p.InstrPos(ret), "%s does not return the body hash", core.FuncName(f))
					}
				}
			}
		}
		o.Site(n, "sha256 users in "+c04SecPkg)
	})

	r.Check("D3/K8/engine-signature", "engine.signatureVerifier lets routes through without the signature gate only when signatures are disabled or (no private keys ∧ !Strict); otherwise the chain gets ContentSecurityHandler(decryptors, Expire, Strict …)", func(o *core.O) {
		f := p.Func("api", "engine", "signatureVerifier")
		if !o.Need(f != nil, "api.engine.signatureVerifier") {
			return
		}
		r.Fn(core.FuncName(f))
		isCSH := core.CallTo(c04HandlerPkg + ".ContentSecurityHandler")
		identity := func(fn *ssa.Function) bool {
			if fn == nil || len(fn.Params) != 1 {
				return false
			}
			for _, ret := range core.Returns(fn) {
				if core.Strip(core.Result(ret, 0)) != ssa.Value(fn.Params[0]) {
					return false
				}
			}
			return true
		}
		closureOf := func(v ssa.Value) *ssa.Function {
			switch x := core.Strip(core.Forward(v)).(type) {
			case *ssa.MakeClosure:
				return x.Fn.(*ssa.Function)
			case *ssa.Function:
				return x
			}
			return nil
		}
		retIdentity := func(in ssa.Instruction) bool {
			ret, ok := in.(*ssa.Return)
			return ok && len(ret.Results) == 2 && identity(closureOf(core.Result(ret, 0)))
		}
		enabled := core.BoolVal(c04FieldNamed("enabled"))
		strict := core.BoolVal(c04FieldNamed("Strict"))
		n := 0
		if w := core.Requires(f, retIdentity, core.Not(enabled), core.Not(strict)); w != nil {
			o.Fail(p.InstrPos(w), "signatures enabled and Strict, yet a path returns a pass-through verifier (routes are served unsigned)")
		}
		noKeys := core.Cmp(token.EQL, core.IsLenOf(c04FieldNamed("PrivateKeys")), core.IsConstInt(0))
		if w := core.Requires(f, retIdentity, core.Not(enabled), noKeys); w != nil {
			o.Fail(p.InstrPos(w), "signatures enabled and keys configured, yet a path returns a pass-through verifier")
		}
		for _, ret := range core.Returns(f) {
			n++
			if !core.IsNil(core.Result(ret, 1)) || retIdentity(ret) {
				continue
			}
			g := closureOf(core.Result(ret, 0))
			if g == nil {
				if !b2MayBeNil(core.Result(ret, 0)) {
					o.Unres("signatureVerifier returns %s", core.Describe(core.Result(ret, 0)))
				} else {
					o.Fail(p.InstrPos(ret), "signatureVerifier returns a nil verifier with a nil error")
				}
				continue
			}
			r.Fn(core.FuncName(g))
			cs := core.Calls(g, isCSH)
			if len(cs) == 0 {
				o.Fail(p.Pos(g.Pos()), "the verifier does not install ContentSecurityHandler")
			}
			for _, c := range cs {
				n++
				a := core.Args(c)
				if !c04FieldNamed("Expire")(a[1]) {
					o.Fail(p.InstrPos(c), "tolerance argument is %s, not signature.Expire", core.Describe(a[1]))
				}
				if !c04FieldNamed("Strict")(a[2]) {
					o.Fail(p.InstrPos(c), "strict argument is %s, not signature.Strict", core.Describe(a[2]))
				}
			}
			for _, gr := range core.Returns(g) {
				ac, _ := core.ResultOf(core.Result(gr, 0))
				if ac == nil || !b2Invoke(nil, "Append")(ac) || !core.DependsOn(ac, b2IsCallVal(isCSH)) {
					o.Fail(p.InstrPos(gr), "the verifier returns a chain without the signature gate")
				}
			}
		}
		o.Site(n, core.FuncName(f))
	})

	r.Check("D3/K8/engine-composition", "every route is bound behind its gates: bindFeaturedRoutes builds the verifier from the route group's signature setting, bindRoute hands it to appendAuthHandler and registers a handler built from the chain that comes back, appendAuthHandler returns verifier(chain)", func(o *core.O) {
		bfr, br, aah := p.Func("api", "engine", "bindFeaturedRoutes"), p.Func("api", "engine", "bindRoute"), p.Func("api", "engine", "appendAuthHandler")
		if !o.Need(bfr != nil && br != nil && aah != nil, "api.engine.bindFeaturedRoutes / bindRoute / appendAuthHandler") {
			return
		}
		r.Fn(core.FuncName(bfr), core.FuncName(br), core.FuncName(aah))
		isSV := core.CallMethod("api.engine", "signatureVerifier")
		isBR := core.CallMethod("api.engine", "bindRoute")
		isAAH := core.CallMethod("api.engine", "appendAuthHandler")
		isChainFn := func(t types.Type) bool {
			sg, ok := t.Underlying().(*types.Signature)
			return ok && sg.Params().Len() == 1 && sg.Results().Len() == 1
		}
		n := 0
		for _, c := range core.Calls(bfr, isSV) {
			n++
			if !c04FieldNamed("signature")(core.Args(c)[1]) {
				o.Fail(p.InstrPos(c), "the verifier is built from %s, not from the route group's signature setting", core.Describe(core.Args(c)[1]))
			}
		}
		for _, c := range core.Calls(bfr, isBR) {
			n++
			ok := false
			for _, a := range core.Args(c) {
				if isChainFn(a.Type()) && core.IsResult(a, 0, isSV) {
					ok = true
				}
			}
			if !ok {
				o.Fail(p.InstrPos(c), "bindRoute is not given the verifier built by signatureVerifier")
			}
			if w := core.Requires(bfr, core.Is(c), core.ErrNil(1, isSV)); w != nil {
				o.Fail(p.InstrPos(c), "routes are bound although signatureVerifier failed")
			}
		}
		var brVer, aahVer *ssa.Parameter
		for _, pa := range br.Params {
			if isChainFn(pa.Type()) {
				brVer = pa
			}
		}
		for _, pa := range aah.Params {
			if isChainFn(pa.Type()) {
				aahVer = pa
			}
		}
		if !o.Need(brVer != nil && aahVer != nil, "verifier parameters of bindRoute / appendAuthHandler") {
			return
		}
		aahs := core.Calls(br, isAAH)
		if len(aahs) == 0 {
			o.Fail(p.Pos(br.Pos()), "bindRoute does not install the authentication gates")
		}
		for _, c := range aahs {
			n++
			ok := false
			for _, a := range core.Args(c) {
				if b2IsValue(brVer)(a) {
					ok = true
				}
			}
			if !ok {
				o.Fail(p.InstrPos(c), "appendAuthHandler is not given bindRoute's verifier")
			}
			for _, h := range core.Calls(br, b2Invoke(nil, "Handle")) {
				if !core.DependsOn(core.Args(h)[3], b2IsValue(c.(*ssa.Call))) {
					o.Fail(p.InstrPos(h), "the handler registered is not built from the chain returned by appendAuthHandler (gates dropped)")
				}
			}
		}
		for _, ret := range core.Returns(aah) {
			n++
			c, _ := core.ResultOf(core.Result(ret, 0))
			if c == nil || !core.CallOfValue(b2IsValue(aahVer))(c) {
				o.Fail(p.InstrPos(ret), "appendAuthHandler returns %s, not verifier(chain): the signature gate is not installed", core.Describe(core.Result(ret, 0)))
			}
		}
		o.Site(n, core.FuncName(br))
	})
}

// ---------------------------------------------------------------- RPC

func c04rpc(r *core.Run, p *core.Prog) {
	au := p.Func(c04AuthPkg, "Authenticator", "Authenticate")
	isAuthCall := core.CallMethod("auth.Authenticator", "Authenticate")
	var val *ssa.Function
	if au != nil {
		for _, c := range core.Calls(au, func(in ssa.Instruction) bool {
			c, ok := in.(*ssa.Call)
			return ok && b2CalleeIn(c, c04AuthPkg) && c.Call.StaticCallee().Signature.Recv() != nil && len(c.Call.Args) == 3
		}) {
			val = c.Common().StaticCallee()
		}
	}
	isVal := func(in ssa.Instruction) bool {
		c := core.AsCall(in)
		return c != nil && val != nil && c.Common().StaticCallee() == val
	}
	constStr := func(name string) string {
		if v, ok := b2ConstOf(p, c04AuthPkg, name); ok && v.Kind() == constant.String {
			return constant.StringVal(v)
		}
		return "\x00missing"
	}

	r.Check("D5/K2/rpc-authenticate", "Authenticate reaches validate only with incoming metadata and non-empty app/token lists and first values, passes (md[app][0], md[token][0]) in that order, and every other exit is an Unauthenticated status", func(o *core.O) {
		if !o.Need(au != nil && val != nil && len(au.Params) == 2, "(*auth.Authenticator).Authenticate and the validator it calls") {
			return
		}
		r.Fn(core.FuncName(au))
		vals := core.Calls(au, isVal)
		o.Site(len(vals), core.FuncName(au))
		isMD := func(v ssa.Value) bool {
			return core.IsResult(v, 0, core.CallTo("google.golang.org/grpc/metadata.FromIncomingContext"))
		}
		listOf := func(key string) func(ssa.Value) bool {
			return func(v ssa.Value) bool {
				l, ok := core.Forward(v).(*ssa.Lookup)
				if !ok || !isMD(l.X) {
					return false
				}
				k, ok := core.ConstString(l.Index)
				return ok && k == key
			}
		}
		first := func(list func(ssa.Value) bool) func(ssa.Value) bool {
			return func(v ssa.Value) bool {
				u, ok := core.Forward(v).(*ssa.UnOp)
				if !ok || u.Op != token.MUL {
					return false
				}
				ia, ok := u.X.(*ssa.IndexAddr)
				if !ok || !list(ia.X) {
					return false
				}
				n, ok := core.ConstInt(ia.Index)
				return ok && n == 0
			}
		}
		apps, toks := listOf(constStr("appKey")), listOf(constStr("tokenKey"))
		mdOK := core.BoolVal(func(v ssa.Value) bool {
			return core.IsResult(v, 1, core.CallTo("google.golang.org/grpc/metadata.FromIncomingContext"))
		})
		for _, at := range []struct {
			a    core.Atom
			what string
		}{
			{mdOK, "the call carries no metadata"},
			{b2NonEmpty(apps), "the app metadata is missing"},
			{b2NonEmpty(toks), "the token metadata is missing"},
			{b2NonEmpty(first(apps)), "the app is empty"},
			{b2NonEmpty(first(toks)), "the token is empty"},
		} {
			if w := core.Requires(au, isVal, at.a); w != nil {
				o.Fail(p.InstrPos(w), "the credentials are validated (and may be admitted) although %s", at.what)
			}
		}
		for _, c := range vals {
			a := core.Args(c)
			if !first(apps)(a[1]) || !first(toks)(a[2]) {
				o.Fail(p.InstrPos(c), "validate(%s, %s): expected (md[%q][0], md[%q][0])", core.Describe(a[1]), core.Describe(a[2]), constStr("appKey"), constStr("tokenKey"))
			}
		}
		for _, c := range core.Calls(au, core.CallTo("google.golang.org/grpc/metadata.FromIncomingContext")) {
			if !b2Param(au, 1)(core.Args(c)[0]) {
				o.Fail(p.InstrPos(c), "metadata is not read from the call's context")
			}
		}
		for _, ret := range core.Returns(au) {
			v := core.Result(ret, 0)
			if c, _ := core.ResultOf(v); c != nil && isVal(c) {
				continue
			}
			if code, ok := c04StatusCode(v); !ok || code != 16 {
				o.Fail(p.InstrPos(ret), "Authenticate returns %s where an Unauthenticated status is required", core.Describe(v))
			}
		}
	})

	r.Check("D5/K2/rpc-validate", "validate returns nil only when (the store lookup failed ∧ !strict) or token == the stored token; the stored token is looked up as HGet(a.key, app) cached under app", func(o *core.O) {
		if !o.Need(val != nil && len(val.Params) == 3, "the validator called by Authenticate") {
			return
		}
		r.Fn(core.FuncName(val))
		isTake := core.CallMethod("collection.Cache", "Take")
		takes := core.Calls(val, isTake)
		okRet := b2RetConst(0, "nil")
		o.Site(len(takes)+len(core.Instrs(val, okRet)), core.FuncName(val))
		if len(takes) != 1 {
			o.Fail(p.Pos(val.Pos()), "expected one cache.Take in validate, found %d", len(takes))
			return
		}
		expect := func(v ssa.Value) bool { return core.IsResult(v, 0, isTake) }
		eq := core.Cmp(token.EQL, b2Param(val, 2), expect)
		lookupFailed := core.Not(core.ErrNil(1, isTake))
		lax := core.Not(core.BoolVal(b2FieldLoadS("Authenticator.strict")))
		if e, _ := core.EdgesOf(val, eq); len(e) == 0 {
			o.Fail(p.Pos(val.Pos()), "validate never compares the presented token with the stored one")
		}
		if w := core.Requires(val, okRet, eq, lax); w != nil {
			o.Fail(p.InstrPos(w), "a call is admitted although its token was not found equal to the stored one and strict mode was not ruled out")
		}
		if w := core.Requires(val, okRet, eq, lookupFailed); w != nil {
			o.Fail(p.InstrPos(w), "a call is admitted without a token match although the store lookup succeeded")
		}
		// the comparison is meaningful only after a successful lookup
		he, _ := core.EdgesOf(val, eq)
		for _, e := range he {
			if w, ok := core.Reach(core.Q{From: []core.At{core.Entry(val)}, Target: func(in ssa.Instruction) bool { return in == e.From.Instrs[len(e.From.Instrs)-1] }, Cut: func(x core.Edge) bool {
				h, _ := core.EdgesOf(val, core.ErrNil(1, isTake))
				return core.CutSet(h)(x)
			}}); ok {
				o.Fail(p.InstrPos(w), "the token is compared with the lookup result although the lookup failed")
			}
		}
		for _, ret := range core.Returns(val) {
			if okRet(ret) {
				continue
			}
			if _, ok := c04StatusCode(core.Result(ret, 0)); !ok {
				o.Fail(p.InstrPos(ret), "validate rejects with %s, not a status error", core.Describe(core.Result(ret, 0)))
			}
		}
		// token mismatch is Unauthenticated
		_, ne := core.EdgesOf(val, eq)
		if w, ok := core.Reach(core.Q{From: b2Heads(ne), Target: func(in ssa.Instruction) bool {
			ret, ok := in.(*ssa.Return)
			if !ok {
				return false
			}
			code, ok := c04StatusCode(core.Result(ret, 0))
			return !ok || code != 16
		}}); ok {
			o.Fail(p.InstrPos(w), "a token mismatch is not answered with Unauthenticated")
		}
		tk := takes[0]
		ta := core.Args(tk)
		if c04Origin(ta[1]) != ssa.Value(val.Params[1]) && !b2Param(val, 1)(ta[1]) {
			o.Fail(p.InstrPos(tk), "the cache key is %s, not the app", core.Describe(ta[1]))
		}
		mc, ok := core.Strip(ta[2]).(*ssa.MakeClosure)
		if !ok {
			o.Unres("the loader given to Take is %s", core.Describe(ta[2]))
			return
		}
		ld := mc.Fn.(*ssa.Function)
		r.Fn(core.FuncName(ld))
		hg := core.Calls(ld, core.CallMethod("redis.Redis", "HGet"))
		if len(hg) != 1 {
			o.Fail(p.Pos(ld.Pos()), "the loader does not do exactly one HGet")
			return
		}
		ha := core.Args(hg[0])
		if !b2FieldLoadS("Authenticator.key")(ha[1]) || c04Origin(ha[2]) != ssa.Value(val.Params[1]) {
			o.Fail(p.InstrPos(hg[0]), "HGet(%s, %s): expected (a.key, app)", core.Describe(ha[1]), core.Describe(ha[2]))
		}
		if !b2FieldLoadS("Authenticator.store")(ha[0]) {
			o.Fail(p.InstrPos(hg[0]), "HGet on %s, not a.store", core.Describe(ha[0]))
		}
		for _, ret := range core.Returns(ld) {
			if !core.IsResult(core.Strip(core.Result(ret, 0)), 0, core.Is(hg[0])) || !core.IsResult(core.Result(ret, 1), 1, core.Is(hg[0])) {
				o.Fail(p.InstrPos(ret), "the loader does not return HGet's (value, error)")
			}
		}
	})

	r.Check("D5/K2/rpc-interceptors", "both auth interceptors call the handler only after Authenticate(call context) returned nil on the configured authenticator, and otherwise return that error", func(o *core.O) {
		var ics []*ssa.Function
		for _, f := range b2PkgFuncs(p, c04IcPkg) {
			if len(core.Instrs(f, isAuthCall)) > 0 {
				ics = append(ics, f)
			}
		}
		if !o.Need(len(ics) >= 2, "the unary and stream interceptors calling Authenticate") {
			return
		}
		kinds := map[string]bool{}
		for _, f := range ics {
			r.Fn(core.FuncName(f))
			var hp *ssa.Parameter
			for _, pa := range f.Params {
				if s := pa.Type().String(); strings.HasSuffix(s, "grpc.UnaryHandler") || strings.HasSuffix(s, "grpc.StreamHandler") {
					hp = pa
					kinds[s] = true
				}
			}
			if hp == nil {
				o.Unres("%s has no grpc handler parameter", core.FuncName(f))
				continue
			}
			isH := core.CallOfValue(b2IsValue(hp))
			hs := core.Instrs(f, isH)
			o.Site(len(hs), core.FuncName(f))
			if len(hs) == 0 {
				o.Fail(p.Pos(f.Pos()), "%s never calls the handler", core.FuncName(f))
			}
			okA := core.ErrNil(0, isAuthCall)
			if w := core.Requires(f, isH, okA); w != nil {
				o.Fail(p.InstrPos(w), "%s runs the handler although Authenticate failed (or was not asked)", core.FuncName(f))
			}
			_, bad := core.EdgesOf(f, okA)
			if w, ok := core.Reach(core.Q{From: b2Heads(bad), Target: func(in ssa.Instruction) bool {
				ret, ok := in.(*ssa.Return)
				return ok && !core.IsResult(core.Result(ret, len(ret.Results)-1), 0, isAuthCall)
			}}); ok {
				o.Fail(p.InstrPos(w), "%s does not return Authenticate's error", core.FuncName(f))
			}
			for _, c := range core.Calls(f, isAuthCall) {
				a := core.Args(c)
				if par := f.Parent(); par == nil || len(par.Params) != 1 || c04Origin(a[0]) != ssa.Value(par.Params[0]) {
					o.Fail(p.InstrPos(c), "Authenticate is not called on the configured authenticator")
				}
				ctxOK := false
				for i, pa := range f.Params {
					if strings.HasSuffix(pa.Type().String(), "context.Context") && b2Param(f, i)(a[1]) {
						ctxOK = true
					}
					if strings.HasSuffix(pa.Type().String(), "grpc.ServerStream") {
						if cc, _ := core.ResultOf(core.Forward(a[1])); cc != nil && b2Invoke(b2Param(f, i), "Context")(cc) {
							ctxOK = true
						}
					}
				}
				if !ctxOK {
					o.Fail(p.InstrPos(c), "Authenticate is given %s, not the context of the call", core.Describe(a[1]))
				}
			}
		}
		if len(kinds) < 2 {
			o.Fail("rpc/internal/serverinterceptors", "only %d kind(s) of auth interceptor found (unary and stream expected)", len(kinds))
		}
	})

	r.Check("D5/K1/rpc-installed", "rpc.setupInterceptors: when c.Auth is set, both the stream and the unary auth interceptor are added with an authenticator built with c.StrictControl, on every non-error path", func(o *core.O) {
		var f *ssa.Function
		for _, g := range b2PkgFuncs(p, "rpc") {
			if len(core.Instrs(g, core.CallTo(c04AuthPkg+".NewAuthenticator"))) > 0 {
				f = g
			}
		}
		if !o.Need(f != nil, "the function of package rpc calling auth.NewAuthenticator") {
			return
		}
		r.Fn(core.FuncName(f))
		isNew := core.CallTo(c04AuthPkg + ".NewAuthenticator")
		on := core.BoolVal(b2FieldLoadS("ServerConfig.Auth"))
		hold, _ := core.EdgesOf(f, on)
		o.Site(len(hold)+len(core.Instrs(f, isNew)), core.FuncName(f))
		if len(hold) == 0 {
			o.Fail(p.Pos(f.Pos()), "c.Auth is not tested")
			return
		}
		for _, k := range []struct{ add, ic string }{{"AddUnaryInterceptors", c04IcPkg + ".UnaryAuthorizeInterceptor"}, {"AddStreamInterceptors", c04IcPkg + ".StreamAuthorizeInterceptor"}} {
			k := k
			isAdd := func(in ssa.Instruction) bool {
				c := core.AsCall(in)
				if c == nil || !b2Invoke(nil, k.add)(in) {
					return false
				}
				for _, a := range c.Common().Args {
					if core.DependsOn(a, func(v ssa.Value) bool {
						ic, ok := v.(*ssa.Call)
						return ok && core.CallTo(k.ic)(ic) && core.IsResult(ic.Call.Args[0], 0, isNew)
					}) {
						return true
					}
				}
				return false
			}
			if w, ok := core.Reach(core.Q{From: b2Heads(hold), Target: b2RetConst(0, "nil"), Blocked: isAdd}); ok {
				o.Fail(p.InstrPos(w), "Auth enabled but a successful path does not install %s", k.ic[strings.LastIndex(k.ic, ".")+1:])
			}
		}
		for _, c := range core.Calls(f, isNew) {
			a := core.Args(c)
			if !b2FieldLoadS("ServerConfig.StrictControl")(a[2]) {
				o.Fail(p.InstrPos(c), "the authenticator's strictness is %s, not c.StrictControl", core.Describe(a[2]))
			}
			if !b2FieldLoadS("RedisKeyConf.Key")(a[1]) && !strings.HasSuffix(core.Describe(a[1]), ".Key") {
				o.Fail(p.InstrPos(c), "the authenticator's hash key is %s, not c.Redis.Key", core.Describe(a[1]))
			}
			_, bad := core.EdgesOf(f, core.ErrNil(1, core.Is(c)))
			if w, ok := core.Reach(core.Q{From: b2Heads(bad), Target: b2RetConst(0, "nil")}); ok {
				o.Fail(p.InstrPos(w), "a failure to build the authenticator is swallowed (server starts without auth)")
			}
		}
	})

	r.Check("D5/K8/new-authenticator", "NewAuthenticator stores (store, key, strict) into the fields validate reads", func(o *core.O) {
		f := p.Func(c04AuthPkg, "", "NewAuthenticator")
		if !o.Need(f != nil && len(f.Params) == 3, "auth.NewAuthenticator(store, key, strict)") {
			return
		}
		r.Fn(core.FuncName(f))
		n := 0
		for i, fld := range []string{"store", "key", "strict"} {
			sts := core.StoresToField(f, "Authenticator."+fld)
			n += len(sts)
			if len(sts) == 0 {
				o.Fail(p.Pos(f.Pos()), "Authenticator.%s is never set", fld)
			}
			for _, st := range sts {
				if !b2Param(f, i)(st.Val) {
					o.Fail(p.InstrPos(st), "Authenticator.%s is set from %s", fld, core.Describe(st.Val))
				}
			}
		}
		o.Site(n, core.FuncName(f))
	})
}
