package props

import (
	"go/token"
	"go/types"
	"strings"

	"godcheck/core"

	"golang.org/x/tools/go/ssa"
)

// Round 10 (two independently seeded changes the earlier rules did not see).
//
//  1. The error a command closure hands to the breaker was allowed to be a
//     "fresh" error (fmt.Errorf / errors.New / a sentinel) anywhere after the
//     command, because the blocking pops answer a fresh error for a reply that is
//     too short. That is only legitimate on paths on which the command's own
//     error is nil: where it may be non-nil, the value handed on has to be that
//     very value (acceptable compares by identity, and so do callers).
//  2. Nothing looked at how the go-redis clients are built: a client constructed
//     without the Redis' password (or for another address) makes every command
//     of that configuration fail on a healthy server.

func c12R10(r *core.Run) {
	p := r.P
	r.Explanation += " Round 10: where the command's error may be non-nil the value handed to the breaker and the caller is that error itself (a fresh error only on paths establishing err == nil); every go-redis client constructed in the package for a *Redis takes its address and its password from that Redis on every path (a path around the password only where the password is tested empty), and the shared per-address clients get a TLS configuration exactly under r.tls."
	r.NotDecided += " Round 10: the contents of the TLS configuration; the other option fields (DB, retries, pool sizes, timeouts); that the per-address ResourceManager hands a second Redis with the same address but another password/TLS setting the first one's client; TLS on the dedicated blocking node (CreateBlockingNode sets none – observed, not repaired)."

	r.Check("D4/K2/command-error-identity", "on every path after the command on which the command's error may be non-nil, the error the wrapper's (closure's) return hands on is the command's error value itself – never an error built from it or put in its place (fmt.Errorf(\"…%w\", err), errors.New, a package sentinel) [first sentence: the wrapper returns the same error as the go-redis command; last sentence: acceptable recognises redis.Nil and context.Canceled by identity, so a wrapped cancellation is booked as a failure of the address and opens the breaker on a healthy server]", func(o *core.O) {
		n := 0
		for _, f := range p.Methods(c12redisPkg, "Redis") {
			if !strings.HasSuffix(f.Name(), "Ctx") {
				continue
			}
			x := c12extract(f)
			cmd := x.cmd()
			if cmd == nil {
				continue // delegating wrappers and anything D2/K9/go-redis-callee reports
			}
			errVals, _ := x.cmdResults()
			if len(errVals) == 0 {
				continue // reported by D4/K2/error-and-nil
			}
			n++
			cf := x.cmdFn
			isErr := func(v ssa.Value) bool { return errVals[x.w.capturedLoad(core.Forward(v))] }
			holdsNil, _ := core.EdgesOf(cf, core.Cmp(token.EQL, isErr, core.IsNil))
			cs := core.CutSet(holdsNil)
			for _, ret := range core.Returns(cf) {
				if len(ret.Results) == 0 {
					continue
				}
				// reachable after the command without establishing err == nil?
				reach := func(e *core.Edge) bool {
					if e == nil {
						_, ok := core.Reach(core.Q{From: []core.At{core.After(cmd)}, Target: core.Is(ret), Cut: cs})
						return ok
					}
					if cs(*e) {
						return false
					}
					_, ok := core.Reach(core.Q{From: []core.At{core.After(cmd)}, Target: core.Is(gxLast(e.From)), Cut: cs})
					return ok
				}
				bad := func(leaf ssa.Value, e *core.Edge) {
					lv := x.w.capturedLoad(core.Forward(leaf))
					if lv == nil || core.IsNil(lv) || errVals[lv] {
						return
					}
					if !c12freshError(lv) {
						return // any other value is reported by D4/K2/error-and-nil wherever it is returned
					}
					if reach(e) {
						o.Fail(p.InstrPos(ret), "%s: where the command's error may be non-nil the closure returns %s instead of that error itself: the caller does not get go-redis' error (err == context.Canceled / redis.Nil / the server's error no longer holds) and acceptable, which compares by identity, books a cancelled or redis.Nil command as a failure of the address – a few of them open the breaker on a healthy server", x.name, core.Describe(lv))
					}
				}
				lv := x.w.capturedLoad(core.Result(ret, len(ret.Results)-1))
				if ph, isPhi := lv.(*ssa.Phi); isPhi && ph.Block() == ret.Block() {
					gxLeavesWithEdges(lv, bad)
				} else {
					for _, l := range gxPhiLeaves(lv) {
						bad(l, nil)
					}
				}
			}
		}
		o.Site(n, c12redisPkg)
		o.Need(n >= 95, "at least 95 XxxCtx wrappers issuing a command")
	})

	r.Check("D2/K8/client-from-redis-config", "every go-redis client the package constructs for a Redis value r – the shared per-address client getRedis hands out, node and cluster type alike, and the dedicated blocking node – is built with r's own address and r's own password; the shared clients get a TLS configuration exactly when r.tls is set [first sentence over configurations: with the same address/password/TLS setting the go-redis command succeeds, so must the wrapper's; a client built without the password answers NOAUTH to every command and has no effect on the server, and the server's refusals open the per-address breaker]", func(o *core.O) {
		// The shared clients – the ones every command of the address runs on, and so the ones that have to honour
		// the TLS setting too – by role: built by a function that answers the go-redis client itself for a *Redis
		// (getRedis converts it to a Node), or inside the factory handed to a syncx.ResourceManager (one client per
		// address). The dedicated blocking node is wrapped in a bridge type and never configured TLS (see report).
		isShared := func(top, f *ssa.Function, w *c12fn) bool {
			if c12returnsGoRedisClient(top) {
				return true
			}
			if mc := w.mcs[f]; mc != nil {
				for _, ref := range *mc.Referrers() {
					if c, ok := ref.(ssa.CallInstruction); ok && strings.HasSuffix(core.Short(core.CalleeName(c)), "lib/syncx.ResourceManager).Get") {
						return true
					}
				}
			}
			return false
		}
		// A parentless function with free variables is the wrapper of a bound method value `x.m` (in the
		// loader's variant 2 it holds m's body): a closure body, analysed – like a function literal – from the
		// functions that create it, where its receiver is bound. Only one that nothing in the package creates
		// is looked at on its own (and is then undecided: fail-closed).
		created := map[*ssa.Function]bool{}
		for _, top := range p.PkgFuncs(c12redisPkg) {
			if top.Parent() != nil || top.Blocks == nil || len(top.FreeVars) > 0 {
				continue
			}
			for _, f := range c12closures(top)[1:] {
				created[f] = true
			}
		}
		n, nShared := 0, 0
		for _, top := range p.PkgFuncs(c12redisPkg) {
			if top.Parent() != nil || top.Blocks == nil || (len(top.FreeVars) > 0 && created[top]) {
				continue
			}
			var w *c12fn
			for _, f := range c12closures(top) {
				for _, c := range core.Calls(f, c12isClientCtor) {
					call, ok := c.(*ssa.Call)
					if !ok {
						continue
					}
					if w == nil {
						w = newC12fn(top)
					}
					n++
					sh := isShared(top, f, w)
					if sh {
						nShared++
					}
					r.Fn(core.FuncName(top))
					c12checkClientOptions(o, p, w, top, f, call, sh)
				}
			}
		}
		o.Site(n, c12redisPkg)
		if n > 0 && nShared == 0 {
			o.Unres("none of the %d go-redis clients constructed in %s is recognised as the shared per-address client (built by a function answering the go-redis client for a *Redis, or by the factory of a ResourceManager): the TLS clause is not decided", n, c12redisPkg)
		}
	})
}

// c12returnsGoRedisClient: the first result is a pointer to a go-redis type.
func c12returnsGoRedisClient(f *ssa.Function) bool {
	res := f.Signature.Results()
	if res.Len() == 0 {
		return false
	}
	return c12isGoRedisPtr(res.At(0).Type())
}

func c12isGoRedisPtr(t types.Type) bool {
	pt, ok := t.(*types.Pointer)
	if !ok {
		return false
	}
	nt, ok := pt.Elem().(*types.Named)
	return ok && nt.Obj().Pkg() != nil && strings.HasPrefix(nt.Obj().Pkg().Path(), c12goRedis)
}

// c12isClientCtor: a static call of a go-redis function that takes a pointer to an
// options struct with a Password field and returns a go-redis client.
func c12isClientCtor(in ssa.Instruction) bool {
	c, ok := in.(*ssa.Call)
	if !ok {
		return false
	}
	cal := c.Call.StaticCallee()
	if cal == nil || cal.Pkg == nil || !strings.HasPrefix(cal.Pkg.Pkg.Path(), c12goRedis) || cal.Signature.Recv() != nil {
		return false
	}
	if cal.Signature.Params().Len() != 1 || !c12returnsGoRedisClient(cal) {
		return false
	}
	return c12optionsStruct(cal.Signature.Params().At(0).Type()) != nil
}

func c12optionsStruct(t types.Type) *types.Struct {
	pt, ok := t.(*types.Pointer)
	if !ok {
		return nil
	}
	st, ok := pt.Elem().Underlying().(*types.Struct)
	if !ok {
		return nil
	}
	for i := 0; i < st.NumFields(); i++ {
		if st.Field(i).Name() == "Password" {
			return st
		}
	}
	return nil
}

// c12resolve follows loads of single-assignment locals – in the function itself or
// captured from the top function – to the value assigned.
func c12resolve(w *c12fn, v ssa.Value) ssa.Value {
	for i := 0; i < 6; i++ {
		v = core.Forward(v)
		u, ok := v.(*ssa.UnOp)
		if !ok || u.Op != token.MUL {
			return v
		}
		cell, ok := w.cellRoot(u.X).(*ssa.Alloc)
		if !ok {
			return v
		}
		sts, _, clean := w.cellAccesses(cell)
		if !clean || len(sts) != 1 {
			return v
		}
		if _, isP := sts[0].Val.(*ssa.Parameter); isP {
			return v // a spilled parameter: paramIndex understands the load
		}
		v = sts[0].Val
	}
	return v
}

// c12redisField: v is a load of field name of the Redis value that is parameter ri of the top function.
func c12redisField(w *c12fn, v ssa.Value, ri int, name string) bool {
	v = c12resolve(w, v)
	base, fld := core.FieldOf(v)
	if fld == nil || fld.Name() != name {
		return false
	}
	return w.paramIndex(c12resolve(w, base)) == ri
}

func c12checkClientOptions(o *core.O, p *core.Prog, w *c12fn, top, f *ssa.Function, call *ssa.Call, isShared bool) {
	where := p.InstrPos(call)
	what := core.Short(core.CalleeName(call))
	// the Redis value the client is built for: the one *Redis parameter of the function
	ri := -1
	for i, prm := range top.Params {
		if pt, ok := prm.Type().(*types.Pointer); ok {
			if nt, ok := pt.Elem().(*types.Named); ok && nt.Obj().Name() == "Redis" && nt.Obj().Pkg() != nil && strings.HasSuffix(nt.Obj().Pkg().Path(), c12redisPkg) {
				if ri >= 0 {
					o.Unres("%s: %s takes two *Redis parameters: which one the client is built for is not decided", where, core.FuncName(top))
					return
				}
				ri = i
			}
		}
	}
	if ri < 0 {
		o.Unres("%s: %s builds a go-redis client (%s) but takes no *Redis parameter: whose configuration the client gets is not decided", where, core.FuncName(top), what)
		return
	}
	opts, ok := c12resolve(w, call.Call.Args[0]).(*ssa.Alloc)
	if !ok {
		o.Unres("%s: the options of %s are %s, not a struct built in %s: how the client is configured is not decided", where, what, core.Describe(call.Call.Args[0]), core.FuncName(top))
		return
	}
	// stores to the fields of the options value
	stores := map[string][]*ssa.Store{}
	for _, ref := range *opts.Referrers() {
		fa, ok := ref.(*ssa.FieldAddr)
		if !ok {
			continue
		}
		_, name, _ := strings.Cut(core.FieldAddrName(fa), ".")
		for _, rr := range *fa.Referrers() {
			if st, ok := rr.(*ssa.Store); ok && st.Addr == ssa.Value(fa) {
				stores[name] = append(stores[name], st)
			}
		}
	}
	// password
	if len(stores["Password"]) == 0 {
		o.Fail(where, "%s: the options of %s carry no Password: a Redis configured with a password never authenticates on this client – every command answers NOAUTH where go-redis with the same settings succeeds, and the refusals open the breaker of the address", core.FuncName(top), what)
	}
	for _, st := range stores["Password"] {
		for _, l := range gxPhiLeaves(core.Forward(st.Val)) {
			if !c12redisField(w, l, ri, "Pass") {
				o.Fail(p.InstrPos(st), "%s: the Password of %s is %s, not the Pass of the Redis the client is built for: the client authenticates with something else than the configured password", core.FuncName(top), what, w.shape(l, nil))
			}
		}
	}
	// … on every path to the constructor on which the Redis has a password at all
	if call.Parent() == f {
		var sets []ssa.Instruction
		for _, st := range stores["Password"] {
			if st.Parent() == f {
				sets = append(sets, st)
			}
		}
		if len(sets) > 0 && len(sets) == len(stores["Password"]) {
			isPass := func(v ssa.Value) bool { return c12redisField(w, v, ri, "Pass") }
			isEmpty := func(v ssa.Value) bool { s, ok := core.ConstString(v); return ok && s == "" }
			cut, _ := core.EdgesOf(f, core.Cmp(token.EQL, isPass, isEmpty))
			cut2, _ := core.EdgesOf(f, core.EmptyLen(isPass))
			cut = append(cut, cut2...)
			if _, ok := core.Reach(core.Q{From: []core.At{core.Entry(f)}, Target: core.Is(call), Blocked: core.Is(sets...), Cut: core.CutSet(cut)}); ok {
				o.Fail(where, "%s: %s is reachable without the Password having been set although the Redis may have one: on that path the client never authenticates (NOAUTH on every command)", core.FuncName(top), what)
			}
		}
	}
	// address: Options.Addr, ClusterOptions.Addrs, …
	addr := 0
	for name, sts := range stores {
		if name != "Addr" && name != "Addrs" {
			continue
		}
		for _, st := range sts {
			for _, lf := range w.flatten(core.Forward(st.Val), name, 0) {
				addr++
				if !c12redisField(w, lf.v, ri, "Addr") {
					o.Fail(p.InstrPos(st), "%s: %s of %s is %s, not the Addr of the Redis the client is built for: the commands reach another server", core.FuncName(top), lf.label, what, w.shape(lf.v, nil))
				}
			}
		}
	}
	if addr == 0 {
		o.Fail(where, "%s: the options of %s carry no address: the client talks to go-redis' default address, not to the configured server", core.FuncName(top), what)
	}
	if !isShared {
		return
	}
	// TLS: a configuration exactly when r.tls
	isTLS := func(v ssa.Value) bool { return c12redisField(w, v, ri, "tls") }
	holds, fails := core.EdgesOf(f, core.BoolVal(isTLS))
	type leafAt struct {
		st   *ssa.Store
		leaf ssa.Value
		edge *core.Edge
	}
	var nonNil, nils []leafAt
	for _, st := range stores["TLSConfig"] {
		st := st
		gxLeavesWithEdges(st.Val, func(leaf ssa.Value, e *core.Edge) {
			if core.IsNil(core.Forward(leaf)) {
				nils = append(nils, leafAt{st, leaf, e})
			} else {
				nonNil = append(nonNil, leafAt{st, leaf, e})
			}
		})
	}
	if len(nonNil) == 0 {
		o.Fail(where, "%s: the options of %s never get a TLSConfig: a Redis configured WithTLS talks plaintext to a TLS server and every command fails", core.FuncName(top), what)
		return
	}
	if len(holds) == 0 && len(fails) == 0 {
		o.Fail(where, "%s: the TLSConfig of %s does not depend on a test of the Redis' tls setting", core.FuncName(top), what)
		return
	}
	reachStore := func(st *ssa.Store, cut []core.Edge) bool {
		if st.Parent() != f {
			return true
		}
		_, ok := core.Reach(core.Q{From: []core.At{core.Entry(f)}, Target: core.Is(st), Cut: core.CutSet(cut)})
		return ok
	}
	var setters []ssa.Instruction
	for _, l := range nonNil {
		setters = append(setters, l.st)
		// only with tls: unreachable once the edges establishing r.tls are cut
		guarded := !reachStore(l.st, holds) || (l.edge != nil && !gxEdgeReachable(f, *l.edge, holds))
		if !guarded {
			o.Fail(p.InstrPos(l.st), "%s: %s gets a TLSConfig also when the Redis is not configured WithTLS: the client speaks TLS to a plaintext server and every command fails", core.FuncName(top), what)
		}
	}
	for _, l := range nils {
		if l.edge == nil || gxEdgeReachable(f, *l.edge, fails) {
			isOnly := true
			for _, m := range nonNil {
				if m.st == l.st {
					isOnly = false
				}
			}
			if isOnly && l.edge == nil {
				continue // an explicit nil that a conditional store overrides: decided by the reachability below
			}
			o.Fail(p.InstrPos(l.st), "%s: the TLSConfig of %s can be nil although the Redis is configured WithTLS: the client talks plaintext to a TLS server", core.FuncName(top), what)
		}
	}
	if call.Parent() == f {
		if _, ok := core.Reach(core.Q{From: []core.At{core.Entry(f)}, Target: core.Is(call), Blocked: core.Is(setters...), Cut: core.CutSet(fails)}); ok {
			o.Fail(where, "%s: %s is reachable with the Redis configured WithTLS and no TLSConfig set: the client talks plaintext to a TLS server", core.FuncName(top), what)
		}
	}
}
