package props

import (
	"go/token"
	"go/types"

	"godcheck/core"

	"golang.org/x/tools/go/ssa"
)

// ---------------------------------------------------------------------------
// Rules written with the fixes of hunting round 7 (fx9):
//
//   D5/K1/manager-created-recorded-or-closed — a resource a ResourceManager
//     created is in the manager's map (where Close finds it) or closed.
//   D3/K2/return-pairs-with-completed-borrow — the receive of Limit.Return
//     takes a buffered element (a completed borrow), never the value of a
//     sender that is still blocked in Borrow.
// ---------------------------------------------------------------------------

// c18IsCloserCreate matches the call of the caller-supplied constructor of a
// managed resource: a function value (parameter or captured variable) without
// parameters whose results are (a type with a Close() error method, error).
func c18IsCloserCreate(in ssa.Instruction) bool {
	return core.CallOfValue(func(v ssa.Value) bool {
		sig, ok := v.Type().Underlying().(*types.Signature)
		if !ok || sig.Params().Len() != 0 || sig.Results().Len() != 2 {
			return false
		}
		if sig.Results().At(1).Type().String() != "error" || !c18HasClose(sig.Results().At(0).Type()) {
			return false
		}
		switch x := core.Strip(core.Forward(core.Strip(v))).(type) {
		case *ssa.Parameter:
			return true
		case *ssa.UnOp:
			_, fv := x.X.(*ssa.FreeVar)
			return fv
		}
		return false
	})(in)
}

// c18HasClose: t is an interface with a method Close() error.
func c18HasClose(t types.Type) bool {
	it, ok := t.Underlying().(*types.Interface)
	if !ok {
		return false
	}
	for i := 0; i < it.NumMethods(); i++ {
		m := it.Method(i)
		sig := m.Type().(*types.Signature)
		if m.Name() == "Close" && sig.Params().Len() == 0 && sig.Results().Len() == 1 && sig.Results().At(0).Type().String() == "error" {
			return true
		}
	}
	return false
}

// c18AllLeaves: every non-φ value that may flow into v satisfies pred (nil
// constants aside) and at least one does.
func c18AllLeaves(v ssa.Value, pred func(ssa.Value) bool) bool {
	n := 0
	for _, l := range gxPhiLeaves(c18Fwd(core.Strip(v))) {
		l = c18Fwd(core.Strip(l))
		if core.IsNil(l) {
			continue
		}
		if !pred(l) {
			return false
		}
		n++
	}
	return n > 0
}

// c18ClosesValue matches a plain call of Close() on a value satisfying isVal,
// or a direct call of a top-level function of the package that is handed such
// a value and calls Close() on that parameter on every path to its exits.
func c18ClosesValue(inPkg map[*ssa.Function]bool, isVal func(ssa.Value) bool) instrPred {
	closeOn := func(pred func(ssa.Value) bool) instrPred {
		return func(in ssa.Instruction) bool {
			c, ok := in.(*ssa.Call)
			if !ok || !c.Call.IsInvoke() || c.Call.Method.Name() != "Close" || len(c.Call.Args) != 0 {
				return false
			}
			return c18AllLeaves(c.Call.Value, pred)
		}
	}
	direct := closeOn(isVal)
	return func(in ssa.Instruction) bool {
		if direct(in) {
			return true
		}
		c, ok := in.(*ssa.Call)
		if !ok {
			return false
		}
		h := c.Call.StaticCallee()
		if h == nil || !inPkg[h] || h.Parent() != nil || h.Blocks == nil {
			return false
		}
		for i, a := range c.Call.Args {
			if i >= len(h.Params) || !c18AllLeaves(a, isVal) {
				continue
			}
			par := h.Params[i]
			inner := closeOn(func(v ssa.Value) bool { return core.Strip(core.Forward(core.Strip(v))) == ssa.Value(par) })
			if len(core.Instrs(h, inner)) > 0 && core.MustPass(core.Entry(h), inner, core.IsExit) == nil {
				return true
			}
		}
		return false
	}
}

// c18MapFieldNilable reports how the map field tf of package rel can be nil
// after construction: nilStore is a store of nil into it (outside the function
// that stores a freshly made map), unknown a store whose value is neither.
func c18MapFieldNilable(p *core.Prog, rel, tf string) (nilStore, unknown ssa.Instruction, stores int) {
	for _, f := range p.PkgFuncs(rel) {
		for _, st := range core.StoresToField(f, tf) {
			stores++
			switch v := core.Strip(c18Fwd(core.Strip(st.Val))).(type) {
			case *ssa.MakeMap:
			case *ssa.Const:
				if v.Value == nil && nilStore == nil {
					nilStore = st
				}
			default:
				if unknown == nil {
					unknown = st
				}
			}
		}
	}
	return
}

// c18NilTestLoads lists the loads of field tf in f whose value is compared with nil.
func c18NilTestLoads(f *ssa.Function, tf string) []ssa.Instruction {
	var out []ssa.Instruction
	for _, b := range f.Blocks {
		for _, in := range b.Instrs {
			bo, ok := in.(*ssa.BinOp)
			if !ok || (bo.Op != token.EQL && bo.Op != token.NEQ) {
				continue
			}
			x := bo.X
			if core.IsNil(x) {
				x = bo.Y
			} else if !core.IsNil(bo.Y) {
				continue
			}
			if !core.IsFieldLoad(x, tf) {
				continue
			}
			if l, ok := core.Forward(x).(ssa.Instruction); ok && l.Block() != nil {
				out = append(out, l)
			}
		}
	}
	return out
}

// c18CapOrLenOf matches the builtin cap(x) or len(x) of a value satisfying pred.
func c18CapOrLenOf(pred func(ssa.Value) bool) func(ssa.Value) bool {
	return func(v ssa.Value) bool {
		c, ok := core.Strip(v).(*ssa.Call)
		if !ok || len(c.Call.Args) != 1 {
			return false
		}
		b, ok := c.Call.Value.(*ssa.Builtin)
		return ok && (b.Name() == "cap" || b.Name() == "len") && pred(c.Call.Args[0])
	}
}

func c18CutEither(cs ...func(core.Edge) bool) func(core.Edge) bool {
	return func(e core.Edge) bool {
		for _, c := range cs {
			if c != nil && c(e) {
				return true
			}
		}
		return false
	}
}

// c18R9b registers the rules written with fixes 83e2c14 (ResourceManager.Get
// overlapping Close) and 4707767 (Limit of 0).
func c18R9b(r *core.Run, inPkg map[*ssa.Function]bool) {
	p := r.P
	r.Explanation += " A resource created by ResourceManager.Get is, on every path from the successful create to the end of the single-flight function (returns and panics), recorded in the manager's map by an insertion that cannot hit the nil map Close leaves behind, or closed. The receive in Limit.Return cannot rendezvous with a goroutine blocked in Borrow: every pool channel is buffered, or the receive is unreachable for a pool of capacity 0."
	r.NotDecided += " Whether Close waits for, or is told about, a Get in flight (the repaired Get notices the closed manager itself); that a resource recorded by Get is not also closed by it; a closed-manager marker other than the nil map (a flag field) is reported as not understood or as a violation; what a Get that found the manager closed reports to its caller (it panics, as a Get after Close always did)."

	const tf = "ResourceManager.resources"
	const lockF = "ResourceManager.lock"
	r.Check("D5/K1/manager-created-recorded-or-closed", "a resource the manager created is either recorded in the manager's map or closed: on every path from the successful create to an exit (return or panic) of the function passed to singleFlight.Do, the created resource is inserted into resources — where resources can be nil (Close stores nil), by an insertion reachable only over an edge that establishes resources != nil, and from no release of the manager's lock without reading resources again for that test — or Close is called on it [closes all of them on Close: Close closes what the map holds when it runs and then drops the map; a Get whose create overlaps Close inserts into the nil map, panics (assignment to entry in nil map), never hands the resource to its caller and Close has already returned: the resource the manager created is closed by nobody]", func(o *core.O) {
		nilStore, unknownStore, stores := c18MapFieldNilable(p, syncxPkg, tf)
		if !o.Need(stores > 0, "a store into "+tf) {
			return
		}
		nonNil := core.Cmp(token.NEQ, core.FieldLoad(tf), core.IsNil)
		n := 0
		for _, f := range c18GroupFns(p, inPkg, "ResourceManager") {
			for _, create := range core.Instrs(f, c18IsCloserCreate) {
				if _, isCall := create.(*ssa.Call); !isCall {
					continue
				}
				n++
				r.Fn(core.FuncName(f))
				isRes := func(v ssa.Value) bool { return core.IsResult(v, 0, core.Is(create)) }
				okEdges, _ := core.EdgesOf(f, core.ErrNil(1, core.Is(create)))
				from := c18Heads(okEdges)
				if len(from) == 0 {
					from = []core.At{core.After(create)} // the error is not tested (D5/K2/manager-creates-once reports it)
				}
				guardEdges, _ := core.EdgesOf(f, nonNil)
				unlocks := core.Instrs(f, c18UnlockOf(lockF))
				testLoads := c18NilTestLoads(f, tf)
				var effective, exposed []ssa.Instruction
				why := map[ssa.Instruction]string{}
				for _, in := range core.Instrs(f, core.IsMapUpdateOn(tf)) {
					mu := in.(*ssa.MapUpdate)
					if !c18AllLeaves(mu.Value, isRes) {
						continue // stores something else (D5/K2/manager-creates-once reports it)
					}
					if nilStore == nil && unknownStore == nil {
						effective = append(effective, in) // the map is never nil after construction
						continue
					}
					if _, open := core.Reach(core.Q{From: []core.At{core.Entry(f)}, Target: core.Is(in), Cut: core.CutSet(guardEdges)}); open {
						exposed = append(exposed, in)
						why[in] = "without a test of resources != nil"
						continue
					}
					// the map that was tested is the map that is written: from no release of the lock the
					// insertion is reachable without reading resources again for a nil test
					stale := false
					for _, u := range unlocks {
						if _, ok := core.Reach(core.Q{From: []core.At{core.After(u)}, Target: core.Is(in), Blocked: core.Is(testLoads...)}); ok {
							stale = true
						}
					}
					if stale {
						exposed = append(exposed, in)
						why[in] = "after the manager's lock was released since resources was last tested != nil"
						continue
					}
					effective = append(effective, in)
				}
				closes := c18ClosesValue(inPkg, isRes)
				w, leak := core.Reach(core.Q{From: from, Target: core.Or(core.IsExit, core.Is(exposed...)), Blocked: core.Or(core.Is(effective...), closes)})
				if !leak {
					continue
				}
				// a cleanup deferred after the create that closes something is not followed
				deferredClose := false
				for _, in := range core.Instrs(f, func(in ssa.Instruction) bool { _, ok := in.(*ssa.Defer); return ok }) {
					d := in.(*ssa.Defer)
					if d.Call.IsInvoke() && d.Call.Method.Name() == "Close" {
						deferredClose = true
					}
					if body := c18DeferredBody(d, inPkg); body != nil {
						for _, g := range core.WithAnon(body) {
							if len(core.Instrs(g, func(in ssa.Instruction) bool {
								c, ok := in.(*ssa.Call)
								return ok && c.Call.IsInvoke() && c.Call.Method.Name() == "Close"
							})) > 0 {
								deferredClose = true
							}
						}
					}
				}
				switch {
				case deferredClose:
					o.Unres("%s: %s reaches this exit with the resource created at %s neither recorded nor closed, but a deferred cleanup closes something: not understood", p.InstrPos(w), core.FuncName(f), p.InstrPos(create))
				case why[w] != "" && nilStore == nil:
					o.Unres("%s: %s inserts the created resource into resources %s, and %s stores a value into resources that is neither a fresh map nor nil: whether the map can be nil here is not understood", p.InstrPos(w), core.FuncName(f), why[w], p.InstrPos(unknownStore))
				case why[w] != "":
					o.Fail(p.InstrPos(w), "%s inserts the resource created at %s into resources %s, but %s sets resources to nil: when Close runs while create is running the insertion panics (assignment to entry in nil map), the caller never receives the resource and Close has already returned — the resource the manager created is closed by nobody", core.FuncName(f), p.InstrPos(create), why[w], p.InstrPos(nilStore))
				default:
					o.Fail(p.InstrPos(w), "%s leaves (at this return or panic) with the resource created at %s neither recorded in resources nor closed: Close will never close it", core.FuncName(f), p.InstrPos(create))
				}
			}
		}
		o.Site(n, "create calls of ResourceManager")
		if n == 0 {
			o.Unres("no call of a caller-supplied func() (io.Closer, error) found in ResourceManager's functions")
		}
	})

	const poolF = "Limit.pool"
	r.Check("D3/K2/return-pairs-with-completed-borrow", "a Return can only pair with a completed borrow: outstanding borrows are the elements buffered in the pool, so a receive from the pool must not be able to rendezvous with a sender still blocked in Borrow — every channel stored into Limit.pool is made with a capacity that cannot be 0 (a constant >= 1, or a size for which the make is unreachable when it is 0), or every receive from the pool is unreachable when cap(pool) (equally len(pool)) is 0 [a limit of n never has more than n outstanding borrows, returning without having borrowed is an error: NewLimit(0) makes an unbuffered pool; the non-blocking receive of a Return that follows no borrow takes the value of a goroutine parked in Borrow's send, reports nil and completes that Borrow — one outstanding borrow on a limit of 0]", func(o *core.O) {
		isPool := core.FieldLoad(poolF)
		all := p.PkgFuncs(syncxPkg)
		// (b) every pool is buffered
		buffered, makes := true, 0
		var unbufferedAt ssa.Instruction
		for _, f := range all {
			for _, st := range core.StoresToField(f, poolF) {
				makes++
				mk, ok := core.Strip(core.Forward(st.Val)).(*ssa.MakeChan)
				if !ok {
					buffered, unbufferedAt = false, st
					continue
				}
				size := core.Strip(mk.Size)
				if c, isC := core.ConstInt(size); isC {
					if c < 1 {
						buffered, unbufferedAt = false, mk
					}
					continue
				}
				isSize := func(v ssa.Value) bool { return core.Strip(v) == size }
				if _, reach := core.Reach(core.Q{From: []core.At{core.Entry(f)}, Target: core.Is(mk), Cut: core.ConcreteCut(f, isSize, 0)}); reach {
					buffered, unbufferedAt = false, mk
				}
			}
		}
		if !o.Need(makes > 0, "a store into "+poolF) {
			return
		}
		// (a) the receives
		isSize := c18CapOrLenOf(isPool)
		n := 0
		for _, f := range all {
			var recvs []ssa.Instruction
			for _, b := range f.Blocks {
				for _, in := range b.Instrs {
					switch x := in.(type) {
					case *ssa.Select:
						for _, s := range x.States {
							if s.Dir == types.RecvOnly && isPool(s.Chan) {
								recvs = append(recvs, in)
							}
						}
					case *ssa.UnOp:
						if x.Op == token.ARROW && isPool(x.X) {
							recvs = append(recvs, in)
						}
					}
				}
			}
			if len(recvs) == 0 {
				continue
			}
			r.Fn(core.FuncName(f))
			for _, rc := range recvs {
				n++
				if buffered {
					continue
				}
				if _, reach := core.Reach(core.Q{From: []core.At{core.Entry(f)}, Target: core.Is(rc), Cut: core.ConcreteCut(f, isSize, 0)}); reach {
					o.Fail(p.InstrPos(rc), "%s receives from the pool also when its capacity is 0 (the channel made at %s can be unbuffered): the receive pairs with a goroutine blocked in Borrow's send instead of a buffered element — a Return that follows no borrow reports nil and lets that Borrow complete, one outstanding borrow on a limit of 0", core.FuncName(f), p.InstrPos(unbufferedAt))
				}
			}
		}
		o.Site(n, "receives from "+poolF)
	})
}
