package props

import (
	"go/token"

	"godcheck/core"

	"golang.org/x/tools/go/ssa"
)

// What the comparator handed to sort.Slice and the predicate handed to sort.Search MEAN
// (D6/K6), whatever carries the values they compare: a function literal over captured
// locals, a bound method value `x.m` (go/ssa: a synthetic wrapper closed over the receiver),
// a small struct value/pointer that holds the key slice and the hash in its fields, or one
// or two levels of in-package forwarding (`return m(recv, i)`).
//
// A value inside the predicate is classified by role:
//   idx(k)   – the k-th index parameter of the predicate
//   keys     – the ring's key slice: a load of ConsistentHash.keys, or a value that the creator
//              of the predicate derived from such a load (alias, struct field, captured cell)
//   keyAt(k) – keys[idx(k)]
//   inv      – a value fixed when the predicate was created (captured value, receiver field
//              resolved to what the creator stored there): it cannot depend on the index
//   const / unknown
// Free variables are resolved through the bindings of the creation site, parameters of a
// forwarded-to function through the arguments of the forwarding call, fields of local struct
// cells through the single store to that field (or the single whole-struct initialisation),
// and fields of an unexported function's struct parameter through all its call sites, which
// must agree.

type c13Kind int

const (
	c13Unk c13Kind = iota
	c13Idx
	c13Keys
	c13KeyAt
	c13Inv
	c13Const
)

type c13Class struct {
	kind c13Kind
	k    int
}

type c13Bound struct {
	v   ssa.Value
	ctx *c13Ctx
}

type c13Ctx struct {
	fn    *ssa.Function
	outer bool // the function that creates the predicate: its values are fixed from the predicate's point of view
	funcs []*ssa.Function
	bind  map[ssa.Value]c13Bound
	idx   map[*ssa.Parameter]int
	hops  int // call-site hops taken so far
}

const c13KeysField = "ConsistentHash.keys"

func c13OuterKeys(v ssa.Value) bool {
	return core.IsFieldLoad(v, c13KeysField) || core.DependsOn(core.Forward(v), core.FieldLoad(c13KeysField))
}

// c13UniqueStore: the only store to the cell al itself (nil when none or several).
func c13UniqueStore(al *ssa.Alloc) *ssa.Store {
	if al.Referrers() == nil {
		return nil
	}
	var st *ssa.Store
	for _, r := range *al.Referrers() {
		if s, ok := r.(*ssa.Store); ok && s.Addr == ssa.Value(al) {
			if st != nil {
				return nil
			}
			st = s
		}
	}
	return st
}

func (c *c13Ctx) class(v ssa.Value, d int) c13Class {
	unk := c13Class{}
	if d > 24 || v == nil {
		return unk
	}
	v = core.Strip(v)
	if c.outer {
		if c13OuterKeys(v) {
			return c13Class{kind: c13Keys}
		}
		// a field of a local struct cell the creator filled in
		if u, ok := v.(*ssa.UnOp); ok && u.Op == token.MUL {
			if fa, ok := u.X.(*ssa.FieldAddr); ok {
				if _, isCell := fa.X.(*ssa.Alloc); isCell {
					if cl := c.fieldOfPointer(fa.X, fa.Field, d+1); cl.kind != c13Unk {
						return cl
					}
				}
			}
		}
		return c13Class{kind: c13Inv}
	}
	switch x := v.(type) {
	case *ssa.Const:
		return c13Class{kind: c13Const}
	case *ssa.Parameter:
		if k, ok := c.idx[x]; ok {
			return c13Class{kind: c13Idx, k: k}
		}
		if b, ok := c.bind[x]; ok {
			return b.ctx.class(b.v, d+1)
		}
	case *ssa.FreeVar:
		if b, ok := c.bind[x]; ok {
			return b.ctx.class(b.v, d+1)
		}
	case *ssa.Field:
		return c.fieldOfValue(x.X, x.Field, d+1)
	case *ssa.UnOp:
		if x.Op != token.MUL {
			return unk
		}
		switch a := x.X.(type) {
		case *ssa.FieldAddr:
			if core.FieldAddrName(a) == c13KeysField {
				return c13Class{kind: c13Keys}
			}
			return c.fieldOfPointer(a.X, a.Field, d+1)
		case *ssa.IndexAddr:
			s, i := c.class(a.X, d+1), c.class(a.Index, d+1)
			if s.kind == c13Keys && i.kind == c13Idx {
				return c13Class{kind: c13KeyAt, k: i.k}
			}
		case *ssa.Alloc: // a local cell of the predicate (spilled parameter/receiver, temporary)
			if st := c13UniqueStore(a); st != nil {
				return c.class(st.Val, d+1)
			}
		case *ssa.FreeVar, *ssa.Parameter: // a cell of the creator, seen through its address
			if b, ok := c.bind[a]; ok {
				return b.ctx.cell(b.v, d+1)
			}
		}
	}
	return unk
}

// cell: the content of the cell ptr points to.
func (c *c13Ctx) cell(ptr ssa.Value, d int) c13Class {
	if d > 24 {
		return c13Class{}
	}
	switch a := ptr.(type) {
	case *ssa.Alloc:
		if st := c13UniqueStore(a); st != nil {
			return c.class(st.Val, d+1)
		}
		if c.outer {
			// several assignments: the key slice only if every one of them is derived from it
			n, all := 0, true
			if a.Referrers() != nil {
				for _, r := range *a.Referrers() {
					if s, ok := r.(*ssa.Store); ok && s.Addr == ssa.Value(a) {
						n++
						all = all && c13OuterKeys(s.Val)
					}
				}
			}
			if n > 0 && all {
				return c13Class{kind: c13Keys}
			}
			return c13Class{kind: c13Inv}
		}
	case *ssa.FieldAddr:
		if core.FieldAddrName(a) == c13KeysField {
			return c13Class{kind: c13Keys}
		}
		return c.fieldOfPointer(a.X, a.Field, d+1)
	case *ssa.FreeVar, *ssa.Parameter:
		if b, ok := c.bind[a]; ok {
			return b.ctx.cell(b.v, d+1)
		}
	}
	if c.outer {
		return c13Class{kind: c13Inv}
	}
	return c13Class{}
}

// fieldOfPointer: the content of field #field of the struct ptr points to.
func (c *c13Ctx) fieldOfPointer(ptr ssa.Value, field, d int) c13Class {
	if d > 24 {
		return c13Class{}
	}
	switch a := ptr.(type) {
	case *ssa.Alloc:
		return c.fieldOfAlloc(a, field, d+1)
	case *ssa.FreeVar, *ssa.Parameter:
		if b, ok := c.bind[a]; ok {
			return b.ctx.fieldOfPointer(b.v, field, d+1)
		}
	case *ssa.UnOp: // pointer kept in a local cell
		if al, ok := a.X.(*ssa.Alloc); ok && a.Op == token.MUL {
			if st := c13UniqueStore(al); st != nil {
				return c.fieldOfPointer(st.Val, field, d+1)
			}
		}
		if a.Op == token.MUL {
			if b, ok := c.bind[a.X]; ok { // pointer kept in a captured cell of the creator
				if al, ok := b.v.(*ssa.Alloc); ok {
					if st := c13UniqueStore(al); st != nil {
						return b.ctx.fieldOfPointer(st.Val, field, d+1)
					}
				}
			}
		}
	}
	if c.outer {
		return c13Class{kind: c13Inv}
	}
	return c13Class{}
}

// fieldOfValue: field #field of the struct value w.
func (c *c13Ctx) fieldOfValue(w ssa.Value, field, d int) c13Class {
	if d > 24 {
		return c13Class{}
	}
	w = core.Strip(w)
	switch x := w.(type) {
	case *ssa.FreeVar:
		if b, ok := c.bind[x]; ok {
			return b.ctx.fieldOfValue(b.v, field, d+1)
		}
	case *ssa.Parameter:
		if b, ok := c.bind[x]; ok {
			return b.ctx.fieldOfValue(b.v, field, d+1)
		}
		if c.outer {
			return c.fieldAtCallSites(x, field, d+1)
		}
	case *ssa.UnOp:
		if x.Op == token.MUL {
			return c.fieldOfPointer(x.X, field, d+1)
		}
	}
	if c.outer {
		return c13Class{kind: c13Inv}
	}
	return c13Class{}
}

func (c *c13Ctx) fieldOfAlloc(al *ssa.Alloc, field, d int) c13Class {
	if al.Referrers() == nil {
		return c13Class{}
	}
	var fieldStores, wholeStores []*ssa.Store
	for _, r := range *al.Referrers() {
		switch x := r.(type) {
		case *ssa.FieldAddr:
			if x.Field != field || x.Referrers() == nil {
				continue
			}
			for _, rr := range *x.Referrers() {
				if st, ok := rr.(*ssa.Store); ok && st.Addr == ssa.Value(x) {
					fieldStores = append(fieldStores, st)
				}
			}
		case *ssa.Store:
			if x.Addr == ssa.Value(al) {
				wholeStores = append(wholeStores, x)
			}
		}
	}
	switch {
	case len(fieldStores) == 1 && len(wholeStores) == 0:
		return c.class(fieldStores[0].Val, d+1)
	case len(fieldStores) == 0 && len(wholeStores) == 1:
		return c.fieldOfValue(wholeStores[0].Val, field, d+1)
	}
	return c13Class{}
}

// fieldAtCallSites: par is a struct parameter (typically the value receiver) of the creator
// c.fn; when c.fn is an unexported function every use of which is a plain static call inside
// the package, the field has the class all call sites agree on.
func (c *c13Ctx) fieldAtCallSites(par *ssa.Parameter, field, d int) c13Class {
	f := c.fn
	if c.hops >= 2 || f == nil || f.Parent() != nil || f.Object() == nil || f.Object().Exported() {
		return c13Class{kind: c13Inv}
	}
	idx := -1
	for i, q := range f.Params {
		if q == par {
			idx = i
		}
	}
	var sites []*ssa.Call
	for _, g := range c.funcs {
		for _, b := range g.Blocks {
			for _, in := range b.Instrs {
				for _, op := range in.Operands(nil) {
					if *op != ssa.Value(f) {
						continue
					}
					call, ok := in.(*ssa.Call)
					if !ok || call.Call.Value != ssa.Value(f) {
						return c13Class{kind: c13Inv}
					}
					sites = append(sites, call)
				}
			}
		}
	}
	if idx < 0 || len(sites) == 0 {
		return c13Class{kind: c13Inv}
	}
	var out c13Class
	for n, s := range sites {
		if idx >= len(s.Call.Args) {
			return c13Class{}
		}
		cc := &c13Ctx{fn: s.Parent(), outer: true, funcs: c.funcs, hops: c.hops + 1}
		cl := cc.fieldOfValue(s.Call.Args[idx], field, d+1)
		if n > 0 && cl != out {
			return c13Class{}
		}
		out = cl
	}
	return out
}

// c13Predicate returns the function whose results decide the comparator/predicate created by
// mc – the closure itself, or the in-package function it merely forwards to (a bound method
// value `x.m` is a synthetic closure `return m(recv, i)`) – with the context that classifies
// the values of that function.
func c13Predicate(funcs []*ssa.Function, mc *ssa.MakeClosure) (*ssa.Function, *c13Ctx) {
	an, _ := mc.Fn.(*ssa.Function)
	if an == nil {
		return nil, nil
	}
	outer := &c13Ctx{fn: mc.Parent(), outer: true, funcs: funcs}
	in := &c13Ctx{fn: an, funcs: funcs, bind: map[ssa.Value]c13Bound{}, idx: map[*ssa.Parameter]int{}}
	for i, fv := range an.FreeVars {
		if i < len(mc.Bindings) {
			in.bind[fv] = c13Bound{mc.Bindings[i], outer}
		}
	}
	for i, pa := range an.Params {
		in.idx[pa] = i
	}
	for lvl := 0; lvl < 2; lvl++ {
		rets := core.Returns(in.fn)
		if len(rets) != 1 || len(rets[0].Results) != 1 {
			break
		}
		call, ok := core.Result(rets[0], 0).(*ssa.Call)
		if !ok {
			break
		}
		callee := call.Call.StaticCallee()
		if !c13InHashPkg(callee) || callee == in.fn || len(call.Call.Args) != len(callee.Params) {
			break
		}
		next := &c13Ctx{fn: callee, funcs: funcs, bind: map[ssa.Value]c13Bound{}, idx: map[*ssa.Parameter]int{}}
		for j, a := range call.Call.Args {
			if cl := in.class(a, 0); cl.kind == c13Idx {
				next.idx[callee.Params[j]] = cl.k
			} else {
				next.bind[callee.Params[j]] = c13Bound{a, in}
			}
		}
		in = next
	}
	return in.fn, in
}

func (c *c13Ctx) isKeyAt(k int) func(ssa.Value) bool {
	return func(v ssa.Value) bool {
		cl := c.class(v, 0)
		return cl.kind == c13KeyAt && cl.k == k
	}
}

func (c *c13Ctx) isInv(v ssa.Value) bool { return c.class(v, 0).kind == c13Inv }
