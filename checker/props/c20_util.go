package props

import (
	"fmt"
	"go/constant"
	"go/token"
	"go/types"
	"strings"

	"godcheck/core"

	"golang.org/x/tools/go/ssa"
)

// Helpers of the C20 table that decide by *evaluation* instead of by shape:
//
//  1. constant package-level tables: an unexported package-level variable that is
//     assigned exactly once, in the package initialiser, from a composite literal of
//     constants and top-level functions (slice / array / struct / map, nested), and
//     that nothing in the loaded packages writes to or lets escape, is a constant –
//     the analogue of core.Eval's constGlobal for maps, structs and function values
//     (candidate for core);
//  2. a small symbolic evaluator for the two string classifiers of util/format: it
//     runs the SSA of a function on symbolic string parameters and concrete
//     integers, folds everything that is concrete (loop counters over a constant
//     table, lookups in a constant map, switches over a concrete style) and forks on
//     comparisons of symbolic strings, recording them. The result is the list of
//     paths (decisions, returned values); the rules read the meaning of the function
//     off that list, whether it is spelled as a switch, an if chain, a scan over a
//     table of (style, spelling function) or a lookup in a map of functions.
//
// Nothing of the analysed program is executed.

// ---------------------------------------------------------------- constant tables

// c20Agg is the value of a composite literal: the elements of a slice or array,
// the fields of a struct, or the values of a map (keys in keys).
type c20Agg struct {
	typ   types.Type
	elems []any
	keys  []constant.Value
}

// c20Nil is the nil value of a function, slice, map, pointer or interface type.
type c20Nil struct{}

func c20Zero(t types.Type) any {
	switch u := t.Underlying().(type) {
	case *types.Basic:
		switch {
		case u.Info()&types.IsBoolean != 0:
			return constant.MakeBool(false)
		case u.Info()&types.IsString != 0:
			return constant.MakeString("")
		case u.Info()&types.IsNumeric != 0:
			return constant.MakeInt64(0)
		}
	case *types.Struct:
		a := &c20Agg{typ: t}
		for i := 0; i < u.NumFields(); i++ {
			a.elems = append(a.elems, c20Zero(u.Field(i).Type()))
		}
		return a
	case *types.Array:
		if u.Len() > 4096 {
			return symOpaque{}
		}
		a := &c20Agg{typ: t}
		for i := int64(0); i < u.Len(); i++ {
			a.elems = append(a.elems, c20Zero(u.Elem()))
		}
		return a
	}
	return c20Nil{}
}

// c20Literal evaluates a value built by a composite literal of constants and
// functions (as lowered by the SSA builder) without executing anything.
func c20Literal(v ssa.Value, depth int) (any, bool) {
	if depth > 8 {
		return nil, false
	}
	switch x := v.(type) {
	case *ssa.Const:
		if x.Value != nil {
			return x.Value, true
		}
		return c20Zero(x.Type()), true
	case *ssa.Function:
		if len(x.FreeVars) == 0 {
			return x, true
		}
	case *ssa.ChangeType:
		return c20Literal(x.X, depth+1)
	case *ssa.Slice:
		al, ok := x.X.(*ssa.Alloc)
		if !ok || x.Low != nil || x.High != nil || x.Max != nil {
			return nil, false
		}
		arr, ok := al.Type().Underlying().(*types.Pointer).Elem().Underlying().(*types.Array)
		if !ok {
			return nil, false
		}
		val, ok := c20AddrLiteral(al, arr, depth+1)
		if !ok {
			return nil, false
		}
		a, ok := val.(*c20Agg)
		if !ok {
			return nil, false
		}
		return &c20Agg{typ: x.Type(), elems: a.elems}, true
	case *ssa.UnOp:
		if al, ok := x.X.(*ssa.Alloc); ok && x.Op == token.MUL {
			return c20AddrLiteral(al, al.Type().Underlying().(*types.Pointer).Elem(), depth+1)
		}
	case *ssa.MakeMap:
		a := &c20Agg{typ: x.Type()}
		stores := 0
		for _, ref := range *x.Referrers() {
			switch r := ref.(type) {
			case *ssa.MapUpdate:
				if r.Map != ssa.Value(x) {
					return nil, false
				}
				k, ok := r.Key.(*ssa.Const)
				if !ok || k.Value == nil {
					return nil, false
				}
				val, ok := c20Literal(r.Value, depth+1)
				if !ok {
					return nil, false
				}
				a.keys, a.elems = append(a.keys, k.Value), append(a.elems, val)
			case *ssa.Store:
				if r.Val != ssa.Value(x) {
					return nil, false
				}
				stores++
			case *ssa.DebugRef:
			default:
				return nil, false
			}
		}
		if stores > 1 {
			return nil, false
		}
		return a, true
	}
	return nil, false
}

// c20AddrLiteral reads the value a composite literal builds at addr (a fresh
// allocation or a field/element address of one): every cell is stored at most
// once, the address is otherwise only read.
func c20AddrLiteral(addr ssa.Value, t types.Type, depth int) (any, bool) {
	if depth > 8 || addr.Referrers() == nil {
		return nil, false
	}
	return c20AddrLiteralRefs(addr, *addr.Referrers(), t, depth)
}

// c20AddrLiteralRefs is c20AddrLiteral with the instructions using addr given
// (a package-level variable initialised in place has no referrer list).
func c20AddrLiteralRefs(addr ssa.Value, refs []ssa.Instruction, t types.Type, depth int) (any, bool) {
	var whole ssa.Value
	nWhole := 0
	parts := map[int64][]ssa.Value{}
	for _, ref := range refs {
		switch r := ref.(type) {
		case *ssa.Store:
			if r.Addr != addr || r.Val == addr {
				return nil, false
			}
			whole = r.Val
			nWhole++
		case *ssa.FieldAddr:
			parts[int64(r.Field)] = append(parts[int64(r.Field)], r)
		case *ssa.IndexAddr:
			i, ok := core.ConstInt(r.Index)
			if !ok || r.X != addr {
				return nil, false
			}
			parts[i] = append(parts[i], r)
		case *ssa.UnOp:
			if r.Op != token.MUL {
				return nil, false
			}
		case *ssa.Slice:
			if r.X != addr || r.Low != nil || r.High != nil || r.Max != nil {
				return nil, false
			}
		case *ssa.DebugRef:
		default:
			return nil, false
		}
	}
	if nWhole > 1 || (nWhole == 1 && len(parts) > 0) {
		return nil, false
	}
	if nWhole == 1 {
		return c20Literal(whole, depth+1)
	}
	part := func(i int64, et types.Type) (any, bool) {
		switch as := parts[i]; len(as) {
		case 0:
			return c20Zero(et), true
		case 1:
			return c20AddrLiteral(as[0], et, depth+1)
		}
		return nil, false
	}
	switch u := t.Underlying().(type) {
	case *types.Struct:
		a := &c20Agg{typ: t}
		for i := 0; i < u.NumFields(); i++ {
			val, ok := part(int64(i), u.Field(i).Type())
			if !ok {
				return nil, false
			}
			a.elems = append(a.elems, val)
		}
		return a, true
	case *types.Array:
		if u.Len() > 4096 {
			return nil, false
		}
		for i := range parts {
			if i < 0 || i >= u.Len() {
				return nil, false
			}
		}
		a := &c20Agg{typ: t}
		for i := int64(0); i < u.Len(); i++ {
			val, ok := part(i, u.Elem())
			if !ok {
				return nil, false
			}
			a.elems = append(a.elems, val)
		}
		return a, true
	}
	if len(parts) > 0 {
		return nil, false
	}
	return c20Zero(t), true
}

// c20DeepImmutable: a value of this type cannot be used to modify anything
// (numbers, strings, booleans, function values, structs and arrays of those).
func c20DeepImmutable(t types.Type) bool {
	switch u := t.Underlying().(type) {
	case *types.Basic:
		return u.Kind() != types.UnsafePointer
	case *types.Signature:
		return true
	case *types.Struct:
		for i := 0; i < u.NumFields(); i++ {
			if !c20DeepImmutable(u.Field(i).Type()) {
				return false
			}
		}
		return true
	case *types.Array:
		return c20DeepImmutable(u.Elem())
	}
	return false
}

// c20ValueReadOnly: the value (loaded from a table) is only inspected – indexed,
// looked up, measured, compared – never stored, passed on, re-sliced or written
// through.
func c20ValueReadOnly(v ssa.Value, seen map[ssa.Value]bool) bool {
	if c20DeepImmutable(v.Type()) {
		return true
	}
	if seen[v] {
		return true
	}
	seen[v] = true
	if v.Referrers() == nil {
		return false
	}
	for _, ref := range *v.Referrers() {
		switch r := ref.(type) {
		case *ssa.IndexAddr:
			if r.X != v || !c20AddrReadOnly(r, seen) {
				return false
			}
		case *ssa.Index:
			if r.X != v || !c20ValueReadOnly(r, seen) {
				return false
			}
		case *ssa.Lookup:
			if r.X != v {
				return false
			}
			et := r.Type()
			if tup, ok := et.(*types.Tuple); ok {
				et = tup.At(0).Type()
			}
			if !c20DeepImmutable(et) && !c20ValueReadOnly(r, seen) {
				return false
			}
		case *ssa.Extract:
			if !c20DeepImmutable(r.Type()) && !c20ValueReadOnly(r, seen) {
				return false
			}
		case *ssa.Call:
			bi, ok := r.Call.Value.(*ssa.Builtin)
			if !ok || (bi.Name() != "len" && bi.Name() != "cap") {
				return false
			}
		case *ssa.Phi:
			if !c20ValueReadOnly(r, seen) {
				return false
			}
		case *ssa.Slice: // a window of the table, itself only inspected
			if r.X != v || !c20ValueReadOnly(r, seen) {
				return false
			}
		case *ssa.Range:
			m, ok := v.Type().Underlying().(*types.Map)
			if !ok || !c20DeepImmutable(m.Elem()) {
				return false
			}
		case *ssa.BinOp, *ssa.DebugRef:
		default:
			return false
		}
	}
	return true
}

func c20AddrReadOnly(a ssa.Value, seen map[ssa.Value]bool) bool {
	if a.Referrers() == nil {
		return false
	}
	for _, ref := range *a.Referrers() {
		switch r := ref.(type) {
		case *ssa.UnOp:
			if r.Op != token.MUL || !c20ValueReadOnly(r, seen) {
				return false
			}
		case *ssa.FieldAddr:
			if !c20AddrReadOnly(r, seen) {
				return false
			}
		case *ssa.IndexAddr:
			if r.X != a || !c20AddrReadOnly(r, seen) {
				return false
			}
		case *ssa.DebugRef:
		default:
			return false
		}
	}
	return true
}

// c20Consts decides which package-level variables of the loaded packages are
// constants (see the head of the file).
type c20Consts struct {
	all  []*ssa.Function
	memo map[*ssa.Global]*c20GlobalVal
}

type c20GlobalVal struct {
	val any
	ok  bool
}

func (c *c20Consts) of(g *ssa.Global) (any, bool) {
	if c.memo == nil {
		c.memo = map[*ssa.Global]*c20GlobalVal{}
	}
	if m := c.memo[g]; m != nil {
		return m.val, m.ok
	}
	m := &c20GlobalVal{}
	c.memo[g] = m
	m.val, m.ok = c.decide(g)
	return m.val, m.ok
}

func (c *c20Consts) decide(g *ssa.Global) (any, bool) {
	if g.Pkg == nil || g.Object() == nil || g.Object().Exported() {
		return nil, false // an exported variable can be assigned by packages that are not loaded
	}
	initFn := g.Pkg.Func("init")
	if initFn == nil {
		return nil, false
	}
	// the initialiser builds the value (one store of a literal, or – arrays and
	// structs – the literal built in place); everything else only reads it
	var initRefs []ssa.Instruction
	seen := map[ssa.Value]bool{}
	for _, f := range c.all {
		for _, b := range f.Blocks {
			for _, in := range b.Instrs {
				for _, op := range in.Operands(nil) {
					if *op != ssa.Value(g) {
						continue
					}
					if f == initFn {
						initRefs = append(initRefs, in)
						break
					}
					switch x := in.(type) {
					case *ssa.UnOp:
						if x.Op != token.MUL || !c20ValueReadOnly(x, seen) {
							return nil, false
						}
					case *ssa.FieldAddr:
						if !c20AddrReadOnly(x, seen) {
							return nil, false
						}
					case *ssa.IndexAddr:
						if x.X != ssa.Value(g) || !c20AddrReadOnly(x, seen) {
							return nil, false
						}
					case *ssa.DebugRef:
					default:
						return nil, false
					}
				}
			}
		}
	}
	return c20AddrLiteralRefs(g, initRefs, g.Type().Underlying().(*types.Pointer).Elem(), 0)
}

// c20FuncsIn lists the function values held anywhere in a table value.
func c20FuncsIn(v any, out []*ssa.Function) []*ssa.Function {
	switch x := v.(type) {
	case *ssa.Function:
		return append(out, x)
	case *c20Agg:
		for _, e := range x.elems {
			out = c20FuncsIn(e, out)
		}
	}
	return out
}

// c20CalleeSources traces the callee of a dynamic call back to where the function
// value can come from: function constants (through φ-nodes: `fn := strings.ToUpper`
// chosen by a switch) and package-level variables it was read from – through loads,
// element/field addresses, windows, map lookups, φ-nodes and local copies (every
// value stored into the local must itself come from such a source). ok=false when
// some input is neither.
func c20CalleeSources(v ssa.Value) (roots []*ssa.Global, fns []*ssa.Function, ok bool) {
	seen := map[ssa.Value]bool{}
	set := map[*ssa.Global]bool{}
	fset := map[*ssa.Function]bool{}
	var walk func(v ssa.Value, d int) bool
	var storesInto func(addr ssa.Value, d int) (n int, good bool)
	storesInto = func(addr ssa.Value, d int) (int, bool) {
		if d > 12 || addr.Referrers() == nil {
			return 0, false
		}
		n := 0
		for _, ref := range *addr.Referrers() {
			switch r := ref.(type) {
			case *ssa.Store:
				if r.Addr != addr {
					return 0, false
				}
				n++
				if !walk(r.Val, d+1) {
					return 0, false
				}
			case *ssa.FieldAddr, *ssa.IndexAddr:
				k, good := storesInto(r.(ssa.Value), d+1)
				if !good {
					return 0, false
				}
				n += k
			case *ssa.UnOp, *ssa.DebugRef:
			default:
				return 0, false
			}
		}
		return n, true
	}
	walk = func(v ssa.Value, d int) bool {
		if d > 12 {
			return false
		}
		if seen[v] {
			return true
		}
		seen[v] = true
		switch x := v.(type) {
		case *ssa.Global:
			set[x] = true
			return true
		case *ssa.Function:
			if len(x.FreeVars) > 0 {
				return false
			}
			fset[x] = true
			return true
		case *ssa.Const:
			return x.Value == nil // nil function: the call panics, whatever the environment
		case *ssa.Extract:
			return walk(x.Tuple, d+1)
		case *ssa.Lookup:
			return walk(x.X, d+1)
		case *ssa.Index:
			return walk(x.X, d+1)
		case *ssa.Field:
			return walk(x.X, d+1)
		case *ssa.Slice:
			return walk(x.X, d+1)
		case *ssa.FieldAddr:
			return walk(x.X, d+1)
		case *ssa.IndexAddr:
			return walk(x.X, d+1)
		case *ssa.ChangeType:
			return walk(x.X, d+1)
		case *ssa.UnOp:
			return x.Op == token.MUL && walk(x.X, d+1)
		case *ssa.Phi:
			for _, e := range x.Edges {
				if !walk(e, d+1) {
					return false
				}
			}
			return len(x.Edges) > 0
		case *ssa.Alloc:
			n, good := storesInto(x, d+1)
			return good && n > 0
		}
		return false
	}
	if !walk(v, 0) {
		return nil, nil, false
	}
	for g := range set {
		roots = append(roots, g)
	}
	for f := range fset {
		fns = append(fns, f)
	}
	return roots, fns, len(roots)+len(fns) > 0
}

// c20FuncName is the stable name of a function value: "pkg/path.Name" or
// "(recv type).Name".
func c20FuncName(f *ssa.Function) string {
	if f == nil {
		return ""
	}
	if f.Origin() != nil {
		f = f.Origin()
	}
	if f.Parent() != nil {
		return f.String()
	}
	if recv := f.Signature.Recv(); recv != nil {
		return "(" + types.TypeString(recv.Type(), func(p *types.Package) string { return p.Path() }) + ")." + f.Name()
	}
	if f.Pkg != nil {
		return f.Pkg.Pkg.Path() + "." + f.Name()
	}
	if o := f.Object(); o != nil && o.Pkg() != nil {
		return o.Pkg().Path() + "." + f.Name()
	}
	return f.String()
}

// ---------------------------------------------------------------- symbolic evaluation

// symTerm is a symbolic string: parameter #idx (kind "param") or a case
// conversion ("lower", "upper", "title") of another one.
type symTerm struct {
	kind string
	idx  int
	arg  any
}

// symCond is the comparison a == b (neg: a != b) of symbolic strings.
type symCond struct {
	a, b any
	neg  bool
}

type symPtr struct {
	al   *ssa.Alloc  // a local cell …
	g    *ssa.Global // … or a package-level variable …
	root any         // … or an element of a constant table
	path []int
}

type symNonNilErr struct{}
type symCaser struct{ kind string }
type symOpaque struct{}
type symTuple []any

func symString(v any) string {
	switch x := v.(type) {
	case symTerm:
		if x.kind == "param" {
			return fmt.Sprintf("p%d", x.idx)
		}
		return x.kind + "(" + symString(x.arg) + ")"
	case constant.Value:
		return x.ExactString()
	case symCond:
		a, b := symString(x.a), symString(x.b)
		if b < a {
			a, b = b, a
		}
		return a + "==" + b
	case *ssa.Function:
		return c20FuncName(x)
	case c20Nil:
		return "nil"
	case symNonNilErr:
		return "non-nil error"
	}
	return fmt.Sprintf("%T", v)
}

type symDecision struct {
	cond symCond // normalised: neg == false
	val  bool
}

// symOutcome is one path through the evaluated function.
type symOutcome struct {
	decisions []symDecision
	results   []any
	panics    bool
}

type symState struct {
	b, prev   *ssa.BasicBlock
	env       map[ssa.Value]any
	mem       map[*ssa.Alloc]any
	dead      map[*ssa.Alloc]bool
	decisions []symDecision
	steps     int
}

func (s *symState) clone() *symState {
	n := &symState{b: s.b, prev: s.prev, env: make(map[ssa.Value]any, len(s.env)), mem: make(map[*ssa.Alloc]any, len(s.mem)),
		dead: make(map[*ssa.Alloc]bool, len(s.dead)), decisions: append([]symDecision(nil), s.decisions...), steps: s.steps}
	for k, v := range s.env {
		n.env[k] = v
	}
	for k, v := range s.mem {
		n.mem[k] = v
	}
	for k, v := range s.dead {
		n.dead[k] = v
	}
	return n
}

type symExec struct {
	consts *c20Consts
	depth  int
	why    string // why the evaluation gave up
}

type symAbort struct{ why string }

func (e *symExec) abort(format string, a ...any) { panic(symAbort{fmt.Sprintf(format, a...)}) }

// run evaluates fn on args (constant.Value or symTerm) and returns its paths;
// ok=false (with e.why) when the function leaves the evaluated fragment in a way
// that matters: a branch on an unknown value, a write to a package-level variable,
// defer/go/send, too many paths or steps.
func (e *symExec) run(fn *ssa.Function, args []any) (outs []symOutcome, ok bool) {
	defer func() {
		if r := recover(); r != nil {
			a, isAbort := r.(symAbort)
			if !isAbort {
				panic(r)
			}
			e.why, outs, ok = a.why, nil, false
		}
	}()
	if fn == nil || len(fn.Blocks) == 0 || len(args) != len(fn.Params) || fn.Recover != nil {
		e.abort("function without a body, with recover, or arity mismatch")
	}
	st := &symState{b: fn.Blocks[0], env: map[ssa.Value]any{}, mem: map[*ssa.Alloc]any{}, dead: map[*ssa.Alloc]bool{}, steps: 4000}
	for i, p := range fn.Params {
		st.env[p] = args[i]
	}
	work := []*symState{st}
	for len(work) > 0 {
		s := work[len(work)-1]
		work = work[:len(work)-1]
		out, next := e.path(s)
		if out != nil {
			outs = append(outs, *out)
		}
		work = append(work, next...)
		if len(outs)+len(work) > 64 {
			e.abort("more than 64 paths")
		}
	}
	return outs, true
}

// path runs one state to its return (outcome) or to a fork (two successor states).
func (e *symExec) path(s *symState) (*symOutcome, []*symState) {
	for {
		// φ-nodes read the values of the incoming edge simultaneously
		newPhi := map[ssa.Value]any{}
		for _, in := range s.b.Instrs {
			phi, ok := in.(*ssa.Phi)
			if !ok {
				break
			}
			idx := -1
			for i, pr := range s.b.Preds {
				if pr == s.prev {
					idx = i
				}
			}
			if idx < 0 {
				e.abort("φ without incoming edge")
			}
			newPhi[phi] = e.val(s, phi.Edges[idx])
		}
		for k, v := range newPhi {
			s.env[k] = v
		}
		moved := false
		for _, in := range s.b.Instrs {
			s.steps--
			if s.steps <= 0 {
				e.abort("step bound exceeded")
			}
			switch x := in.(type) {
			case *ssa.Phi, *ssa.DebugRef:
			case *ssa.Return:
				o := &symOutcome{decisions: s.decisions}
				for _, r := range x.Results {
					o.results = append(o.results, e.val(s, r))
				}
				return o, nil
			case *ssa.Panic:
				return &symOutcome{decisions: s.decisions, panics: true}, nil
			case *ssa.Jump:
				s.prev, s.b = s.b, s.b.Succs[0]
				moved = true
			case *ssa.If:
				switch c := e.val(s, x.Cond).(type) {
				case constant.Value:
					if c.Kind() != constant.Bool {
						e.abort("non-boolean condition")
					}
					if constant.BoolVal(c) {
						s.prev, s.b = s.b, s.b.Succs[0]
					} else {
						s.prev, s.b = s.b, s.b.Succs[1]
					}
				case symCond:
					norm := symCond{a: c.a, b: c.b}
					key := symString(norm)
					decided, val := false, false
					for _, d := range s.decisions {
						if symString(d.cond) == key {
							decided, val = true, d.val
						}
					}
					if !decided {
						t, f := s.clone(), s.clone()
						t.decisions = append(t.decisions, symDecision{norm, true})
						f.decisions = append(f.decisions, symDecision{norm, false})
						ti, fi := 0, 1
						if c.neg {
							ti, fi = 1, 0
						}
						t.prev, t.b = s.b, s.b.Succs[ti]
						f.prev, f.b = s.b, s.b.Succs[fi]
						return nil, []*symState{f, t} // t is evaluated first
					}
					if val != c.neg {
						s.prev, s.b = s.b, s.b.Succs[0]
					} else {
						s.prev, s.b = s.b, s.b.Succs[1]
					}
				default:
					e.abort("branch on a value outside the evaluated fragment (%s)", core.Describe(x.Cond))
				}
				moved = true
			case *ssa.Store:
				e.store(s, x)
			case ssa.Value:
				s.env[x] = e.instr(s, x)
			default:
				e.abort("%T is outside the evaluated fragment", in)
			}
			if moved {
				break
			}
		}
		if !moved {
			e.abort("block without terminator")
		}
	}
}

func (e *symExec) val(s *symState, v ssa.Value) any {
	switch x := v.(type) {
	case *ssa.Const:
		if x.Value != nil {
			return x.Value
		}
		return c20Zero(x.Type())
	case *ssa.Function:
		return x
	case *ssa.Global:
		return symPtr{g: x}
	case *ssa.Builtin:
		return symOpaque{}
	}
	if r, ok := s.env[v]; ok {
		return r
	}
	return symOpaque{}
}

// escape: a pointer to a local cell is used in a way the evaluator does not
// follow; the cell's content is unknown from now on.
func (e *symExec) escape(s *symState, v any) {
	if p, ok := v.(symPtr); ok && p.al != nil {
		s.dead[p.al] = true
	}
}

func symNavigate(v any, path []int) any {
	for _, i := range path {
		a, ok := v.(*c20Agg)
		if !ok || a.keys != nil || i < 0 || i >= len(a.elems) {
			return symOpaque{}
		}
		v = a.elems[i]
	}
	return v
}

func symUpdate(v any, path []int, nv any) any {
	if len(path) == 0 {
		return nv
	}
	a, ok := v.(*c20Agg)
	if !ok || a.keys != nil || path[0] < 0 || path[0] >= len(a.elems) {
		return symOpaque{}
	}
	c := &c20Agg{typ: a.typ, elems: append([]any(nil), a.elems...)}
	c.elems[path[0]] = symUpdate(a.elems[path[0]], path[1:], nv)
	return c
}

func (e *symExec) load(s *symState, p any) any {
	pt, ok := p.(symPtr)
	if !ok {
		return symOpaque{}
	}
	switch {
	case pt.al != nil:
		if s.dead[pt.al] {
			return symOpaque{}
		}
		return symNavigate(s.mem[pt.al], pt.path)
	case pt.g != nil:
		if e.consts != nil {
			if v, ok := e.consts.of(pt.g); ok {
				return symNavigate(v, pt.path)
			}
		}
		return symOpaque{}
	}
	return symNavigate(pt.root, pt.path)
}

func (e *symExec) store(s *symState, x *ssa.Store) {
	v := e.val(s, x.Val)
	e.escape(s, v)
	pt, ok := e.val(s, x.Addr).(symPtr)
	if !ok {
		return // through a pointer the evaluator does not follow: cannot alias a live local cell
	}
	if pt.al == nil {
		e.abort("write to a package-level variable or table")
	}
	if !s.dead[pt.al] {
		s.mem[pt.al] = symUpdate(s.mem[pt.al], pt.path, v)
	}
}

func isSymNil(v any) bool { _, ok := v.(c20Nil); return ok }

func symNonNil(v any) bool {
	switch x := v.(type) {
	case symNonNilErr, *ssa.Function, symPtr:
		return true
	case *c20Agg:
		switch x.typ.Underlying().(type) {
		case *types.Slice, *types.Map:
			return true
		}
	}
	return false
}

func (e *symExec) instr(s *symState, v ssa.Value) any {
	opaque := func() any {
		for _, op := range v.(ssa.Instruction).Operands(nil) {
			if *op != nil {
				e.escape(s, e.val(s, *op))
			}
		}
		return symOpaque{}
	}
	switch x := v.(type) {
	case *ssa.Alloc:
		s.mem[x] = c20Zero(x.Type().Underlying().(*types.Pointer).Elem())
		delete(s.dead, x)
		return symPtr{al: x}
	case *ssa.BinOp:
		a, b := e.val(s, x.X), e.val(s, x.Y)
		ca, aok := a.(constant.Value)
		cb, bok := b.(constant.Value)
		switch x.Op {
		case token.EQL, token.NEQ:
			res, known := false, false
			switch {
			case aok && bok:
				res, known = constant.Compare(ca, token.EQL, cb), true
			case isSymNil(a) && isSymNil(b):
				res, known = true, true
			case (isSymNil(a) && symNonNil(b)) || (isSymNil(b) && symNonNil(a)):
				res, known = false, true
			}
			if known {
				return constant.MakeBool(res == (x.Op == token.EQL))
			}
			_, ta := a.(symTerm)
			_, tb := b.(symTerm)
			isStr := func(c constant.Value, ok bool) bool { return ok && c.Kind() == constant.String }
			if (ta && (tb || isStr(cb, bok))) || (tb && isStr(ca, aok)) {
				return symCond{a: a, b: b, neg: x.Op == token.NEQ}
			}
		case token.LSS, token.LEQ, token.GTR, token.GEQ:
			if aok && bok {
				return constant.MakeBool(constant.Compare(ca, x.Op, cb))
			}
		case token.ADD, token.SUB, token.MUL, token.AND, token.OR, token.XOR, token.AND_NOT, token.REM:
			if aok && bok && ca.Kind() == cb.Kind() && (ca.Kind() == constant.Int || (ca.Kind() == constant.String && x.Op == token.ADD)) {
				if x.Op == token.REM && constant.Sign(cb) == 0 {
					break
				}
				return constant.BinaryOp(ca, x.Op, cb)
			}
		case token.QUO:
			if aok && bok && ca.Kind() == constant.Int && cb.Kind() == constant.Int && constant.Sign(cb) != 0 {
				return constant.BinaryOp(ca, token.QUO_ASSIGN, cb)
			}
		}
		return symOpaque{}
	case *ssa.UnOp:
		a := e.val(s, x.X)
		switch x.Op {
		case token.MUL:
			return e.load(s, a)
		case token.NOT:
			switch c := a.(type) {
			case constant.Value:
				if c.Kind() == constant.Bool {
					return constant.MakeBool(!constant.BoolVal(c))
				}
			case symCond:
				return symCond{a: c.a, b: c.b, neg: !c.neg}
			}
		case token.SUB:
			if c, ok := a.(constant.Value); ok && c.Kind() == constant.Int {
				return constant.UnaryOp(token.SUB, c, 0)
			}
		case token.ARROW:
			e.abort("channel receive")
		}
		return symOpaque{}
	case *ssa.FieldAddr:
		if pt, ok := e.val(s, x.X).(symPtr); ok {
			pt.path = append(append([]int(nil), pt.path...), x.Field)
			return pt
		}
		return symOpaque{}
	case *ssa.IndexAddr:
		i, iok := e.val(s, x.Index).(constant.Value)
		if !iok || i.Kind() != constant.Int {
			return opaque()
		}
		n, exact := constant.Int64Val(i)
		if !exact {
			return opaque()
		}
		switch base := e.val(s, x.X).(type) {
		case symPtr: // pointer to an array
			base.path = append(append([]int(nil), base.path...), int(n))
			return base
		case *c20Agg: // slice
			if n < 0 || int(n) >= len(base.elems) {
				e.abort("index out of range")
			}
			return symPtr{root: base, path: []int{int(n)}}
		}
		return opaque()
	case *ssa.Field:
		if a, ok := e.val(s, x.X).(*c20Agg); ok && a.keys == nil && x.Field < len(a.elems) {
			return a.elems[x.Field]
		}
		return symOpaque{}
	case *ssa.Index:
		a, ok := e.val(s, x.X).(*c20Agg)
		i, iok := e.val(s, x.Index).(constant.Value)
		if ok && iok && a.keys == nil && i.Kind() == constant.Int {
			if n, exact := constant.Int64Val(i); exact && n >= 0 && int(n) < len(a.elems) {
				return a.elems[n]
			}
		}
		return symOpaque{}
	case *ssa.Lookup:
		a, ok := e.val(s, x.X).(*c20Agg)
		k, kok := e.val(s, x.Index).(constant.Value)
		m, isMap := x.X.Type().Underlying().(*types.Map)
		if !ok || !kok || !isMap || a.keys == nil && len(a.elems) > 0 {
			return symOpaque{}
		}
		var res any = c20Zero(m.Elem())
		found := false
		for i, key := range a.keys {
			if key.Kind() == k.Kind() && constant.Compare(key, token.EQL, k) {
				res, found = a.elems[i], true
			}
		}
		if x.CommaOk {
			return symTuple{res, constant.MakeBool(found)}
		}
		return res
	case *ssa.Extract:
		if t, ok := e.val(s, x.Tuple).(symTuple); ok && x.Index < len(t) {
			return t[x.Index]
		}
		return symOpaque{}
	case *ssa.ChangeType:
		return e.val(s, x.X)
	case *ssa.Convert:
		a := e.val(s, x.X)
		if c, ok := a.(constant.Value); ok {
			from, fok := x.X.Type().Underlying().(*types.Basic)
			to, tok := x.Type().Underlying().(*types.Basic)
			if fok && tok && ((from.Info()&types.IsString != 0 && to.Info()&types.IsString != 0) ||
				(from.Info()&types.IsInteger != 0 && to.Info()&types.IsInteger != 0 && c.Kind() == constant.Int)) {
				return c
			}
		}
		if t, ok := a.(symTerm); ok {
			if to, tok := x.Type().Underlying().(*types.Basic); tok && to.Info()&types.IsString != 0 {
				if from, fok := x.X.Type().Underlying().(*types.Basic); fok && from.Info()&types.IsString != 0 {
					return t
				}
			}
		}
		return symOpaque{}
	case *ssa.Call:
		return e.call(s, x)
	case *ssa.Slice:
		// a window [lo:hi] of a constant table with concrete bounds
		if a, ok := e.val(s, x.X).(*c20Agg); ok && a.keys == nil && x.Max == nil {
			if _, isSlice := a.typ.Underlying().(*types.Slice); isSlice {
				bound := func(v ssa.Value, dflt int) (int, bool) {
					if v == nil {
						return dflt, true
					}
					c, ok := e.val(s, v).(constant.Value)
					if !ok || c.Kind() != constant.Int {
						return 0, false
					}
					n, exact := constant.Int64Val(c)
					return int(n), exact
				}
				lo, lok := bound(x.Low, 0)
				hi, hok := bound(x.High, len(a.elems))
				if lok && hok {
					if lo < 0 || hi < lo || hi > len(a.elems) {
						e.abort("slice bounds out of range")
					}
					return &c20Agg{typ: a.typ, elems: a.elems[lo:hi]}
				}
			}
		}
		return opaque()
	case *ssa.Next, *ssa.Range, *ssa.MakeInterface, *ssa.MakeSlice, *ssa.MakeMap, *ssa.MakeClosure,
		*ssa.TypeAssert, *ssa.ChangeInterface, *ssa.SliceToArrayPointer, *ssa.MakeChan, *ssa.MultiConvert:
		return opaque()
	}
	e.abort("%T is outside the evaluated fragment", v)
	return nil
}

func (e *symExec) call(s *symState, x *ssa.Call) any {
	cc := x.Common()
	var args []any
	for _, a := range cc.Args {
		args = append(args, e.val(s, a))
	}
	opaque := func() any {
		for _, a := range args {
			e.escape(s, a)
		}
		return symOpaque{}
	}
	if cc.IsInvoke() {
		return opaque()
	}
	if bi, ok := cc.Value.(*ssa.Builtin); ok {
		if (bi.Name() == "len" || bi.Name() == "cap") && len(args) == 1 {
			switch a := args[0].(type) {
			case *c20Agg:
				return constant.MakeInt64(int64(len(a.elems)))
			case c20Nil:
				return constant.MakeInt64(0)
			case constant.Value:
				if a.Kind() == constant.String && bi.Name() == "len" {
					return constant.MakeInt64(int64(len(constant.StringVal(a))))
				}
			}
		}
		return opaque()
	}
	callee, _ := cc.Value.(*ssa.Function)
	if callee == nil {
		callee, _ = e.val(s, cc.Value).(*ssa.Function)
	}
	if callee == nil {
		return opaque()
	}
	str := func(v any) bool {
		switch c := v.(type) {
		case symTerm:
			return true
		case constant.Value:
			return c.Kind() == constant.String
		}
		return false
	}
	switch c20FuncName(callee) {
	case "strings.ToLower":
		if len(args) == 1 && str(args[0]) {
			return symTerm{kind: "lower", arg: args[0]}
		}
	case "strings.ToUpper":
		if len(args) == 1 && str(args[0]) {
			return symTerm{kind: "upper", arg: args[0]}
		}
	case "strings.Title":
		if len(args) == 1 && str(args[0]) {
			return symTerm{kind: "title", arg: args[0]}
		}
	case "golang.org/x/text/cases.Title":
		return symCaser{"title"}
	case "(golang.org/x/text/cases.Caser).String":
		if c, ok := args[0].(symCaser); ok && len(args) == 2 && str(args[1]) {
			return symTerm{kind: c.kind, arg: args[1]}
		}
	case "fmt.Errorf", "errors.New":
		return symNonNilErr{}
	default:
		// one level of in-package helpers without decisions of their own and without pointer arguments
		if callee.Blocks != nil && callee.Pkg != nil && callee.Pkg == x.Parent().Pkg && len(callee.FreeVars) == 0 && e.depth < 3 {
			for _, a := range args {
				if _, isPtr := a.(symPtr); isPtr {
					return opaque()
				}
			}
			sub := &symExec{consts: e.consts, depth: e.depth + 1}
			outs, ok := sub.run(callee, args)
			if ok && len(outs) == 1 && !outs[0].panics && len(outs[0].decisions) == 0 {
				if len(outs[0].results) == 1 {
					return outs[0].results[0]
				}
				return symTuple(outs[0].results)
			}
		}
	}
	return opaque()
}

// ---------------------------------------------------------------- reading the paths

// symKindAtom reads a decision as `p0 == kind(lower*(p0))`: the flag compared
// with a case conversion of itself or of its lower-cased form. Title needs the
// lower-cased form (Title leaves the tail of the word alone).
func symKindAtom(c symCond) (kind string, ok bool) {
	isFlag := func(v any) bool { t, ok := v.(symTerm); return ok && t.kind == "param" && t.idx == 0 }
	other := c.b
	if !isFlag(c.a) {
		if !isFlag(c.b) {
			return "", false
		}
		other = c.a
	}
	t, isTerm := other.(symTerm)
	if !isTerm || t.kind == "param" {
		return "", false
	}
	lowered := false
	arg := t.arg
	for i := 0; i < 4; i++ {
		if isFlag(arg) {
			if t.kind == "title" && !lowered {
				return "", false
			}
			return t.kind, true
		}
		at, ok := arg.(symTerm)
		if !ok || at.kind != "lower" {
			return "", false
		}
		lowered, arg = true, at.arg
	}
	return "", false
}

// c20EvalClassifier decides the style classifier by evaluation: on every path,
// all decisions are tests of the flag against ToLower/ToUpper/Title of its
// lower-cased form; a path that returns a nil error took exactly one of them
// positively and returns a constant style; every other path returns a provably
// non-nil error without having accepted a spelling. Returns the style per
// spelling, or why the evaluation does not establish that.
func c20EvalClassifier(consts *c20Consts, f *ssa.Function) (map[string]int64, string) {
	if f == nil || len(f.Params) != 1 || f.Signature.Results().Len() != 2 {
		return nil, "the classifier is not a func(flag) (style, error)"
	}
	ex := &symExec{consts: consts}
	outs, ok := ex.run(f, []any{symTerm{kind: "param", idx: 0}})
	if !ok {
		return nil, "not evaluable: " + ex.why
	}
	styleOf := map[string]int64{}
	for _, out := range outs {
		if out.panics || len(out.results) != 2 {
			return nil, "a path panics"
		}
		var pos []string
		for _, d := range out.decisions {
			k, ok := symKindAtom(d.cond)
			if !ok {
				return nil, "decision " + symString(d.cond) + " is not a test of the flag against a case conversion of its lower-cased form"
			}
			if d.val {
				pos = append(pos, k)
			}
		}
		switch out.results[1].(type) {
		case symNonNilErr:
			if len(pos) > 0 {
				return nil, fmt.Sprintf("an error is returned although the flag is spelled %v", pos)
			}
			continue
		case c20Nil:
		default:
			return nil, "an error result is neither nil nor provably non-nil"
		}
		c, isConst := out.results[0].(constant.Value)
		if !isConst || c.Kind() != constant.Int {
			return nil, "success with a style that is not a constant (" + symString(out.results[0]) + ")"
		}
		n, _ := constant.Int64Val(c)
		if len(pos) != 1 {
			return nil, fmt.Sprintf("style %d is returned after the tests %v: not exactly one accepted spelling", n, pos)
		}
		if old, dup := styleOf[pos[0]]; dup && old != n {
			return nil, fmt.Sprintf("%s spelling maps to styles %d and %d", pos[0], old, n)
		}
		styleOf[pos[0]] = n
	}
	seen := map[int64]string{}
	for _, kind := range []string{"lower", "upper", "title"} {
		c, ok := styleOf[kind]
		if !ok {
			return nil, "the " + kind + " spelling is never accepted"
		}
		if other, dup := seen[c]; dup {
			return nil, fmt.Sprintf("%s and %s spellings yield the same style %d", other, kind, c)
		}
		seen[c] = kind
	}
	return styleOf, ""
}

// c20EvalConverter evaluates the converter for the concrete style k on a
// symbolic word: every path must return want(word).
func c20EvalConverter(consts *c20Consts, f *ssa.Function, k int64, want string) (sites int, why string) {
	if f == nil || len(f.Params) != 2 {
		return 0, "the converter is not a func(word, style)"
	}
	ex := &symExec{consts: consts}
	outs, ok := ex.run(f, []any{symTerm{kind: "param", idx: 0}, constant.MakeInt64(k)})
	if !ok {
		return 0, "not evaluable: " + ex.why
	}
	if len(outs) == 0 {
		return 0, "no return"
	}
	for _, out := range outs {
		if out.panics || len(out.results) != 1 {
			return 0, "a path panics"
		}
		t, isTerm := out.results[0].(symTerm)
		arg, _ := t.arg.(symTerm)
		if !isTerm || t.kind != want || arg.kind != "param" || arg.idx != 0 {
			return 0, fmt.Sprintf("style %d (%s) yields %s", k, want, strings.ReplaceAll(symString(out.results[0]), "p0", "word"))
		}
	}
	return len(outs), ""
}
