package props

import (
	"go/constant"
	"go/token"

	"godcheck/core"

	"golang.org/x/tools/go/ssa"
)

// c08r9 — rule added after seeding round 7 (missed change C08-vm2).
//
// D4/K2/rescue-iff-redis-down evaluates reserveN with "the caller's context is done / live" as
// ONE fact. A context is a clock: it is live until it ends and done from then on, so a reading
// of ctx.Err() taken before the Redis round trip and one taken after it are two different
// facts, and the round trip is exactly where a caller's deadline runs out. The rule below
// evaluates reserveN in the history "live when the script was sent, done when the answer came
// back": readings of ctx.Err() that the evaluation does not dominate (they can be taken before
// the request is sent) are nil, readings taken after it are non-nil.
func c08r9(r *core.Run, reserve, startMon *ssa.Function, lim *c08lim) {
	p := r.P
	r.Check("D4/K2/ctx-state-read-after-eval", "reserveN tells a caller's own context error from a Redis outage by the state the caller's context has AFTER the evaluation returned: in the history where the caller's context is still live when the script is sent and ends (deadline, cancellation) during the round trip - every ctx.Err() read that can be taken before EvalCtx is nil, every one taken after it is non-nil - an error that matches context.DeadlineExceeded / context.Canceled is refused (false) without startMonitor and without the in-process limiter (decided by evaluating reserveN in that history, whatever the spelling: a temporary, a boolean, errors.Is(err, ctx.Err()), a helper) [clauses 'granted iff n tokens are available … at most burst + rate × t' and 'keeps limiting in process if Redis becomes unreachable': a context state sampled before the round trip is stale - the caller's deadline expiring in flight is taken for an outage, redisAlive drops to 0 although Redis is healthy, and this request and all others until the monitor's next ping are answered from a full in-process bucket while the Redis bucket is exhausted]", func(o *core.O) {
		if !o.Need(reserve != nil, "TokenLimiter.reserveN") || !o.Need(lim.has("redisAlive", "rescueLimiter"), "the limiter's redisAlive / rescueLimiter fields") || !o.Need(startMon != nil, "the function that marks Redis down (startMonitor)") {
			return
		}
		f := reserve
		r.Fn(core.FuncName(f))
		w := newC12fn(f)
		isAliveAddr := lim.isAddr("redisAlive")
		evals := core.Calls(f, core.CallTo("(*"+c12redisPkg+".Redis).EvalCtx"))
		if !o.Need(len(evals) == 1, "one EvalCtx call in reserveN") {
			return
		}
		ev, isCall := evals[0].(*ssa.Call)
		if !o.Need(isCall, "EvalCtx called directly (not deferred / spawned)") {
			return
		}
		ctxIdx := w.paramIndex(core.Forward(ev.Call.Args[1]))
		if !o.Need(ctxIdx >= 1, "the evaluation runs with a context parameter of reserveN") {
			return
		}
		isRescue := func(v ssa.Value) bool {
			c, ok := core.Strip(v).(*ssa.Call)
			if !ok || core.CalleeName(c) != "(*golang.org/x/time/rate.Limiter).AllowN" {
				return false
			}
			_, isLim := lim.stateField(c.Call.Args[0], "rescueLimiter")
			return isLim
		}
		isLoadAlive := func(v ssa.Value) bool {
			c, ok := core.Strip(v).(*ssa.Call)
			return ok && core.CalleeName(c) == "sync/atomic.LoadUint32" && isAliveAddr(c.Call.Args[0])
		}
		isErr := func(v ssa.Value) bool { c, i := core.ResultOf(core.Forward(v)); return c == ev && i == 1 }
		isRNil := func(v ssa.Value) bool {
			s, ok := core.ConstString(v)
			return ok && s == "redis: nil"
		}
		isStart := func(in ssa.Instruction) bool {
			c := core.AsCall(in)
			return c != nil && c.Common().StaticCallee() == startMon
		}
		// a reading of the state of the caller's context: Err() invoked on the context parameter the
		// evaluation runs with
		ctxErrCall := func(v ssa.Value) *ssa.Call {
			c, ok := core.Forward(v).(*ssa.Call)
			if !ok || !c.Call.IsInvoke() || c.Call.Method.Name() != "Err" {
				return nil
			}
			if w.paramIndex(core.Forward(c.Call.Value)) != ctxIdx {
				return nil
			}
			return c
		}
		// the history: live before the answer is back, done afterwards. A reading is "after" only when
		// the evaluation dominates it (no path takes it without the answer being there).
		doneAt := func(c *ssa.Call) bool { return c.Parent() == f && core.Dominates(ev, c) }
		var reads, stale []*ssa.Call
		for _, in := range core.Instrs(f, func(in ssa.Instruction) bool { v, ok := in.(ssa.Value); return ok && ctxErrCall(v) == in }) {
			c := in.(*ssa.Call)
			reads = append(reads, c)
			if !doneAt(c) {
				stale = append(stale, c)
			}
		}
		o.Site(len(reads), "readings of the caller's ctx.Err() in reserveN")
		// (a reserveN that never reads the caller's context is evaluated all the same: it either refuses every
		// error that matches a context error - silent here, D4/K2/rescue-iff-redis-down reports it - or falls back
		// on all of them, which is the violation of this rule too)
		staleHint := func() string {
			if len(stale) == 0 {
				return ""
			}
			return " (ctx.Err() is read at " + p.InstrPos(stale[0]) + ", where the answer of Redis is not there yet: that value says nothing about a context that ends during the round trip)"
		}
		type c08rescueV struct{}
		for _, sc := range []struct {
			what        string
			isDE, isCan bool
		}{
			{"the caller's deadline expires during the Redis round trip (ctx.Err() == nil before EvalCtx, != nil after it; errors.Is(err, context.DeadlineExceeded))", true, false},
			{"the caller cancels during the Redis round trip (ctx.Err() == nil before EvalCtx, != nil after it; errors.Is(err, context.Canceled))", false, true},
		} {
			sc := sc
			b2c := func(b bool) (any, bool) { return constant.MakeBool(b), true }
			it := c08exploreWatch(f, func(v ssa.Value) (any, bool) {
				switch x := v.(type) {
				case *ssa.Extract:
					if c, i := core.ResultOf(x); c == ev && i == 1 {
						return c08nonNilV{}, true
					}
				case *ssa.BinOp:
					if (x.Op == token.EQL || x.Op == token.NEQ) && ((isErr(x.X) && isRNil(x.Y)) || (isErr(x.Y) && isRNil(x.X))) {
						return b2c(x.Op == token.NEQ)
					}
				case *ssa.Call:
					switch {
					case isLoadAlive(x):
						return constant.MakeInt64(1), true
					case isRescue(x):
						return c08rescueV{}, true
					case ctxErrCall(x) == x:
						if doneAt(x) {
							return c08nonNilV{}, true
						}
						return c08nilV{}, true
					case core.CalleeName(x) == "errors.Is" && len(x.Call.Args) == 2 && isErr(x.Call.Args[0]):
						switch t := x.Call.Args[1]; {
						case core.IsGlobal("context", "DeadlineExceeded")(t):
							return b2c(sc.isDE)
						case core.IsGlobal("context", "Canceled")(t):
							return b2c(sc.isCan)
						case ctxErrCall(t) != nil: // errors.Is(err, ctx.Err()): matches the caller's own error once there is one
							return b2c(doneAt(ctxErrCall(t)))
						case isRNil(t):
							return b2c(false)
						}
					}
				}
				return nil, false
			}, isStart)
			if it.failed != "" {
				o.Unres("reserveN when %s: %s", sc.what, it.failed)
				continue
			}
			o.Site(len(it.rets))
			for _, rt := range it.rets {
				if len(rt.vals) != 1 {
					continue
				}
				cv, isC := rt.vals[0].(constant.Value)
				refused := isC && cv.Kind() == constant.Bool && !constant.BoolVal(cv)
				_, rescued := rt.vals[0].(c08rescueV)
				started := len(rt.trace) > 0
				switch {
				case rescued || started:
					o.Fail(p.InstrPos(rt.ret), "when %s the fallback is taken (startMonitor called: %v, in-process limiter answers: %v)%s: the caller's own context error is taken for a Redis outage, redisAlive drops to 0 although Redis is healthy, and until the monitor's next ping every request is answered from a full in-process bucket - more than burst + rate × t events admitted", sc.what, started, rescued, staleHint())
				case !refused:
					o.Fail(p.InstrPos(rt.ret), "when %s reserveN answers %s, expected false (a caller's own context error is neither a grant nor an outage)%s", sc.what, w.shape(core.Result(rt.ret, 0), nil), staleHint())
				}
			}
		}
	})
}
