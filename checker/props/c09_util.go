package props

import (
	"fmt"
	"go/token"
	"go/types"

	"godcheck/core"

	"golang.org/x/tools/go/ssa"
)

// ---- index loops: which values does an induction variable take in the loop body? ----

// indexLoop describes a loop whose induction variable φ steps by ±1 and whose only
// exit is a comparison of the variable with a bound: in the loop body φ takes
// exactly the integers of the closed interval [lo, hi] (each once; the order is
// Up or down). `for i := a; i < b; i++`, `for i := b-1; i >= a; i--` and
// `for i, end := s, s+n; i < end; i++` are all of this kind; what a rule compares is the visited interval, not the spelling.
type indexLoop struct {
	phi    *ssa.Phi
	Up     bool
	init   ssa.Value // value on entry
	bound  ssa.Value // value the variable is compared with
	strict bool      // the bound itself is not visited
}

// bounds returns the visited interval in the algebra a.
func (l indexLoop) bounds(a *core.Alg) (lo, hi core.Poly) {
	in, bd := a.Norm(l.init), a.Norm(l.bound)
	if l.Up {
		lo, hi = in, bd
		if l.strict {
			hi = bd.Sub(core.PInt(1))
		}
		return
	}
	lo, hi = bd, in
	if l.strict {
		lo = bd.Add(core.PInt(1))
	}
	return
}

// stepOf recognises v ≡ phi + s with s = ±1.
func stepOf(v ssa.Value, phi *ssa.Phi) (int, bool) {
	b, ok := v.(*ssa.BinOp)
	if !ok {
		return 0, false
	}
	isPhi := func(x ssa.Value) bool { return x == ssa.Value(phi) }
	switch b.Op {
	case token.ADD:
		if c, isC := core.ConstInt(b.Y); isC && isPhi(b.X) && (c == 1 || c == -1) {
			return int(c), true
		}
		if c, isC := core.ConstInt(b.X); isC && isPhi(b.Y) && (c == 1 || c == -1) {
			return int(c), true
		}
	case token.SUB:
		if c, isC := core.ConstInt(b.Y); isC && isPhi(b.X) && (c == 1 || c == -1) {
			return int(-c), true
		}
	}
	return 0, false
}

// loopBlocks is the natural loop of header h: the blocks h dominates from which h is reachable.
func loopBlocks(h *ssa.BasicBlock) map[*ssa.BasicBlock]bool {
	in := map[*ssa.BasicBlock]bool{h: true}
	var work []*ssa.BasicBlock
	for _, p := range h.Preds {
		if h.Dominates(p) && !in[p] {
			in[p] = true
			work = append(work, p)
		}
	}
	for len(work) > 0 {
		b := work[len(work)-1]
		work = work[:len(work)-1]
		for _, p := range b.Preds {
			if !in[p] && h.Dominates(p) {
				in[p] = true
				work = append(work, p)
			}
		}
	}
	return in
}

// continueTest reads the terminator of blk as "the loop goes on iff x OP y" and returns
// x, OP, y (OP negated when the loop continues on the false successor).
func continueTest(blk *ssa.BasicBlock, inLoop map[*ssa.BasicBlock]bool) (x ssa.Value, op token.Token, y ssa.Value, ok bool) {
	if len(blk.Instrs) == 0 {
		return
	}
	iff, isIf := blk.Instrs[len(blk.Instrs)-1].(*ssa.If)
	if !isIf || len(blk.Succs) != 2 {
		return
	}
	c, isB := iff.Cond.(*ssa.BinOp)
	if !isB {
		return
	}
	op = c.Op
	switch {
	case inLoop[blk.Succs[0]] && !inLoop[blk.Succs[1]]:
	case inLoop[blk.Succs[1]] && !inLoop[blk.Succs[0]]:
		op = negCmp(op)
	default:
		return
	}
	if op == token.ILLEGAL {
		return
	}
	return c.X, op, c.Y, true
}

// indexLoopOf recognises the loop that φ is the induction variable of.
//
// The accepted block shape is the for-loop's: the φ's own block (the header) ends in the
// test "φ OP bound", which is the single exit. Any other way out of the loop (break,
// return, panic inside the body) makes the visited set depend on more than the bounds:
// not recognised. (The rotated form go/ssa emits for `for i := range n` is not handled:
// the module's go directive, 1.19, has no range-over-int.)
func indexLoopOf(phi *ssa.Phi) (indexLoop, bool) {
	var lp indexLoop
	if len(phi.Edges) != 2 {
		return lp, false
	}
	h := phi.Block()
	step, back := 0, -1
	for i, e := range phi.Edges {
		if s, ok := stepOf(e, phi); ok && h.Dominates(h.Preds[i]) {
			step, back = s, i
		}
	}
	if back < 0 {
		return lp, false
	}
	lp.phi, lp.Up, lp.init = phi, step > 0, phi.Edges[1-back]
	if core.DependsOn(lp.init, func(v ssa.Value) bool { return v == ssa.Value(phi) }) {
		return lp, false
	}
	in := loopBlocks(h)
	var test *ssa.BasicBlock
	// header test on φ
	if x, op, y, ok := continueTest(h, in); ok && (x == ssa.Value(phi) || y == ssa.Value(phi)) {
		if y == ssa.Value(phi) {
			x, y, op = y, x, flipCmp(op)
		}
		lp.bound, test = y, h
		if !lp.setOp(op) {
			return lp, false
		}
	} else {
		return lp, false
	}
	if core.DependsOn(lp.bound, func(v ssa.Value) bool { return v == ssa.Value(phi) }) {
		return lp, false
	}
	// the test is the only way out of the loop
	for b := range in {
		if len(b.Succs) == 0 {
			return lp, false
		}
		for _, s := range b.Succs {
			if !in[s] && b != test {
				return lp, false
			}
		}
	}
	return lp, true
}

// setOp interprets "the loop goes on while variable OP bound" for the step direction.
func (l *indexLoop) setOp(op token.Token) bool {
	switch {
	case l.Up && op == token.LSS, !l.Up && op == token.GTR:
		l.strict = true
	case l.Up && op == token.LEQ, !l.Up && op == token.GEQ:
		l.strict = false
	default:
		return false // wrong direction or != : the visited set is not the interval
	}
	return true
}

// polyFn renders the application of an uninterpreted symbol the way core.Alg does.
func polyFn(name string, args ...core.Poly) core.Poly {
	s := name + "("
	for i, a := range args {
		if i > 0 {
			s += ", "
		}
		s += a.String()
	}
	return core.PAtom(s + ")")
}

// sameIndexSet decides {got(i) : i ∈ [lo,hi]} = {want(j) : j ∈ [0,n)} for an index
// expression got (normal form over the loop atom "i") and the expected family
// want(j): it holds when got(i) ≡ want(i − lo) or got(i) ≡ want(hi − i) (the loop
// runs over the family forwards or backwards, shifted) and the interval has n
// elements. The empty string is returned on success, else what differs.
func sameIndexSet(got core.Poly, lo, hi core.Poly, want func(j core.Poly) core.Poly, n core.Poly) string {
	i := core.PAtom("i")
	if trips := hi.Sub(lo).Add(core.PInt(1)); !trips.Equal(n) {
		return fmt.Sprintf("visits %v indices (i = %v … %v), expected %v", trips, lo, hi, n)
	}
	if got.Equal(want(i.Sub(lo))) || got.Equal(want(hi.Sub(i))) {
		return ""
	}
	return fmt.Sprintf("addresses %v for i = %v … %v, expected the indices %v for i = 0 … %v", got, lo, hi, want(i), n.Sub(core.PInt(1)))
}

// ---- case split over φ-nodes ----

// polyCase is one alternative of a value that merges several definitions: its normal
// form and the predecessor blocks (one per φ expanded) through which it is chosen.
type polyCase struct {
	val core.Poly
	via []*ssa.BasicBlock
}

// casesOf expands the φ-nodes a value is (linearly) built from: `n − φ(a, b)` yields
// the cases n − a and n − b, each tagged with the φ's predecessor block. Loop
// variables and φ-nodes occurring inside function symbols are left as atoms.
func casesOf(a *core.Alg, v ssa.Value) []polyCase {
	phis := map[string]*ssa.Phi{}
	name := a.Name
	b := &core.Alg{Inline: a.Inline, Opaque: a.Opaque, Name: func(x ssa.Value) string {
		if phi, ok := x.(*ssa.Phi); ok {
			if _, isLoop := indexLoopOf(phi); !isLoop {
				n := fmt.Sprintf("φ%d_%d", phi.Block().Index, len(phis))
				for k, p := range phis {
					if p == phi {
						n = k
					}
				}
				phis[n] = phi
				return n
			}
		}
		if name != nil {
			return name(x)
		}
		return ""
	}}
	var expand func(p core.Poly, via []*ssa.BasicBlock, depth int) []polyCase
	expand = func(p core.Poly, via []*ssa.BasicBlock, depth int) []polyCase {
		for _, at := range p.Atoms() {
			phi, ok := phis[at]
			if !ok || depth > 3 {
				continue
			}
			coef, rest, linear := p.Coef(at)
			if !linear {
				continue
			}
			var out []polyCase
			for i, e := range phi.Edges {
				q := coef.Mul(b.Norm(e)).Add(rest)
				w := append(append([]*ssa.BasicBlock{}, via...), phi.Block().Preds[i])
				out = append(out, expand(q, w, depth+1)...)
				if len(out) > 32 {
					break
				}
			}
			return out
		}
		return []polyCase{{p, via}}
	}
	return expand(b.Norm(v), nil, 0)
}

// ---- accumulator updates routed through a step function (acc = step(acc, b)) ----

// c09StepFunction recognises `step(old, b)` as the new value of an accumulator of the reducer g:
// a call of an in-package function with a body — called statically, or through a free variable of
// g that the closure's creation site mc binds to one function (by value, or a captured variable
// assigned exactly once, a function, and written by no closure) — with exactly two arguments: the
// previous accumulator (recognised by old) and g's own bucket parameter, passed unchanged. It
// returns the function and its parameter holding the previous accumulator, or nil.
func c09StepFunction(g *ssa.Function, mc *ssa.MakeClosure, val ssa.Value, old func(ssa.Value) bool) (*ssa.Function, *ssa.Parameter) {
	cl, ok := c09SameValue(val).(*ssa.Call)
	if !ok || cl.Call.IsInvoke() || len(cl.Call.Args) != 2 {
		return nil, nil
	}
	h := cl.Call.StaticCallee()
	if h == nil && mc != nil {
		h = c09BoundFunction(g, mc, cl.Call.Value)
	}
	if h == nil || h.Blocks == nil || len(h.Params) != 2 || len(h.FreeVars) != 0 || h.Signature.Results().Len() != 1 {
		return nil, nil
	}
	var acc *ssa.Parameter
	nb := 0
	for i, arg := range cl.Call.Args {
		switch {
		case old(arg):
			acc = h.Params[i]
		default:
			if par, isPar := core.Forward(arg).(*ssa.Parameter); isPar && par.Parent() == g {
				if _, isPtr := par.Type().Underlying().(*types.Pointer); isPtr {
					nb++
				}
			}
		}
	}
	if acc == nil || nb != 1 {
		return nil, nil
	}
	// the parameter holding the previous accumulator is never re-assigned (a parameter whose
	// address is taken lives in a cell: then it is not recognised)
	return h, acc
}

// c09BoundFunction resolves the callee value fv of a dynamic call inside the closure g — a free
// variable (captured by value) or a load of one (captured by reference) — to the single function
// the creation site mc binds it to.
func c09BoundFunction(g *ssa.Function, mc *ssa.MakeClosure, fv ssa.Value) *ssa.Function {
	if u, isLoad := fv.(*ssa.UnOp); isLoad && u.Op == token.MUL {
		fv = u.X
	}
	idx := -1
	for i, x := range g.FreeVars {
		if ssa.Value(x) == fv {
			idx = i
		}
	}
	if idx < 0 || idx >= len(mc.Bindings) {
		return nil
	}
	writes := func(h *ssa.Function, k int) bool {
		if h == nil || k >= len(h.FreeVars) {
			return true
		}
		for _, f := range core.WithAnon(h) {
			for _, b := range f.Blocks {
				for _, in := range b.Instrs {
					if st, isSt := in.(*ssa.Store); isSt && st.Addr == ssa.Value(h.FreeVars[k]) {
						return true
					}
					// handed on to a nested closure: not followed
					if m, isMC := in.(*ssa.MakeClosure); isMC && f == h {
						for _, bb := range m.Bindings {
							if bb == ssa.Value(h.FreeVars[k]) {
								return true
							}
						}
					}
				}
			}
		}
		return false
	}
	switch bd := mc.Bindings[idx].(type) {
	case *ssa.Function:
		return bd
	case *ssa.Alloc:
		if bd.Referrers() == nil {
			return nil
		}
		var fn *ssa.Function
		nst := 0
		for _, ref := range *bd.Referrers() {
			switch x := ref.(type) {
			case *ssa.Store:
				if x.Addr != ssa.Value(bd) {
					return nil // the cell itself escapes
				}
				nst++
				fn, _ = x.Val.(*ssa.Function)
			case *ssa.UnOp:
				if x.Op != token.MUL {
					return nil
				}
			case *ssa.MakeClosure:
				h, _ := x.Fn.(*ssa.Function)
				for k, bb := range x.Bindings {
					if bb == ssa.Value(bd) && writes(h, k) {
						return nil
					}
				}
			case *ssa.DebugRef:
			default:
				return nil
			}
		}
		if nst != 1 {
			return nil
		}
		return fn
	}
	return nil
}

// c09Update is one way a step function returns: the returned value and the instruction every
// path returning it passes (the return itself, or the end of the predecessor block through which
// a merged result takes this value).
type c09Update struct {
	val ssa.Value
	at  ssa.Instruction
}

// c09ReturnedUpdates lists what the single-result function h can return, splitting merged results
// (φ-nodes in the returning block, two levels) by incoming edge.
func c09ReturnedUpdates(h *ssa.Function) []c09Update {
	var out []c09Update
	var expand func(v ssa.Value, at ssa.Instruction, depth int)
	expand = func(v ssa.Value, at ssa.Instruction, depth int) {
		v = c09SameValue(v)
		phi, isPhi := v.(*ssa.Phi)
		if !isPhi || depth > 2 {
			out = append(out, c09Update{v, at})
			return
		}
		for i, e := range phi.Edges {
			pred := phi.Block().Preds[i]
			expand(e, pred.Instrs[len(pred.Instrs)-1], depth+1)
		}
	}
	for _, b := range h.Blocks {
		if len(b.Instrs) == 0 {
			continue
		}
		if ret, isRet := b.Instrs[len(b.Instrs)-1].(*ssa.Return); isRet && len(ret.Results) == 1 {
			expand(ret.Results[0], ret, 0)
		}
	}
	return out
}
