package props

import (
	"godcheck/core"

	"golang.org/x/tools/go/ssa"
)

// c20Extra: rules added after the fourth independent seeding round.
func c20Extra(r *core.Run, ext *core.Ext, rel string) {
	p := r.P
	defer c20R9(r, ext) // rules of the defect hunt (c20_r9.go)
	defer c20R11(r, ext) // D4/K6/size-arguments-non-negative (c20_r11.go)
	r.Check("D4/K2/no-word-dropped", "the splitter of util/stringx hands out every non-empty piece: wherever the word buffer's length decides whether the buffered piece is appended, a buffer holding a single byte is appended and an empty one is not (evaluated for Len() = 1 and 0) – a trailing one-letter word must survive the camel/snake round trip", func(o *core.O) {
		isLen := core.Or(core.CallMethod("bytes.Buffer", "Len"), core.CallMethod("strings.Builder", "Len"))
		isString := core.Or(core.CallMethod("bytes.Buffer", "String"), core.CallMethod("strings.Builder", "String"))
		n := 0
		for _, f := range ext.Funcs(rel) {
			lens := core.Instrs(f, isLen)
			if len(lens) == 0 || len(core.Instrs(f, isString)) == 0 {
				continue
			}
			for _, l := range lens {
				lc, ok := l.(*ssa.Call)
				if !ok {
					continue
				}
				// only length tests that decide about handing out the buffer: a String() is reachable before the next length test
				other := func(in ssa.Instruction) bool { return isLen(in) && in != l }
				if _, ok := core.Reach(core.Q{From: []core.At{core.After(l)}, Target: isString, Blocked: other}); !ok {
					continue
				}
				n++
				r.Fn(core.FuncName(f))
				isVar := func(v ssa.Value) bool { return v == ssa.Value(lc) }
				if _, ok := core.Reach(core.Q{From: []core.At{core.After(l)}, Target: isString, Blocked: other, Cut: concreteCutX(f, isVar, 1)}); !ok {
					o.Fail(p.InstrPos(l), "%s does not hand out a buffered piece of length 1: a one-letter word (\"plan_b\" → \"Plan\") is dropped", core.FuncName(f))
				}
				if w, ok := core.Reach(core.Q{From: []core.At{core.After(l)}, Target: isString, Blocked: other, Cut: concreteCutX(f, isVar, 0)}); ok {
					// an empty buffer handed out is an empty word: tolerated only if nothing guards at all (then the rule does not apply)
					if _, guarded := core.Reach(core.Q{From: []core.At{core.After(l)}, Target: isString, Blocked: other, Cut: concreteCutX(f, isVar, 1)}); guarded {
						o.Fail(p.InstrPos(w), "%s hands out an empty piece (buffer length 0)", core.FuncName(f))
					}
				}
			}
		}
		o.Site(n, rel)
	})
}
