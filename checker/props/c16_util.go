package props

import (
	"fmt"
	"go/token"
	"go/types"
	"sort"
	"strings"

	"godcheck/core"

	"golang.org/x/tools/go/ssa"
)

// ---------------------------------------------------------------------------
// Function values: `x.m` (bound method value), closures, plain functions
// ---------------------------------------------------------------------------

// c16BoundMethod returns the full name of the method behind a bound-method
// wrapper ("(*sync.WaitGroup).Wait"), or "" when w is not such a wrapper.
func c16BoundMethod(w *ssa.Function) string {
	if w == nil || !strings.HasPrefix(w.Synthetic, "bound method wrapper") || w.Object() == nil {
		return ""
	}
	if tf, ok := w.Object().(*types.Func); ok {
		return tf.FullName()
	}
	return ""
}

// c16ForwardingWrapper: w is a bound-method wrapper whose body is still the
// single forwarding call `recv.m(params...)` (the loader's variant 2 replaces
// that body by the body of m when m is a method that is new since the pinned
// tree; such a wrapper is, for every purpose, a closure over the receiver).
func c16ForwardingWrapper(w *ssa.Function) bool {
	if c16BoundMethod(w) == "" || len(w.Blocks) != 1 || len(w.FreeVars) != 1 {
		return false
	}
	t := boundTarget(w)
	for _, in := range w.Blocks[0].Instrs {
		if c, ok := in.(*ssa.Call); ok {
			if g := c.Call.StaticCallee(); g != nil && (t == nil || g == t) && len(c.Call.Args) > 0 && c.Call.Args[0] == ssa.Value(w.FreeVars[0]) {
				return true
			}
		}
	}
	return false
}

// c16Funcs lists the functions of package rel, the closures they create and the
// bound-method wrappers that carry a method body (see c16ForwardingWrapper).
func c16Funcs(p *core.Prog, rel string) []*ssa.Function {
	out := pkgFuncsAll(p, rel)
	seen := map[*ssa.Function]bool{}
	for _, f := range out {
		seen[f] = true
	}
	for i := 0; i < len(out); i++ {
		for _, b := range out[i].Blocks {
			for _, in := range b.Instrs {
				mc, ok := in.(*ssa.MakeClosure)
				if !ok {
					continue
				}
				g, ok := mc.Fn.(*ssa.Function)
				if !ok || seen[g] || g.Blocks == nil {
					continue
				}
				if c16BoundMethod(g) != "" && !c16ForwardingWrapper(g) {
					seen[g] = true
					out = append(out, g)
				}
			}
		}
	}
	return out
}

// c16FnValue describes a function value at the place it is used.
type c16FnValue struct {
	body   *ssa.Function // function of the module whose body runs (nil: outside / unknown)
	method string        // bound method value: full name of the method ...
	recv   ssa.Value     // ... and the receiver it is bound to
}

// c16ResolveFn resolves a function-typed value: a closure, a function, a variable
// holding one closure, a bound method value x.m (→ body of m, receiver x).
func c16ResolveFn(v ssa.Value) (c16FnValue, bool) {
	if v == nil {
		return c16FnValue{}, false
	}
	if _, ok := v.Type().Underlying().(*types.Signature); !ok {
		return c16FnValue{}, false
	}
	switch x := resolve(v).(type) {
	case *ssa.Function:
		if x.Blocks != nil {
			return c16FnValue{body: x}, true
		}
		return c16FnValue{}, true
	case *ssa.MakeClosure:
		g, _ := x.Fn.(*ssa.Function)
		if g == nil {
			return c16FnValue{}, false
		}
		if m := c16BoundMethod(g); m != "" && c16ForwardingWrapper(g) && len(x.Bindings) == 1 {
			fv := c16FnValue{method: m, recv: x.Bindings[0]}
			if t := boundTarget(g); t != nil && t.Blocks != nil {
				fv.body = t
			}
			return fv, true
		}
		return c16FnValue{body: g}, true
	}
	return c16FnValue{}, false
}

// ---------------------------------------------------------------------------
// "this call performs operation X on the executor's WaitGroup"
// ---------------------------------------------------------------------------

// c16WG decides whether an instruction performs a sync.WaitGroup operation on the
// field wgField ("T.f"): directly, through a function value handed to a
// synchronous call (`barrier.Guard(func(){ wg.Add(1) })`, `barrier.Guard(wg.Wait)`,
// `barrier.Guard(pe.addExecution)`), and – deep – through functions of the
// package called statically. Function values handed to a goroutine starter
// (async) do not run as part of the call.
type c16WG struct {
	wgField string
	inPkg   map[*ssa.Function]bool
	async   func(ssa.CallInstruction) bool
	memo    map[string]int // 1 in progress, 2 no, 3 yes
}

func (w *c16WG) direct(in ssa.Instruction, op string) bool {
	c := core.AsCall(in)
	if c == nil || c.Common().IsInvoke() {
		return false
	}
	if core.Short(core.CalleeName(c)) != "(*sync.WaitGroup)."+op {
		return false
	}
	a := c.Common().Args
	return len(a) > 0 && core.FieldAddrName(a[0]) == w.wgField
}

// at: does executing `in` (a call/defer; never a `go`) perform op?
func (w *c16WG) at(in ssa.Instruction, op string, deep bool) bool {
	c := core.AsCall(in)
	if c == nil {
		return false
	}
	if _, isGo := in.(*ssa.Go); isGo {
		return false
	}
	if w.direct(in, op) {
		return true
	}
	cc := c.Common()
	if !cc.IsInvoke() {
		if _, isB := cc.Value.(*ssa.Builtin); isB {
			return false
		}
		// the callee itself
		if fv, ok := c16ResolveFn(cc.Value); ok {
			_, viaValue := cc.Value.(*ssa.Function)
			if !viaValue || deep {
				if w.value(fv, op, deep) {
					return true
				}
			}
		}
	}
	if w.async != nil && w.async(c) {
		return false
	}
	for _, a := range cc.Args {
		if fv, ok := c16ResolveFn(a); ok && w.value(fv, op, deep) {
			return true
		}
	}
	return false
}

func (w *c16WG) value(fv c16FnValue, op string, deep bool) bool {
	if fv.method == "(*sync.WaitGroup)."+op && fv.recv != nil && core.FieldAddrName(fv.recv) == w.wgField {
		return true
	}
	if fv.body != nil && (w.inPkg[fv.body] || fv.body.Parent() != nil || fv.body.Synthetic != "") {
		return w.fn(fv.body, op, deep)
	}
	return false
}

// fn: does running f perform op (deep: through static callees of the package too)?
func (w *c16WG) fn(f *ssa.Function, op string, deep bool) bool {
	if f == nil || f.Blocks == nil {
		return false
	}
	k := fmt.Sprintf("%p/%s/%v", f, op, deep)
	switch w.memo[k] {
	case 1, 2:
		return false
	case 3:
		return true
	}
	w.memo[k] = 1
	r := false
	for _, b := range f.Blocks {
		for _, in := range b.Instrs {
			if !r && w.at(in, op, deep) {
				r = true
			}
		}
	}
	if r {
		w.memo[k] = 3
	} else {
		w.memo[k] = 2
	}
	return r
}

// ---------------------------------------------------------------------------
// Path enumeration with boolean facts
// ---------------------------------------------------------------------------

// c16PathQ is a path query that is sensitive to boolean flags: along a path it
// knows the value of every boolean φ whose incoming value is a constant (or a
// known value), of every branch condition already decided on that path, and of
// every boolean variable cell of the function that is only stored to and loaded
// from (a named result captured by a closure that was inlined, a spill slot).
// `quit := false; …; quit = true; …; if quit { return }`, a boolean helper result
// merged by a φ and tested in another block, and `return` in place are the same
// paths to it.
type c16PathQ struct {
	Fn      *ssa.Function
	From    []core.At
	Cut     func(core.Edge) bool
	Blocked func(ssa.Instruction) bool
	Mark    func(ssa.Instruction) bool // executing such an instruction sets the path's mark
	// Visit is called for every instruction a path executes; returning true stops the query.
	Visit func(in ssa.Instruction, st *c16PathState) bool
}

type c16PathState struct {
	env    map[ssa.Value]bool
	Marked bool
}

// Val returns the value of the boolean v on this path, when the path determines it.
func (s *c16PathState) Val(v ssa.Value) (val, known bool) {
	for i := 0; i < 8; i++ {
		switch x := v.(type) {
		case *ssa.Const:
			if x.Value == nil {
				return false, false
			}
			switch x.Value.String() {
			case "true":
				return true, true
			case "false":
				return false, true
			}
			return false, false
		case *ssa.UnOp:
			if x.Op == token.NOT {
				b, ok := s.Val(x.X)
				return !b, ok
			}
		case *ssa.ChangeType:
			v = x.X
			continue
		}
		break
	}
	b, ok := s.env[v]
	return b, ok
}

func (s *c16PathState) clone() *c16PathState {
	n := &c16PathState{env: make(map[ssa.Value]bool, len(s.env)+1), Marked: s.Marked}
	for k, v := range s.env {
		n.env[k] = v
	}
	return n
}

func (s *c16PathState) key(b *ssa.BasicBlock) string {
	var parts []string
	for k, v := range s.env {
		parts = append(parts, fmt.Sprintf("%s=%v", k.Name(), v))
	}
	sort.Strings(parts)
	return fmt.Sprintf("%d|%v|%s", b.Index, s.Marked, strings.Join(parts, ","))
}

// c16BoolCell: al is a boolean variable that is only stored to and loaded from
// directly (its address goes nowhere else).
func c16BoolCell(al *ssa.Alloc) bool {
	pt, ok := al.Type().Underlying().(*types.Pointer)
	if !ok {
		return false
	}
	if bt, ok := pt.Elem().Underlying().(*types.Basic); !ok || bt.Kind() != types.Bool {
		return false
	}
	refs := al.Referrers()
	if refs == nil {
		return false
	}
	for _, r := range *refs {
		switch x := r.(type) {
		case *ssa.Store:
			if x.Addr != ssa.Value(al) {
				return false
			}
		case *ssa.UnOp:
			if x.Op != token.MUL {
				return false
			}
		case *ssa.DebugRef:
		default:
			return false
		}
	}
	return true
}

func isBoolValue(v ssa.Value) bool {
	bt, ok := v.Type().Underlying().(*types.Basic)
	return ok && bt.Info()&types.IsBoolean != 0
}

// c16Paths runs the query; it reports false when the state bound was exceeded
// (the caller must then treat the question as undecided).
func c16Paths(q c16PathQ) (complete bool) {
	type item struct {
		at core.At
		st *c16PathState
	}
	cells := map[*ssa.Alloc]bool{}
	for _, b := range q.Fn.Blocks {
		for _, in := range b.Instrs {
			if al, ok := in.(*ssa.Alloc); ok && c16BoolCell(al) {
				cells[al] = true
			}
		}
	}
	// cells allocated before the starting points hold their zero value only when the
	// path starts at the entry; otherwise they are unknown until stored to.
	seen := map[string]bool{}
	var work []item
	for _, f := range q.From {
		work = append(work, item{f, &c16PathState{env: map[ssa.Value]bool{}}})
	}
	states := 0
	for len(work) > 0 {
		it := work[len(work)-1]
		work = work[:len(work)-1]
		at, st := it.at, it.st
		if at.Idx == 0 {
			k := st.key(at.B)
			if seen[k] {
				continue
			}
			seen[k] = true
			if states++; states > 20000 {
				return false
			}
		}
		stopped := false
		for i := at.Idx; i < len(at.B.Instrs); i++ {
			in := at.B.Instrs[i]
			if _, isPhi := in.(*ssa.Phi); isPhi {
				continue // evaluated on the edge
			}
			if q.Blocked != nil && q.Blocked(in) {
				stopped = true
				break
			}
			if q.Visit != nil && q.Visit(in, st) {
				return true
			}
			if q.Mark != nil && q.Mark(in) {
				st.Marked = true
			}
			switch x := in.(type) {
			case *ssa.Alloc:
				if cells[x] {
					st.env[x] = false
				}
			case *ssa.Store:
				if al, ok := x.Addr.(*ssa.Alloc); ok && cells[al] {
					if b, known := st.Val(x.Val); known {
						st.env[al] = b
					} else {
						delete(st.env, al)
					}
				}
			case *ssa.UnOp:
				delete(st.env, x)
				if x.Op == token.MUL {
					if al, ok := x.X.(*ssa.Alloc); ok && cells[al] {
						if b, known := st.env[al]; known {
							st.env[x] = b
						}
					}
				}
			default:
				if v, ok := in.(ssa.Value); ok {
					delete(st.env, v)
				}
			}
		}
		if stopped {
			continue
		}
		var cond ssa.Value
		if iff, ok := at.B.Instrs[len(at.B.Instrs)-1].(*ssa.If); ok {
			cond = iff.Cond
		}
		for si, s := range at.B.Succs {
			if q.Cut != nil && q.Cut(core.Edge{From: at.B, To: s}) {
				continue
			}
			ns := st.clone()
			if cond != nil && len(at.B.Succs) == 2 {
				want := si == 0
				if b, known := st.Val(cond); known {
					if b != want {
						continue
					}
				} else {
					base, flip := cond, false
					for {
						u, ok := base.(*ssa.UnOp)
						if !ok || u.Op != token.NOT {
							break
						}
						base, flip = u.X, !flip
					}
					if _, isConst := base.(*ssa.Const); !isConst {
						ns.env[base] = want != flip
					}
				}
			}
			// φ-nodes of s, evaluated simultaneously on the edge at.B → s
			idx := -1
			n := 0
			for i, p := range s.Preds {
				if p == at.B {
					idx = i
					n++
				}
			}
			upd := map[ssa.Value]int{} // 1 true, 2 false, 0 unknown
			for _, in := range s.Instrs {
				ph, ok := in.(*ssa.Phi)
				if !ok {
					break
				}
				if !isBoolValue(ph) {
					continue
				}
				upd[ph] = 0
				if n == 1 && idx < len(ph.Edges) {
					if b, known := ns.Val(ph.Edges[idx]); known {
						if b {
							upd[ph] = 1
						} else {
							upd[ph] = 2
						}
					}
				}
			}
			for ph, c := range upd {
				switch c {
				case 1:
					ns.env[ph] = true
				case 2:
					ns.env[ph] = false
				default:
					delete(ns.env, ph)
				}
			}
			work = append(work, item{core.Head(s), ns})
		}
	}
	return true
}

// c16UnaccountedUse returns a use of function g – an enter-only function – that is
// not a plain synchronous call running it: a `go`/`defer` of it, or its function
// value (closure, method value) going anywhere but into a plain call.
func c16UnaccountedUse(funcs []*ssa.Function, g *ssa.Function) ssa.Instruction {
	denotes := func(v ssa.Value) bool {
		switch x := v.(type) {
		case *ssa.Function:
			return x == g || (c16ForwardingWrapper(x) && boundTarget(x) == g)
		}
		return false
	}
	for _, f := range funcs {
		for _, b := range f.Blocks {
			for _, in := range b.Instrs {
				if mc, ok := in.(*ssa.MakeClosure); ok {
					if !denotes(mc.Fn) {
						continue
					}
					if refs := mc.Referrers(); refs != nil {
						for _, r := range *refs {
							switch r.(type) {
							case *ssa.Call, *ssa.DebugRef:
							default:
								return r
							}
						}
					}
					continue
				}
				for _, op := range in.Operands(nil) {
					if *op != nil && denotes(*op) {
						if _, ok := in.(*ssa.Call); !ok {
							return in
						}
					}
				}
			}
		}
	}
	return nil
}

// ---------------------------------------------------------------------------
// Closures created by a function, whatever their body was written as
// ---------------------------------------------------------------------------

// c16ClosureCreatedIn: v denotes a closure value that f itself creates – a function literal
// of f, or the closure over the receiver's cells that a method value `x.m` of a new method has
// become (the bound-method wrapper carrying m's body: it has no lexical parent, the place of
// its MakeClosure is what ties it to f). A wrapper that still forwards to its method is not
// one (its body reads the receiver, not cells of f).
func c16ClosureCreatedIn(v ssa.Value, f *ssa.Function) *ssa.Function {
	if v == nil || f == nil {
		return nil
	}
	if _, ok := v.Type().Underlying().(*types.Signature); !ok {
		return nil
	}
	mc, ok := resolve(v).(*ssa.MakeClosure)
	if !ok || mc.Parent() != f {
		return nil
	}
	g, _ := mc.Fn.(*ssa.Function)
	if g == nil || g.Blocks == nil {
		return nil
	}
	if g.Parent() == f || (g.Parent() == nil && inlinedBoundWrapper(g)) {
		return g
	}
	return nil
}

// c16CapturedParamAt: v, read inside a closure that owner creates, is the k-th parameter of
// owner (−1: it is not): a free variable bound by value to the parameter, or a load of a free
// variable bound to a cell of owner whose only store, in owner and passed on every path to the
// instruction `at` (where the closure runs), stores that parameter. The binding is the one at
// the closure's creation site(s), so closures without a lexical parent are covered.
func c16CapturedParamAt(v ssa.Value, owner *ssa.Function, at ssa.Instruction) int {
	paramOf := func(x ssa.Value) int {
		pa, ok := core.Strip(core.Forward(x)).(*ssa.Parameter)
		if !ok {
			return -1
		}
		for i, q := range owner.Params {
			if q == pa {
				return i
			}
		}
		return -1
	}
	outward := func(fv *ssa.FreeVar) ssa.Value {
		var b ssa.Value = fv
		for i := 0; i < 8; i++ {
			x, ok := b.(*ssa.FreeVar)
			if !ok {
				break
			}
			if b = freeVarBinding(x); b == nil {
				return nil
			}
		}
		return b
	}
	v = core.Strip(v)
	if fv, ok := v.(*ssa.FreeVar); ok {
		if b := outward(fv); b != nil {
			return paramOf(b)
		}
		return -1
	}
	u, ok := v.(*ssa.UnOp)
	if !ok || u.Op != token.MUL {
		return -1
	}
	fv, ok := u.X.(*ssa.FreeVar)
	if !ok {
		return -1
	}
	cell, ok := outward(fv).(*ssa.Alloc)
	if !ok || cell.Parent() != owner {
		return -1
	}
	if refs := cell.Referrers(); refs != nil {
		for _, r := range *refs {
			switch x := r.(type) {
			case *ssa.Store:
				if x.Addr != ssa.Value(cell) {
					return -1 // the cell's address is stored somewhere
				}
			case *ssa.UnOp, *ssa.MakeClosure, *ssa.DebugRef:
			default:
				return -1
			}
		}
	}
	sts := storesToCell(cell)
	if len(sts) != 1 || sts[0].Parent() != owner {
		return -1
	}
	if at != nil && core.Precedes(owner, core.Is(sts[0]), core.Is(at)) != nil {
		return -1
	}
	return paramOf(sts[0].Val)
}
