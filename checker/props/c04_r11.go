package props

// Round 11: the option's SignatureConfig reaches the gate unchanged.
//
// engine.signatureVerifier and the verifier closure it returns read Strict, Expire and PrivateKeys
// out of the route group's setting and hand them to handler.ContentSecurityHandler
// (D3/K8/engine-signature); D3/K8/signature-option-enables-gate decides the flag. What was not
// decided is whether the values in the setting are those the group was configured with: an option
// that forgets to copy Strict makes a strict group verify leniently (every failure runs the
// handler), a constant Expire changes the tolerance, a truncated key list turns correctly signed
// requests away. Decided here by type and field identity: for every field of SignatureConfig that
// package api reads out of a setting, (a) every store of the package into that field of a setting
// carries the same field of a SignatureConfig *argument* (a parameter, a captured parameter, an
// unmodified local copy) — or a whole such SignatureConfig is stored into the setting's config —
// and (b) the option built by the exported constructor passes such a store on every path.

import (
	"go/token"
	"go/types"

	"godcheck/core"

	"golang.org/x/tools/go/ssa"
)

// c04InsideSetting: the address v lies inside a value of the setting type s (a chain of field
// addresses one of which is taken of an *s).
func c04InsideSetting(v ssa.Value, s *types.Named) bool {
	for i := 0; i < 8; i++ {
		fa, ok := v.(*ssa.FieldAddr)
		if !ok {
			return false
		}
		if types.Identical(c04Deref(fa.X.Type()), s) {
			return true
		}
		v = fa.X
	}
	return true // too deep to tell: treat as part of the setting (never as an argument)
}

// c04MakersOf lists the MakeClosure instructions of the package that create closure g.
func c04MakersOf(fns []*ssa.Function, g *ssa.Function) (out []*ssa.MakeClosure) {
	for _, f := range fns {
		for _, b := range f.Blocks {
			for _, in := range b.Instrs {
				if mc, ok := in.(*ssa.MakeClosure); ok && mc.Fn == g {
					out = append(out, mc)
				}
			}
		}
	}
	return
}

// c04CleanCfgPtr: ptr (of type *cfg) points to a SignatureConfig the function was handed and that
// nobody changed: a pointer parameter, a captured variable whose every binding is clean, or a local
// whose only whole-value stores are clean SignatureConfig values and whose fields are only read.
func c04CleanCfgPtr(fns []*ssa.Function, ptr ssa.Value, cfg, s *types.Named, depth int) bool {
	if depth > 4 || !types.Identical(c04Deref(ptr.Type()), cfg) {
		return false
	}
	switch x := ptr.(type) {
	case *ssa.Parameter:
		return true
	case *ssa.FreeVar:
		g := x.Parent()
		idx := -1
		for i, fv := range g.FreeVars {
			if fv == x {
				idx = i
			}
		}
		mcs := c04MakersOf(fns, g)
		if idx < 0 || len(mcs) == 0 {
			return false
		}
		for _, mc := range mcs {
			if !c04CleanCfgPtr(fns, mc.Bindings[idx], cfg, s, depth+1) {
				return false
			}
		}
		return true
	case *ssa.Alloc:
		stores := 0
		for _, r := range *x.Referrers() {
			switch u := r.(type) {
			case *ssa.Store:
				if u.Addr != ssa.Value(x) || !c04CleanCfgVal(fns, u.Val, cfg, s, depth+1) {
					return false
				}
				stores++
			case *ssa.UnOp:
				if u.Op != token.MUL {
					return false
				}
			case *ssa.MakeClosure, *ssa.DebugRef:
			case *ssa.FieldAddr:
				for _, rr := range *u.Referrers() {
					if l, ok := rr.(*ssa.UnOp); !ok || l.Op != token.MUL {
						if _, dbg := rr.(*ssa.DebugRef); !dbg {
							return false // a field of the copy is written, or its address handed on
						}
					}
				}
			default:
				return false
			}
		}
		return stores > 0
	}
	return false
}

// c04CleanCfgVal: v is a whole SignatureConfig value that is an unmodified argument.
func c04CleanCfgVal(fns []*ssa.Function, v ssa.Value, cfg, s *types.Named, depth int) bool {
	v = core.Strip(v)
	if !types.Identical(v.Type(), cfg) {
		return false
	}
	switch x := v.(type) {
	case *ssa.Parameter:
		return true
	case *ssa.UnOp:
		return x.Op == token.MUL && !c04InsideSetting(x.X, s) && c04CleanCfgPtr(fns, x.X, cfg, s, depth+1)
	}
	return false
}

// c04CleanCfgField: v is field k of an unmodified SignatureConfig argument.
func c04CleanCfgField(fns []*ssa.Function, v ssa.Value, k int, cfg, s *types.Named) bool {
	v = core.Forward(core.Strip(v))
	switch x := v.(type) {
	case *ssa.UnOp:
		if x.Op != token.MUL || !c04IsFieldAddrOf(x.X, cfg, k) {
			return false
		}
		base := x.X.(*ssa.FieldAddr).X
		return !c04InsideSetting(base, s) && c04CleanCfgPtr(fns, base, cfg, s, 0)
	case *ssa.Field:
		return x.Field == k && c04CleanCfgVal(fns, core.Forward(x.X), cfg, s, 0)
	}
	return false
}

func c04r11(r *core.Run) {
	p := r.P
	r.Explanation += " The option's SignatureConfig reaches the gate: every field of SignatureConfig that package api reads out of a route group's setting is stored into the setting only from the same field of a SignatureConfig argument (or by a whole-struct copy of one), and the option built from a SignatureConfig passes such a store for each of them on every path."
	r.Check("D3/K8/signature-config-reaches-the-gate", "the signature gate is built from what the group was configured with: for every field of SignatureConfig that package api reads out of a route group's setting (Strict, Expire, PrivateKeys — what engine.signatureVerifier tests and hands to ContentSecurityHandler), every store of the package into that field of a setting carries the same field of a SignatureConfig argument (a parameter, a captured parameter or an unmodified copy; field by field, or as a whole-struct assignment / composite literal), and the option the exported constructor builds from a SignatureConfig passes such a store on every path to its return [strict signature clause: with Strict not copied a strict group verifies leniently — every unsigned or tampered request runs the handler; with another Expire the timestamp tolerance is not the configured one; with other keys a header that decrypts under a configured key is refused or one under an unconfigured key admitted]", func(o *core.O) {
		cfg, s, _ := c04SigTypes(p)
		if !o.Need(cfg != nil, "type api.SignatureConfig") || !o.Need(s != nil, "the one unexported struct type of package api that carries a SignatureConfig") {
			return
		}
		cst := cfg.Underlying().(*types.Struct)
		sst := s.Underlying().(*types.Struct)
		cfgIdx := -1
		for i := 0; i < sst.NumFields(); i++ {
			if types.Identical(sst.Field(i).Type(), cfg) {
				if cfgIdx >= 0 {
					o.Unres("%s carries two SignatureConfig values", s.Obj().Name())
					return
				}
				cfgIdx = i
			}
		}
		fns := b2PkgFuncs(p, "api")

		// the fields the package reads out of a setting
		read := map[int]bool{}
		for _, f := range fns {
			for _, b := range f.Blocks {
				for _, in := range b.Instrs {
					switch x := in.(type) {
					case *ssa.UnOp:
						if fa, ok := x.X.(*ssa.FieldAddr); ok && x.Op == token.MUL && types.Identical(c04Deref(fa.X.Type()), cfg) && c04InsideSetting(fa.X, s) {
							read[fa.Field] = true
						}
					case *ssa.Field:
						if !types.Identical(x.X.Type(), cfg) {
							continue
						}
						switch y := x.X.(type) {
						case *ssa.Field:
							if types.Identical(y.X.Type(), s) {
								read[x.Field] = true
							}
						case *ssa.UnOp:
							if y.Op == token.MUL && c04InsideSetting(y.X, s) {
								read[x.Field] = true
							}
						}
					}
				}
			}
		}
		if !o.Need(len(read) > 0, "a read of a SignatureConfig field out of a "+s.Obj().Name()) {
			return
		}

		// stores into the config of a setting: field k, or the whole config
		fieldStore := func(in ssa.Instruction) (k int, ok bool) {
			st, isSt := in.(*ssa.Store)
			if !isSt {
				return 0, false
			}
			fa, isFa := st.Addr.(*ssa.FieldAddr)
			if !isFa || !types.Identical(c04Deref(fa.X.Type()), cfg) || !c04InsideSetting(fa.X, s) {
				return 0, false
			}
			return fa.Field, true
		}
		wholeStore := func(in ssa.Instruction) bool {
			st, ok := in.(*ssa.Store)
			return ok && c04IsFieldAddrOf(st.Addr, s, cfgIdx)
		}
		// a local setting value counts only when it is assigned on (loaded and stored somewhere)
		assignedOn := func(addr ssa.Value) bool {
			for i := 0; i < 8; i++ {
				fa, ok := addr.(*ssa.FieldAddr)
				if !ok {
					break
				}
				addr = fa.X
			}
			al, ok := addr.(*ssa.Alloc)
			if !ok || !types.Identical(c04Deref(al.Type()), s) {
				return true // rooted in a parameter, a captured variable, a larger object
			}
			for _, rf := range *al.Referrers() {
				switch u := rf.(type) {
				case *ssa.UnOp:
					for _, rr := range *u.Referrers() {
						if st, ok := rr.(*ssa.Store); ok && st.Val == ssa.Value(u) {
							return true
						}
						if _, ok := rr.(*ssa.Return); ok {
							return true
						}
					}
				case *ssa.MakeClosure, ssa.CallInstruction:
					return true
				}
			}
			return false
		}
		good := func(in ssa.Instruction, k int) bool {
			if fk, ok := fieldStore(in); ok {
				st := in.(*ssa.Store)
				return fk == k && c04CleanCfgField(fns, st.Val, k, cfg, s) && assignedOn(st.Addr)
			}
			if wholeStore(in) {
				st := in.(*ssa.Store)
				return c04CleanCfgVal(fns, core.Forward(st.Val), cfg, s, 0) && assignedOn(st.Addr)
			}
			return false
		}

		n := 0
		// (a) every store of the package
		for _, f := range fns {
			for _, b := range f.Blocks {
				for _, in := range b.Instrs {
					if k, ok := fieldStore(in); ok && read[k] {
						n++
						r.Fn(core.FuncName(f))
						if !c04CleanCfgField(fns, in.(*ssa.Store).Val, k, cfg, s) {
							o.Fail(p.InstrPos(in), "%s stores %s into %s.%s of a route group's signature setting, not the %s of the SignatureConfig it was given: the gate is built with a value the group was not configured with",
								core.FuncName(f), core.Describe(in.(*ssa.Store).Val), cfg.Obj().Name(), cst.Field(k).Name(), cst.Field(k).Name())
						}
					} else if wholeStore(in) {
						n++
						r.Fn(core.FuncName(f))
						if !c04CleanCfgVal(fns, core.Forward(in.(*ssa.Store).Val), cfg, s, 0) {
							o.Fail(p.InstrPos(in), "%s stores %s as the %s of a route group's signature setting, not the SignatureConfig it was given (unchanged): the gate is built with values the group was not configured with",
								core.FuncName(f), core.Describe(in.(*ssa.Store).Val), cfg.Obj().Name())
						}
					}
				}
			}
		}

		// (b) the public option passes a store of every consumed field
		passes := func(f *ssa.Function, k int) bool {
			site := func(in ssa.Instruction) bool { return good(in, k) }
			return f != nil && f.Blocks != nil && len(core.Instrs(f, site)) > 0 && core.MustPass(core.Entry(f), site, core.IsReturn) == nil
		}
		ctors := 0
		for _, m := range p.Pkg("api").Members {
			f, ok := m.(*ssa.Function)
			if !ok || f.Object() == nil || !f.Object().Exported() || f.Blocks == nil {
				continue
			}
			takesCfg := false
			for _, pa := range f.Params {
				if types.Identical(c04Deref(pa.Type()), cfg) {
					takesCfg = true
				}
			}
			res := f.Signature.Results()
			if !takesCfg || res.Len() != 1 {
				continue
			}
			if _, ok := res.At(0).Type().Underlying().(*types.Signature); !ok {
				continue
			}
			ctors++
			r.Fn(core.FuncName(f))
			for _, ret := range core.Returns(f) {
				var g *ssa.Function
				switch x := core.Strip(core.Forward(core.Strip(core.Result(ret, 0)))).(type) {
				case *ssa.MakeClosure:
					g, _ = x.Fn.(*ssa.Function)
				case *ssa.Function:
					g = x
				}
				if g == nil || g.Blocks == nil {
					o.Unres("%s returns %s: the option it builds is not resolved", core.FuncName(f), core.Describe(core.Result(ret, 0)))
					continue
				}
				r.Fn(core.FuncName(g))
				for k := 0; k < cst.NumFields(); k++ {
					if !read[k] {
						continue
					}
					n++
					k := k
					site := func(in ssa.Instruction) bool {
						if good(in, k) {
							return true
						}
						// one level: an in-package helper that is handed the option's argument and
						// stores it on all its paths
						c := core.AsCall(in)
						if c == nil {
							return false
						}
						if _, isGo := in.(*ssa.Go); isGo {
							return false
						}
						h := c.Common().StaticCallee()
						if h == nil || h.Pkg != p.Pkg("api") || !passes(h, k) {
							return false
						}
						for _, a := range c.Common().Args {
							if types.Identical(c04Deref(a.Type()), cfg) {
								if _, isPtr := a.Type().Underlying().(*types.Pointer); isPtr {
									if !c04CleanCfgPtr(fns, a, cfg, s, 0) {
										return false
									}
								} else if !c04CleanCfgVal(fns, core.Forward(a), cfg, s, 0) {
									return false
								}
							}
						}
						return true
					}
					if w := core.MustPass(core.Entry(g), site, core.IsReturn); w != nil {
						o.Fail(p.InstrPos(w), "the option built by %s can return without storing its SignatureConfig's %s into the group's setting: the gate of a group configured with %s runs with the zero value (or a stale one) — for Strict: a strict group verifies leniently and serves unsigned requests",
							core.FuncName(f), cst.Field(k).Name(), cst.Field(k).Name())
					}
				}
			}
		}
		if ctors == 0 {
			o.Unres("no exported function of package api builds an option from a SignatureConfig")
		}
		o.Site(n, "api")
	})
}
