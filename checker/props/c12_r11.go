package props

import (
	"go/token"

	"godcheck/core"

	"golang.org/x/tools/go/ssa"
)

// Round 11: the reply comparison of the liveness probe.
//
// D4/K6/result-conversion walks the value results of a wrapper as "all results
// but the last (the error)". PingCtx shows its caller only a bool, so its one
// result was taken for the error position and never looked at: `val = v != "PONG"`
// held every obligation. The bool is decided here by EVALUATION (the interpreter
// of round 9, extended by string replies): the part of the command closure after
// the command is run for concrete replies on the paths on which the command's
// error is nil, and for go-redis' empty reply on the paths on which it is not.

var c12pingSamples = []struct {
	reply string
	want  bool
}{
	{"PONG", true},
	{"", false},
	{"pong", false},
	{"PONG ", false},
	{"OK", false},
	{"QONG", false},
}

func c12R11(r *core.Run) {
	p := r.P
	r.Explanation += " Round 11: the bool a wrapper without error result (PingCtx) shows its caller is, by evaluation of the code after the command, true exactly when the command's error is nil and its reply equals \"PONG\", and false on every other path (failed command, failed getRedis)."

	r.Check("D4/K6/probe-reply", "a wrapper that shows its caller only a bool (PingCtx) answers true exactly on the paths on which the command's error is nil and reply #0 of the command equals \"PONG\", and false on every other path – failed command, failed getRedis [first sentence: the same result as the go-redis command after the documented conversion – go-redis' Ping answers \"PONG\", nil for a healthy server and an error otherwise; a probe that reports false for a healthy server or true for a dead one is not transparent]", func(o *core.O) {
		n := 0
		for _, fn := range p.Methods(c12redisPkg, "Redis") {
			res := fn.Signature.Results()
			if res.Len() != 1 || !c12isBool(res.At(0).Type()) || len(fn.Name()) < 4 || fn.Name()[len(fn.Name())-3:] != "Ctx" {
				continue
			}
			x := c12extract(fn)
			cmd := x.cmd()
			if cmd == nil {
				continue // reported by D2/K9/go-redis-callee
			}
			if src := c12resultType(cmd, 0); src == nil || !c12isString(src) {
				continue
			}
			n++
			r.Fn(core.FuncName(fn))
			c12probeReply(o, p, x, cmd)
		}
		o.Site(n, c12redisPkg)
	})
}

func c12probeReply(o *core.O, p *core.Prog, x *c12wrap, cmd ssa.CallInstruction) {
	where := p.InstrPos(cmd)
	f := x.cmdFn
	errVals, res := x.cmdResults()
	if len(errVals) == 0 {
		return // reported by D4/K2/error-and-nil
	}
	isReply := func(v ssa.Value) bool {
		return res(v) == "res#0" || res(core.Forward(v)) == "res#0" || res(x.w.capturedLoad(core.Forward(v))) == "res#0"
	}
	isErr := func(v ssa.Value) bool { return errVals[x.w.capturedLoad(core.Forward(v))] }
	holds, fails := core.EdgesOf(f, core.Cmp(token.EQL, isErr, core.IsNil))

	// what the wrapper returns: the cell the command closure fills (or, without a closure, the value itself)
	var cell *ssa.Alloc
	if f != x.fn {
		for _, ret := range core.Returns(x.fn) {
			var c *ssa.Alloc
			if len(ret.Results) == 1 {
				if u, ok := ret.Results[0].(*ssa.UnOp); ok && u.Op == token.MUL {
					c = x.w.resultCell(u.X)
				}
			}
			if c == nil || (cell != nil && c != cell) {
				var v ssa.Value
				if len(ret.Results) == 1 {
					v = ret.Results[0]
				}
				o.Fail(p.InstrPos(ret), "%s returns %s, not the value the command closure filled in from the reply: the answer does not depend on what the server said", x.name, core.Describe(v))
				return
			}
			cell = c
		}
		if cell == nil {
			o.Unres("%s: no return found", x.name)
			return
		}
		for _, st := range x.w.cellStores(cell) {
			if c, isC := st.Val.(*ssa.Const); st.Parent() != f && isC && !c12isZeroConst(c) {
				o.Fail(p.InstrPos(st), "%s: the wrapper itself sets the result to %s, whatever the server answered", x.name, core.Describe(st.Val))
				return
			}
			if st.Parent() != f {
				o.Unres("%s: the result is also assigned outside the command closure (%s): the answer cannot be evaluated", x.name, p.InstrPos(st))
				return
			}
		}
	}

	run := func(reply string, onError bool) (out []c12val, stale bool, gaveUp string) {
		rv := c12val{k: 4, s: reply}
		it := &c12interp{x: x, f: f, isReply: isReply, replyVal: &rv, onError: onError, sinkCell: cell, retIdx: 0,
			errFails: map[core.Edge]bool{}, errHolds: map[core.Edge]bool{}}
		for _, e := range fails {
			it.errFails[e] = true
		}
		for _, e := range holds {
			it.errHolds[e] = true
		}
		at := core.After(cmd)
		it.walk(at.B, at.Idx, map[ssa.Value]c12val{}, c12val{}, false, 0)
		return it.out, it.stale, it.gaveUp
	}

	// the paths that do not run the command (failed getRedis): the answer can only be false
	if f != x.fn {
		rv := c12val{k: 4, s: ""}
		it := &c12interp{x: x, f: f, isReply: isReply, replyVal: &rv, sinkCell: cell, stopAt: cmd,
			errFails: map[core.Edge]bool{}, errHolds: map[core.Edge]bool{}}
		at := core.Entry(f)
		it.walk(at.B, at.Idx, map[ssa.Value]c12val{}, c12val{}, false, 0)
		if it.gaveUp != "" {
			o.Unres("%s: %s: the answer on the paths around the command cannot be evaluated", x.name, it.gaveUp)
			return
		}
		for _, v := range it.out {
			if v.k == 0 {
				o.Unres("%s: on a path that has not run the command the result is %s (shape not understood)", x.name, v)
				return
			}
			if v.k != 3 || v.b {
				o.Fail(where, "%s: on a path that has not run the command the result is %s: the probe answers true without having asked the server", x.name, v)
				return
			}
		}
	}
	// the command succeeded
	for _, s := range c12pingSamples {
		out, stale, gaveUp := run(s.reply, false)
		if gaveUp != "" {
			o.Unres("%s: %s: the answer cannot be evaluated", x.name, gaveUp)
			return
		}
		if len(out) == 0 && !stale {
			o.Unres("%s: no return is reached after a successful command when the answer is evaluated for the reply %q", x.name, s.reply)
			return
		}
		if stale && s.want {
			o.Fail(where, "%s: for the reply %q of a successful command some path leaves the result unassigned (false): a healthy server is reported as down", x.name, s.reply)
			return
		}
		for _, v := range out {
			if v.k == 0 {
				o.Unres("%s: for the reply %q the result is %s (shape of the comparison not understood)", x.name, s.reply, v)
				return
			}
			if v.k != 3 || v.b != s.want {
				o.Fail(where, "%s: for the reply %q of a successful command the result is %s, expected %v: the probe answers true exactly when the server said \"PONG\" (go-redis' Ping: \"PONG\", nil for a healthy server)", x.name, s.reply, v, s.want)
				return
			}
		}
	}
	// the command failed: go-redis hands back the empty reply and the error; the answer is false
	if len(holds) == 0 && len(fails) == 0 {
		return // no test of the error at all: the paths above are all paths
	}
	out, _, gaveUp := run("", true)
	if gaveUp != "" {
		o.Unres("%s: %s: the answer on a failed command cannot be evaluated", x.name, gaveUp)
		return
	}
	for _, v := range out {
		if v.k == 0 {
			o.Unres("%s: on a failed command the result is %s (shape not understood)", x.name, v)
			return
		}
		if v.k != 3 || v.b {
			o.Fail(where, "%s: on a path on which the command's error is non-nil the result is %s: a server that did not answer is reported as up", x.name, v)
			return
		}
	}
}
