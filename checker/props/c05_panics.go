package props

// C05 "never panics", round 4: three more reflect preconditions.
//
// D8/K2/reflect-type-kind-established
//   reflect.Type.Key/Elem/NumField/Field/Len/In/Out/... panic unless the type has
//   one of a few kinds. For every reflect.Type parameter T of a function of
//   lib/mapping the rule computes the kinds T must have (intersection over the
//   restricted methods invoked on T that are not guarded inside the function, and
//   over the requirements of the in-package callees T is handed to unguarded) and
//   demands that every in-package call site establishes one of these kinds for
//   the argument: a Kind()==K test on the very type handed over (or on the
//   reflect.Value it was taken from with Type()), a test on the result of a
//   one-level pointer-stripping helper applied to it (which establishes "K or
//   Pointer" - enough for Elem, not for Key), a type built by reflect.SliceOf /
//   MapOf / PointerTo, or the caller's own parameter with a requirement at least
//   as strong. The same discipline as D6 (c05KindRule) for document values.
//
// D7/K8/fresh-container-set-assignable
//   reflect.Value.Set(x) panics unless x's type is assignable to the
//   destination's type. A container built by reflect.MakeSlice / MakeMap /
//   MakeMapWithSize (directly or as the result of an in-package function) has a
//   type computed from a *type* the function was handed, the destination is a
//   *value* it was handed: nothing ties the two together except a test. The rule
//   demands that such a value reaches the source operand of Set only after
//   x.Type().AssignableTo(dst.Type()) succeeded (or the types were compared
//   equal, or the container was made of dst.Type() itself, or it went through a
//   sanitising helper of D7).

import (
	"go/token"
	"go/types"
	"sort"
	"strings"

	"godcheck/core"

	"golang.org/x/tools/go/ssa"
)

// kind-restricted methods of reflect.Type (reflect.Kind values: Int 2 … Complex128 16,
// Array 17, Chan 18, Func 19, Interface 20, Map 21, Pointer 22, Slice 23, String 24, Struct 25)
var restrictedTypeKinds = map[string]kindSet{
	"Key":             ks(21),
	"Elem":            ks(17, 18, 21, 22, 23),
	"Len":             ks(17),
	"ChanDir":         ks(18),
	"NumField":        ks(25),
	"Field":           ks(25),
	"FieldByIndex":    ks(25),
	"FieldByName":     ks(25),
	"FieldByNameFunc": ks(25),
	"In":              ks(19),
	"Out":             ks(19),
	"NumIn":           ks(19),
	"NumOut":          ks(19),
	"IsVariadic":      ks(19),
	"Bits":            ks(2, 3, 4, 5, 6, 7, 8, 9, 10, 11, 12, 13, 14, 15, 16),
}

const kindPtr = 22

func isReflectType(t types.Type) bool { return isReflectNamed(t, "Type") }

// typeMethod: in is the interface call t.<name>() on a reflect.Type.
func typeMethod(v ssa.Value) (recv ssa.Value, name string) {
	c, ok := v.(*ssa.Call)
	if !ok || !c.Call.IsInvoke() || !isReflectType(c.Call.Value.Type()) {
		return nil, ""
	}
	return c.Call.Value, c.Call.Method.Name()
}

// sameType: two reflect.Type operands denote the same type: the same value, two
// loads of one access path below a once-stored local, the same field of the same
// struct value, or Type() of the same reflect.Value.
func sameType(a, b ssa.Value) bool {
	if sameVal(a, b) || sameDoc(a, b) {
		return true
	}
	a, b = core.Forward(a), core.Forward(b)
	switch x := a.(type) {
	case *ssa.Field:
		y, ok := b.(*ssa.Field)
		return ok && x.Field == y.Field && x.X == y.X
	case *ssa.Call:
		y, ok := b.(*ssa.Call)
		if !ok || x.Call.IsInvoke() || y.Call.IsInvoke() {
			return false
		}
		return core.CalleeName(x) == "(reflect.Value).Type" && core.CalleeName(y) == "(reflect.Value).Type" && rvSame(x.Call.Args[0], y.Call.Args[0])
	}
	return false
}

// ptrStrippers: the functions (reflect.Type) reflect.Type of the module's
// packages in scope every return of which hands back the parameter itself or
// its Elem() taken under Kind()==Pointer. For such a function d,
// d(t).Kind()==K establishes that t's kind is K or Pointer.
func ptrStrippers(funcs []*ssa.Function) map[*ssa.Function]bool {
	out := map[*ssa.Function]bool{}
	for _, f := range funcs {
		if f.Parent() != nil || len(f.Params) != 1 || f.Signature.Results().Len() != 1 ||
			!isReflectType(f.Params[0].Type()) || !isReflectType(f.Signature.Results().At(0).Type()) {
			continue
		}
		t := f.Params[0]
		isPtr := core.Cmp(token.EQL, func(v ssa.Value) bool {
			r, n := typeMethod(core.Forward(v))
			return n == "Kind" && sameVal(r, t)
		}, core.IsConstInt(kindPtr))
		var leafOK func(v ssa.Value, seen map[ssa.Value]bool) bool
		leafOK = func(v ssa.Value, seen map[ssa.Value]bool) bool {
			v = core.Forward(v)
			if seen[v] {
				return true
			}
			seen[v] = true
			if sameVal(v, t) {
				return true
			}
			if phi, ok := v.(*ssa.Phi); ok {
				for _, e := range phi.Edges {
					if !leafOK(e, seen) {
						return false
					}
				}
				return true
			}
			if r, n := typeMethod(v); n == "Elem" && sameVal(r, t) {
				return core.EdgeCount(f, isPtr) > 0 && requiresX(f, core.Is(v.(*ssa.Call)), isPtr) == nil
			}
			return false
		}
		good, n := true, 0
		for _, ret := range core.Returns(f) {
			n++
			if !leafOK(core.Result(ret, 0), map[ssa.Value]bool{}) {
				good = false
			}
		}
		if good && n > 0 {
			out[f] = true
		}
	}
	return out
}

// staticTypeKind: the kind of a reflect.Type value that is known by construction.
func staticTypeKind(x ssa.Value) (uint, bool) {
	c, ok := core.Forward(x).(*ssa.Call)
	if !ok || c.Call.IsInvoke() {
		return 0, false
	}
	switch core.CalleeName(c) {
	case "reflect.SliceOf":
		return 23, true
	case "reflect.MapOf":
		return 21, true
	case "reflect.PointerTo", "reflect.PtrTo":
		return kindPtr, true
	case "reflect.ArrayOf":
		return 17, true
	case "reflect.ChanOf":
		return 18, true
	case "reflect.FuncOf":
		return 19, true
	case "reflect.StructOf":
		return 25, true
	case "reflect.TypeOf":
		if mi, ok := c.Call.Args[0].(*ssa.MakeInterface); ok {
			if _, isIface := mi.X.Type().Underlying().(*types.Interface); !isIface {
				if k, known := kindOfType(mi.X.Type()); known && k != 0 {
					return k, true
				}
			}
		}
	}
	return 0, false
}

// typeKindBad: the kinds outside want the reflect.Type x may still have when
// instruction in of f is reached (0: a kind in want is established on every path).
// A test behind a pointer-stripping helper leaves Pointer possible; no test
// leaves everything possible.
func typeKindBad(f *ssa.Function, in ssa.Instruction, x ssa.Value, want kindSet, strippers map[*ssa.Function]bool) kindSet {
	if want == allKinds {
		return 0
	}
	if k, ok := staticTypeKind(x); ok {
		return (1 << k) &^ want
	}
	// t.Kind() on the same type, or rv.Kind() when x is rv.Type()
	kindOfX := func(v ssa.Value) bool {
		v = core.Forward(v)
		if r, n := typeMethod(v); n == "Kind" {
			return sameTypeX(r, x, strippers)
		}
		c, ok := v.(*ssa.Call)
		if !ok || c.Call.IsInvoke() || core.CalleeName(c) != "(reflect.Value).Kind" {
			return false
		}
		return typeOfRV(c.Call.Args[0])(x)
	}
	// d(x).Kind() for a pointer-stripping helper d
	strippedKindOfX := func(v ssa.Value) bool {
		r, n := typeMethod(core.Forward(v))
		if n != "Kind" {
			return false
		}
		d, ok := core.Forward(r).(*ssa.Call)
		if !ok {
			return false
		}
		g := staticCallee(d)
		return g != nil && strippers[g] && sameTypeX(d.Call.Args[0], x, strippers)
	}
	var direct, stripped []core.Atom
	excluded, nExcluded := uint(0), 0
	for k := uint(0); k < 27; k++ {
		if want&(1<<k) == 0 {
			excluded, nExcluded = k, nExcluded+1
			continue
		}
		direct = append(direct, core.Cmp(token.EQL, kindOfX, core.IsConstInt(int64(k))))
		stripped = append(stripped, core.Cmp(token.EQL, strippedKindOfX, core.IsConstInt(int64(k))))
	}
	if nExcluded == 1 {
		// everything but one kind: `x.Kind() != thatKind` establishes it
		direct = append(direct, core.Not(core.Cmp(token.EQL, kindOfX, core.IsConstInt(int64(excluded)))))
	}
	established := func(atoms []core.Atom) bool {
		n := 0
		for _, a := range atoms {
			n += core.EdgeCount(f, a)
		}
		return n > 0 && requiresX(f, core.Is(in), atoms...) == nil
	}
	if want&(1<<kindPtr) != 0 {
		if established(append(direct, stripped...)) {
			return 0
		}
		return allKinds &^ want
	}
	if established(direct) {
		return 0
	}
	if established(append(direct, stripped...)) {
		return 1 << kindPtr
	}
	return allKinds &^ want
}

// sameTypeX: sameType, or the same pointer-stripping helper applied to the same type.
func sameTypeX(a, b ssa.Value, strippers map[*ssa.Function]bool) bool {
	if sameType(a, b) {
		return true
	}
	ca, ok1 := core.Forward(a).(*ssa.Call)
	cb, ok2 := core.Forward(b).(*ssa.Call)
	if !ok1 || !ok2 {
		return false
	}
	ga, gb := staticCallee(ca), staticCallee(cb)
	return ga != nil && ga == gb && strippers[ga] && sameType(ca.Call.Args[0], cb.Call.Args[0])
}

var c05KindNames = []string{"Invalid", "Bool", "Int", "Int8", "Int16", "Int32", "Int64", "Uint", "Uint8", "Uint16", "Uint32", "Uint64", "Uintptr",
	"Float32", "Float64", "Complex64", "Complex128", "Array", "Chan", "Func", "Interface", "Map", "Pointer", "Slice", "String", "Struct", "UnsafePointer"}

func kindsText(s kindSet) string {
	list := func(s kindSet) string {
		var out []string
		for k := 0; k < 27; k++ {
			if s&(1<<uint(k)) != 0 {
				out = append(out, c05KindNames[k])
			}
		}
		return strings.Join(out, "|")
	}
	n, c := 0, allKinds&^s
	for x := s; x != 0; x &= x - 1 {
		n++
	}
	if n > 13 && c != 0 {
		return "anything but " + list(c)
	}
	return list(s)
}

func c05TypeKindRule(r *core.Run, o *core.O, funcs []*ssa.Function) {
	p := r.P
	inPkg := map[*ssa.Function]bool{}
	for _, f := range funcs {
		inPkg[f] = true
	}
	strippers := ptrStrippers(funcs)
	var sn []string
	for f := range strippers {
		sn = append(sn, core.FuncName(f))
	}
	sort.Strings(sn)
	r.Extra["c05_d8_pointer_strippers"] = sn

	uses := map[docParam][]kindUse{}
	var params []docParam
	for _, f := range funcs {
		for _, pa := range f.Params {
			if !isReflectType(pa.Type()) {
				continue
			}
			dp := docParam{f, pa}
			params = append(params, dp)
			for _, b := range f.Blocks {
				for _, in := range b.Instrs {
					c, ok := in.(ssa.CallInstruction)
					if !ok {
						continue
					}
					if cv, isCall := in.(*ssa.Call); isCall {
						if recv, name := typeMethod(cv); recv != nil {
							if need, restricted := restrictedTypeKinds[name]; restricted && sameType(recv, pa) {
								uses[dp] = append(uses[dp], kindUse{in: in, what: name, arg: recv, need: need})
							}
							continue
						}
					}
					g := staticCallee(c)
					if g == nil || !inPkg[g] {
						continue
					}
					for j, a := range c.Common().Args {
						if j < len(g.Params) && isReflectType(g.Params[j].Type()) && sameType(a, pa) {
							uses[dp] = append(uses[dp], kindUse{in: in, what: "call of " + core.FuncName(g), arg: a, to: &docParam{g, g.Params[j]}})
						}
					}
				}
			}
		}
	}
	// need[dp]: the kinds with which no unguarded use of dp panics
	need := map[docParam]kindSet{}
	for _, dp := range params {
		need[dp] = allKinds
	}
	badOf := func(dp docParam, u kindUse) kindSet {
		req := u.need
		if u.to != nil {
			req = need[*u.to]
		}
		return typeKindBad(dp.fn, u.in, u.arg, req, strippers)
	}
	for changed := true; changed; {
		changed = false
		for _, dp := range params {
			n := allKinds
			for _, u := range uses[dp] {
				n &^= badOf(dp, u)
			}
			if n != need[dp] {
				need[dp], changed = n, true
			}
		}
	}
	// the restricted calls a parameter's requirement comes from, for the message
	var whatOf func(dp docParam, depth int, seen map[string]bool) []string
	whatOf = func(dp docParam, depth int, seen map[string]bool) []string {
		var out []string
		for _, u := range uses[dp] {
			if badOf(dp, u) == 0 {
				continue
			}
			if u.to == nil {
				if s := core.FuncName(dp.fn) + ": " + dp.p.Name() + "." + u.what + "()"; !seen[s] {
					seen[s] = true
					out = append(out, s)
				}
			} else if depth < 6 {
				out = append(out, whatOf(*u.to, depth+1, seen)...)
			}
		}
		return out
	}
	for _, dp := range params {
		for _, u := range uses[dp] {
			if u.to == nil {
				o.Site(1)
			}
		}
		if need[dp] == allKinds {
			continue
		}
		f := dp.fn
		r.Fn(core.FuncName(f))
		why := strings.Join(whatOf(dp, 0, map[string]bool{}), ", ")
		if need[dp] == 0 {
			o.Fail(p.Pos(f.Pos()), "%s: no kind of the type %s satisfies all its unguarded uses (%s)", core.FuncName(f), dp.p.Name(), why)
			continue
		}
		if f.Object() != nil && f.Object().Exported() {
			o.Fail(p.Pos(f.Pos()), "%s is exported and needs the type %s to be of kind %s without testing it (%s)", core.FuncName(f), dp.p.Name(), kindsText(need[dp]), why)
			continue
		}
		sites, esc := callSitesOf(funcs, f)
		if esc {
			o.Fail(p.Pos(f.Pos()), "%s is used as a value; it needs the type %s to be of kind %s without testing it", core.FuncName(f), dp.p.Name(), kindsText(need[dp]))
		}
		idx := paramIndex(f, dp.p)
		for _, cs := range sites {
			o.Site(1, core.FuncName(cs.Parent())+" -> "+core.FuncName(f))
			r.Calls++
			a := cs.Common().Args[idx]
			g := cs.Parent()
			bad := typeKindBad(g, cs, a, need[dp], strippers)
			if bad == 0 {
				continue
			}
			// passing on one's own parameter: covered by that parameter's requirement
			covered := false
			for _, gp := range g.Params {
				if isReflectType(gp.Type()) && sameType(a, gp) && need[docParam{g, gp}]&bad == 0 {
					covered = true
				}
			}
			if covered {
				continue
			}
			o.Fail(p.InstrPos(cs), "%s hands the type %s to %s, which needs it to be of kind %s because of %s, but on the way to this call kind %s is not excluded (no Kind test on this very type; a test behind a pointer-stripping helper leaves Pointer possible): a field or element of that kind makes reflect panic instead of an error being returned",
				core.FuncName(g), core.Describe(a), core.FuncName(f), kindsText(need[dp]), why, kindsText(bad))
		}
	}
}

// ---------------------------------------------------------------------------

var freshContainerCtor = map[string]bool{"reflect.MakeSlice": true, "reflect.MakeMap": true, "reflect.MakeMapWithSize": true}

type freshRule struct {
	inPkg      map[*ssa.Function]bool
	freshRet   map[*ssa.Function]bool
	freshParam map[*ssa.Parameter]*ssa.Function // -> a caller that passes a fresh container
}

// ctors: the reflect.Make* calls a reflect.Value may come from (nil: none).
func (fr *freshRule) ctors(v ssa.Value, seen map[ssa.Value]bool) (out []*ssa.Call, viaCallee *ssa.Function) {
	v = core.Forward(v)
	if v == nil || seen[v] {
		return nil, nil
	}
	seen[v] = true
	switch x := v.(type) {
	case *ssa.Parameter:
		viaCallee = fr.freshParam[x]
	case *ssa.Phi:
		for _, e := range x.Edges {
			cs, g := fr.ctors(e, seen)
			out = append(out, cs...)
			if g != nil {
				viaCallee = g
			}
		}
	case *ssa.Extract:
		if c, ok := x.Tuple.(*ssa.Call); ok && x.Index == 0 {
			if g := staticCallee(c); g != nil && fr.inPkg[g] && fr.freshRet[g] {
				viaCallee = g
			}
		}
	case *ssa.Call:
		if x.Call.IsInvoke() {
			return
		}
		if freshContainerCtor[core.CalleeName(x)] {
			return []*ssa.Call{x}, nil
		}
		if g := staticCallee(x); g != nil && fr.inPkg[g] && fr.freshRet[g] {
			viaCallee = g
		}
	}
	return
}

func (fr *freshRule) fresh(v ssa.Value) bool {
	cs, g := fr.ctors(v, map[ssa.Value]bool{})
	return len(cs) > 0 || g != nil
}

func c05FreshContainerRule(r *core.Run, o *core.O, funcs []*ssa.Function) {
	p := r.P
	fr := &freshRule{inPkg: map[*ssa.Function]bool{}, freshRet: map[*ssa.Function]bool{}, freshParam: map[*ssa.Parameter]*ssa.Function{}}
	for _, f := range funcs {
		fr.inPkg[f] = true
	}
	// result #0 of a sanitising helper of D7 (handed back only under AssignableTo(typ), or
	// converted / re-allocated for typ) is D7's business, not a raw container any more
	san := &assignRule{funcs: funcs, inPkg: fr.inPkg, taintParam: map[*ssa.Parameter]bool{},
		taintRet: map[*ssa.Function]map[int]bool{}, sanitizer: map[*ssa.Function]*ssa.Parameter{}}
	san.findSanitizers()
	for changed, rounds := true, 0; changed && rounds < 10; rounds++ {
		changed = false
		for _, f := range funcs {
			for _, b := range f.Blocks {
				for _, in := range b.Instrs {
					c := core.AsCall(in)
					if c == nil {
						continue
					}
					g := staticCallee(c)
					if g == nil || !fr.inPkg[g] {
						continue
					}
					for i, arg := range c.Common().Args {
						if i < len(g.Params) && isReflectNamed(g.Params[i].Type(), "Value") && fr.freshParam[g.Params[i]] == nil && fr.fresh(arg) {
							fr.freshParam[g.Params[i]], changed = f, true
						}
					}
				}
			}
			res := f.Signature.Results()
			if fr.freshRet[f] || san.sanitizer[f] != nil || res.Len() == 0 || !isReflectNamed(res.At(0).Type(), "Value") {
				continue
			}
			for _, ret := range core.Returns(f) {
				if len(ret.Results) > 0 && fr.fresh(core.Result(ret, 0)) {
					fr.freshRet[f], changed = true, true
				}
			}
		}
	}
	nCtor := 0
	for _, f := range funcs {
		nCtor += len(core.Instrs(f, core.CallTo("reflect.MakeSlice", "reflect.MakeMap", "reflect.MakeMapWithSize")))
		for _, in := range core.Instrs(f, core.CallTo("(reflect.Value).Set")) {
			c := in.(ssa.CallInstruction)
			args := core.Args(c)
			dst, src := args[0], args[1]
			ctors, via := fr.ctors(src, map[ssa.Value]bool{})
			if len(ctors) == 0 && via == nil {
				continue
			}
			o.Site(1, core.FuncName(f))
			r.Fn(core.FuncName(f))
			r.Calls++
			// made of the destination's own type
			ownType := via == nil
			for _, mk := range ctors {
				if !typeOfRV(dst)(mk.Call.Args[0]) {
					ownType = false
				}
			}
			if ownType {
				continue
			}
			at1 := assignableAtom(src, typeOfRV(dst))
			at2 := core.Cmp(token.EQL, typeOfRV(src), typeOfRV(dst))
			if core.EdgeCount(f, at1)+core.EdgeCount(f, at2) > 0 && requiresX(f, core.Is(in), at1, at2) == nil {
				continue
			}
			from := "reflect.Make*"
			if len(ctors) > 0 {
				from = core.Short(core.CalleeName(ctors[0])) + "(" + core.Describe(ctors[0].Call.Args[0]) + ", …)"
			} else if via != nil {
				from = "a reflect.Make* container handed over by / returned from " + core.FuncName(via)
			}
			o.Fail(p.InstrPos(in), "%s: %s.Set(src) with src = %s: the container's type is computed from a reflect.Type, the destination is a reflect.Value handed in separately, and no src.Type().AssignableTo(dst.Type()) / type-equality test lies on the way: a destination of another type (an array, a pointer to a slice or map, …) makes reflect.Set panic instead of an error being returned",
				core.FuncName(f), core.Describe(dst), from)
		}
	}
	o.Site(nCtor, "reflect.Make* calls")
	if nCtor == 0 {
		o.Unres("no reflect.MakeSlice / MakeMap / MakeMapWithSize call found in %s", mapPkg)
	}
}

// c05Panics registers the obligations of this file (called from c05Extra).
func c05Panics(r *core.Run) {
	mapFuncs := r.P.PkgFuncs(mapPkg)
	r.Explanation += " Round 4 (never panics): kind-restricted reflect.Type methods on reflect.Type parameters of lib/mapping only after the kind was established in the function or at every call site (D8); containers built by reflect.MakeSlice/MakeMap* reach reflect.Value.Set only after an assignability test against the destination (D7 fresh-container); a field value dereferenced because its type is a pointer has passed the allocation step on every hand-over chain (D9)."
	r.NotDecided += " Also not decided: kind-restricted reflect.Type methods on receivers that are not parameters (reflect.TypeOf(v).Elem() behind ValidatePtr, Deref(t).NumField() of an embedded non-struct field - observed to panic, m.Type().Key() of a reflect.Value parameter); the pairing value.Type()==fieldType itself."
	r.Check("D8/K2/reflect-type-kind-established", "a kind-restricted method of reflect.Type (Key: Map; Elem: Array/Chan/Map/Pointer/Slice; NumField/Field…: Struct; Len: Array; In/Out…: Func; Bits: numeric) invoked on a reflect.Type parameter of a lib/mapping function is reachable only when that type's kind was established: inside the function (a Kind()==K test on the parameter) or at every in-package call site (a Kind()==K test on the very type handed over or on the reflect.Value it was taken from; for requirements that admit Pointer also a test behind a one-level pointer-stripping helper; a type built by reflect.SliceOf/MapOf/PointerTo; or the caller's own parameter with a requirement at least as strong)", func(o *core.O) {
		if !o.Need(len(mapFuncs) > 0, "package "+mapPkg) {
			return
		}
		c05TypeKindRule(r, o, mapFuncs)
	})
	r.Check("D7/K8/fresh-container-set-assignable", "in lib/mapping a container built by reflect.MakeSlice/MakeMap/MakeMapWithSize (directly, or as result #0 of an in-package function) reaches the source operand of reflect.Value.Set only after src.Type().AssignableTo(dst.Type()) succeeded or the two types were compared equal on the path, or when it was made of dst.Type() itself: the container's type is computed from a reflect.Type, the destination is a reflect.Value handed in separately, and nothing else ties the two together", func(o *core.O) {
		if !o.Need(len(mapFuncs) > 0, "package "+mapPkg) {
			return
		}
		c05FreshContainerRule(r, o, mapFuncs)
	})
	r.Check("D7/K9/typed-value-set-type-established", "in lib/mapping a reflect.Value.Set(reflect.ValueOf(x)) with x of a static named type T (time.Duration) into a reflect.Value the function was handed is reached only after a reflect.Type was compared with the type T itself (a package-level variable whose only store is reflect.TypeOf(<T>), or AssignableTo) - inside the function or on every path to every in-package call of it; a Kind() test does not establish it (every int64 field has durationType.Kind())", func(o *core.O) {
		if !o.Need(len(mapFuncs) > 0, "package "+mapPkg) {
			return
		}
		c05TypedSetRule(r, o, mapFuncs)
	})
	r.Check("D4/K2/validated-before-set/typed-from-document", "a value taken from the document or the environment reaches a typed setter of lib/mapping (a function that parses a string into a named type such as time.Duration and stores it with reflect.Value.Set; it does not look at the field's options) only through the err == nil edge of validateValueInOptions: options= is enforced for duration fields too; a default= value is exempt", func(o *core.O) {
		if !o.Need(len(mapFuncs) > 0, "package "+mapPkg) {
			return
		}
		c05TypedValidatedRule(r, o, mapFuncs)
	})
	r.Check("D6/K5/shared-containers-stay-private", "a package-level map or slice of lib/mapping (shared by every unmarshal of the process) is only indexed, ranged over, measured or updated in place - never converted to an interface, stored, passed on or returned: handed out as a value it becomes part of a caller's struct (the shared empty map did, for absent map fields), and a write through that struct changes what later unmarshals produce", func(o *core.O) {
		if !o.Need(len(mapFuncs) > 0, "package "+mapPkg) {
			return
		}
		c05SharedContainersRule(r, o, mapFuncs)
	})
	r.Check("D8/K3/constant-index-within-length", "in lib/mapping a constant subscript s[k] / s[k:] of a list computed by an in-package function is reachable only after a test establishing that the list is long enough (a blank struct tag yields no segments at all: indexing panics instead of returning an error)", func(o *core.O) {
		if !o.Need(len(mapFuncs) > 0, "package "+mapPkg) {
			return
		}
		c05ConstIndexRule(r, o, mapFuncs)
	})
	r.Check("D6/K5/memo-key-covers-value", "a value memoised in a package-level map of lib/mapping is stored under a key that depends on everything that decides how the value is computed: where a branch (other than on the lookup's own outcome) selects between differently computed values, the key depends on the operand of that branch (the parsed form of a default= text depends on the element kind as well as on the text); and every parameter or captured variable the stored value is computed from (data dependence, through call arguments) is also an input of the key - for an unexported helper judged once more at its in-package call sites (whether a struct is implicitly required depends on the tag key as well as on the type: keyed by the type alone, the answer for the first unmarshaler's tag key is served to all others)", func(o *core.O) {
		if !o.Need(len(mapFuncs) > 0, "package "+mapPkg) {
			return
		}
		c05MemoKeyRule(r, o, mapFuncs)
	})
	r.Check("D3/K2/null-accepted-only-when-optional", "a null document value is accepted without setting the field only for an optional field: in the functions of lib/mapping that test the document value against nil, a nil error is returned from the null arm only through the true edge of optional() (a required field given null fails)", func(o *core.O) {
		if !o.Need(len(mapFuncs) > 0, "package "+mapPkg) {
			return
		}
		c05NullRule(r, o, mapFuncs)
	})
	r.Check("D6/K1/fresh-target-per-element", "while lib/mapping fills a map or slice element by element, the reflect.New target that is stored as (or into) the element is allocated inside the loop, once per element (a hoisted target makes all pointer elements alias one object and lets a value element inherit an earlier entry's fields)", func(o *core.O) {
		if !o.Need(len(mapFuncs) > 0, "package "+mapPkg) {
			return
		}
		c05FreshTargetRule(r, o, mapFuncs)
	})
	r.Check("D9/K1/pointer-field-allocated-before-deref", "where a function of lib/mapping that receives a field as (fieldType reflect.Type, value reflect.Value) takes value.Elem() under fieldType.Kind()==Pointer - or, handed the kind instead of the type (fieldKind reflect.Kind, value reflect.Value), under fieldKind==Pointer, at every call site where the kind handed over can be Pointer (it cannot when it is a constant other kind, when the call is behind kind != Pointer / kind == another kind, or when it is X.Kind() behind X == a package-level reflect.TypeOf(<non-pointer T>)) - and uses the result, value has passed the allocation step - a call of an allocator (by role: cannot return without value.Set(reflect.New(…)) unless value.IsNil() is false or a Kind()==Pointer test failed), a direct Set(reflect.New(…)) or the false edge of IsNil() - in the function or, following the value up through callers that pass their own parameter on, at every in-package call site; a hand-over inside a type-switch case of the document value is followed only into callers that can supply a document value of that dynamic type", func(o *core.O) {
		if !o.Need(len(mapFuncs) > 0, "package "+mapPkg) {
			return
		}
		c05DerefRule(r, o, mapFuncs)
	})
}

// ---------------------------------------------------------------------------
// D9/K1/pointer-field-allocated-before-deref
//
// A pointer-typed struct field is nil until somebody allocates it; Elem() of a
// nil pointer is the zero reflect.Value, and every setter / Overflow* test on
// that panics. The functions of lib/mapping receive a field as a pair
// (fieldType reflect.Type, value reflect.Value). Where such a function takes
// value.Elem() because fieldType.Kind()==Pointer and uses the result, value must
// have passed the allocation step: a call of an allocator (by role: a function
// that cannot return without value.Set(reflect.New(…)) unless value.IsNil() is
// false or a Kind()==Pointer test failed) on the same value, a direct
// value.Set(reflect.New(…)), or the false edge of value.IsNil() - in the
// function itself, or at every in-package call site, following the value up
// through callers that pass their own parameter on. A hand-over that sits in
// the case of a type switch of a document value is followed only for callers
// that can supply a document value of that dynamic type (a caller that passes a
// statically typed other value cannot reach the dereference).

type derefNeed struct {
	fn    *ssa.Function
	v     *ssa.Parameter // the reflect.Value parameter, or the struct parameter holding it …
	vf    int            // … in field #vf (-1: v itself)
	docP  *ssa.Parameter // condition: only when this document value … (nil: always)
	docF  int            // … or its field #docF (-1: the parameter itself) …
	condT types.Type     // … has this dynamic type
	kind  *ssa.Parameter // the dereference is selected by this reflect.Kind parameter of fn being Pointer (nil: by the field's reflect.Type, or unconditional)
	chain string
}

func (n derefNeed) key() string {
	s := n.chain + "#" + n.v.Name() + "." + string(rune('0'+n.vf+1))
	if n.docP != nil {
		s += "|" + n.docP.Name() + "." + string(rune('0'+n.docF+1)) + ":" + n.condT.String()
	}
	if n.kind != nil {
		s += "|kind:" + n.kind.Name()
	}
	return s
}

func isReflectValue(t types.Type) bool { return isReflectNamed(t, "Value") }

// allocators: in-package functions with a reflect.Value parameter pv that cannot
// return without executing pv.Set(reflect.New(…)) unless pv.IsNil() was false or
// a Kind()==Pointer test failed.
func c05Allocators(funcs []*ssa.Function) map[*ssa.Function]*ssa.Parameter {
	out := map[*ssa.Function]*ssa.Parameter{}
	for _, f := range funcs {
		if f.Blocks == nil {
			continue
		}
		for _, pv := range f.Params {
			if !isReflectValue(pv.Type()) {
				continue
			}
			sets := directAllocs(f, pv)
			if len(sets) == 0 {
				continue
			}
			_, notNil := core.EdgesOf(f, isNilOf(pv))
			_, notPtr := core.EdgesOf(f, core.Cmp(token.EQL, func(v ssa.Value) bool {
				v = core.Forward(v)
				if _, n := typeMethod(v); n == "Kind" {
					return true
				}
				c, ok := v.(*ssa.Call)
				return ok && !c.Call.IsInvoke() && core.CalleeName(c) == "(reflect.Value).Kind"
			}, core.IsConstInt(kindPtr)))
			if _, reach := core.Reach(core.Q{From: []core.At{core.Entry(f)}, Target: core.IsReturn, Blocked: core.Is(sets...), Cut: core.CutSet(notNil, notPtr)}); !reach {
				out[f] = pv
			}
		}
	}
	return out
}

// rvPath: x is the parameter p of its function (field -1) or field #field of the
// struct parameter / value receiver p (a bundle of the per-field context).
func rvPath(x ssa.Value) (p *ssa.Parameter, field int) {
	x = core.Forward(x)
	if pa, ok := x.(*ssa.Parameter); ok {
		return pa, -1
	}
	if fl, ok := x.(*ssa.Field); ok {
		if pa, isParam := fl.X.(*ssa.Parameter); isParam {
			return pa, fl.Field
		}
		if u, ok := fl.X.(*ssa.UnOp); ok && u.Op == token.MUL {
			if pa := spilledParam(u.X); pa != nil {
				return pa, fl.Field
			}
		}
	}
	if u, ok := x.(*ssa.UnOp); ok && u.Op == token.MUL {
		if fa, ok := u.X.(*ssa.FieldAddr); ok {
			if pa := spilledParam(fa.X); pa != nil {
				return pa, fa.Field
			}
			if pa, isParam := fa.X.(*ssa.Parameter); isParam { // pointer receiver / pointer to the bundle
				return pa, fa.Field
			}
		}
	}
	return nil, -1
}

// spilledParam: addr is a local that holds a by-value parameter and is written only by that one store.
func spilledParam(addr ssa.Value) *ssa.Parameter {
	al, ok := addr.(*ssa.Alloc)
	if !ok {
		return nil
	}
	sts := storesIntoAlloc(al)
	if len(sts) != 1 || sts[0].Addr != ssa.Value(al) {
		return nil
	}
	pa, _ := sts[0].Val.(*ssa.Parameter)
	return pa
}

// sameRV: the same reflect.Value: one SSA value, or two reads of the same parameter path.
func sameRV(a, b ssa.Value) bool {
	if sameVal(a, b) {
		return true
	}
	pa, fa := rvPath(a)
	pb, fb := rvPath(b)
	return pa != nil && pa == pb && fa == fb
}

func isNilOf(rv ssa.Value) core.Atom {
	return core.BoolVal(func(v ssa.Value) bool {
		c, ok := v.(*ssa.Call)
		return ok && !c.Call.IsInvoke() && core.CalleeName(c) == "(reflect.Value).IsNil" && sameRV(c.Call.Args[0], rv)
	})
}

// directAllocs: rv.Set(reflect.New(…)) in f.
func directAllocs(f *ssa.Function, rv ssa.Value) []ssa.Instruction {
	return core.Instrs(f, func(in ssa.Instruction) bool {
		c, ok := in.(*ssa.Call)
		if !ok || c.Call.IsInvoke() || core.CalleeName(c) != "(reflect.Value).Set" || !sameRV(c.Call.Args[0], rv) {
			return false
		}
		q, ok := core.Forward(c.Call.Args[1]).(*ssa.Call)
		return ok && !q.Call.IsInvoke() && core.CalleeName(q) == "reflect.New"
	})
}

// allocatedBefore: instruction at of g is reachable only after the reflect.Value a
// passed the allocation step (or a is a fresh reflect.New pointer).
func allocatedBefore(g *ssa.Function, at ssa.Instruction, a ssa.Value, allocs map[*ssa.Function]*ssa.Parameter) bool {
	if q, ok := core.Forward(a).(*ssa.Call); ok && !q.Call.IsInvoke() && core.CalleeName(q) == "reflect.New" {
		return true
	}
	steps := directAllocs(g, a)
	steps = append(steps, core.Instrs(g, func(in ssa.Instruction) bool {
		c := core.AsCall(in)
		if c == nil {
			return false
		}
		if _, isCall := in.(*ssa.Call); !isCall {
			return false // a deferred or spawned allocator has not run yet
		}
		h := staticCallee(c)
		if h == nil || allocs[h] == nil {
			return false
		}
		return sameRV(c.Common().Args[paramIndex(h, allocs[h])], a)
	})...)
	_, notNil := core.EdgesOf(g, isNilOf(a))
	if len(steps) == 0 && len(notNil) == 0 {
		return false
	}
	_, reach := core.Reach(core.Q{From: []core.At{core.Entry(g)}, Target: core.Is(at), Blocked: core.Is(steps...), Cut: core.CutSet(notNil)})
	return !reach
}

// docCondition: the call/instruction at of g lies in the case of a type switch /
// comma-ok assertion of one of g's document parameters (an interface-typed
// parameter, or an interface-typed field of a struct parameter).
func docCondition(g *ssa.Function, at ssa.Instruction) (p *ssa.Parameter, field int, t types.Type) {
	for _, in := range core.Instrs(g, func(in ssa.Instruction) bool {
		ta, ok := in.(*ssa.TypeAssert)
		return ok && ta.CommaOk
	}) {
		ta := in.(*ssa.TypeAssert)
		if _, isIface := ta.AssertedType.Underlying().(*types.Interface); isIface {
			continue
		}
		dp, df := docPathOf(g, ta.X)
		if dp == nil {
			continue
		}
		okEdge := core.BoolVal(func(v ssa.Value) bool {
			e, ok := v.(*ssa.Extract)
			return ok && e.Tuple == ssa.Value(ta) && e.Index == 1
		})
		if core.EdgeCount(g, okEdge) > 0 && requiresX(g, core.Is(at), okEdge) == nil {
			return dp, df, ta.AssertedType
		}
	}
	return nil, -1, nil
}

// docPathOf: x is the interface-typed parameter p of g (field -1) or field #field of the struct parameter p.
func docPathOf(g *ssa.Function, x ssa.Value) (p *ssa.Parameter, field int) {
	for _, pa := range g.Params {
		if _, isIface := pa.Type().Underlying().(*types.Interface); isIface && sameDoc(x, pa) {
			return pa, -1
		}
	}
	if fl, ok := core.Forward(x).(*ssa.Field); ok {
		if pa, isParam := fl.X.(*ssa.Parameter); isParam {
			return pa, fl.Field
		}
	}
	if u, ok := core.Forward(x).(*ssa.UnOp); ok && u.Op == token.MUL {
		if fa, ok := u.X.(*ssa.FieldAddr); ok {
			// a by-value struct parameter spilled to a local (address taken / captured)
			if al, ok := fa.X.(*ssa.Alloc); ok {
				sts := storesIntoAlloc(al)
				if len(sts) == 1 && sts[0].Addr == ssa.Value(al) {
					if pa, isParam := sts[0].Val.(*ssa.Parameter); isParam {
						return pa, fa.Field
					}
				}
			}
		}
	}
	return nil, -1
}

func c05DerefRule(r *core.Run, o *core.O, funcs []*ssa.Function) {
	p := r.P
	allocs := c05Allocators(funcs)
	var an []string
	for f := range allocs {
		an = append(an, core.FuncName(f))
	}
	sort.Strings(an)
	r.Extra["c05_d9_allocators"] = an

	var work []derefNeed
	seen := map[string]bool{}
	push := func(n derefNeed) {
		if strings.Count(n.chain, " -> ") > 12 {
			o.Unres("hand-over chain too long: %s", n.chain)
			return
		}
		if !seen[n.key()] {
			seen[n.key()] = true
			work = append(work, n)
		}
	}
	// the dereference sites
	for _, f := range funcs {
		typ := paramOfType(f, isReflectType)
		if typ == nil {
			continue
		}
		isPtr := core.Cmp(token.EQL, func(v ssa.Value) bool {
			rcv, n := typeMethod(core.Forward(v))
			return n == "Kind" && sameVal(rcv, typ)
		}, core.IsConstInt(kindPtr))
		if core.EdgeCount(f, isPtr) == 0 {
			continue
		}
		for _, in := range core.Instrs(f, core.CallTo("(reflect.Value).Elem")) {
			c, ok := in.(*ssa.Call)
			if !ok {
				continue
			}
			var v *ssa.Parameter
			for _, pa := range f.Params {
				if isReflectValue(pa.Type()) && sameVal(c.Call.Args[0], pa) {
					v = pa
				}
			}
			used := false
			if c.Referrers() != nil {
				for _, rf := range *c.Referrers() {
					if _, dbg := rf.(*ssa.DebugRef); !dbg {
						used = true
					}
				}
			}
			if v == nil || !used || requiresX(f, core.Is(in), isPtr) != nil {
				continue // not "the field value dereferenced because the field type is a pointer"
			}
			o.Site(1, core.FuncName(f))
			r.Fn(core.FuncName(f))
			if allocatedBefore(f, in, v, allocs) {
				continue
			}
			dp, df, dt := docCondition(f, in)
			push(derefNeed{fn: f, v: v, vf: -1, docP: dp, docF: df, condT: dt, chain: core.FuncName(f) + " (" + p.InstrPos(in) + ": " + v.Name() + ".Elem() under " + typ.Name() + ".Kind()==Pointer)"})
		}
	}
	// the dereference sites selected by a reflect.Kind parameter (fillDurationValue by role)
	for _, f := range funcs {
		for _, k := range f.Params {
			if !isReflectKind(k.Type()) {
				continue
			}
			isPtr := core.Cmp(token.EQL, func(v ssa.Value) bool { return sameVal(v, k) }, core.IsConstInt(kindPtr))
			if core.EdgeCount(f, isPtr) == 0 {
				continue
			}
			for _, in := range core.Instrs(f, core.CallTo("(reflect.Value).Elem")) {
				c, ok := in.(*ssa.Call)
				if !ok {
					continue
				}
				var v *ssa.Parameter
				for _, pa := range f.Params {
					if isReflectValue(pa.Type()) && sameVal(c.Call.Args[0], pa) {
						v = pa
					}
				}
				used := false
				if c.Referrers() != nil {
					for _, rf := range *c.Referrers() {
						if _, dbg := rf.(*ssa.DebugRef); !dbg {
							used = true
						}
					}
				}
				if v == nil || !used || requiresX(f, core.Is(in), isPtr) != nil {
					continue
				}
				o.Site(1, core.FuncName(f))
				r.Fn(core.FuncName(f))
				if allocatedBefore(f, in, v, allocs) {
					continue
				}
				dp, df, dt := docCondition(f, in)
				push(derefNeed{fn: f, v: v, vf: -1, docP: dp, docF: df, condT: dt, kind: k, chain: core.FuncName(f) + " (" + p.InstrPos(in) + ": " + v.Name() + ".Elem() under the kind parameter " + k.Name() + "==Pointer)"})
			}
		}
	}
	var consts map[*ssa.Global]types.Type
	var strippers map[*ssa.Function]bool
	for len(work) > 0 {
		n := work[0]
		work = work[1:]
		f := n.fn
		if f.Object() != nil && f.Object().Exported() {
			o.Fail(p.Pos(f.Pos()), "%s is exported and dereferences the pointer field value %s without the allocation step: %s", core.FuncName(f), n.v.Name(), n.chain)
			continue
		}
		sites, esc := callSitesOf(funcs, f)
		if esc || len(sites) == 0 {
			o.Fail(p.Pos(f.Pos()), "%s: callers cannot be enumerated (used as a value: %v, call sites: %d); it needs the pointer field value %s allocated: %s", core.FuncName(f), esc, len(sites), n.v.Name(), n.chain)
			continue
		}
		for _, cs := range sites {
			g := cs.Parent()
			o.Site(1, core.FuncName(g)+" -> "+core.FuncName(f))
			r.Fn(core.FuncName(g))
			r.Calls++
			args := cs.Common().Args
			a := args[paramIndex(f, n.v)]
			var nkind *ssa.Parameter
			if n.kind != nil {
				// can the kind handed over be Pointer here?
				if consts == nil {
					consts = typeConstants(funcs)
					strippers = ptrStrippers(funcs)
				}
				ka := args[paramIndex(f, n.kind)]
				if c05KindNeverPointer(g, cs, ka, consts, strippers) {
					continue
				}
				if own, isParam := core.Forward(ka).(*ssa.Parameter); isParam && own.Parent() == g {
					nkind = own // handed on: still conditional on the caller's own kind parameter
				}
			}
			// can this caller supply a document value of the dynamic type the dereference is conditional on?
			var ndp *ssa.Parameter
			ndf := -1
			var ndt types.Type
			if n.docP != nil {
				b := core.Forward(args[paramIndex(f, n.docP)])
				if n.docF >= 0 {
					b = structFieldValue(b, n.docF)
				}
				if b != nil {
					if mi, ok := b.(*ssa.MakeInterface); ok {
						if _, isIface := mi.X.Type().Underlying().(*types.Interface); !isIface && !types.Identical(mi.X.Type(), n.condT) {
							continue // statically another dynamic type: the dereference is not reached from here
						}
					} else if qp, qf := docPathOf(g, b); qp != nil {
						ndp, ndf, ndt = qp, qf, n.condT
					}
				} else if qp, isParam := core.Forward(args[paramIndex(f, n.docP)]).(*ssa.Parameter); isParam && n.docF >= 0 {
					ndp, ndf, ndt = qp, n.docF, n.condT // the struct handed on as a whole
				}
			}
			if ndp == nil {
				ndp, ndf, ndt = docCondition(g, cs)
			}
			if n.vf >= 0 {
				// the value travels inside a struct: a local literal's field, or the caller's own bundle
				if fv := structFieldValue(core.Forward(a), n.vf); fv != nil {
					a = fv
				} else if bp, bf := rvPath(a); bp != nil && bf == -1 {
					if allocatedBeforePath(g, cs, bp, n.vf, allocs) {
						continue
					}
					push(derefNeed{fn: g, v: bp, vf: n.vf, docP: ndp, docF: ndf, condT: ndt, kind: nkind, chain: core.FuncName(g) + " -> " + n.chain})
					continue
				} else {
					o.Fail(p.InstrPos(cs), "%s hands the field value on inside %s, which cannot be followed; the chain %s -> %s dereferences it when the field type is a pointer", core.FuncName(g), core.Describe(a), core.FuncName(g), n.chain)
					continue
				}
			}
			if allocatedBefore(g, cs, a, allocs) {
				continue
			}
			if own, of := rvPath(a); own != nil && own.Parent() == g {
				push(derefNeed{fn: g, v: own, vf: of, docP: ndp, docF: ndf, condT: ndt, kind: nkind, chain: core.FuncName(g) + " -> " + n.chain})
				continue
			}
			o.Fail(p.InstrPos(cs), "%s hands the field value %s on without the allocation step (no allocator call / Set(reflect.New) / IsNil()==false on this value before the call), and the chain %s -> %s dereferences it when the field type is a pointer: for a nil pointer field Elem() is the zero Value and the next Overflow*/Set* on it panics instead of the field being filled or an error returned",
				core.FuncName(g), core.Describe(a), core.FuncName(g), n.chain)
		}
	}
}

// allocatedBeforePath: allocatedBefore for the value read from field #field of g's parameter bp.
func allocatedBeforePath(g *ssa.Function, at ssa.Instruction, bp *ssa.Parameter, field int, allocs map[*ssa.Function]*ssa.Parameter) bool {
	for _, b := range g.Blocks {
		for _, in := range b.Instrs {
			if v, ok := in.(ssa.Value); ok {
				if pp, pf := rvPath(v); pp == bp && pf == field && isReflectValue(v.Type()) {
					return allocatedBefore(g, at, v, allocs)
				}
			}
		}
	}
	return false
}

// structFieldValue: the value of field #i of the struct value b, when b is a
// local composite literal (nil: unknown; the struct handed on as a whole is the
// caller's business).
func structFieldValue(b ssa.Value, i int) ssa.Value {
	if fl, ok := b.(*ssa.Field); ok && fl.Field == i {
		return nil
	}
	u, ok := b.(*ssa.UnOp)
	if !ok || u.Op != token.MUL {
		return nil
	}
	al, ok := u.X.(*ssa.Alloc)
	if !ok {
		return nil
	}
	fields, whole := fieldStoresInto(al)
	if whole != nil {
		return nil
	}
	if v, ok := fields[i]; ok {
		return core.Forward(v)
	}
	return nil
}
