package props

import (
	"go/token"

	"godcheck/core"

	"golang.org/x/tools/go/ssa"
)

// ---- helpers of the C17 rule table: values seen through closure captures ----
//
// The single-flight body of Take is "the function value handed to barrier.Do".
// It may be a function literal or a bound method value whose receiver state was
// a group of locals (the loader splits such a struct into one cell per field and
// inlines the method into the synthetic wrapper, which has no lexical parent).
// Either way the body reads Take's parameters through captured cells. c17Env
// resolves those reads by the MakeClosure sites reachable from the root
// function, never by the names of variables.

type c17Env struct {
	root *ssa.Function
	fns  []*ssa.Function                      // root and every function it (transitively) makes a closure of
	site map[*ssa.Function][]*ssa.MakeClosure // creation sites inside fns
}

func newC17Env(root *ssa.Function) *c17Env {
	e := &c17Env{root: root, site: map[*ssa.Function][]*ssa.MakeClosure{}}
	seen := map[*ssa.Function]bool{root: true}
	e.fns = []*ssa.Function{root}
	for i := 0; i < len(e.fns); i++ {
		for _, b := range e.fns[i].Blocks {
			for _, in := range b.Instrs {
				mc, ok := in.(*ssa.MakeClosure)
				if !ok {
					continue
				}
				fn, ok := mc.Fn.(*ssa.Function)
				if !ok {
					continue
				}
				e.site[fn] = append(e.site[fn], mc)
				if !seen[fn] && fn.Blocks != nil {
					seen[fn] = true
					e.fns = append(e.fns, fn)
				}
			}
		}
	}
	return e
}

// binding returns what free variable fv is bound to (unique creation site only).
func (e *c17Env) binding(fv *ssa.FreeVar) ssa.Value {
	fn := fv.Parent()
	ms := e.site[fn]
	if len(ms) != 1 {
		return nil
	}
	for i, x := range fn.FreeVars {
		if x == fv && i < len(ms[0].Bindings) {
			return ms[0].Bindings[i]
		}
	}
	return nil
}

// home resolves the address of a variable (its Alloc, or a FreeVar capturing it
// at any depth) to the Alloc that declares it; nil for anything else.
func (e *c17Env) home(addr ssa.Value) *ssa.Alloc {
	for i := 0; i < 8; i++ {
		switch x := addr.(type) {
		case *ssa.Alloc:
			return x
		case *ssa.FreeVar:
			addr = e.binding(x)
		default:
			return nil
		}
	}
	return nil
}

// cellStores lists every store into the variable al, in its function and in the
// closures that capture it. ok is false when the address is used in any way
// other than load, store-to and capture (the variable may then be written
// behind the analysis' back).
func (e *c17Env) cellStores(al *ssa.Alloc) (stores []*ssa.Store, ok bool) {
	ok = true
	seen := map[ssa.Value]bool{}
	var visit func(addr ssa.Value)
	visit = func(addr ssa.Value) {
		if seen[addr] || addr.Referrers() == nil {
			return
		}
		seen[addr] = true
		for _, r := range *addr.Referrers() {
			switch x := r.(type) {
			case *ssa.Store:
				if x.Addr == addr {
					stores = append(stores, x)
				} else {
					ok = false // the address itself is stored somewhere
				}
			case *ssa.UnOp:
				if x.Op != token.MUL {
					ok = false
				}
			case *ssa.MakeClosure:
				fn, isFn := x.Fn.(*ssa.Function)
				if !isFn {
					ok = false
					continue
				}
				for i, b := range x.Bindings {
					if b == addr && i < len(fn.FreeVars) {
						visit(fn.FreeVars[i])
					}
				}
			case *ssa.DebugRef:
			default:
				ok = false
			}
		}
	}
	visit(al)
	return stores, ok
}

// value resolves v to the value it denotes: conversions are stripped, a load of
// a local or captured variable that is assigned exactly once, in the function
// that declares it and before any closure capturing it is created, is replaced
// by the assigned value (parameter spill slots, `x := p`, the cells of a
// field-split struct), and a free variable bound by value is replaced by its
// binding. Anything else is returned as it is.
func (e *c17Env) value(v ssa.Value) ssa.Value {
	for i := 0; i < 12; i++ {
		v = core.Strip(v)
		switch x := v.(type) {
		case *ssa.FreeVar:
			b := e.binding(x)
			if b == nil {
				return v
			}
			v = b
		case *ssa.UnOp:
			if x.Op != token.MUL {
				return v
			}
			al := e.home(x.X)
			if al == nil {
				return v
			}
			st, ok := e.cellStores(al)
			if !ok || len(st) != 1 || st[0].Parent() != al.Parent() {
				return v
			}
			// the assignment precedes every capture of the variable and this load (when in the same function)
			for _, r := range *al.Referrers() {
				if mc, isMC := r.(*ssa.MakeClosure); isMC && !core.Dominates(st[0], mc) {
					return v
				}
			}
			if x.Parent() == al.Parent() && !core.Dominates(st[0], x) {
				return v
			}
			v = st[0].Val
		default:
			return v
		}
	}
	return v
}

// isParam matches values that denote the i-th parameter of the root function
// (receiver = 0), read directly or through captured variables.
func (e *c17Env) isParam(i int) func(ssa.Value) bool {
	return func(v ssa.Value) bool {
		return i < len(e.root.Params) && e.value(v) == ssa.Value(e.root.Params[i])
	}
}

// funcOf resolves a function value to the function whose body runs when it is
// called: a function literal / bound method closure (possibly held in a
// single-assignment local), or a plain function.
func (e *c17Env) funcOf(v ssa.Value) (*ssa.Function, *ssa.MakeClosure) {
	switch x := e.value(v).(type) {
	case *ssa.MakeClosure:
		fn, _ := x.Fn.(*ssa.Function)
		return fn, x
	case *ssa.Function:
		return x, nil
	}
	return nil, nil
}
