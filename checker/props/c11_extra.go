package props

import (
	"go/types"
	"strings"

	"godcheck/core"

	"golang.org/x/tools/go/ssa"
)

// c11Extra: rules added after the third independent seeding round.
func c11Extra(r *core.Run) {
	p := r.P
	defer c11R6(r)
	// role: the field flattener is the function of the package that returns a
	// []reflect.Value and calls itself (embedded structs are flattened recursively)
	r.Check("D3/K3/fields-in-declaration-order", "the field flattener of the row mapper builds one list in declaration order: nothing appends one accumulated list onto another (which would move the fields of an embedded struct away from their position)", func(o *core.O) {
		var flat []*ssa.Function
		for _, f := range p.PkgFuncs(sqlx) {
			if f.Signature.Results().Len() != 1 || f.Signature.Results().At(0).Type().String() != "[]reflect.Value" {
				continue
			}
			self := false
			for _, c := range core.Calls(f, func(in ssa.Instruction) bool { return core.AsCall(in) != nil }) {
				if c.Common().StaticCallee() == f {
					self = true
				}
			}
			if self {
				flat = append(flat, f)
			}
		}
		if !o.Need(len(flat) > 0, "the recursive field flattener ([]reflect.Value) of lib/store/sqlx") {
			return
		}
		isAppend := func(v ssa.Value) bool {
			c, ok := v.(*ssa.Call)
			return ok && core.CalleeName(c) == "builtin:append"
		}
		var isAccum func(v ssa.Value, seen map[ssa.Value]bool) bool
		isAccum = func(v ssa.Value, seen map[ssa.Value]bool) bool {
			v = core.Strip(core.Forward(v))
			if seen[v] {
				return false
			}
			seen[v] = true
			if isAppend(v) {
				return true
			}
			if phi, ok := v.(*ssa.Phi); ok {
				for _, e := range phi.Edges {
					if isAccum(e, seen) {
						return true
					}
				}
			}
			return false
		}
		for _, f := range flat {
			r.Fn(core.FuncName(f))
			n := 0
			for _, c := range core.Calls(f, core.CallTo("builtin:append")) {
				args := c.Common().Args
				if len(args) != 2 {
					continue
				}
				if _, ok := args[0].Type().Underlying().(*types.Slice); !ok {
					continue
				}
				n++
				if isAccum(args[1], map[ssa.Value]bool{}) {
					o.Fail(p.InstrPos(c), "%s appends one accumulated field list onto another: fields of embedded structs no longer sit at their declaration position, positional (untagged) mapping scans columns into the wrong fields", core.FuncName(f))
				}
			}
			o.Site(n, core.FuncName(f))
		}
	})

	r.Check("D1/K1/body-runs-once", "the transaction body runs at most once per Transact call: in lib/store/sqlx no call that runs the body, or hands it on, sits in a loop (a retry around the whole transaction commits a second run of the body and returns nil for a failed one)", func(o *core.O) {
		n := 0
		for _, f := range p.PkgFuncs(sqlx) {
			if f.Parent() != nil {
				continue
			}
			for i, prm := range f.Params {
				if !strings.HasSuffix(prm.Type().String(), "func(context.Context, "+core.Mod+"/lib/store/sqlx.Session) error") {
					continue
				}
				isBody := core.ParamAt(f, i)
				for _, c := range core.Calls(f, func(in ssa.Instruction) bool {
					cc := core.AsCall(in)
					if cc == nil {
						return false
					}
					if isBody(cc.Common().Value) {
						return true
					}
					for _, a := range cc.Common().Args {
						if isBody(a) {
							return true
						}
					}
					return false
				}) {
					n++
					r.Fn(core.FuncName(f))
					if _, loops := core.Reach(core.Q{From: []core.At{core.After(c)}, Target: core.Is(c)}); loops {
						o.Fail(p.InstrPos(c), "%s can run the transaction body more than once (the call sits in a loop): after a failed attempt was rolled back a second run commits and nil is returned, or a failed commit is retried instead of reported", core.FuncName(f))
					}
				}
			}
		}
		o.Site(n, sqlx)
	})

	r.Check("D3/K3/tag-lookup-by-the-column-name-itself", "a result column is matched to a `db` tag by the column name as the driver reports it: the key looked up in the tag map is an element of the columns argument, not a transformed copy (the map's keys keep the tags' spelling)", func(o *core.O) {
		f := p.Func(sqlx, "", "mapStructFieldsIntoSlice")
		if !o.Need(f != nil, "sqlx.mapStructFieldsIntoSlice") {
			return
		}
		r.Fn(core.FuncName(f))
		looks := core.Instrs(f, func(in ssa.Instruction) bool {
			l, ok := in.(*ssa.Lookup)
			return ok && core.IsResult(l.X, 0, core.CallTo("lib/store/sqlx.getTaggedFieldValueMap"))
		})
		o.Site(len(looks), core.FuncName(f))
		for _, in := range looks {
			idx := core.Strip(core.Forward(in.(*ssa.Lookup).Index))
			if c, _ := core.ResultOf(idx); c != nil {
				o.Fail(p.InstrPos(in), "the tag map is looked up with %s, a transformed column name: a tag spelled differently from the transformation (mixed case) never matches its own column and the field stays zero without an error", core.Describe(idx))
				continue
			}
			if !core.DependsOn(idx, core.ParamAt(f, 1)) {
				o.Fail(p.InstrPos(in), "the tag map is looked up with %s, which is not a column name of the result", core.Describe(idx))
			}
		}
	})

	r.Check("D3/K5/no-type-name-keyed-cache", "lib/store/sqlx keeps no process-wide table keyed by a type's printed name (reflect.Type.String/Name): two destination types with the same name in different packages or scopes would share an entry, and the second would be mapped with the first one's tags", func(o *core.O) {
		o.ZeroOK()
		n := 0
		isTypeName := func(v ssa.Value) bool {
			c, _ := core.ResultOf(core.Strip(core.Forward(v)))
			if c == nil {
				return false
			}
			nm := core.CalleeName(c)
			return nm == "(reflect.Type).String" || nm == "(reflect.Type).Name"
		}
		for _, f := range p.PkgFuncs(sqlx) {
			for _, c := range core.Calls(f, core.Or(core.CallMethod("sync.Map", "Store"), core.CallMethod("sync.Map", "LoadOrStore"), core.CallMethod("sync.Map", "Load"))) {
				if a := core.Args(c); len(a) >= 2 && core.DependsOn(a[1], isTypeName) {
					n++
					o.Fail(p.InstrPos(c), "%s keys a process-wide cache by the printed name of a type", core.FuncName(f))
				}
			}
			for _, in := range core.Instrs(f, func(in ssa.Instruction) bool {
				switch x := in.(type) {
				case *ssa.MapUpdate:
					_, isG := core.Strip(core.Forward(x.Map)).(*ssa.UnOp)
					return isG && core.DependsOn(x.Key, isTypeName)
				}
				return false
			}) {
				mu := in.(*ssa.MapUpdate)
				if u, ok := core.Strip(core.Forward(mu.Map)).(*ssa.UnOp); ok {
					if _, isGlobal := u.X.(*ssa.Global); isGlobal {
						n++
						o.Fail(p.InstrPos(in), "%s keys a package-level map by the printed name of a type", core.FuncName(f))
					}
				}
			}
		}
		o.Site(n, sqlx)
	})
}
