package props

import (
	"go/types"

	"godcheck/core"

	"golang.org/x/tools/go/ssa"
)

// c11Extra: rules added after the third independent seeding round.
func c11Extra(r *core.Run) {
	p := r.P
	// role: the field flattener is the function of the package that returns a
	// []reflect.Value and calls itself (embedded structs are flattened recursively)
	r.Check("D3/K3/fields-in-declaration-order", "the field flattener of the row mapper builds one list in declaration order: nothing appends one accumulated list onto another (which would move the fields of an embedded struct away from their position)", func(o *core.O) {
		var flat []*ssa.Function
		for _, f := range p.PkgFuncs(sqlx) {
			if f.Signature.Results().Len() != 1 || f.Signature.Results().At(0).Type().String() != "[]reflect.Value" {
				continue
			}
			self := false
			for _, c := range core.Calls(f, func(in ssa.Instruction) bool { return core.AsCall(in) != nil }) {
				if c.Common().StaticCallee() == f {
					self = true
				}
			}
			if self {
				flat = append(flat, f)
			}
		}
		if !o.Need(len(flat) > 0, "the recursive field flattener ([]reflect.Value) of lib/store/sqlx") {
			return
		}
		isAppend := func(v ssa.Value) bool {
			c, ok := v.(*ssa.Call)
			return ok && core.CalleeName(c) == "builtin:append"
		}
		var isAccum func(v ssa.Value, seen map[ssa.Value]bool) bool
		isAccum = func(v ssa.Value, seen map[ssa.Value]bool) bool {
			v = core.Strip(core.Forward(v))
			if seen[v] {
				return false
			}
			seen[v] = true
			if isAppend(v) {
				return true
			}
			if phi, ok := v.(*ssa.Phi); ok {
				for _, e := range phi.Edges {
					if isAccum(e, seen) {
						return true
					}
				}
			}
			return false
		}
		for _, f := range flat {
			r.Fn(core.FuncName(f))
			n := 0
			for _, c := range core.Calls(f, core.CallTo("builtin:append")) {
				args := c.Common().Args
				if len(args) != 2 {
					continue
				}
				if _, ok := args[0].Type().Underlying().(*types.Slice); !ok {
					continue
				}
				n++
				if isAccum(args[1], map[ssa.Value]bool{}) {
					o.Fail(p.InstrPos(c), "%s appends one accumulated field list onto another: fields of embedded structs no longer sit at their declaration position, positional (untagged) mapping scans columns into the wrong fields", core.FuncName(f))
				}
			}
			o.Site(n, core.FuncName(f))
		}
	})
}
