package props

import (
	"go/token"
	"go/types"
	"strings"

	"godcheck/core"

	"golang.org/x/tools/go/ssa"
)

// Rules added with the repairs of the defect hunt (h7 C19 f1/f2, f3).
//
//  D2/K8 size-backup-named-at-rotation
//        for a rule that rotates on size (its ShallRotate answer depends on the size it is asked
//        about) and names its backups after the clock, the name the current file is renamed to
//        comes from a BackupFilename() call made in the course of that rotation, not from a name
//        the logger stored earlier (when the file was opened). Decided per rule type: the tests a
//        logger function makes on the rule's dynamic type (type assertions to an interface or a
//        concrete type, boolean marker methods of the rule) are evaluated for that type, and only
//        the values that can reach os.Rename's second argument for it are looked at.
//  D4/K2 current-file-never-outdated
//        no name listed by filepath.Glob reaches what OutdatedFiles hands on (a slice appended to,
//        a map key, a callback) without having been compared with the rule's own file name.

// ---------------------------------------------------------------- evaluation for one rule type

// c19TypeEval evaluates, for a RotateRule of dynamic type *T, the boolean values that depend on
// that type only. 1 = true, 2 = false, 0 = unknown.
type c19TypeEval struct {
	p    *core.Prog
	pkg  *types.Package
	w    *c19IngWalker
	ptr  types.Type // *T
	feas map[*ssa.Function]*c19Feasible
	busy map[*ssa.Function]bool
}

type c19Feasible struct {
	blocks map[*ssa.BasicBlock]bool
	edges  map[core.Edge]bool
}

func c19Flip(x int) int {
	switch x {
	case 1:
		return 2
	case 2:
		return 1
	}
	return 0
}

// implementsAll: *T can be the dynamic type behind an interface value of type t.
func (e *c19TypeEval) canHold(t types.Type) bool {
	it, ok := t.Underlying().(*types.Interface)
	return ok && types.Implements(e.ptr, it)
}

// assertOK: the outcome of x.(asserted) for a value x holding a *T.
func (e *c19TypeEval) assertOK(ta *ssa.TypeAssert) int {
	if !e.canHold(ta.X.Type()) {
		return 0
	}
	if it, ok := ta.AssertedType.Underlying().(*types.Interface); ok {
		if types.Implements(e.ptr, it) {
			return 1
		}
		return 2
	}
	if types.Identical(ta.AssertedType, e.ptr) {
		return 1
	}
	return 2
}

// method: the function that runs for x.name() when x holds a *T.
func (e *c19TypeEval) method(name string) *ssa.Function {
	ms := types.NewMethodSet(e.ptr)
	sel := ms.Lookup(e.pkg, name)
	if sel == nil {
		sel = ms.Lookup(nil, name)
	}
	if sel == nil {
		return nil
	}
	tf, ok := sel.Obj().(*types.Func)
	if !ok {
		return nil
	}
	f := e.p.SSA.FuncValue(tf)
	if f == nil || f.Blocks == nil {
		return nil
	}
	return f
}

// boolOf: the value every feasible return of g hands back as result idx (0 when they differ or are unknown).
func (e *c19TypeEval) boolOf(g *ssa.Function, idx, depth int) int {
	if g == nil || g.Blocks == nil || depth > 10 || e.busy[g] {
		return 0
	}
	fe := e.feasible(g, depth+1)
	e.busy[g] = true
	defer delete(e.busy, g)
	res := 0
	for _, ret := range core.Returns(g) {
		if !fe.blocks[ret.Block()] || idx >= len(ret.Results) {
			continue
		}
		// a result merged by a φ in the returning block: one value per feasible way in
		var vals []int
		if ph, ok := core.Result(ret, idx).(*ssa.Phi); ok && ph.Block() == ret.Block() {
			for i, pr := range ret.Block().Preds {
				if fe.edges[core.Edge{From: pr, To: ret.Block()}] {
					vals = append(vals, e.val(ph.Edges[i], nil, nil, depth+1))
				}
			}
		} else {
			vals = append(vals, e.val(core.Result(ret, idx), nil, nil, depth+1))
		}
		for _, v := range vals {
			if v == 0 || (res != 0 && res != v) {
				return 0
			}
			res = v
		}
	}
	return res
}

// val evaluates a boolean; blk/pred give the block whose φ-nodes are read on the edge pred → blk.
func (e *c19TypeEval) val(v ssa.Value, blk, pred *ssa.BasicBlock, depth int) int {
	if depth > 14 {
		return 0
	}
	switch x := v.(type) {
	case *ssa.Const:
		if x.Value != nil {
			switch x.Value.String() {
			case "true":
				return 1
			case "false":
				return 2
			}
		}
		return 0
	case *ssa.UnOp:
		if x.Op == token.NOT {
			return c19Flip(e.val(x.X, blk, pred, depth+1))
		}
		if x.Op == token.MUL {
			if fw := core.Forward(x); fw != ssa.Value(x) {
				return e.val(fw, blk, pred, depth+1)
			}
		}
		return 0
	case *ssa.Phi:
		if blk != nil && pred != nil && x.Block() == blk {
			for i, pr := range blk.Preds {
				if pr == pred {
					return e.val(x.Edges[i], nil, nil, depth+1)
				}
			}
		}
		res := 0
		for _, ed := range x.Edges {
			r := e.val(ed, nil, nil, depth+1)
			if r == 0 || (res != 0 && res != r) {
				return 0
			}
			res = r
		}
		return res
	case *ssa.Extract:
		if ta, ok := x.Tuple.(*ssa.TypeAssert); ok && ta.CommaOk && x.Index == 1 {
			return e.assertOK(ta)
		}
		if c, ok := x.Tuple.(*ssa.Call); ok {
			if callee := c.Call.StaticCallee(); e.w.inPkg(callee) {
				return e.boolOf(callee, x.Index, depth+1)
			}
		}
		return 0
	case *ssa.Call:
		if x.Call.IsInvoke() {
			// a method of the rule, called on the rule itself or on what a type assertion made of it
			recv := core.Forward(x.Call.Value)
			if ex, ok := recv.(*ssa.Extract); ok {
				if ta, isTA := ex.Tuple.(*ssa.TypeAssert); isTA && ex.Index == 0 {
					recv = ta
				}
			}
			holds := false
			if ta, ok := recv.(*ssa.TypeAssert); ok {
				holds = e.assertOK(ta) == 1
			} else {
				holds = e.canHold(recv.Type()) && c19IsRuleIface(recv.Type())
			}
			if !holds {
				return 0
			}
			return e.boolOf(e.method(x.Call.Method.Name()), 0, depth+1)
		}
		if callee := x.Call.StaticCallee(); e.w.inPkg(callee) {
			return e.boolOf(callee, 0, depth+1)
		}
	}
	return 0
}

// c19IsRuleIface: t is the exported interface RotateRule.
func c19IsRuleIface(t types.Type) bool {
	n, ok := t.(*types.Named)
	return ok && n.Obj().Name() == "RotateRule"
}

// feasible: the blocks and edges of g a logger whose rule is a *T can take.
func (e *c19TypeEval) feasible(g *ssa.Function, depth int) *c19Feasible {
	if fe := e.feas[g]; fe != nil {
		return fe
	}
	fe := &c19Feasible{blocks: map[*ssa.BasicBlock]bool{}, edges: map[core.Edge]bool{}}
	if g == nil || len(g.Blocks) == 0 {
		return fe
	}
	type state struct{ b, pred *ssa.BasicBlock }
	seen := map[state]bool{}
	work := []state{{g.Blocks[0], nil}}
	for len(work) > 0 {
		st := work[len(work)-1]
		work = work[:len(work)-1]
		if seen[st] {
			continue
		}
		seen[st] = true
		fe.blocks[st.b] = true
		known := 0
		if len(st.b.Instrs) > 0 {
			if iff, ok := st.b.Instrs[len(st.b.Instrs)-1].(*ssa.If); ok && depth <= 10 {
				known = e.val(iff.Cond, st.b, st.pred, depth+1)
			}
		}
		for i, s := range st.b.Succs {
			if len(st.b.Succs) == 2 && ((known == 1 && i == 1) || (known == 2 && i == 0)) {
				continue
			}
			fe.edges[core.Edge{From: st.b, To: s}] = true
			work = append(work, state{s, st.b})
		}
	}
	// (memoised only when complete: a recursive evaluation in progress sees the partial answer)
	e.feas[g] = fe
	return fe
}

// c19NameLeaf: a value that may be what v denotes for a rule of the evaluated type.
type c19NameLeaf struct {
	v  ssa.Value
	fn *ssa.Function
}

// leaves expands v (a value of g) through φ-nodes (feasible edges only), results of in-package
// callees (feasible returns only; not through isName calls) and parameters (every call site).
func (e *c19TypeEval) leaves(v ssa.Value, g *ssa.Function, isName func(ssa.Value) bool, out *[]c19NameLeaf) {
	type key struct {
		v ssa.Value
	}
	seen := map[key]bool{}
	var walk func(v ssa.Value, g *ssa.Function, depth int)
	walk = func(v ssa.Value, g *ssa.Function, depth int) {
		v = core.Forward(v)
		if v == nil || seen[key{v}] || depth > 5 {
			return
		}
		seen[key{v}] = true
		if isName(v) {
			*out = append(*out, c19NameLeaf{v, g})
			return
		}
		switch x := v.(type) {
		case *ssa.UnOp:
			// a field read back right after it was written (l.backup = name; return l.backup): the value written
			if fa, ok := x.X.(*ssa.FieldAddr); ok && x.Op == token.MUL {
				instrs := x.Block().Instrs
				at := -1
				for i, in := range instrs {
					if in == ssa.Instruction(x) {
						at = i
					}
				}
			back:
				for i := at - 1; i >= 0; i-- {
					switch y := instrs[i].(type) {
					case *ssa.Store:
						if fb, ok := y.Addr.(*ssa.FieldAddr); ok && fb.Field == fa.Field && core.Forward(fb.X) == core.Forward(fa.X) {
							walk(y.Val, g, depth)
							return
						}
					case ssa.CallInstruction:
						break back
					}
				}
			}
		case *ssa.Phi:
			fe := e.feasible(x.Parent(), 0)
			for i, ed := range x.Edges {
				if fe.edges[core.Edge{From: x.Block().Preds[i], To: x.Block()}] {
					walk(ed, x.Parent(), depth)
				}
			}
			return
		case *ssa.Call:
			if callee := x.Call.StaticCallee(); e.w.inPkg(callee) {
				fe := e.feasible(callee, 0)
				for _, ret := range core.Returns(callee) {
					if fe.blocks[ret.Block()] && len(ret.Results) > 0 {
						walk(ret.Results[0], callee, depth+1)
					}
				}
				return
			}
		case *ssa.Extract:
			if c, ok := x.Tuple.(*ssa.Call); ok {
				if callee := c.Call.StaticCallee(); e.w.inPkg(callee) {
					fe := e.feasible(callee, 0)
					for _, ret := range core.Returns(callee) {
						if fe.blocks[ret.Block()] && x.Index < len(ret.Results) {
							walk(ret.Results[x.Index], callee, depth+1)
						}
					}
					return
				}
			}
		case *ssa.Parameter:
			f := x.Parent()
			sites := e.w.sites[f]
			idx := -1
			for i, pa := range f.Params {
				if pa == x {
					idx = i
				}
			}
			if idx >= 0 && len(sites) > 0 && f.Object() != nil && !f.Object().Exported() {
				for _, c := range sites {
					if a := c.Common().Args; idx < len(a) {
						walk(a[idx], c.Parent(), depth+1)
					}
				}
				return
			}
		}
		*out = append(*out, c19NameLeaf{v, g})
	}
	walk(v, g, 0)
}

// ---------------------------------------------------------------- listed names and the current file

// c19ElemNorm drops what does not change which file a name denotes for the comparison: local
// slots, conversions, filepath.Clean / path.Clean.
func c19ElemNorm(v ssa.Value) ssa.Value {
	for i := 0; i < 8; i++ {
		v = core.Strip(core.Forward(v))
		c, ok := v.(*ssa.Call)
		if !ok {
			return v
		}
		switch core.Short(core.CalleeName(c)) {
		case "path/filepath.Clean", "path.Clean":
			v = c.Call.Args[0]
			continue
		}
		return v
	}
	return v
}

// c19SameElem: a and b denote the same listed name – the same value, or two loads of the same
// element (same slice value, same index value).
func c19SameElem(a, b ssa.Value) bool {
	a, b = c19ElemNorm(a), c19ElemNorm(b)
	if a == b {
		return true
	}
	ua, ok1 := a.(*ssa.UnOp)
	ub, ok2 := b.(*ssa.UnOp)
	if !ok1 || !ok2 || ua.Op != token.MUL || ub.Op != token.MUL {
		return false
	}
	ia, ok1 := ua.X.(*ssa.IndexAddr)
	ib, ok2 := ub.X.(*ssa.IndexAddr)
	return ok1 && ok2 && core.Forward(ia.X) == core.Forward(ib.X) && ia.Index == ib.Index
}

// c19IsCurrentName: v is the rule's own file name (the current log file), possibly cleaned.
func c19IsCurrentName(v ssa.Value) bool {
	return core.FieldAddrNameOfLoad(c19ElemNorm(v)) == "DailyRotateRule.filename"
}

// c19NotCurrent: the atom "e is not the current log file" – a comparison of e with the rule's
// file name (== / !=, either operand order, filepath.Clean on either side), or a call of an
// in-package function that returns such a comparison of the parameter e is passed at.
//
// rec, when not nil, is told every such comparison met (the comparison, its operand that is the
// rule's file name and its operand that is the listed name) – see c19_r10.go.
func c19NotCurrent(e ssa.Value, inPkg func(*ssa.Function) bool, rec func(cmp *ssa.BinOp, name, listed ssa.Value)) core.Atom {
	var pol func(v ssa.Value, e ssa.Value, depth int) (bool, bool)
	pol = func(v ssa.Value, e ssa.Value, depth int) (bool, bool) {
		flip := false
		for {
			v = core.Forward(v)
			if u, ok := v.(*ssa.UnOp); ok && u.Op == token.NOT {
				v, flip = u.X, !flip
				continue
			}
			break
		}
		switch x := v.(type) {
		case *ssa.BinOp:
			if x.Op != token.EQL && x.Op != token.NEQ {
				return false, false
			}
			if c19SameElem(x.X, e) && c19IsCurrentName(x.Y) {
				if rec != nil {
					rec(x, x.Y, x.X)
				}
				return true, (x.Op == token.NEQ) != flip
			}
			if c19SameElem(x.Y, e) && c19IsCurrentName(x.X) {
				if rec != nil {
					rec(x, x.X, x.Y)
				}
				return true, (x.Op == token.NEQ) != flip
			}
		case *ssa.Call:
			h := x.Call.StaticCallee()
			if depth > 2 || !inPkg(h) || x.Call.IsInvoke() {
				return false, false
			}
			for j, a := range x.Call.Args {
				if j >= len(h.Params) || !c19SameElem(a, e) {
					continue
				}
				any, first := false, false
				for _, ret := range core.Returns(h) {
					if len(ret.Results) != 1 {
						return false, false
					}
					m, p := pol(core.Result(ret, 0), h.Params[j], depth+1)
					if !m || (any && p != first) {
						return false, false
					}
					any, first = true, p
				}
				if any {
					return true, first != flip
				}
			}
		}
		return false, false
	}
	return func(v ssa.Value) (bool, bool) { return pol(v, e, 0) }
}

func c19R9(r *core.Run, pkg string) {
	p := r.P

	var loggerFns []*ssa.Function
	for _, f := range p.PkgFuncs(pkg) {
		root := f
		for root.Parent() != nil {
			root = root.Parent()
		}
		if c19IsRecvOf(root, "RotateLogger") {
			loggerFns = append(loggerFns, f)
		}
	}

	r.Check("D2/K8/size-backup-named-at-rotation", "for a rotate rule that rotates on size (its ShallRotate answer depends on the size it is asked about, so a rotation can come at any moment after the file was opened, the same second or days later) and names its backups after the clock, the name RotateLogger renames the current file to derives from a BackupFilename() call made in the course of that rotation, never from a name the logger stored when it opened the file – decided per rule type, with the tests rotate makes on the rule's type evaluated for that type [first and third clause: a name fixed at opening time is the time of the previous rotation – a first rotation in the second of the opening gives the next file the same name and the second rename silently replaces the first backup, a whole file of records is in no file; and a file that took longer than the retention days to fill is renamed to a name that is already below the retention boundary and deleted by the clean-up of its own rotation]", func(o *core.O) {
		sp := p.Pkg(pkg)
		rules := c19RuleTypes(p, pkg)
		if !o.Need(sp != nil && len(rules) > 0, "a struct type of "+pkg+" implementing RotateRule") {
			return
		}
		w := c19NewIngWalker(p, pkg)
		isRename := core.CallTo("os.Rename")
		ruleBackups := map[*ssa.Function]bool{}
		for _, rt := range rules {
			ruleBackups[rt.backup] = true
		}
		isNameCall := func(v ssa.Value) bool {
			c, ok := v.(*ssa.Call)
			if !ok {
				return false
			}
			if core.CallMethod("logx.RotateRule", "BackupFilename")(c) {
				return true
			}
			return ruleBackups[c.Call.StaticCallee()]
		}
		// where the logger keeps a backup name: the fields (of any struct of the package) some function
		// stores a BackupFilename() result into
		holding := map[string]bool{}
		for _, f := range p.PkgFuncs(pkg) {
			for _, in := range core.Instrs(f, func(in ssa.Instruction) bool { _, ok := in.(*ssa.Store); return ok }) {
				st := in.(*ssa.Store)
				name := core.FieldAddrName(st.Addr)
				if name == "" {
					continue
				}
				for _, leaf := range gxPhiLeaves(core.Forward(st.Val)) {
					if core.DependsOn(leaf, isNameCall) {
						holding[name] = true
					}
				}
			}
		}
		isStored := func(v ssa.Value) bool { return holding[core.FieldAddrNameOfLoad(v)] }
		type rn struct {
			f *ssa.Function
			c ssa.CallInstruction
		}
		var renames []rn
		for _, f := range loggerFns {
			for _, c := range core.Calls(f, isRename) {
				renames = append(renames, rn{f, c})
			}
		}
		if !o.Need(len(renames) > 0, "a RotateLogger function calling os.Rename (rotate)") {
			return
		}
		nSize := 0
		for _, rt := range rules {
			tn, _ := sp.Pkg.Scope().Lookup(rt.name).(*types.TypeName)
			if tn == nil {
				continue
			}
			ev := &c19TypeEval{p: p, pkg: sp.Pkg, w: w, ptr: types.NewPointer(tn.Type()), feas: map[*ssa.Function]*c19Feasible{}, busy: map[*ssa.Function]bool{}}
			shall := ev.method("ShallRotate")
			if shall == nil || len(shall.Params) < 2 {
				o.Unres("%s: no ShallRotate(size) method body", rt.name)
				continue
			}
			onSize := false
			for _, ret := range core.Returns(shall) {
				if len(ret.Results) == 1 && core.DependsOn(core.Result(ret, 0), core.ParamAt(shall, 1)) {
					onSize = true
				}
			}
			clock := false
			for _, ret := range core.Returns(rt.backup) {
				if len(ret.Results) == 1 && w.of(core.Result(ret, 0)).clock {
					clock = true
				}
			}
			if !onSize || !clock {
				continue // the daily rule: the name fixed when the file is opened is the day its records belong to
			}
			nSize++
			r.Fn(core.FuncName(shall), core.FuncName(rt.backup))
			for _, x := range renames {
				r.Fn(core.FuncName(x.f))
				o.Site(1, rt.name+" in "+core.FuncName(x.f))
				var ls []c19NameLeaf
				ev.leaves(core.Args(x.c)[1], x.f, isNameCall, &ls)
				fresh, stored := 0, 0
				for _, l := range ls {
					switch {
					case core.DependsOn(l.v, isStored):
						stored++
						o.Fail(p.InstrPos(x.c), "for a %s the name %s renames the log file to can be %s (%s), a name stored in the logger when the file was opened: rotation k is named with the time of rotation k−1 and the first one with the time the logger started – a rotation in the same second as the opening makes the next rotation rename onto the first backup (os.Rename replaces it, its records are in no file), and a file that filled more slowly than the retention period is deleted by the clean-up of its own rotation", rt.name, core.FuncName(x.f), core.Describe(l.v), c19ValuePos(p, l.v))
					case core.DependsOn(l.v, isNameCall):
						fresh++
					}
				}
				if fresh+stored == 0 {
					o.Unres("%s in %s: the name handed to os.Rename was traced neither to a BackupFilename() call nor to a stored name (%d values)", rt.name, core.FuncName(x.f), len(ls))
				}
			}
		}
		if nSize == 0 {
			o.Unres("no rotate rule whose ShallRotate answer depends on the size and whose backup name reads the clock")
		}
	})

	r.Check("D4/K2/current-file-never-outdated", "per rotate rule, a name listed by filepath.Glob in OutdatedFiles is handed on (appended to a list, recorded as a map key, passed to a callback, stored) only after it was compared with the rule's own file name and found different, and the list of matches is never returned as it is [clean-up clause – never the current file: with an empty delimiter (a boundary value of the configuration) the patterns filename+delimiter+\"*\" and prefix+delimiter+\"*\"+ext match the current log file, which orders below every boundary and first among the backups; the clean-up unlinks it and every later record goes to a file no one can open]", func(o *core.O) {
		rules := c19RuleTypes(p, pkg)
		if !o.Need(len(rules) > 0, "a struct type of "+pkg+" implementing RotateRule") {
			return
		}
		w := c19NewIngWalker(p, pkg)
		mcSites, _ := c19ClosureSites(p.PkgFuncs(pkg))
		for _, rt := range rules {
			r.Fn(core.FuncName(rt.outdated))
			globs, sites, fails := c19ListedScan(w, mcSites, rt, nil)
			if globs == 0 {
				o.Unres("%s: no filepath.Glob reachable from OutdatedFiles", rt.name)
				continue
			}
			o.Site(globs+sites, rt.name)
			if sites == 0 {
				o.Unres("%s: no place was found where OutdatedFiles hands on a name listed by filepath.Glob", rt.name)
				continue
			}
			seen := map[ssa.Instruction]bool{}
			for _, fl := range fails {
				if seen[fl.at] {
					continue
				}
				seen[fl.at] = true
				o.Fail(p.InstrPos(fl.at), "%s: a name listed by filepath.Glob is %s in %s without having been compared with the rule's own file name: with an empty delimiter the pattern matches the current log file, it orders below every retention boundary and before every backup, OutdatedFiles lists it and the clean-up unlinks the file that is being written – every later record is lost", rt.name, fl.what, core.FuncName(fl.at.Parent()))
			}
		}
	})
}

// c19ListFail: a place where a listed name is handed on without the comparison.
type c19ListFail struct {
	at   ssa.Instruction
	what string
}

// c19ListedScan follows the names listed by filepath.Glob through the functions reachable from the
// rule's OutdatedFiles: the number of Glob calls, of places where a listed name is handed on, and
// the unguarded ones among them. rec (may be nil) is told the comparisons of a listed name with
// the rule's own file name that were met as guards.
func c19ListedScan(w *c19IngWalker, mcSites map[*ssa.Function][]*ssa.MakeClosure, rt c19RuleType, rec func(cmp *ssa.BinOp, name, listed ssa.Value)) (globs, sites int, fails []c19ListFail) {
	type fail = c19ListFail
	isGlob := core.CallTo("path/filepath.Glob")
	fns := w.reachable(rt.outdated, 3)
	for _, g := range fns {
		globs += len(core.Calls(g, isGlob))
	}
	if globs == 0 {
		return
	}
	taintP := map[*ssa.Parameter]bool{}
	var rawList func(v ssa.Value, seen map[ssa.Value]bool, depth int) bool
	rawList = func(v ssa.Value, seen map[ssa.Value]bool, depth int) bool {
		v = core.Strip(core.Forward(v))
		if v == nil || seen[v] || depth > 4 {
			return false
		}
		seen[v] = true
		switch x := v.(type) {
		case *ssa.Extract:
			c, ok := x.Tuple.(*ssa.Call)
			if !ok {
				return false
			}
			if isGlob(c) {
				return x.Index == 0
			}
			if callee := c.Call.StaticCallee(); w.inPkg(callee) {
				for _, ret := range core.Returns(callee) {
					if x.Index < len(ret.Results) && rawList(ret.Results[x.Index], seen, depth+1) {
						return true
					}
				}
			}
		case *ssa.Phi:
			for _, ed := range x.Edges {
				if rawList(ed, seen, depth) {
					return true
				}
			}
		case *ssa.Slice:
			if x.High != nil {
				if c, ok := core.ConstInt(x.High); ok && c == 0 {
					return false // an empty list (the files[:0] idiom re-uses the array only)
				}
			}
			return rawList(x.X, seen, depth)
		case *ssa.Parameter:
			return taintP[x]
		case *ssa.Call:
			if core.CalleeName(x) == "builtin:append" {
				for _, a := range x.Call.Args {
					if rawList(a, seen, depth) {
						return true
					}
				}
				return false
			}
			if callee := x.Call.StaticCallee(); w.inPkg(callee) {
				for _, ret := range core.Returns(callee) {
					if len(ret.Results) > 0 && rawList(ret.Results[0], seen, depth+1) {
						return true
					}
				}
			}
		}
		return false
	}
	isRaw := func(v ssa.Value) bool {
		if _, ok := v.Type().Underlying().(*types.Slice); !ok {
			return false
		}
		return rawList(v, map[ssa.Value]bool{}, 0)
	}
	var elem func(v ssa.Value, depth int) bool
	elem = func(v ssa.Value, depth int) bool {
		if depth > 6 {
			return false
		}
		v = c19ElemNorm(v)
		if b, ok := v.Type().Underlying().(*types.Basic); !ok || b.Info()&types.IsString == 0 {
			return false
		}
		switch x := v.(type) {
		case *ssa.UnOp:
			if ia, ok := x.X.(*ssa.IndexAddr); ok && x.Op == token.MUL {
				return isRaw(ia.X)
			}
		case *ssa.Parameter:
			return taintP[x]
		case *ssa.Phi:
			for _, ed := range x.Edges {
				if elem(ed, depth+1) {
					return true
				}
			}
		}
		return false
	}
	inSet := map[*ssa.Function]bool{}
	for _, g := range fns {
		inSet[g] = true
	}
	// one pass over the functions: the places where a listed name is handed on, the unguarded
	// ones among them, and the parameters that receive a listed name unguarded
	pass := func() (sites int, fails []fail, grew bool) {
		for _, g := range fns {
			guarded := func(site ssa.Instruction, e ssa.Value) bool {
				at := c19NotCurrent(e, w.inPkg, rec)
				return core.EdgeCount(g, at) > 0 && core.Requires(g, core.Is(site), at) == nil
			}
			for _, b := range g.Blocks {
				for _, in := range b.Instrs {
					switch x := in.(type) {
					case *ssa.MapUpdate:
						if elem(x.Key, 0) {
							sites++
							if !guarded(in, x.Key) {
								fails = append(fails, fail{in, "recorded as a map key"})
							}
						}
					case *ssa.Store:
						if _, isStr := x.Val.Type().Underlying().(*types.Basic); !isStr || !elem(x.Val, 0) {
							continue
						}
						switch x.Addr.(type) {
						case *ssa.IndexAddr, *ssa.FieldAddr, *ssa.Global:
							sites++
							if !guarded(in, x.Val) {
								fails = append(fails, fail{in, "appended to a list / stored"})
							}
						}
					case *ssa.Send:
						if elem(x.X, 0) {
							sites++
							if !guarded(in, x.X) {
								fails = append(fails, fail{in, "sent on a channel"})
							}
						}
					case *ssa.Return:
						if g != rt.outdated {
							continue
						}
						for _, res := range x.Results {
							if isRaw(res) {
								sites++
								fails = append(fails, fail{in, "returned with the whole list of matches, as it is"})
							}
						}
					case ssa.CallInstruction:
						cc := x.Common()
						if cc.IsInvoke() {
							continue
						}
						callee := cc.StaticCallee()
						if callee == nil {
							callee = c19FuncOf(cc.Value, mcSites)
						}
						if _, isBuiltin := cc.Value.(*ssa.Builtin); isBuiltin {
							continue
						}
						for j, a := range cc.Args {
							isE, isL := elem(a, 0), isRaw(a)
							if !isE && !isL {
								continue
							}
							switch {
							case callee != nil && callee.Blocks != nil && inSet[callee]:
								if j < len(callee.Params) && !taintP[callee.Params[j]] && (isL || !guarded(in, a)) {
									taintP[callee.Params[j]] = true
									grew = true
								}
							case callee == nil && isE:
								// a function value of unknown body (a callback parameter)
								sites++
								if !guarded(in, a) {
									fails = append(fails, fail{in, "passed to a callback"})
								}
							}
						}
					}
				}
			}
		}
		return
	}
	for i := 0; i < 6; i++ {
		var grew bool
		sites, fails, grew = pass()
		if !grew {
			break
		}
	}
	return
}

// c19ValuePos: where a value is computed (its instruction), for messages.
func c19ValuePos(p *core.Prog, v ssa.Value) string {
	if in, ok := v.(ssa.Instruction); ok {
		return p.InstrPos(in)
	}
	return strings.TrimSpace(v.Name())
}
