package props

import (
	"go/constant"
	"go/token"
	"go/types"

	"godcheck/core"

	"golang.org/x/tools/go/ssa"
)

// Rules written with the round-9 fixes (hunter findings f1, f6, f12; f7 strengthens
// D4/K6/range-boundary-table in c05.go, f10 strengthens D6/K5/memo-key-covers-value in
// c05_typed.go).
func c05R9(r *core.Run) {
	p := r.P
	var scope []*ssa.Function
	for _, rel := range c05Scope {
		scope = append(scope, p.PkgFuncs(rel)...)
	}
	r.Explanation += " Round 9: the number handed to SetUint/OverflowUint (and an unsigned number a converter returns boxed) never comes through a conversion from a signed or floating-point value; the YAML→JSON value normaliser maps nil to nil (evaluated on a nil input); reflect.Value.Convert(T) only after ConvertibleTo(T)/CanConvert(T) on that value, or after its destination kind was shown to be a basic kind; validateNumberRange rejects NaN under every bracket combination; a memo in a package-level map is keyed by every parameter its value is computed from."
	r.NotDecided += " Round 9, not decided: that the unsigned parse accepts exactly the texts the signed one did ('+5', '-0'); NaN on the marshalling side (httpc's validateRange) and NaN/Inf bounds in a range= tag; memo values that depend on a receiver field other than the one the key covers (the memo rule compares whole parameters); Convert reached through a reflect.Value that is re-assigned between test and use in another function."

	r.Check("D1/K8/unsigned-parsed-as-unsigned", "the number handed to reflect.Value.SetUint / OverflowUint in the unmarshalling packages, and an unsigned number returned boxed by one of their functions, is never the result of a numeric conversion from a signed-integer or floating-point value - followed back through φ-nodes, width changes, arithmetic and parameters of in-package helpers (a signed 64-bit parse cannot represent [2^63, 2^64), a float not every value above 2^53: a uint64 field must take every value that fits it exactly, so the text is parsed as unsigned)", func(o *core.O) {
		c05UnsignedRule(r, o, scope)
	})
	r.Check("D5/K6/yaml-null-stays-null", "the value normaliser of the YAML→JSON bridge (internal/encoding: the function any → any that type-switches a decoded YAML value) returns nil for nil - evaluated on a nil input: no conversion is applied to a null, or the normaliser is called only with non-nil values (a YAML null / ~ / empty value rendered as the string \"\" is a present string for the JSON entry point, while a JSON null counts as absent: the same content loads differently from YAML and from JSON)", func(o *core.O) {
		c05YamlNullRule(r, o, p.PkgFuncs("internal/encoding"))
	})
	r.Check("D7/K2/convert-only-when-convertible", "reflect.Value.Convert(T) in the unmarshalling packages is reachable only after v.Type().ConvertibleTo(T) / v.CanConvert(T) succeeded for the very value and type, or after T's (or v's) Kind() was compared equal to a basic kind (bool, ints, uints, floats, complex, string), for which equal kinds imply convertibility; an equal-Kind() test alone does not (two different struct types, arrays, funcs, multi-level pointers have equal kinds and Convert panics)", func(o *core.O) {
		c05ConvertibleRule(r, o, scope)
	})
}

// ---------------------------------------------------------------------------
// D1/K8/unsigned-parsed-as-unsigned

func c05BasicInfo(t types.Type) types.BasicInfo {
	if b, ok := t.Underlying().(*types.Basic); ok {
		return b.Info()
	}
	return 0
}

func c05IsUnsigned(t types.Type) bool {
	b, ok := t.Underlying().(*types.Basic)
	return ok && b.Info()&types.IsUnsigned != 0 && b.Kind() != types.Uintptr
}

func c05UnsignedRule(r *core.Run, o *core.O, funcs []*ssa.Function) {
	p := r.P
	byPkg := map[*ssa.Package][]*ssa.Function{}
	for _, f := range funcs {
		byPkg[f.Pkg] = append(byPkg[f.Pkg], f)
	}
	// bad: the first signed/float → unsigned conversion met while walking v back
	var bad func(f *ssa.Function, v ssa.Value, seen map[ssa.Value]bool, depth int) ssa.Value
	bad = func(f *ssa.Function, v ssa.Value, seen map[ssa.Value]bool, depth int) ssa.Value {
		v = core.Forward(v)
		if v == nil || seen[v] {
			return nil
		}
		seen[v] = true
		switch x := v.(type) {
		case *ssa.Convert:
			info := c05BasicInfo(x.X.Type())
			if c05IsUnsigned(x.Type()) && (info&types.IsFloat != 0 || (info&types.IsInteger != 0 && info&types.IsUnsigned == 0)) {
				if _, isConst := x.X.(*ssa.Const); !isConst {
					return x
				}
			}
			return bad(f, x.X, seen, depth)
		case *ssa.ChangeType:
			return bad(f, x.X, seen, depth)
		case *ssa.Phi:
			for _, e := range x.Edges {
				if w := bad(f, e, seen, depth); w != nil {
					return w
				}
			}
		case *ssa.BinOp:
			switch x.Op {
			case token.ADD, token.SUB, token.MUL, token.QUO, token.REM, token.AND, token.OR, token.XOR, token.SHL, token.SHR, token.AND_NOT:
				if w := bad(f, x.X, seen, depth); w != nil {
					return w
				}
				return bad(f, x.Y, seen, depth)
			}
		case *ssa.Parameter:
			if depth == 0 || f.Pkg == nil || (f.Object() != nil && f.Object().Exported()) {
				return nil
			}
			sites, esc := callSitesOf(byPkg[f.Pkg], f)
			if esc {
				return nil
			}
			idx := paramIndex(f, x)
			for _, cs := range sites {
				if idx < 0 || idx >= len(cs.Common().Args) {
					continue
				}
				if w := bad(cs.Parent(), cs.Common().Args[idx], seen, depth-1); w != nil {
					return w
				}
			}
		}
		return nil
	}
	n := 0
	report := func(f *ssa.Function, at ssa.Instruction, what string, v ssa.Value) {
		n++
		r.Fn(core.FuncName(f))
		if w := bad(f, v, map[ssa.Value]bool{}, 2); w != nil {
			cv := w.(*ssa.Convert)
			o.Fail(p.InstrPos(at), "%s: %s is %s converted from a %s value at %s: what was parsed as a signed or floating-point number cannot be every value of an unsigned 64-bit field (2^63 … 2^64-1 are refused or rounded although they fit)", core.FuncName(f), what, core.Describe(v), cv.X.Type().String(), p.InstrPos(cv))
		}
	}
	for _, f := range funcs {
		for _, c := range core.Calls(f, core.CallTo("(reflect.Value).SetUint", "(reflect.Value).OverflowUint")) {
			args := core.Args(c)
			if len(args) != 2 {
				continue
			}
			if _, isConst := core.Strip(args[1]).(*ssa.Const); isConst {
				continue
			}
			report(f, c, "the operand of "+core.Short(core.CalleeName(c)), args[1])
		}
		if f.Signature.Results().Len() == 0 {
			continue
		}
		for _, ret := range core.Returns(f) {
			for i := 0; i < f.Signature.Results().Len(); i++ {
				mi, ok := core.Forward(core.Result(ret, i)).(*ssa.MakeInterface)
				if !ok || !c05IsUnsigned(mi.X.Type()) {
					continue
				}
				if _, isConst := mi.X.(*ssa.Const); isConst {
					continue
				}
				report(f, ret, "the unsigned number returned boxed", mi.X)
			}
		}
	}
	o.Site(n, "SetUint/OverflowUint operands and boxed unsigned results in the unmarshalling packages")
	if n == 0 {
		o.Unres("no reflect.Value.SetUint/OverflowUint with a non-constant operand found in the unmarshalling packages")
	}
}

// ---------------------------------------------------------------------------
// D5/K6/yaml-null-stays-null

// c05YamlNormalisers: by role, the functions (any) any of the package that test their
// parameter's dynamic type (comma-ok assertions: a lowered type switch).
func c05YamlNormalisers(funcs []*ssa.Function) []*ssa.Function {
	var out []*ssa.Function
	for _, f := range funcs {
		if f.Parent() != nil || len(f.Params) != 1 || f.Signature.Results().Len() != 1 || len(f.Blocks) == 0 {
			continue
		}
		if !types.IsInterface(f.Params[0].Type()) || !types.IsInterface(f.Signature.Results().At(0).Type()) {
			continue
		}
		n := 0
		for _, in := range core.Instrs(f, func(in ssa.Instruction) bool {
			ta, ok := in.(*ssa.TypeAssert)
			return ok && ta.CommaOk && ta.X == ssa.Value(f.Params[0])
		}) {
			_ = in
			n++
		}
		if n > 0 {
			out = append(out, f)
		}
	}
	return out
}

func c05YamlNullRule(r *core.Run, o *core.O, funcs []*ssa.Function) {
	p := r.P
	norms := c05YamlNormalisers(funcs)
	if len(norms) == 0 {
		o.Unres("no function (any) any that type-switches its parameter found in internal/encoding (the YAML value normaliser)")
		return
	}
	for _, f := range norms {
		r.Fn(core.FuncName(f))
		o.Site(1, core.FuncName(f))
		v := f.Params[0]
		// evaluate f on v = nil: every comma-ok assertion of v fails, v == nil holds
		var eval func(c ssa.Value, prev, cur *ssa.BasicBlock) (bool, bool)
		eval = func(c ssa.Value, prev, cur *ssa.BasicBlock) (bool, bool) {
			switch x := c.(type) {
			case *ssa.Const:
				if x.Value != nil && x.Value.Kind() == constant.Bool {
					return constant.BoolVal(x.Value), true
				}
			case *ssa.UnOp:
				if x.Op == token.NOT {
					b, ok := eval(x.X, prev, cur)
					return !b, ok
				}
			case *ssa.Extract:
				if ta, ok := x.Tuple.(*ssa.TypeAssert); ok && ta.CommaOk && ta.X == ssa.Value(v) && x.Index == 1 {
					return false, true
				}
			case *ssa.BinOp:
				if (x.X == ssa.Value(v) && core.IsNil(x.Y)) || (x.Y == ssa.Value(v) && core.IsNil(x.X)) {
					switch x.Op {
					case token.EQL:
						return true, true
					case token.NEQ:
						return false, true
					}
				}
			case *ssa.Phi:
				for i, pb := range x.Block().Preds {
					if pb == prev && x.Block() == cur {
						return eval(x.Edges[i], nil, nil)
					}
				}
			}
			return false, false
		}
		var prev *ssa.BasicBlock
		cur := f.Blocks[0]
		var result ssa.Value
		decided := false
	walk:
		for steps := 0; steps < 400; steps++ {
			switch t := gxLast(cur).(type) {
			case *ssa.Return:
				result, decided = core.Result(t, 0), true
				break walk
			case *ssa.Jump:
				prev, cur = cur, cur.Succs[0]
			case *ssa.If:
				b, ok := eval(t.Cond, prev, cur)
				if !ok {
					break walk
				}
				if b {
					prev, cur = cur, cur.Succs[0]
				} else {
					prev, cur = cur, cur.Succs[1]
				}
			default:
				break walk
			}
		}
		if !decided {
			o.Unres("%s: on a nil input a branch condition is neither a dynamic-type test nor a nil test of the parameter", core.FuncName(f))
			continue
		}
		// resolve a φ at the return block along the path taken
		if phi, ok := result.(*ssa.Phi); ok && phi.Block() == cur {
			for i, pb := range cur.Preds {
				if pb == prev {
					result = phi.Edges[i]
				}
			}
		}
		if core.IsNil(result) || result == ssa.Value(v) {
			continue
		}
		if ct, ok := result.(*ssa.ChangeInterface); ok && ct.X == ssa.Value(v) {
			continue
		}
		// the normaliser does turn nil into something: acceptable only if nobody hands it a nil
		sites, esc := callSitesOf(funcs, f)
		guarded := !esc && len(sites) > 0
		for _, cs := range sites {
			arg := cs.Common().Args[0]
			nonNil := core.Cmp(token.NEQ, func(x ssa.Value) bool { return sameVal(x, arg) || sameDoc(x, arg) }, core.IsNil)
			if core.EdgeCount(cs.Parent(), nonNil) == 0 || requiresX(cs.Parent(), core.Is(cs), nonNil) != nil {
				guarded = false
			}
		}
		if !guarded {
			o.Fail(p.Pos(f.Pos()), "%s: a nil value (YAML null, ~ or an empty value) is returned as %s instead of nil: the JSON produced for the document holds a string where the JSON form of the same content holds null, so optional/required and type checks decide differently for YAML and JSON", core.FuncName(f), core.Describe(result))
		}
	}
}

// ---------------------------------------------------------------------------
// D7/K2/convert-only-when-convertible

func c05ConvertibleRule(r *core.Run, o *core.O, funcs []*ssa.Function) {
	p := r.P
	o.ZeroOK() // lint: a tree without reflect Convert satisfies it
	basic := []int64{1, 2, 3, 4, 5, 6, 7, 8, 9, 10, 11, 12, 13, 14, 15, 16, 24}
	for _, f := range funcs {
		for _, c := range core.Calls(f, core.CallTo("(reflect.Value).Convert")) {
			o.Site(1, core.FuncName(f))
			r.Fn(core.FuncName(f))
			args := core.Args(c)
			rv, typ := args[0], args[1]
			isTyp := func(t ssa.Value) bool { return sameType(t, typ) }
			conv := core.BoolVal(func(v ssa.Value) bool {
				q, ok := v.(*ssa.Call)
				if !ok {
					return false
				}
				if q.Call.IsInvoke() {
					return q.Call.Method.Name() == "ConvertibleTo" && typeOfRV(rv)(q.Call.Value) && len(q.Call.Args) == 1 && isTyp(q.Call.Args[0])
				}
				return core.CalleeName(q) == "(reflect.Value).CanConvert" && rvSame(q.Call.Args[0], rv) && isTyp(q.Call.Args[1])
			})
			atoms := []core.Atom{conv}
			kindOfEither := func(v ssa.Value) bool {
				k, ok := core.Forward(v).(*ssa.Call)
				if !ok {
					return false
				}
				if k.Call.IsInvoke() {
					return k.Call.Method.Name() == "Kind" && isReflectType(k.Call.Value.Type()) && isTyp(k.Call.Value)
				}
				return core.CalleeName(k) == "(reflect.Value).Kind" && rvSame(k.Call.Args[0], rv)
			}
			for _, k := range basic {
				atoms = append(atoms, core.Cmp(token.EQL, kindOfEither, core.IsConstInt(k)))
			}
			found := false
			for _, a := range atoms {
				if core.EdgeCount(f, a) > 0 {
					found = true
				}
			}
			if !found || requiresX(f, core.Is(c), atoms...) != nil {
				o.Fail(p.InstrPos(c), "%s: %s.Convert(%s) is reachable without ConvertibleTo/CanConvert having succeeded for this value and type (and the kind is not narrowed to a basic one): a document value of the same Kind but another struct/array/func/pointer type makes reflect panic instead of yielding a type mismatch", core.FuncName(f), core.Describe(rv), core.Describe(typ))
			}
		}
	}
}
