package props

import (
	"fmt"
	"go/token"
	"go/types"
	"math/big"
	"sort"
	"strings"

	"godcheck/core"

	"golang.org/x/tools/go/ssa"
)

func init() { register("C09", c09) }

const (
	loadPkg = "lib/load"
	collPkg = "lib/collection"
)

// c09ctx holds the anchors of lib/load resolved by role.
type c09ctx struct {
	p   *core.Prog
	typ string // the adaptive shedder struct ("adaptiveShedder")
	// helper functions that move the in-flight counter by their parameter #idx
	flyHelpers map[*ssa.Function]int
	allow      *ssa.Function
	shouldDrop *ssa.Function
	overloaded *ssa.Function
	hot        *ssa.Function
	highThru   *ssa.Function
	maxFlight  *ssa.Function
	maxPass    *ssa.Function
	minRt      *ssa.Function
	missing    []string
}

func (c *c09ctx) field(n string) string { return c.typ + "." + n }

func newC09ctx(p *core.Prog) *c09ctx {
	c := &c09ctx{p: p, flyHelpers: map[*ssa.Function]int{}}
	sp := p.Pkg(loadPkg)
	if sp == nil {
		c.missing = append(c.missing, "package "+loadPkg)
		return c
	}
	// role: the shedder is the struct of lib/load that owns a SpinLock-guarded average
	var names []string
	for n := range sp.Members {
		names = append(names, n)
	}
	sort.Strings(names)
	for _, n := range names {
		t, ok := sp.Members[n].(*ssa.Type)
		if !ok {
			continue
		}
		st, ok := t.Type().Underlying().(*types.Struct)
		if !ok {
			continue
		}
		for i := 0; i < st.NumFields(); i++ {
			if strings.HasSuffix(st.Field(i).Type().String(), "lib/syncx.SpinLock") {
				c.typ = n
			}
		}
	}
	if c.typ == "" {
		c.missing = append(c.missing, "the shedder struct (owns a syncx.SpinLock)")
		return c
	}
	fns := p.PkgFuncs(loadPkg)
	// in-flight helpers: exactly one atomic.AddInt64(&x.flying, param) on every path
	for _, f := range fns {
		if f.Parent() != nil {
			continue
		}
		adds := core.Calls(f, c.isRawFlyAdd)
		if len(adds) != 1 {
			continue
		}
		for i, pa := range f.Params {
			if isValueOf(pa)(core.Args(adds[0])[1]) && core.MustPass(core.Entry(f), c.isRawFlyAdd, core.IsExit) == nil {
				c.flyHelpers[f] = i
			}
		}
	}
	c.allow = p.Func(loadPkg, c.typ, "Allow")
	// anchors are resolved by role; when the role test does not single out one
	// function (e.g. because the very clause that defines the role was edited)
	// the conventional method name is used instead, so that the obligation about
	// that clause reports the edit rather than a vanished anchor.
	one := func(name string, pred func(f *ssa.Function) bool) *ssa.Function {
		var cands []*ssa.Function
		for _, f := range fns {
			if f.Parent() == nil && pred(f) {
				cands = append(cands, f)
			}
		}
		if len(cands) == 1 {
			return cands[0]
		}
		return p.Func(loadPkg, c.typ, name)
	}
	has := func(f *ssa.Function, pred func(ssa.Instruction) bool) bool { return len(core.Instrs(f, pred)) > 0 }
	boolResult := func(f *ssa.Function) bool {
		rs := f.Signature.Results()
		return rs.Len() == 1 && rs.At(0).Type().String() == "bool"
	}
	c.overloaded = one("systemOverloaded", func(f *ssa.Function) bool {
		return has(f, core.CallOfValue(core.IsGlobal(loadPkg, "systemOverloadChecker")))
	})
	c.hot = one("stillHot", func(f *ssa.Function) bool {
		return boolResult(f) && has(f, func(in ssa.Instruction) bool {
			cc := core.AsCall(in)
			return cc != nil && core.Short(core.CalleeName(cc)) == "(*lib/syncx.AtomicBool).True" && core.IsFieldLoad(core.Args(cc)[0], c.field("droppedRecently"))
		})
	})
	reducesOver := func(f *ssa.Function, fld string) bool {
		return has(f, func(in ssa.Instruction) bool {
			cc := core.AsCall(in)
			return cc != nil && core.Short(core.CalleeName(cc)) == rwReduce && core.IsFieldLoad(core.Args(cc)[0], c.field(fld))
		})
	}
	c.maxPass = one("maxPass", func(f *ssa.Function) bool { return reducesOver(f, "passCounter") })
	c.minRt = one("minRt", func(f *ssa.Function) bool { return reducesOver(f, "rtCounter") })
	c.maxFlight = one("maxFlight", func(f *ssa.Function) bool {
		return !boolResult(f) && f.Signature.Results().Len() == 1 && has(f, staticCallTo(c.maxPass)) && has(f, staticCallTo(c.minRt))
	})
	c.highThru = one("highThru", func(f *ssa.Function) bool {
		return boolResult(f) && has(f, staticCallTo(c.maxFlight))
	})
	c.shouldDrop = one("shouldDrop", func(f *ssa.Function) bool {
		return boolResult(f) && has(f, staticCallTo(c.overloaded)) && has(f, staticCallTo(c.highThru))
	})
	return c
}

func (c *c09ctx) isRawFlyAdd(in ssa.Instruction) bool {
	cc := core.AsCall(in)
	if cc == nil || core.Short(core.CalleeName(cc)) != "sync/atomic.AddInt64" {
		return false
	}
	return core.FieldAddrName(core.Args(cc)[0]) == c.field("flying")
}

// flyDelta classifies an instruction as a move of the in-flight counter by a constant.
func (c *c09ctx) flyDelta(in ssa.Instruction) (delta int64, known, isMove bool) {
	cc := core.AsCall(in)
	if cc == nil {
		return 0, false, false
	}
	if c.isRawFlyAdd(in) {
		d, ok := core.ConstInt(core.Args(cc)[1])
		return d, ok, true
	}
	if callee := cc.Common().StaticCallee(); callee != nil {
		if idx, ok := c.flyHelpers[callee]; ok && idx < len(cc.Common().Args) {
			d, ok := core.ConstInt(cc.Common().Args[idx])
			return d, ok, true
		}
	}
	return 0, false, false
}

func (c *c09ctx) isInc(in ssa.Instruction) bool {
	d, k, m := c.flyDelta(in)
	return m && (!k || d > 0)
}
func (c *c09ctx) isDec(in ssa.Instruction) bool {
	d, k, m := c.flyDelta(in)
	return m && (!k || d < 0)
}
func (c *c09ctx) isMove(in ssa.Instruction) bool { _, _, m := c.flyDelta(in); return m }

// promiseSite checks one integration site of an Allow()/promise protocol:
// the guarded action runs only after a successful Allow; the closure that
// reports to the promise is deferred by the same function, before the action
// and only on the admitted path, and reports exactly once on each of its paths.
func promiseSite(r *core.Run, o *core.O, h *ssa.Function, isAllow, isServe, isRep func(ssa.Instruction) bool, what string) {
	p := r.P
	var d *ssa.Function
	for _, g := range core.WithAnon(h) {
		if len(core.Instrs(g, isRep)) > 0 {
			if d != nil {
				o.Fail(p.Pos(g.Pos()), "%s: more than one function reports to the promise (double report)", what)
			}
			d = g
		}
	}
	if d == nil {
		o.Fail(p.Pos(h.Pos()), "%s: nothing reports to the promise (the in-flight count never returns to zero)", what)
		return
	}
	r.Fn(core.FuncName(h), core.FuncName(d))
	o.Site(2, core.FuncName(h), core.FuncName(d))
	allowOK := core.ErrNil(1, isAllow)
	if len(core.Instrs(h, isServe)) == 0 {
		o.Fail(p.Pos(h.Pos()), "%s: the guarded handler is never called", what)
	}
	if core.EdgeCount(h, allowOK) == 0 {
		o.Fail(p.Pos(h.Pos()), "%s: Allow's error is never tested", what)
	}
	if w := core.Requires(h, isServe, allowOK); w != nil {
		o.Fail(p.InstrPos(w), "%s: the guarded handler runs although Allow rejected the request", what)
	}
	if d.Parent() != h || len(core.Instrs(h, deferOfClosure(d))) == 0 {
		o.Fail(p.Pos(d.Pos()), "%s: the reporting closure is not deferred by the handler (a panicking handler leaves the promise unreported)", what)
		return
	}
	if w := core.Precedes(h, deferOfClosure(d), isServe); w != nil {
		o.Fail(p.InstrPos(w), "%s: the guarded handler can run before the reporting closure is deferred", what)
	}
	if w := core.Requires(h, deferOfClosure(d), allowOK); w != nil {
		o.Fail(p.InstrPos(w), "%s: the reporting closure is deferred on the rejected path (nil promise)", what)
	}
	if w := core.MustPass(core.Entry(d), isRep, core.IsExit); w != nil {
		o.Fail(p.InstrPos(w), "%s: a path through the reporting closure reports nothing", what)
	}
	if w := core.AtMostOnce(d, isRep); w != nil {
		o.Fail(p.InstrPos(w), "%s: a path reports twice", what)
	}
}

func c09(r *core.Run) {
	p := r.P
	r.Explanation = "Decides on every path: RollingWindow.{offset,lastTime,win} and the window's buckets are touched only under the window's write lock; Add advances the offset before adding into the bucket at the advanced offset; the offset advance ≡ (offset+span) mod size, lastTime stays bucket-aligned (now − (now−lastTime) mod interval), span is clamped to [0,size), Reduce visits (offset+span+1) mod size onwards for size−span buckets (size−1 when the current bucket is ignored). Shedder: Allow moves the in-flight counter by exactly +1 iff it returns a promise bound to this shedder and by 0 when it returns the error, which it does only when the drop decision is true; Pass and Fail move it by exactly −1; at both integration sites the handler runs only after a successful Allow and exactly one of Pass/Fail runs on every exit incl. panic; the drop decision is (overloaded ∨ stillHot) ∧ highThru as a truth table; highThru is the conjunction of both comparisons > maxFlight; the overload test is CpuUsage ≥ threshold and stamps the overload time; stillHot implies droppedRecently ∧ Since(overload) < 1 s; maxFlight ≡ int(max(1, maxPass·windows·minRt/1000)) as a product of reals; windows ≡ the real quotient 1 s / (window/buckets) — float operands, float division, float field, never truncated —, both counters use that bucket duration and ignore the current bucket; Pass feeds ceil(latency in ms) to the latency window and 1 to the pass window; maxPass/minRt reduce over the right window; the smoothed in-flight update is convex and under its spin lock."
	r.NotDecided = "which values a reduction sees at which instant (bucket expiry over arbitrary gaps is arithmetic over the clock: only the shape of the formulas is pinned, the clock itself is not modelled); CPU sampling; fairness of the spin lock."
	c := newC09ctx(p)
	need := func(o *core.O, fs ...*ssa.Function) bool {
		ok := true
		for _, m := range c.missing {
			o.Unres("anchor not found: %s", m)
			ok = false
		}
		for _, f := range fs {
			if f == nil {
				o.Unres("anchor not found: a method of the shedder this rule is about (overload test / stillHot / highThru / maxFlight / maxPass / minRt / shouldDrop / Allow)")
				ok = false
			}
		}
		return ok
	}

	// ---------------- D1 rolling window ----------------
	add := p.Func(collPkg, "RollingWindow", "Add")
	reduce := p.Func(collPkg, "RollingWindow", "Reduce")
	isWinCall := func(m string) func(ssa.Instruction) bool { return core.CallTo("(*lib/collection.window)." + m) }
	isRWMethod := func(f *ssa.Function) bool {
		return f != nil && f.Blocks != nil && f.Parent() == nil && f.Pkg == p.Pkg(collPkg) && f.Signature.Recv() != nil &&
			strings.HasSuffix(typeKey(f.Signature.Recv().Type()), "lib/collection.RollingWindow")
	}
	// span functions, by role: methods of RollingWindow returning either size or the
	// elapsed-bucket count (clock − lastTime)/interval, the clock being read inside
	// (timex.Since / timex.Now) or handed in as a time.Duration parameter; and thin
	// wrappers that return the result of such a function.
	spanFuncs := map[*ssa.Function]bool{}
	spanBase := map[*ssa.Function]bool{}
	isSpan := func(in ssa.Instruction) bool {
		cc := core.AsCall(in)
		return cc != nil && cc.Common().StaticCallee() != nil && spanFuncs[cc.Common().StaticCallee()]
	}
	rwNames := func(v ssa.Value) string {
		switch core.FieldAddrNameOfLoad(v) {
		case "RollingWindow.offset":
			return "offset"
		case "RollingWindow.size":
			return "size"
		case "RollingWindow.lastTime":
			return "lastTime"
		case "RollingWindow.interval":
			return "interval"
		}
		switch x := v.(type) {
		case *ssa.Call:
			switch {
			case isSpan(x):
				return "span"
			case core.Short(core.CalleeName(x)) == "lib/timex.Now":
				return "now"
			case core.Short(core.CalleeName(x)) == "lib/timex.Since" && core.IsFieldLoad(x.Call.Args[0], "RollingWindow.lastTime"):
				return "sinceLast"
			}
		case *ssa.Parameter:
			// a clock value handed to a helper of the window
			if isRWMethod(x.Parent()) && typeKey(x.Type()) == "time.Duration" {
				return "now"
			}
		}
		return ""
	}
	rwAlg := &core.Alg{Name: rwNames}
	isElapsed := func(v ssa.Value) bool {
		g := rwAlg.Norm(v)
		for _, w := range []string{"idiv(sinceLast, interval)", "int(idiv(sinceLast, interval))", "idiv(now - lastTime, interval)", "int(idiv(now - lastTime, interval))"} {
			if g.Equal(core.ParsePoly(w)) {
				return true
			}
		}
		return false
	}
	isSize := core.FieldLoad("RollingWindow.size")
	for round := 0; round < 3; round++ {
		for _, f := range p.PkgFuncs(collPkg) {
			if !isRWMethod(f) || spanFuncs[f] || f.Signature.Results().Len() != 1 || typeKey(f.Signature.Results().At(0).Type()) != "int" {
				continue
			}
			rets := core.Returns(f)
			nEl, nSz, nWrap, nOther := 0, 0, 0, 0
			for _, ret := range rets {
				v := core.Result(ret, 0)
				switch {
				case isSize(v):
					nSz++
				case isElapsed(v):
					nEl++
				case core.IsResult(v, 0, isSpan):
					nWrap++
				default:
					nOther++
				}
			}
			switch {
			case nOther > 0:
			case nEl > 0 && nWrap == 0:
				spanFuncs[f], spanBase[f] = true, true
			case nWrap > 0 && nEl == 0 && nSz == 0:
				spanFuncs[f] = true
			}
		}
	}
	r.Check("D1/K4/window-guarded", "RollingWindow.{offset,lastTime,win} are read under the RollingWindow's lock and written under its write lock; the ring's add/resetBucket run under the write lock, its reduce under the lock; lock balance on every path", func(o *core.O) {
		la := core.NewLockAnalysis(p, collPkg)
		acc := la.CheckGuards([]core.Guard{
			{Type: "RollingWindow", Field: "offset", Lock: "lock"},
			{Type: "RollingWindow", Field: "lastTime", Lock: "lock"},
			{Type: "RollingWindow", Field: "win", Lock: "lock"},
		}, nil, nil)
		core.ReportAccesses(o, p, acc)
		cg := la.CheckCallGuards([]core.CallGuard{
			{Callee: core.Or(isWinCall("add"), isWinCall("reduce"), isWinCall("resetBucket")), RecvField: "win", Lock: "lock"},
		}, nil)
		for i := range cg {
			// visiting the buckets only reads the ring: the read lock suffices there
			if _, held := cg[i].Held[cg[i].Need]; held && isWinCall("reduce")(cg[i].In) {
				cg[i].OK = true
			}
		}
		core.ReportAccesses(o, p, cg)
		if len(cg) == 0 {
			o.Fail(collPkg, "no bucket operation through RollingWindow.win found")
		}
		for f, m := range la.Imbalance {
			if strings.Contains(core.FuncName(f), "RollingWindow") {
				o.Fail(p.Pos(f.Pos()), "%s: %s", core.FuncName(f), m)
			}
		}
	})
	r.Check("D1/K3/advance-before-add", "Add expires old buckets (updateOffset) before adding, and adds into the bucket at the offset read after the advance", func(o *core.O) {
		if !o.Need(add != nil, "collection.RollingWindow.Add") {
			return
		}
		r.Fn(core.FuncName(add))
		isUpd := func(in ssa.Instruction) bool {
			cc := core.AsCall(in)
			if cc == nil {
				return false
			}
			f := cc.Common().StaticCallee()
			return f != nil && f.Pkg == p.Pkg(collPkg) && len(core.StoresToField(f, "RollingWindow.offset")) > 0
		}
		upd := core.Instrs(add, isUpd)
		adds := core.Calls(add, isWinCall("add"))
		o.Site(len(upd)+len(adds), core.FuncName(add))
		if len(upd) == 0 {
			o.Fail(p.Pos(add.Pos()), "Add never advances the window (values land in expired buckets and old values are never dropped)")
		}
		if len(adds) == 0 {
			o.Fail(p.Pos(add.Pos()), "Add never adds to a bucket")
		}
		if w := core.Precedes(add, isUpd, isWinCall("add")); w != nil {
			o.Fail(p.InstrPos(w), "a value is added before expired buckets were reset and the offset advanced")
		}
		for _, a := range adds {
			args := core.Args(a)
			ld, ok := args[1].(*ssa.UnOp)
			if !ok || core.FieldAddrNameOfLoad(ld) != "RollingWindow.offset" {
				o.Fail(p.InstrPos(a), "the value is added at %s, not at the window's current offset", core.Describe(args[1]))
				continue
			}
			for _, u := range upd {
				if !core.Dominates(u, ld) {
					o.Fail(p.InstrPos(a), "the offset used for the add was read before the window advanced (stale bucket)")
				}
			}
			if !isValueOf(add.Params[1])(args[2]) {
				o.Fail(p.InstrPos(a), "Add adds %s instead of its argument", core.Describe(args[2]))
			}
		}
	})
	r.Check("D1/K7/advance-formulas", "offset' ≡ (offset + span) mod size; lastTime' ≡ now − (now − lastTime) mod interval; span ≡ (clock − lastTime)/interval clamped to size outside [0,size)", func(o *core.O) {
		a := rwAlg
		n := 0
		for _, f := range p.PkgFuncs(collPkg) {
			if !isRWMethod(f) {
				continue
			}
			for _, st := range core.StoresToField(f, "RollingWindow.offset") {
				n++
				r.Fn(core.FuncName(f))
				if got, want := a.Norm(st.Val), core.ParsePoly("mod(offset + span, size)"); !got.Equal(want) {
					o.Fail(p.InstrPos(st), "offset is advanced to %s, expected %s", got, want)
				}
			}
			for _, st := range core.StoresToField(f, "RollingWindow.lastTime") {
				if _, isCtor := st.Addr.(*ssa.FieldAddr).X.(*ssa.Alloc); isCtor {
					continue
				}
				n++
				if got, want := a.Norm(st.Val), core.ParsePoly("now - mod(now - lastTime, interval)"); !got.Equal(want) {
					o.Fail(p.InstrPos(st), "lastTime becomes %s, expected the bucket-aligned %s", got, want)
				}
			}
		}
		if !o.Need(len(spanBase) > 0, "the span function (a RollingWindow method returning (clock − lastTime)/interval or size)") {
			return
		}
		nonNeg := core.Cmp(token.GEQ, isElapsed, core.IsConstInt(0))
		below := core.Cmp(token.LSS, isElapsed, isSize)
		for _, spanFn := range sortedFuncs(spanBase) {
			r.Fn(core.FuncName(spanFn))
			for _, ret := range core.Returns(spanFn) {
				n++
				v := core.Result(ret, 0)
				switch {
				case isSize(v):
				case isElapsed(v):
					if w := core.Requires(spanFn, core.Is(ret), nonNeg); w != nil {
						o.Fail(p.InstrPos(ret), "span returns the raw elapsed-bucket count without the test ≥ 0")
					}
					if w := core.Requires(spanFn, core.Is(ret), below); w != nil {
						o.Fail(p.InstrPos(ret), "span returns the raw elapsed-bucket count without the test < size (a gap longer than the window would index past the ring)")
					}
				}
			}
			// inside [0,size) the elapsed count itself must be returned
			inRange, _ := core.EdgesOf(spanFn, below)
			if len(inRange) == 0 {
				o.Fail(p.Pos(spanFn.Pos()), "span never compares the elapsed-bucket count with size")
			}
		}
		o.Site(n)
	})
	r.Check("D1/K8/single-clock-read", "in the function that re-aligns RollingWindow.lastTime, the elapsed-bucket count that advances offset and the aligned lastTime derive from one and the same clock read", func(o *core.O) {
		isClock := core.CallTo("lib/timex.Now", "lib/timex.Since", "time.Now", "time.Since")
		var readsInside func(g *ssa.Function, depth int) bool
		readsInside = func(g *ssa.Function, depth int) bool {
			if g == nil || g.Blocks == nil || depth > 3 {
				return false
			}
			for _, cc := range core.Calls(g, func(in ssa.Instruction) bool { return core.AsCall(in) != nil }) {
				if isClock(cc) {
					return true
				}
				if h := cc.Common().StaticCallee(); h != nil && h.Pkg == g.Pkg && readsInside(h, depth+1) {
					return true
				}
			}
			return false
		}
		// clock reads a value derives from: calls of the clock, and calls of in-package
		// functions that read the clock themselves (each such call is a read of its own)
		clockReads := func(v ssa.Value, into map[ssa.Instruction]bool) {
			seen := map[ssa.Value]bool{}
			var walk func(v ssa.Value)
			walk = func(v ssa.Value) {
				v = core.Forward(v)
				if v == nil || seen[v] {
					return
				}
				seen[v] = true
				if cl, ok := v.(*ssa.Call); ok {
					if isClock(cl) {
						into[cl] = true
					} else if h := cl.Call.StaticCallee(); h != nil && h.Pkg == p.Pkg(collPkg) && readsInside(h, 0) {
						into[cl] = true
					}
				}
				if in, ok := v.(ssa.Instruction); ok {
					for _, op := range in.Operands(nil) {
						if *op != nil {
							walk(*op)
						}
					}
				}
			}
			walk(v)
		}
		n := 0
		for _, f := range p.PkgFuncs(collPkg) {
			if !isRWMethod(f) {
				continue
			}
			var last []*ssa.Store
			for _, st := range core.StoresToField(f, "RollingWindow.lastTime") {
				if _, isCtor := st.Addr.(*ssa.FieldAddr).X.(*ssa.Alloc); !isCtor {
					last = append(last, st)
				}
			}
			if len(last) == 0 {
				continue
			}
			r.Fn(core.FuncName(f))
			offs := core.StoresToField(f, "RollingWindow.offset")
			if len(offs) == 0 {
				// the advance lives elsewhere: the link between the two is not visible in one function
				o.Unres("%s re-aligns lastTime but the offset advance is in another function", core.FuncName(f))
				continue
			}
			n += len(last) + len(offs)
			reads := map[ssa.Instruction]bool{}
			for _, st := range offs {
				clockReads(st.Val, reads)
			}
			nOff := len(reads)
			for _, st := range last {
				clockReads(st.Val, reads)
			}
			if nOff == 0 {
				o.Fail(p.InstrPos(offs[0]), "%s advances offset by a count that derives from no clock read", core.FuncName(f))
				continue
			}
			if len(reads) != 1 {
				var at []string
				for in := range reads {
					at = append(at, core.Short(core.CalleeName(in.(ssa.CallInstruction)))+" at "+p.InstrPos(in))
				}
				sort.Strings(at)
				o.Fail(p.InstrPos(last[0]), "%s advances offset and re-aligns lastTime from %d different clock reads (%s): when a bucket boundary falls between them lastTime moves one interval further than offset and every older bucket stays visible one interval too long",
					core.FuncName(f), len(reads), strings.Join(at, "; "))
			}
		}
		o.Site(n)
	})
	r.Check("D1/K7/reduce-range", "Reduce visits buckets from (offset + span + 1) mod size, size − span of them, or size − 1 when span = 0 and the current bucket is ignored, and hands them to the caller's function", func(o *core.O) {
		if !o.Need(reduce != nil, "collection.RollingWindow.Reduce") {
			return
		}
		r.Fn(core.FuncName(reduce))
		a := rwAlg
		calls := core.Calls(reduce, isWinCall("reduce"))
		o.Site(len(calls), core.FuncName(reduce))
		if len(calls) == 0 {
			o.Fail(p.Pos(reduce.Pos()), "Reduce never visits the buckets")
		}
		spanZero := core.Cmp(token.EQL, isCallValue(isSpan), core.IsConstInt(0))
		ignore := core.BoolVal(core.FieldLoad("RollingWindow.ignoreCurrent"))
		for _, cl := range calls {
			args := core.Args(cl)
			if got, want := a.Norm(args[1]), core.ParsePoly("mod(offset + span + 1, size)"); !got.Equal(want) {
				o.Fail(p.InstrPos(cl), "Reduce starts at %s, expected %s", got, want)
			}
			if !isValueOf(reduce.Params[1])(args[3]) {
				o.Fail(p.InstrPos(cl), "Reduce does not hand the buckets to the caller's function")
			}
			// the count is a finite case split over the φ-nodes it is built from, wherever
			// they sit: `diff = φ(size−1, size−span)` and `size − φ(1, span)` are the same
			// two cases, each chosen through a predecessor block of the φ
			full := core.ParsePoly("size - span")
			seenFull := false
			for _, cs := range casesOf(a, args[2]) {
				g := cs.val
				switch {
				case g.Equal(full):
					seenFull = true
				case g.Equal(core.ParsePoly("size - 1")), g.Equal(core.ParsePoly("size - span - 1")):
					// only when span == 0 and ignoreCurrent
					if len(cs.via) == 0 {
						o.Fail(p.InstrPos(cl), "Reduce always skips a bucket")
						continue
					}
					guarded := func(at core.Atom) bool {
						for _, b := range cs.via {
							b := b
							if core.Requires(reduce, func(in ssa.Instruction) bool { return in.Block() == b }, at) == nil {
								return true
							}
						}
						return false
					}
					if !guarded(spanZero) {
						o.Fail(p.InstrPos(cl), "the current bucket is skipped although the window has moved on (span ≠ 0): a complete bucket is lost")
					}
					if !guarded(ignore) {
						o.Fail(p.InstrPos(cl), "the current bucket is skipped although ignoreCurrent is not set")
					}
				default:
					o.Fail(p.InstrPos(cl), "Reduce visits %s buckets, expected size − span (or size − 1)", g)
				}
			}
			if !seenFull {
				o.Fail(p.InstrPos(cl), "Reduce never visits size − span buckets")
			}
		}
	})

	r.Check("D1/K7/ring-operations", "expiry resets exactly the buckets (offset+i+1) mod size for i < span; the ring's add/resetBucket/reduce address bucket (index mod size), reduce visiting start+i for i < count; Bucket.add ≡ (Sum+v, Count+1), Bucket.reset ≡ (0, 0); timex.Since(t) ≡ Now − t", func(o *core.O) {
		n := 0
		var a *core.Alg
		a = &core.Alg{Name: func(v ssa.Value) string {
			if nm := rwNames(v); nm != "" {
				return nm
			}
			switch core.FieldAddrNameOfLoad(v) {
			case "window.size":
				return "wsize"
			case "Bucket.Sum":
				return "Sum"
			case "Bucket.Count":
				return "Count"
			}
			if core.IsFieldLoad(v, "window.buckets") {
				return "wbuckets" // len(wbuckets) ≡ wsize by construction (newWindow)
			}
			switch x := v.(type) {
			case *ssa.Parameter:
				for i, pa := range x.Parent().Params {
					if pa == x {
						return fmt.Sprintf("arg%d", i)
					}
				}
			case *ssa.Phi:
				if _, ok := indexLoopOf(x); ok {
					return "i"
				}
			case *ssa.Call:
				if core.Short(core.CalleeName(x)) == "time.Since" && core.IsGlobal("lib/timex", "initTime")(x.Call.Args[0]) {
					return "sinceInit"
				}
			}
			return ""
		}}
		// loopOf finds the index loop that idx runs over and returns the closed interval [lo, hi]
		// of the values its variable takes in the body, whatever the loop's direction and spelling.
		loopOf := func(idx ssa.Value) (lo, hi core.Poly, ok bool) {
			n := 0
			core.DependsOn(idx, func(v ssa.Value) bool {
				if phi, isPhi := v.(*ssa.Phi); isPhi {
					if lp, isLoop := indexLoopOf(phi); isLoop {
						lo, hi = lp.bounds(a)
						n++
					}
				}
				return false
			})
			return lo, hi, n == 1
		}
		mod := func(x core.Poly, m string) core.Poly { return polyFn("mod", x, core.ParsePoly(m)) }
		// element address &buckets[idx] → idx
		bucketIndex := func(v ssa.Value) ssa.Value {
			u, ok := v.(*ssa.UnOp)
			if !ok || u.Op != token.MUL {
				return nil
			}
			ia, ok := u.X.(*ssa.IndexAddr)
			if !ok || !core.IsFieldLoad(ia.X, "window.buckets") {
				return nil
			}
			return ia.Index
		}
		// (a) expiry loop
		for _, f := range p.PkgFuncs(collPkg) {
			if f.Parent() != nil || len(core.StoresToField(f, "RollingWindow.offset")) == 0 {
				continue
			}
			if _, isCtor := core.StoresToField(f, "RollingWindow.offset")[0].Addr.(*ssa.FieldAddr).X.(*ssa.Alloc); isCtor {
				continue
			}
			r.Fn(core.FuncName(f))
			rs := core.Calls(f, isWinCall("resetBucket"))
			if len(rs) == 0 {
				o.Fail(p.Pos(f.Pos()), "%s advances the offset without resetting the expired buckets (old values reappear)", core.FuncName(f))
			}
			for _, rc := range rs {
				n++
				idx := core.Args(rc)[1]
				// the SET of buckets reset is {(offset+1+j) mod size : j < span}; the resets are
				// independent of each other, so neither the direction nor the start of the loop matters
				lo, hi, ok := loopOf(idx)
				if !ok {
					o.Fail(p.InstrPos(rc), "the expired buckets are not reset by a loop over a contiguous index range (bucket %s)", a.Norm(idx))
					continue
				}
				if diff := sameIndexSet(a.Norm(idx), lo, hi, func(j core.Poly) core.Poly {
					return mod(core.ParsePoly("offset + 1").Add(j), "size")
				}, core.ParsePoly("span")); diff != "" {
					o.Fail(p.InstrPos(rc), "the expiry loop does not reset exactly the span expired buckets: it %s", diff)
				}
			}
		}
		// (b) ring
		wadd, wres, wred := p.Func(collPkg, "window", "add"), p.Func(collPkg, "window", "resetBucket"), p.Func(collPkg, "window", "reduce")
		if !o.Need(wadd != nil && wres != nil && wred != nil, "collection.window.add/resetBucket/reduce") {
			return
		}
		var bAdd, bReset *ssa.Function
		for _, m := range p.Methods(collPkg, "Bucket") {
			for _, st := range core.StoresToField(m, "Bucket.Sum") {
				if _, isC := st.Val.(*ssa.Const); isC {
					bReset = m
				} else {
					bAdd = m
				}
			}
		}
		if !o.Need(bAdd != nil && bReset != nil && bAdd != bReset, "the Bucket methods that add to / reset Sum") {
			return
		}
		for _, w := range []struct {
			f      *ssa.Function
			callee func(ssa.Instruction) bool
			idx    string
			what   string
		}{
			{wadd, staticCallTo(bAdd), "mod(arg1, wsize)", "add"},
			{wres, staticCallTo(bReset), "mod(arg1, wsize)", "reset"},
			{wred, core.CallOfValue(func(v ssa.Value) bool { _, ok := v.(*ssa.Parameter); return ok }), "mod(arg1 + i, wsize)", "visit"},
		} {
			r.Fn(core.FuncName(w.f))
			cs := core.Calls(w.f, w.callee)
			if len(cs) != 1 {
				o.Fail(p.Pos(w.f.Pos()), "%s: expected exactly one bucket %s, found %d", core.FuncName(w.f), w.what, len(cs))
				continue
			}
			n++
			args := core.Args(cs[0])
			idx := bucketIndex(args[0])
			if idx == nil {
				o.Fail(p.InstrPos(cs[0]), "%s does not %s an element of the ring", core.FuncName(w.f), w.what)
				continue
			}
			if w.what == "visit" {
				// visits {(start+j) mod size : j < count}, however the loop is spelled
				lo, hi, ok := loopOf(idx)
				if !ok {
					o.Fail(p.InstrPos(cs[0]), "%s does not visit the buckets by a loop over a contiguous index range (bucket %s)", core.FuncName(w.f), a.Norm(idx))
					continue
				}
				var diff string
				for _, sz := range []string{"wsize", "len(wbuckets)"} {
					if diff = sameIndexSet(a.Norm(idx), lo, hi, func(j core.Poly) core.Poly {
						return mod(core.ParsePoly("arg1").Add(j), sz)
					}, core.ParsePoly("arg2")); diff == "" {
						break
					}
				}
				if diff != "" {
					o.Fail(p.InstrPos(cs[0]), "%s does not visit exactly count buckets from start: it %s", core.FuncName(w.f), diff)
				}
			} else if got, want := a.Norm(idx), core.ParsePoly(w.idx); !got.Equal(want) &&
				!got.Equal(core.ParsePoly(strings.ReplaceAll(w.idx, "wsize", "len(wbuckets)"))) {
				o.Fail(p.InstrPos(cs[0]), "%s addresses bucket %s, expected %s", core.FuncName(w.f), got, want)
			}
			if w.what == "add" {
				if got := a.Norm(args[1]); !got.Equal(core.ParsePoly("arg2")) {
					o.Fail(p.InstrPos(cs[0]), "%s adds %s instead of its value argument", core.FuncName(w.f), got)
				}
			}
		}
		// (c) bucket
		expect := func(f *ssa.Function, fld, want string) {
			sts := core.StoresToField(f, fld)
			if len(sts) != 1 {
				o.Fail(p.Pos(f.Pos()), "%s writes %s %d times, expected once", core.FuncName(f), fld, len(sts))
				return
			}
			n++
			if got := a.Norm(sts[0].Val); !got.Equal(core.ParsePoly(want)) {
				o.Fail(p.InstrPos(sts[0]), "%s sets %s to %s, expected %s", core.FuncName(f), fld, got, want)
			}
			if w := core.MustPass(core.Entry(f), core.Is(sts[0]), core.IsReturn); w != nil {
				o.Fail(p.InstrPos(w), "%s can return without writing %s", core.FuncName(f), fld)
			}
		}
		r.Fn(core.FuncName(bAdd), core.FuncName(bReset))
		expect(bAdd, "Bucket.Sum", "Sum + arg1")
		expect(bAdd, "Bucket.Count", "Count + 1")
		expect(bReset, "Bucket.Sum", "0")
		expect(bReset, "Bucket.Count", "0")
		// (d) relative clock
		now, since := p.Func("lib/timex", "", "Now"), p.Func("lib/timex", "", "Since")
		if !o.Need(now != nil && since != nil, "timex.Now / timex.Since") {
			return
		}
		r.Fn(core.FuncName(now), core.FuncName(since))
		for _, c := range []struct {
			f    *ssa.Function
			want string
		}{{now, "sinceInit"}, {since, "sinceInit - arg0"}} {
			for _, ret := range core.Returns(c.f) {
				n++
				if got := a.Norm(core.Result(ret, 0)); !got.Equal(core.ParsePoly(c.want)) {
					o.Fail(p.InstrPos(ret), "%s returns %s, expected %s", core.FuncName(c.f), got, c.want)
				}
			}
		}
		o.Site(n)
	})

	// ---------------- D2 in-flight conservation ----------------
	r.Check("D2/K1/allow-counts-once", "Allow moves the in-flight counter by +1 exactly once on every path returning a promise, never on a path returning the error; each return is (promise,nil) or (nil,error); the promise is bound to this shedder", func(o *core.O) {
		if !need(o, c.allow) {
			return
		}
		f := c.allow
		r.Fn(core.FuncName(f))
		incs := core.Instrs(f, c.isInc)
		o.Site(len(incs), core.FuncName(f))
		if len(incs) == 0 {
			o.Fail(p.Pos(f.Pos()), "Allow never increments the in-flight counter")
		}
		for _, in := range core.Instrs(f, c.isMove) {
			if d, k, _ := c.flyDelta(in); !k || d != 1 {
				o.Fail(p.InstrPos(in), "Allow moves the in-flight counter by %s, expected +1", core.Describe(core.AsCall(in).Common().Args[len(core.AsCall(in).Common().Args)-1]))
			}
		}
		if w := core.AtMostOnce(f, c.isInc); w != nil {
			o.Fail(p.InstrPos(w), "a path through Allow counts the request twice")
		}
		for _, ret := range core.Returns(f) {
			if len(ret.Results) != 2 {
				o.Unres("Allow does not return (Promise, error)")
				return
			}
			pr, er := core.Result(ret, 0), core.Result(ret, 1)
			switch {
			case !core.IsNil(pr) && core.IsNil(er):
				if _, ok := core.Reach(core.Q{From: []core.At{core.Entry(f)}, Target: core.Is(ret), Blocked: c.isInc}); ok {
					o.Fail(p.InstrPos(ret), "Allow returns a promise on a path that did not count the request (Pass/Fail would drive the in-flight counter negative)")
				}
				if !core.DependsOn(pr, isValueOf(f.Params[0])) {
					o.Fail(p.InstrPos(ret), "the promise is not bound to the shedder that admitted the request")
				}
			case core.IsNil(pr) && !core.IsNil(er):
				for _, inc := range incs {
					if _, ok := core.Reach(core.Q{From: []core.At{core.After(inc)}, Target: core.Is(ret)}); ok {
						o.Fail(p.InstrPos(ret), "Allow returns the error after counting the request (the in-flight counter never returns to zero)")
					}
				}
			default:
				o.Fail(p.InstrPos(ret), "Allow returns (%s, %s): neither (promise, nil) nor (nil, error)", core.Describe(pr), core.Describe(er))
			}
		}
	})
	r.Check("D2/K1/pass-fail-count-once", "Pass and Fail each move the in-flight counter of the promise's own shedder by −1 exactly once on every path", func(o *core.O) {
		if !need(o) {
			return
		}
		sp := p.Pkg(loadPkg)
		var names []string
		for n := range sp.Members {
			if _, ok := sp.Members[n].(*ssa.Type); ok {
				names = append(names, n)
			}
		}
		sort.Strings(names)
		found := 0
		for _, tn := range names {
			pass, fail := p.Func(loadPkg, tn, "Pass"), p.Func(loadPkg, tn, "Fail")
			if pass == nil || fail == nil || pass.Blocks == nil || fail.Blocks == nil {
				continue
			}
			calls := func(f *ssa.Function) int {
				return len(core.Instrs(f, func(in ssa.Instruction) bool { return core.AsCall(in) != nil }))
			}
			if calls(pass) == 0 && calls(fail) == 0 {
				continue // the no-op promise of the disabled shedder
			}
			found++
			for _, f := range []*ssa.Function{pass, fail} {
				r.Fn(core.FuncName(f))
				o.Site(1, core.FuncName(f))
				if w := core.MustPass(core.Entry(f), c.isDec, core.IsExit); w != nil {
					o.Fail(p.InstrPos(w), "%s can return without decrementing the in-flight counter (it never returns to zero)", core.FuncName(f))
				}
				if w := core.AtMostOnce(f, c.isMove); w != nil {
					o.Fail(p.InstrPos(w), "%s moves the in-flight counter twice", core.FuncName(f))
				}
				for _, in := range core.Instrs(f, c.isMove) {
					if d, k, _ := c.flyDelta(in); !k || d != -1 {
						o.Fail(p.InstrPos(in), "%s moves the in-flight counter by something other than −1", core.FuncName(f))
					}
					if recv := core.Args(core.AsCall(in))[0]; !core.DependsOn(recv, func(v ssa.Value) bool {
						return strings.HasSuffix(core.FieldAddrNameOfLoad(v), ".shedder") || strings.HasSuffix(core.FieldAddrName(v), ".shedder")
					}) {
						o.Fail(p.InstrPos(in), "%s decrements a counter that is not its own shedder's", core.FuncName(f))
					}
				}
			}
		}
		if found == 0 {
			o.Fail(loadPkg, "no promise type with Pass and Fail found")
		}
	})
	r.Check("D2/K4/flying-atomic", "the in-flight counter is touched only through sync/atomic", func(o *core.O) {
		if !need(o) {
			return
		}
		n := 0
		for _, f := range p.PkgFuncs(loadPkg) {
			for _, in := range core.Instrs(f, func(in ssa.Instruction) bool {
				fa, ok := in.(*ssa.FieldAddr)
				return ok && core.FieldAddrName(fa) == c.field("flying")
			}) {
				n++
				r.Fn(core.FuncName(f))
				fa := in.(*ssa.FieldAddr)
				if _, fresh := fa.X.(*ssa.Alloc); fresh {
					continue
				}
				for _, ref := range *fa.Referrers() {
					cc, ok := ref.(ssa.CallInstruction)
					if !ok || !strings.HasPrefix(core.CalleeName(cc), "sync/atomic.") {
						o.Fail(p.InstrPos(ref), "%s accesses the in-flight counter without sync/atomic (racy against concurrent Allow/Pass/Fail)", core.FuncName(f))
					}
				}
			}
		}
		o.Site(n)
	})
	r.Check("D2/K1/http-reports-once", "SheddingHandler: the next handler runs only after a successful Allow; exactly one of Pass/Fail runs on every exit (deferred before the handler runs)", func(o *core.O) {
		f := p.Func("api/handler", "", "SheddingHandler")
		if !o.Need(f != nil, "api/handler.SheddingHandler") {
			return
		}
		isAllow := core.CallMethod("lib/load.Shedder", "Allow")
		var h *ssa.Function
		for _, g := range core.WithAnon(f) {
			if len(core.Instrs(g, isAllow)) > 0 {
				h = g
			}
		}
		if !o.Need(h != nil, "the handler closure calling Shedder.Allow") {
			return
		}
		promiseSite(r, o, h, isAllow, core.CallMethod("net/http.Handler", "ServeHTTP"),
			core.Or(core.CallMethod("lib/load.Promise", "Pass"), core.CallMethod("lib/load.Promise", "Fail")), "SheddingHandler")
	})
	r.Check("D2/K1/grpc-reports-once", "UnarySheddingInterceptor: the handler runs only after a successful Allow; exactly one of Pass/Fail runs on every exit (deferred before the handler runs)", func(o *core.O) {
		f := p.Func("rpc/internal/serverinterceptors", "", "UnarySheddingInterceptor")
		if !o.Need(f != nil, "serverinterceptors.UnarySheddingInterceptor") {
			return
		}
		isAllow := core.CallMethod("lib/load.Shedder", "Allow")
		var h *ssa.Function
		for _, g := range core.WithAnon(f) {
			if len(core.Instrs(g, isAllow)) > 0 {
				h = g
			}
		}
		if !o.Need(h != nil, "the interceptor closure calling Shedder.Allow") {
			return
		}
		hs := paramsOfType(h, "google.golang.org/grpc.UnaryHandler")
		if !o.Need(len(hs) == 1, "the grpc.UnaryHandler parameter") {
			return
		}
		promiseSite(r, o, h, isAllow, callOfParam(hs[0]),
			core.Or(core.CallMethod("lib/load.Promise", "Pass"), core.CallMethod("lib/load.Promise", "Fail")), "UnarySheddingInterceptor")
	})

	// ---------------- D3 drop decision ----------------
	// truthTable evaluates a boolean function of the listed boolean sub-terms.
	type term struct {
		name string
		atom core.Atom
	}
	truthTable := func(o *core.O, f *ssa.Function, terms []term, want func(v []bool) (must string, ok bool), allowFork func(string) bool) {
		n := len(terms)
		for mask := 0; mask < 1<<n; mask++ {
			vals := make([]bool, n)
			var desc []string
			for i := range terms {
				vals[i] = mask>>i&1 == 1
				desc = append(desc, fmt.Sprintf("%s=%t", terms[i].name, vals[i]))
			}
			seen := make([]bool, n)
			e := &boolEval{fn: f, subject: func(ssa.Value) bool { return false }, token: func(ssa.Value) string { return "" }, choice: "other",
				assume: func(v ssa.Value) (string, bool) {
					for i, t := range terms {
						if m, pos := t.atom(v); m {
							seen[i] = true
							if vals[i] == pos {
								return bTrue, true
							}
							return bFalse, true
						}
					}
					return "", false
				}}
			e.run()
			if e.aborted {
				o.Unres("%s: evaluation aborted", core.FuncName(f))
				return
			}
			for _, fk := range e.forkList() {
				if allowFork == nil || !allowFork(fk) {
					o.Fail(p.Pos(f.Pos()), "%s also depends on %s", core.FuncName(f), fk)
				}
			}
			must, ok := want(vals)
			if !ok {
				continue
			}
			for _, oc := range e.outcomeList() {
				if oc != must && !(must == "≤true" && (oc == bTrue || oc == bFalse)) {
					o.Fail(p.Pos(f.Pos()), "%s yields %s for %s, expected %s", core.FuncName(f), strings.TrimPrefix(oc, "sym:"), strings.Join(desc, " "), must)
				}
			}
		}
	}
	callAtom := func(f *ssa.Function) core.Atom { return core.BoolVal(isCallValue(staticCallTo(f))) }
	b2s := func(b bool) string {
		if b {
			return bTrue
		}
		return bFalse
	}
	r.Check("D3/K2/drop-decision", "shouldDrop ≡ (systemOverloaded ∨ stillHot) ∧ highThru, as a truth table over the three tests", func(o *core.O) {
		if !need(o, c.shouldDrop, c.overloaded, c.hot, c.highThru) {
			return
		}
		f := c.shouldDrop
		r.Fn(core.FuncName(f))
		o.Site(8, core.FuncName(f))
		truthTable(o, f, []term{{"overloaded", callAtom(c.overloaded)}, {"stillHot", callAtom(c.hot)}, {"highThru", callAtom(c.highThru)}},
			func(v []bool) (string, bool) { return b2s((v[0] || v[1]) && v[2]), true }, nil)
	})
	r.Check("D3/K2/allow-rejects-only-on-drop", "Allow returns the error only on the true arm of the drop decision and a promise only on its false arm", func(o *core.O) {
		if !need(o, c.allow, c.shouldDrop) {
			return
		}
		f := c.allow
		drop := callAtom(c.shouldDrop)
		o.Site(len(core.Instrs(f, staticCallTo(c.shouldDrop))), core.FuncName(f))
		errRet := func(in ssa.Instruction) bool {
			ret, ok := in.(*ssa.Return)
			return ok && in.Block() != f.Recover && len(ret.Results) == 2 && !core.IsNil(core.Result(ret, 1))
		}
		okRet := func(in ssa.Instruction) bool {
			ret, ok := in.(*ssa.Return)
			return ok && in.Block() != f.Recover && len(ret.Results) == 2 && !core.IsNil(core.Result(ret, 0))
		}
		if w := core.Requires(f, errRet, drop); w != nil {
			o.Fail(p.InstrPos(w), "Allow rejects although the drop decision was false (or without consulting it)")
		}
		if w := core.Requires(f, okRet, core.Not(drop)); w != nil {
			o.Fail(p.InstrPos(w), "Allow admits although the drop decision was true")
		}
	})
	r.Check("D3/K2/high-throughput", "highThru ≡ int64(avgFlying) > maxFlight ∧ flying > maxFlight", func(o *core.O) {
		if !need(o, c.highThru, c.maxFlight) {
			return
		}
		f := c.highThru
		r.Fn(core.FuncName(f))
		isMax := func(v ssa.Value) bool { return isCallValue(staticCallTo(c.maxFlight))(core.Forward(v)) }
		isAvg := func(v ssa.Value) bool {
			return core.DependsOn(v, func(x ssa.Value) bool { return core.FieldAddrNameOfLoad(x) == c.field("avgFlying") }) && !core.DependsOn(v, isMax)
		}
		isFly := func(v ssa.Value) bool {
			cl, ok := core.Forward(v).(*ssa.Call)
			return ok && core.Short(core.CalleeName(cl)) == "sync/atomic.LoadInt64" && core.FieldAddrName(cl.Call.Args[0]) == c.field("flying")
		}
		avgCmp := core.Cmp(token.GTR, isAvg, isMax)
		flyCmp := core.Cmp(token.GTR, isFly, isMax)
		na, nf := 0, 0
		for _, in := range core.Instrs(f, func(in ssa.Instruction) bool { _, ok := in.(*ssa.BinOp); return ok }) {
			if m, _ := avgCmp(in.(ssa.Value)); m {
				na++
			}
			if m, _ := flyCmp(in.(ssa.Value)); m {
				nf++
			}
		}
		o.Site(na+nf, core.FuncName(f))
		if na == 0 {
			o.Fail(p.Pos(f.Pos()), "the smoothed in-flight count is never compared (>) with maxFlight")
		}
		if nf == 0 {
			o.Fail(p.Pos(f.Pos()), "the current in-flight count is never compared (>) with maxFlight")
		}
		truthTable(o, f, []term{{"avgFlying>maxFlight", avgCmp}, {"flying>maxFlight", flyCmp}},
			func(v []bool) (string, bool) { return b2s(v[0] && v[1]), true }, nil)
	})
	r.Check("D3/K2/overload-test", "systemOverloadChecker ≡ CpuUsage ≥ threshold; systemOverloaded is true iff the checker is, applied to the configured threshold, and stamps the overload time before answering true", func(o *core.O) {
		if !need(o, c.overloaded) {
			return
		}
		f := c.overloaded
		r.Fn(core.FuncName(f))
		isChk := core.CallOfValue(core.IsGlobal(loadPkg, "systemOverloadChecker"))
		chks := core.Calls(f, isChk)
		o.Site(len(chks), core.FuncName(f))
		for _, ck := range chks {
			if !core.IsFieldLoad(ck.Common().Args[0], c.field("cpuThreshold")) {
				o.Fail(p.InstrPos(ck), "the overload checker is given %s instead of the configured cpuThreshold", core.Describe(ck.Common().Args[0]))
			}
		}
		truthTable(o, f, []term{{"checker", core.BoolVal(isCallValue(isChk))}}, func(v []bool) (string, bool) { return b2s(v[0]), true }, nil)
		// stamp
		isStamp := func(in ssa.Instruction) bool {
			cc := core.AsCall(in)
			return cc != nil && core.Short(core.CalleeName(cc)) == "(*lib/syncx.AtomicDuration).Set" && core.IsFieldLoad(core.Args(cc)[0], c.field("overloadTime")) &&
				isCallValue(core.CallTo("lib/timex.Now"))(core.Forward(core.Args(cc)[1]))
		}
		yes, _ := core.EdgesOf(f, core.BoolVal(isCallValue(isChk)))
		if w, ok := core.Reach(core.Q{From: headsOf(yes), Target: core.IsReturn, Blocked: isStamp}); ok {
			o.Fail(p.InstrPos(w), "an overload is reported without stamping overloadTime with the current time (the cool-off second would never start)")
		}
		// the stamp is owned by the overload test: written nowhere else, and only when the checker said yes
		// (a stamp on every drop would re-arm the cool-off second from the last rejection instead of the last overload)
		anyStamp := func(in ssa.Instruction) bool {
			cc := core.AsCall(in)
			return cc != nil && core.Short(core.CalleeName(cc)) == "(*lib/syncx.AtomicDuration).Set" && core.IsFieldLoad(core.Args(cc)[0], c.field("overloadTime"))
		}
		for _, g := range p.PkgFuncs(loadPkg) {
			for _, st := range core.Instrs(g, anyStamp) {
				if g != f {
					o.Fail(p.InstrPos(st), "%s stamps overloadTime outside the overload test: the cool-off second is re-armed by something other than a CPU overload", core.FuncName(g))
				}
			}
		}
		if w := core.Requires(f, anyStamp, core.BoolVal(isCallValue(isChk))); w != nil {
			o.Fail(p.InstrPos(w), "overloadTime is stamped although the overload checker did not report an overload")
		}
		// the default checker
		var chk *ssa.Function
		for _, g := range p.PkgFuncs(loadPkg) {
			if !strings.HasPrefix(g.Name(), "init") {
				continue
			}
			for _, st := range core.Instrs(g, func(in ssa.Instruction) bool {
				s, ok := in.(*ssa.Store)
				return ok && core.IsGlobal(loadPkg, "systemOverloadChecker")(s.Addr)
			}) {
				switch x := core.Strip(st.(*ssa.Store).Val).(type) {
				case *ssa.Function:
					chk = x
				case *ssa.MakeClosure:
					chk = x.Fn.(*ssa.Function)
				}
			}
		}
		if !o.Need(chk != nil && len(chk.Params) == 1, "the default systemOverloadChecker") {
			return
		}
		r.Fn(core.FuncName(chk))
		geq := core.Cmp(token.GEQ, isCallValue(core.CallTo("lib/stat.CpuUsage")), isValueOf(chk.Params[0]))
		for _, ret := range core.Returns(chk) {
			o.Site(1, core.FuncName(chk))
			if m, pos := geq(core.Result(ret, 0)); !m || !pos {
				o.Fail(p.InstrPos(ret), "the default overload checker returns %s, expected CpuUsage() >= threshold", core.Describe(core.Result(ret, 0)))
			}
		}
	})
	r.Check("D3/K2/still-hot", "stillHot is true only when droppedRecently is set and Since(overloadTime) < 1 s", func(o *core.O) {
		if !need(o, c.hot) {
			return
		}
		f := c.hot
		r.Fn(core.FuncName(f))
		isDropped := func(in ssa.Instruction) bool {
			cc := core.AsCall(in)
			return cc != nil && core.Short(core.CalleeName(cc)) == "(*lib/syncx.AtomicBool).True" && core.IsFieldLoad(core.Args(cc)[0], c.field("droppedRecently"))
		}
		isLoadOT := func(v ssa.Value) bool {
			cl, ok := core.Forward(v).(*ssa.Call)
			return ok && core.Short(core.CalleeName(cl)) == "(*lib/syncx.AtomicDuration).Load" && core.IsFieldLoad(cl.Call.Args[0], c.field("overloadTime"))
		}
		isSince := func(v ssa.Value) bool {
			cl, ok := core.Forward(v).(*ssa.Call)
			return ok && core.Short(core.CalleeName(cl)) == "lib/timex.Since" && isLoadOT(cl.Call.Args[0])
		}
		recent := thresholdAtom(isSince, 1_000_000_000)
		n := 0
		for _, in := range core.Instrs(f, func(in ssa.Instruction) bool { _, ok := in.(*ssa.BinOp); return ok }) {
			if m, _ := recent(in.(ssa.Value)); m {
				n++
			}
		}
		o.Site(n+len(core.Instrs(f, isDropped)), core.FuncName(f))
		if n == 0 {
			o.Fail(p.Pos(f.Pos()), "the time since the last overload is never compared with 1 s (cut between 999999999 and 1000000000 ns)")
		}
		truthTable(o, f, []term{{"droppedRecently", core.BoolVal(isCallValue(isDropped))}, {"Since(overload)<1s", recent}},
			func(v []bool) (string, bool) {
				if v[0] && v[1] {
					return "≤true", true
				}
				return bFalse, true
			}, func(fk string) bool { return strings.Contains(fk, "overloadTime") })
	})

	// ---------------- D4 formulas ----------------
	var loadAlg *core.Alg
	var loadNames func(v ssa.Value) string
	loadNames = func(v ssa.Value) string {
		switch core.FieldAddrNameOfLoad(v) {
		case c.field("windows"):
			return "windows"
		case c.field("avgFlying"):
			return "avg"
		case "shedderOptions.window":
			return "window"
		case "shedderOptions.buckets":
			return "buckets"
		case "Bucket.Sum":
			return "Sum"
		case "Bucket.Count":
			return "Count"
		}
		if cl, ok := v.(*ssa.Call); ok {
			switch {
			case staticCallTo(c.maxPass)(cl):
				return "maxPass"
			case staticCallTo(c.minRt)(cl):
				return "minRt"
			case c.isRawFlyAdd(cl):
				return "flying"
			case core.Short(core.CalleeName(cl)) == "lib/timex.Since":
				return "since"
			case core.Short(core.CalleeName(cl)) == "math.Round":
				return "round(" + loadAlg.Norm(cl.Call.Args[0]).String() + ")"
			case core.Short(core.CalleeName(cl)) == "(time.Duration).Nanoseconds":
				// d.Nanoseconds() ≡ int64(d): the same atom as d when d is one
				if g := loadAlg.Norm(cl.Call.Args[0]); len(g) == 1 {
					for k, coef := range g {
						if at := g.Atoms(); len(at) == 1 && at[0] == k && coef.Cmp(big.NewRat(1, 1)) == 0 {
							return k
						}
					}
				}
			}
		}
		return ""
	}
	loadAlg = &core.Alg{Name: loadNames}
	r.Check("D4/K7/max-flight", "maxFlight ≡ int(max(1, maxPass · windows · minRt / 1000)), the product taken over the reals: the only float→int conversion is the final one (an operand converted to an integer first — int64(windows) — truncates buckets-per-second and under-estimates the capacity)", func(o *core.O) {
		if !need(o, c.maxFlight, c.maxPass, c.minRt) {
			return
		}
		f := c.maxFlight
		r.Fn(core.FuncName(f))
		a := loadAlg
		want := core.ParsePoly("int(max(1, maxPass*windows*minRt/1000))")
		for _, ret := range core.Returns(f) {
			o.Site(1, core.FuncName(f))
			if got := a.Norm(core.Result(ret, 0)); !got.Equal(want) {
				o.Fail(p.InstrPos(ret), "maxFlight returns %s, expected %s", got, want)
			}
		}
	})
	r.Check("D4/K7/avg-flying-convex", "the smoothed in-flight count is updated to a·old + b·flying with a + b ≡ 1, 0 < b < 1, flying being the counter value just produced, and only under avgFlyingLock", func(o *core.O) {
		if !need(o) {
			return
		}
		a := loadAlg
		n := 0
		for _, f := range p.PkgFuncs(loadPkg) {
			for _, st := range core.StoresToField(f, c.field("avgFlying")) {
				if _, fresh := st.Addr.(*ssa.FieldAddr).X.(*ssa.Alloc); fresh {
					continue
				}
				n++
				r.Fn(core.FuncName(f))
				got := a.Norm(st.Val)
				ca, rest, lin := got.Coef("avg")
				cb, rest2, lin2 := rest.Coef("flying")
				av, okA := ca.IsConst()
				bv, okB := cb.IsConst()
				if !lin || !lin2 || !okA || !okB || len(rest2) != 0 {
					o.Fail(p.InstrPos(st), "avgFlying becomes %s: not of the form a·avg + b·flying", got)
					continue
				}
				sum := new(big.Rat).Add(av, bv)
				sf, _ := sum.Float64()
				bf, _ := bv.Float64()
				if sf < 1-1e-12 || sf > 1+1e-12 || bf <= 0 || bf >= 1 {
					af, _ := av.Float64()
					o.Fail(p.InstrPos(st), "avgFlying becomes %g·avg + %g·flying: weights do not sum to 1 (the average drifts away from the in-flight count)", af, bf)
				}
			}
		}
		o.Site(n)
		if n == 0 {
			o.Fail(loadPkg, "avgFlying is never updated")
		}
		la := core.NewLockAnalysis(p, loadPkg)
		acc := la.CheckGuards([]core.Guard{{Type: c.typ, Field: "avgFlying", Lock: "avgFlyingLock"}}, nil, nil)
		core.ReportAccesses(o, p, acc)
		for f, m := range la.Imbalance {
			o.Fail(p.Pos(f.Pos()), "%s: %s", core.FuncName(f), m)
		}
	})
	r.Check("D4/K7/avg-flying-lags", "the smoothed in-flight count is a low-pass of the current one: in every update a·old + b·flying of avgFlying the weight b of the sample just produced does not exceed the weight a of the history (b ≤ a, i.e. b ≤ 1/2 for a convex update) [clause 'rejects under overload only when both the current and the smoothed number of in-flight requests exceed the capacity': with b > a the 'smoothed' number is dominated by the current one — it follows it within one completion — so the second conjunct of highThru says nothing the first does not, and a short burst (current > capacity, the average over the recent completions far below it) is shed although only the current number exceeds the capacity]", func(o *core.O) {
		if !need(o) {
			return
		}
		a := loadAlg
		n := 0
		for _, f := range p.PkgFuncs(loadPkg) {
			for _, st := range core.StoresToField(f, c.field("avgFlying")) {
				if _, fresh := st.Addr.(*ssa.FieldAddr).X.(*ssa.Alloc); fresh {
					continue
				}
				got := a.Norm(st.Val)
				ca, rest, lin := got.Coef("avg")
				cb, rest2, lin2 := rest.Coef("flying")
				av, okA := ca.IsConst()
				bv, okB := cb.IsConst()
				if !lin || !lin2 || !okA || !okB || len(rest2) != 0 {
					continue // not a·avg + b·flying with constant weights: reported by D4/K7/avg-flying-convex
				}
				n++
				r.Fn(core.FuncName(f))
				if bv.Cmp(av) > 0 {
					af, _ := av.Float64()
					bf, _ := bv.Float64()
					o.Fail(p.InstrPos(st), "avgFlying becomes %g·avg + %g·flying: the newest in-flight number outweighs the history, the smoothed number follows the current one within one completion (%.0f%% per completion) and a short burst above the capacity is shed although only the current number exceeds it", af, bf, bf*100)
				}
			}
		}
		o.Site(n)
		if n == 0 {
			o.Unres("no update of avgFlying of the form a·avg + b·flying with constant weights found in %s", loadPkg)
		}
	})
	r.Check("D4/K3/options-applied-before-derived-values", "in lib/load a constructor that applies functional options to a local options struct reads no field of that struct while an option can still run: window, bucket count and threshold used to size the counters are the configured ones, not the defaults they had before the options loop", func(o *core.O) {
		if !need(o) {
			return
		}
		n := 0
		for _, f := range p.PkgFuncs(loadPkg) {
			early, sites := gxOptionReadsBeforeApplied(f)
			if sites == 0 {
				continue
			}
			n += sites
			r.Fn(core.FuncName(f))
			for _, in := range early {
				o.Fail(p.InstrPos(in), "%s reads %s of its options before the last option was applied: a value derived from it (bucket duration, windows per second) ignores WithWindow/WithBuckets/WithCpuThreshold", core.FuncName(f), core.Describe(in.(ssa.Value)))
			}
		}
		o.Site(n, loadPkg+": option application sites")
		if n == 0 {
			o.Unres("no functional-option application found in %s", loadPkg)
		}
	})
	r.Check("D4/K7/windows-per-second", "windows ≡ 1 s / (window / buckets) as a REAL quotient (float operands, float division, kept in a float field): an integer division or a float→int conversion of it truncates buckets-per-second — to 0 for a bucket longer than a second, downwards for a bucket that does not divide a second — and the capacity max-passes × buckets-per-second × min-latency is under-estimated, so requests below the estimated capacity are rejected; both counters are built with (buckets, window/buckets) and ignore the current bucket", func(o *core.O) {
		if !need(o) {
			return
		}
		a := loadAlg
		bucket := core.ParsePoly("idiv(window, buckets)")
		nw, nc := 0, 0
		for _, f := range p.PkgFuncs(loadPkg) {
			for _, st := range core.StoresToField(f, c.field("windows")) {
				nw++
				r.Fn(core.FuncName(f))
				got := a.Norm(st.Val)
				if pt, ok := st.Addr.Type().Underlying().(*types.Pointer); ok {
					if b, isB := pt.Elem().Underlying().(*types.Basic); !isB || b.Info()&types.IsFloat == 0 {
						o.Fail(p.InstrPos(st), "buckets-per-second is kept in a field of type %s: it is truncated to an integer (0 for a bucket longer than 1 s, 1 instead of 1.67 for a 600 ms bucket), the estimated capacity collapses and requests below it are rejected (windows = %s)", pt.Elem(), got)
						continue
					}
				}
				if !c09RealPerSecond(a, st.Val, bucket) {
					why := "expected the real quotient div(1000000000, idiv(window, buckets)) (buckets per second)"
					if s := got.String(); strings.Contains(s, "idiv(1000000000") || strings.HasPrefix(s, "int(") || strings.HasPrefix(s, "floor(") {
						why = "buckets-per-second is truncated to an integer (0 for a bucket longer than 1 s, 1 instead of 1.67 for a 600 ms bucket): the estimated capacity collapses and requests below it are rejected"
					}
					o.Fail(p.InstrPos(st), "windows = %s: %s", got, why)
				}
			}
			for _, fld := range []string{"passCounter", "rtCounter"} {
				for _, st := range core.StoresToField(f, c.field(fld)) {
					nc++
					call, _ := core.ResultOf(core.Forward(st.Val))
					if call == nil || core.Short(core.CalleeName(call)) != rwNew {
						o.Fail(p.InstrPos(st), "%s is not built by collection.NewRollingWindow", fld)
						continue
					}
					args := core.Args(call)
					if got := a.Norm(args[0]); !got.Equal(core.ParsePoly("buckets")) {
						o.Fail(p.InstrPos(call), "%s has %s buckets, expected the configured bucket count", fld, got)
					}
					if got := a.Norm(args[1]); !got.Equal(bucket) {
						o.Fail(p.InstrPos(call), "%s has bucket duration %s, expected %s (the duration windows-per-second is derived from)", fld, got, bucket)
					}
					if !core.DependsOn(args[2], isCallValue(core.CallTo("lib/collection.IgnoreCurrentBucket"))) {
						o.Fail(p.InstrPos(call), "%s does not ignore the current (partial) bucket", fld)
					}
				}
			}
		}
		o.Site(nw + nc)
		if nw == 0 || nc < 2 {
			o.Fail(loadPkg, "constructor stores not found (windows: %d, counters: %d)", nw, nc)
		}
	})
	r.Check("D4/K8/counters-fed-and-read", "Pass adds ceil(elapsed/1ms) since the promise's start to rtCounter and 1 to passCounter; maxPass takes the largest Bucket.Sum over passCounter, minRt the smallest round(Sum/Count) over non-empty buckets of rtCounter", func(o *core.O) {
		if !need(o, c.maxPass, c.minRt) {
			return
		}
		a := loadAlg
		n := 0
		for _, f := range p.PkgFuncs(loadPkg) {
			for _, cc := range core.Calls(f, core.CallTo(rwAdd)) {
				n++
				r.Fn(core.FuncName(f))
				args := core.Args(cc)
				switch {
				case core.IsFieldLoad(args[0], c.field("passCounter")):
					if v, ok := core.ConstFloat(args[1]); !ok || v != 1 {
						o.Fail(p.InstrPos(cc), "passCounter receives %s per passed request, expected 1", core.Describe(args[1]))
					}
				case core.IsFieldLoad(args[0], c.field("rtCounter")):
					if got, want := a.Norm(args[1]), core.ParsePoly("ceil(since/1000000)"); !got.Equal(want) {
						o.Fail(p.InstrPos(cc), "rtCounter receives %s, expected %s (latency in ms)", got, want)
					}
					if !core.DependsOn(args[1], func(v ssa.Value) bool { return strings.HasSuffix(core.FieldAddrNameOfLoad(v), ".start") }) {
						o.Fail(p.InstrPos(cc), "the latency is not measured from the promise's start")
					}
				default:
					o.Fail(p.InstrPos(cc), "Add on an unknown window %s", core.Describe(args[0]))
				}
			}
		}
		// reductions
		type red struct {
			f     *ssa.Function
			fld   string
			shape string
		}
		for _, rd := range []red{{c.maxPass, "passCounter", "max"}, {c.minRt, "rtCounter", "min"}} {
			r.Fn(core.FuncName(rd.f))
			for _, rc := range core.Calls(rd.f, core.CallTo(rwReduce)) {
				n++
				if !core.IsFieldLoad(core.Args(rc)[0], c.field(rd.fld)) {
					o.Fail(p.InstrPos(rc), "%s reduces over %s, expected %s", core.FuncName(rd.f), core.Describe(core.Args(rc)[0]), rd.fld)
				}
			}
			// the reducers: the function values handed to Reduce (closure, or method value of a small accumulator type)
			type reducer struct {
				g  *ssa.Function
				mc *ssa.MakeClosure // where the closure is created (its bindings resolve g's free variables)
			}
			var reducers []reducer
			for _, rc := range core.Calls(rd.f, core.CallTo(rwReduce)) {
				switch x := core.Strip(core.Forward(core.Args(rc)[1])).(type) {
				case *ssa.MakeClosure:
					g := x.Fn.(*ssa.Function)
					mc := x
					if g.Synthetic != "" {
						if mo, ok := g.Object().(*types.Func); ok {
							if m := p.SSA.FuncValue(mo); m != nil && m.Blocks != nil {
								g, mc = m, nil
							}
						}
					}
					reducers = append(reducers, reducer{g, mc})
				case *ssa.Function:
					reducers = append(reducers, reducer{x, nil})
				}
			}
			// judge decides one update of the accumulator: at `at` of fn the accumulator (whose previous
			// value is recognised by old) becomes val.
			judge := func(fn *ssa.Function, at ssa.Instruction, val ssa.Value, old func(v ssa.Value) bool) {
				n++
				got := a.Norm(val)
				same := func(v ssa.Value) bool { return a.Norm(v).Equal(got) }
				switch rd.shape {
				case "max":
					if !got.Equal(core.ParsePoly("Sum")) {
						o.Fail(p.InstrPos(at), "%s accumulates %s, expected Bucket.Sum", core.FuncName(rd.f), got)
					}
					if w := core.Requires(fn, core.Is(at), core.Cmp(token.GTR, same, old)); w != nil {
						o.Fail(p.InstrPos(at), "%s overwrites its maximum without the test Sum > result", core.FuncName(rd.f))
					}
				case "min":
					if !got.Equal(core.ParsePoly("round(div(Sum, Count))")) {
						o.Fail(p.InstrPos(at), "%s accumulates %s, expected round(Sum/Count)", core.FuncName(rd.f), got)
					}
					if w := core.Requires(fn, core.Is(at), core.Cmp(token.LSS, same, old)); w != nil {
						o.Fail(p.InstrPos(at), "%s overwrites its minimum without the test avg < result", core.FuncName(rd.f))
					}
					if w := core.Requires(fn, core.Is(at), core.Cmp(token.GTR, core.FieldLoad("Bucket.Count"), core.IsConstInt(0))); w != nil {
						o.Fail(p.InstrPos(at), "%s divides by the count of an empty bucket", core.FuncName(rd.f))
					}
				}
			}
			for _, rdc := range reducers {
				g := rdc.g
				r.Fn(core.FuncName(g))
				// accumulator stores: stores through captured state (free variable, or the receiver / its fields)
				for _, st := range core.Instrs(g, func(in ssa.Instruction) bool {
					s, ok := in.(*ssa.Store)
					if !ok {
						return false
					}
					addr := s.Addr
					if fa, isFA := addr.(*ssa.FieldAddr); isFA {
						addr = fa.X
					}
					switch addr.(type) {
					case *ssa.FreeVar, *ssa.Parameter:
						return true
					}
					return false
				}) {
					s := st.(*ssa.Store)
					old := func(v ssa.Value) bool {
						u, ok := core.Strip(v).(*ssa.UnOp)
						return ok && u.Op == token.MUL && core.Describe(u.X) == core.Describe(s.Addr)
					}
					// acc = step(acc, b): the update is what the step function returns for the previous
					// accumulator and the same bucket — judged inside the step function, one update per
					// way of returning something else than the previous accumulator
					if h, accPar := c09StepFunction(g, rdc.mc, s.Val, old); h != nil {
						r.Fn(core.FuncName(h))
						isAcc := func(v ssa.Value) bool { return c09SameValue(v) == ssa.Value(accPar) }
						for _, u := range c09ReturnedUpdates(h) {
							if isAcc(u.val) {
								continue // the accumulator is kept
							}
							judge(h, u.at, u.val, isAcc)
						}
						continue
					}
					judge(g, st, s.Val, old)
				}
			}
		}
		o.Site(n)
		if n < 6 {
			o.Fail(loadPkg, "expected two Add sites, two reductions and their closures, found %d sites", n)
		}
	})

	// round 9: the threshold the overload test compares with is the configured one
	c09r9(r, c, need)
}

// c09RealPerSecond decides whether v is the real number 1 s / bucket: a floating-point division
// num/den whose normal forms are a constant c1 and c2·bucket with c1/c2 = 1e9 ns (so
// float64(time.Second)/float64(d), 1/d.Seconds() and 1e3/(float64(d)/1e6) are the same value),
// looked at through int→float and float→float conversions and temporaries only: a float→int
// conversion or an integer division anywhere on the way is a different (truncated) value.
func c09RealPerSecond(a *core.Alg, v ssa.Value, bucket core.Poly) bool {
	if a.Norm(v).Equal(polyFn("div", core.PInt(1_000_000_000), bucket)) {
		return true
	}
	for i := 0; i < 8; i++ {
		v = core.Forward(v)
		switch x := v.(type) {
		case *ssa.Convert:
			if b, ok := x.Type().Underlying().(*types.Basic); !ok || b.Info()&types.IsFloat == 0 {
				return false
			}
			v = x.X
			continue
		case *ssa.ChangeType:
			v = x.X
			continue
		case *ssa.BinOp:
			b, ok := x.Type().Underlying().(*types.Basic)
			if x.Op != token.QUO || !ok || b.Info()&types.IsFloat == 0 {
				return false
			}
			num, den := a.Norm(x.X), a.Norm(x.Y)
			c1, isC := num.IsConst()
			if !isC || c1.Sign() == 0 || len(den) != 1 {
				return false
			}
			c2, has := den[bucket.String()]
			if !has || c2.Sign() == 0 {
				return false
			}
			return core.PConst(new(big.Rat).Quo(c1, c2)).Equal(core.PInt(1_000_000_000))
		}
		return false
	}
	return false
}

func sortedFuncs(m map[*ssa.Function]bool) []*ssa.Function {
	var out []*ssa.Function
	for f := range m {
		out = append(out, f)
	}
	sort.Slice(out, func(i, j int) bool { return core.FuncName(out[i]) < core.FuncName(out[j]) })
	return out
}
