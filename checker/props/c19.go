package props

import (
	"go/token"
	"sort"
	"strings"

	"godcheck/core"

	"golang.org/x/tools/go/ssa"
)

func init() { register("C19", c19) }

const logxPkg = "lib/logx"

// c19Reaches reports whether g (with its closures and `go`/static callees up
// to depth levels) contains a call matched by pred.
func c19Reaches(g *ssa.Function, pred func(ssa.Instruction) bool, depth int) bool {
	seen := map[*ssa.Function]bool{}
	var rec func(g *ssa.Function, d int) bool
	rec = func(g *ssa.Function, d int) bool {
		if g == nil || g.Blocks == nil || seen[g] || d > depth {
			return false
		}
		seen[g] = true
		for _, h := range core.WithAnon(g) {
			for _, c := range core.Calls(h, func(in ssa.Instruction) bool { return core.AsCall(in) != nil }) {
				if pred(c) {
					return true
				}
				if rec(c.Common().StaticCallee(), d+1) {
					return true
				}
			}
		}
		return false
	}
	return rec(g, 0)
}

// c19DerivesFrom: v depends on a value matching src, directly or — when v
// depends on a parameter of the unexported, never address-taken function f —
// through the corresponding argument at every in-package static call site of f.
func c19DerivesFrom(p *core.Prog, f *ssa.Function, v ssa.Value, src func(ssa.Value) bool, depth int) bool {
	if core.DependsOn(v, src) {
		return true
	}
	if depth > 2 || f.Parent() != nil || f.Object() == nil || f.Object().Exported() {
		return false
	}
	for i, pa := range f.Params {
		if !core.DependsOn(v, func(x ssa.Value) bool { return x == ssa.Value(pa) }) {
			continue
		}
		sites := 0
		for _, g := range p.PkgFuncs(logxPkg) {
			for _, b := range g.Blocks {
				for _, in := range b.Instrs {
					// used as a value (not called): unknown callers
					for _, op := range in.Operands(nil) {
						if *op == ssa.Value(f) {
							if c, ok := in.(ssa.CallInstruction); !ok || c.Common().Value != ssa.Value(f) {
								return false
							}
						}
					}
					c, ok := in.(ssa.CallInstruction)
					if !ok || c.Common().StaticCallee() != f || i >= len(c.Common().Args) {
						continue
					}
					sites++
					if !c19DerivesFrom(p, g, c.Common().Args[i], src, depth+1) {
						return false
					}
				}
			}
		}
		if sites > 0 {
			return true
		}
	}
	return false
}

func c19IsRecvOf(f *ssa.Function, typ string) bool {
	if f.Signature.Recv() == nil {
		return false
	}
	return strings.HasSuffix(f.Signature.Recv().Type().String(), "."+typ)
}

func c19(r *core.Run) {
	p := r.P
	defer c19Extra(r, logxPkg)
	r.Explanation = "Decides on the current source: every *os.File obtained by a RotateLogger method from os.Create/os.OpenFile is stored into l.fp on the success path (and no file handle opened in lib/logx is discarded); rotate renames the current file before re-creating it (os.Create truncates), closes the old handle first, runs the post-rotation clean-up only after a successful rename and on the renamed file; write asks the rule before writing, rotates only when told to, resets currentSize/marks the rule only after a successful rotate and adds len(v) after each write; the size rule is fed currentSize(+len(v)), compares it against maxSize = MB·2^20 in the right direction and only when maxSize > 0; os.Remove is called only on the rule's OutdatedFiles and on a log file whose gzip copy was written and closed without error; SizeLimitRotateRule.OutdatedFiles sorts before slicing, marks the prefix files[:len−maxBackups] only under maxBackups > 0 ∧ len > maxBackups and keeps the suffix, and marks by age only names below the boundary; Close closes done, waits for the worker, syncs and closes the file, once; the worker is registered before it starts and writes every received record; per rotate rule the backup name, the glob pattern and the retention boundary are built from the same string fields of the rule (file name, delimiter); while rotate renames only under a non-empty l.backup, no function leaves a logger with an opened file in l.fp and l.backup unset; for a rule that rotates on size and names backups after the clock, the name handed to os.Rename comes from a BackupFilename() call made during that rotation, not from the name stored when the file was opened (the type tests rotate makes on the rule are evaluated per rule type); no name listed by filepath.Glob is handed on by OutdatedFiles without having been compared with the rule's own file name (the current file is never listed, whatever the delimiter), and that comparison takes the rule's file name in cleaned form, the form filepath.Glob lists names in (filepath.Clean at the comparison or at every write of the field – whatever the spelling of the configured file name), and so is the retention boundary the listed names are ordered against, as far as it is built from the file name (no way from the field to the boundary operand avoids filepath.Clean/Join)."
	r.NotDecided = "file contents after arbitrary write/rotate histories (including records still queued when Close is called and the window between a failed rotate and the next one), the text of the glob patterns beyond the rule fields they are built from, the date arithmetic of the retention rules, whether the daily rule's stored name is the day its records belong to, the order of RFC3339 local-offset names across a change of the UTC offset, a current-file comparison made through anything else than ==/!= and filepath.Clean (os.SameFile, filepath.Abs: D4/K2/current-file-never-outdated does not recognise it), behaviour of the OS calls."

	var loggerFns []*ssa.Function
	for _, f := range p.PkgFuncs(logxPkg) {
		root := f
		for root.Parent() != nil {
			root = root.Parent()
		}
		if c19IsRecvOf(root, "RotateLogger") {
			loggerFns = append(loggerFns, f)
		}
	}
	isOpen := core.CallTo("os.Create", "os.OpenFile", "os.Open")
	isOpenW := core.CallTo("os.Create", "os.OpenFile")
	isRename := core.CallTo("os.Rename")
	isCreate := core.CallTo("os.Create")
	isRemove := core.CallTo("os.Remove", "os.RemoveAll")
	isFpClose := func(in ssa.Instruction) bool {
		c, ok := in.(*ssa.Call)
		return ok && core.CalleeName(c) == "(*os.File).Close" && core.IsFieldLoad(core.Args(c)[0], "RotateLogger.fp")
	}
	isFpWrite := func(in ssa.Instruction) bool {
		c, ok := in.(*ssa.Call)
		return ok && strings.HasPrefix(core.CalleeName(c), "(*os.File).Write") && core.IsFieldLoad(core.Args(c)[0], "RotateLogger.fp")
	}

	r.Check("D1/K8/handle-kept", "the *os.File returned by os.Create/os.OpenFile in a RotateLogger method is stored into l.fp on every path on which the call succeeded; no file opened in lib/logx has its handle discarded", func(o *core.O) {
		n := 0
		for _, f := range p.PkgFuncs(logxPkg) {
			for _, c := range core.Calls(f, isOpen) {
				call, ok := c.(*ssa.Call)
				if !ok {
					continue
				}
				n++
				r.Fn(core.FuncName(f))
				o.Site(1, core.FuncName(f))
				var handle *ssa.Extract
				for _, ref := range *call.Referrers() {
					if e, ok := ref.(*ssa.Extract); ok && e.Index == 0 {
						handle = e
					}
				}
				if handle == nil || len(*handle.Referrers()) == 0 {
					o.Fail(p.InstrPos(call), "%s discards the file handle returned by %s: the file stays open and nothing can be written to it", core.FuncName(f), core.Short(core.CalleeName(call)))
					if handle == nil {
						continue
					}
				}
				isLogger := false
				for _, g := range loggerFns {
					if g == f {
						isLogger = true
					}
				}
				if !isLogger || !isOpenW(call) {
					continue
				}
				keep := func(in ssa.Instruction) bool {
					st, ok := in.(*ssa.Store)
					return ok && core.FieldAddrName(st.Addr) == "RotateLogger.fp" && st.Val == ssa.Value(handle)
				}
				_, failed := core.EdgesOf(f, core.ErrNil(1, core.Is(call)))
				if w, ok := core.Reach(core.Q{From: []core.At{core.After(call)}, Target: core.IsReturn, Blocked: keep, Cut: core.CutSet(failed)}); ok {
					o.Fail(p.InstrPos(w), "%s returns after a successful %s without storing the new handle into l.fp: every later record is dropped (rotate leaves l.fp nil) or goes to the renamed file", core.FuncName(f), core.Short(core.CalleeName(call)))
				}
			}
		}
		if n == 0 {
			o.Fail(logxPkg, "no file is opened in lib/logx")
		}
	})

	// role: rotate = the RotateLogger methods that rename the log file
	var rotates []*ssa.Function
	for _, f := range loggerFns {
		if len(core.Calls(f, isRename)) > 0 {
			rotates = append(rotates, f)
		}
	}
	isCleanup := func(in ssa.Instruction) bool {
		c := core.AsCall(in)
		if c == nil || c.Common().StaticCallee() == nil || isRemove(in) {
			return false
		}
		g := c.Common().StaticCallee()
		return g.Pkg != nil && g.Pkg.Pkg.Path() == core.Mod+"/"+logxPkg && c19Reaches(g, isRemove, 4)
	}
	r.Check("D2/K3/rotate-order", "rotate: old handle closed ≺ rename ≺ create; the current file is re-created (truncated) only after it was renamed away when it exists; clean-up only after a successful rename, on the file renamed to", func(o *core.O) {
		if !o.Need(len(rotates) > 0, "a RotateLogger method calling os.Rename (rotate)") {
			return
		}
		for _, f := range rotates {
			r.Fn(core.FuncName(f))
			renames, creates := core.Calls(f, isRename), core.Calls(f, isCreate)
			o.Site(len(renames)+len(creates), core.FuncName(f))
			if len(creates) == 0 {
				o.Fail(p.Pos(f.Pos()), "%s never re-creates the log file", core.FuncName(f))
				continue
			}
			if w, ok := core.Reach(core.Q{From: afterAll(creates), Target: isRename}); ok {
				o.Fail(p.InstrPos(w), "the log file is re-created (truncated) before it is renamed to the backup: its records are lost")
			}
			if w, ok := core.Reach(core.Q{From: afterAll(renames), Target: isFpClose}); ok {
				o.Fail(p.InstrPos(w), "the old handle is closed after the rename")
			}
			closes := core.Instrs(f, isFpClose)
			o.Site(len(closes))
			if len(closes) == 0 {
				o.Fail(p.Pos(f.Pos()), "%s never closes the old handle", core.FuncName(f))
			}
			// l.fp != nil ⇒ closed before create
			fpNil := core.Cmp(token.EQL, core.FieldLoad("RotateLogger.fp"), core.IsNil)
			nilE, _ := core.EdgesOf(f, fpNil)
			if w, ok := core.Reach(core.Q{From: []core.At{core.Entry(f)}, Target: isCreate, Blocked: isFpClose, Cut: core.CutSet(nilE)}); ok {
				o.Fail(p.InstrPos(w), "a new file is created while the old handle is still open (handle leak; buffered data of the old file is never closed)")
			}
			// file exists ∧ backup name known ⇒ renamed before create
			isStat := core.CallTo("os.Stat")
			_, statFailed := core.EdgesOf(f, core.ErrNil(1, isStat))
			noBackup := c19NonEmpty(core.FieldLoad("RotateLogger.backup")) // len(l.backup) > 0 in any spelling
			_, noBackupE := core.EdgesOf(f, noBackup)
			if w, ok := core.Reach(core.Q{From: []core.At{core.Entry(f)}, Target: isCreate, Blocked: isRename, Cut: core.CutSet(statFailed, noBackupE)}); ok {
				o.Fail(p.InstrPos(w), "the existing log file is re-created (truncated) without having been renamed to its backup")
			}
			for _, c := range creates {
				if !core.IsFieldLoad(core.Args(c)[0], "RotateLogger.filename") {
					o.Fail(p.InstrPos(c), "rotate re-creates %s, not l.filename", core.Describe(core.Args(c)[0]))
				}
			}
			for _, rn := range renames {
				if !core.IsFieldLoad(core.Args(rn)[0], "RotateLogger.filename") {
					o.Fail(p.InstrPos(rn), "rotate renames %s, not l.filename", core.Describe(core.Args(rn)[0]))
				}
				if w := core.MustPass(core.After(rn), isCreate, func(in ssa.Instruction) bool {
					ret, ok := in.(*ssa.Return)
					return ok && (len(ret.Results) == 0 || core.IsNil(core.Result(ret, 0)))
				}); w != nil {
					o.Fail(p.InstrPos(w), "rotate reports success after the rename without re-creating the log file")
				}
			}
			cleanups := core.Instrs(f, isCleanup)
			o.Site(len(cleanups))
			if len(cleanups) == 0 {
				o.Fail(p.Pos(f.Pos()), "%s never triggers the post-rotation clean-up (compression / deletion of outdated backups)", core.FuncName(f))
			}
			for _, cu := range cleanups {
				ok := false
				for _, rn := range renames {
					if core.Requires(f, core.Is(cu), core.ErrNil(0, core.Is(rn))) == nil {
						for _, a := range core.Args(cu.(ssa.CallInstruction)) {
							if core.Forward(a) == core.Forward(core.Args(rn)[1]) {
								ok = true
							}
						}
					}
				}
				if !ok {
					o.Fail(p.InstrPos(cu), "the post-rotation clean-up can run without a successful rename, or on a file other than the one renamed to")
				}
			}
		}
	})

	// role: write = the RotateLogger functions that ask RotateRule.ShallRotate
	isShall := core.CallMethod("logx.RotateRule", "ShallRotate")
	isMark := core.CallMethod("logx.RotateRule", "MarkRotated")
	isSizeStore := core.IsStoreToField("RotateLogger.currentSize")
	sizeAlg := func(f *ssa.Function) *core.Alg {
		return &core.Alg{Name: func(v ssa.Value) string {
			if core.FieldAddrNameOfLoad(v) == "RotateLogger.currentSize" {
				return "cs"
			}
			if pa, ok := v.(*ssa.Parameter); ok && strings.HasPrefix(pa.Type().String(), "[]") {
				return "v"
			}
			return ""
		}}
	}
	var writers []*ssa.Function
	for _, f := range loggerFns {
		if len(core.Calls(f, isShall)) > 0 {
			writers = append(writers, f)
		}
	}
	r.Check("D2/K3/write-protocol", "write: ShallRotate(currentSize [+ len(v)]) is asked before the record is written; rotate runs only when it said yes; currentSize is reset and the rule marked only after a successful rotate, and then always; currentSize grows by len(v) after each write to l.fp", func(o *core.O) {
		if !o.Need(len(writers) > 0 && len(rotates) > 0, "the RotateLogger method calling RotateRule.ShallRotate (write) and rotate") {
			return
		}
		isRotate := func(in ssa.Instruction) bool {
			c, ok := in.(*ssa.Call)
			if !ok {
				return false
			}
			for _, g := range rotates {
				if c.Call.StaticCallee() == g {
					return true
				}
			}
			return false
		}
		for _, f := range writers {
			r.Fn(core.FuncName(f))
			shalls, rots, writes := core.Calls(f, isShall), core.Calls(f, isRotate), core.Calls(f, isFpWrite)
			o.Site(len(shalls)+len(rots)+len(writes), core.FuncName(f))
			if len(rots) == 0 || len(writes) == 0 {
				o.Fail(p.Pos(f.Pos()), "%s lacks the rotate call (%d) or the write to l.fp (%d)", core.FuncName(f), len(rots), len(writes))
				continue
			}
			if w := core.Precedes(f, isShall, isFpWrite); w != nil {
				o.Fail(p.InstrPos(w), "a record is written before the rotation rule was consulted")
			}
			if w, ok := core.Reach(core.Q{From: afterAll(writes), Target: core.Or(isShall, isRotate)}); ok {
				o.Fail(p.InstrPos(w), "the rotation test runs after the record was written (the record that crosses the limit lands in the old file after its successor was decided)")
			}
			a := sizeAlg(f)
			for _, s := range shalls {
				got := a.Norm(core.Args(s)[1])
				if !got.Equal(core.ParsePoly("cs + len(v)")) && !got.Equal(core.ParsePoly("cs")) {
					o.Fail(p.InstrPos(s), "ShallRotate is asked about %s, expected currentSize + len(v)", got)
				}
				if w := core.Requires(f, isRotate, core.BoolVal(func(v ssa.Value) bool { return v == s.Value() })); w != nil {
					o.Fail(p.InstrPos(w), "rotate runs although the rule did not ask for it")
				}
				_, no := core.EdgesOf(f, core.BoolVal(func(v ssa.Value) bool { return v == s.Value() }))
				yes, _ := core.EdgesOf(f, core.BoolVal(func(v ssa.Value) bool { return v == s.Value() }))
				_ = no
				if w := core.ReachableFromEdges(yes, core.Or(isFpWrite, core.IsReturn), isRotate); w != nil {
					o.Fail(p.InstrPos(w), "the rule asked for a rotation but the record is written (or write returns) without rotating")
				}
			}
			isReset := func(in ssa.Instruction) bool {
				st, ok := in.(*ssa.Store)
				if !ok || !isSizeStore(in) {
					return false
				}
				c, isC := core.ConstInt(st.Val)
				return isC && c == 0
			}
			resets := core.Instrs(f, isReset)
			o.Site(len(resets))
			if len(resets) == 0 {
				o.Fail(p.Pos(f.Pos()), "%s never resets currentSize after a rotation: the size rule fires on every later record", core.FuncName(f))
			}
			for _, rc := range rots {
				okE, failE := core.EdgesOf(f, core.ErrNil(0, core.Is(rc)))
				if w, ok := core.Reach(core.Q{From: []core.At{core.After(rc)}, Target: core.Or(isReset, isMark), Cut: core.CutSet(okE)}); ok {
					o.Fail(p.InstrPos(w), "currentSize is reset / the rule is marked rotated although rotate failed")
				}
				_ = failE
				for name, m := range map[string]func(ssa.Instruction) bool{"resetting currentSize": isReset, "MarkRotated": isMark} {
					if w := core.ReachableFromEdges(okE, core.Or(isFpWrite, core.IsReturn), m); w != nil {
						o.Fail(p.InstrPos(w), "after a successful rotate the record is written without %s", name)
					}
				}
			}
			for _, wr := range writes {
				grow := func(in ssa.Instruction) bool {
					st, ok := in.(*ssa.Store)
					return ok && isSizeStore(in) && a.Norm(st.Val).Equal(core.ParsePoly("cs + len(v)"))
				}
				if w := core.MustPass(core.After(wr), grow, core.IsReturn); w != nil {
					o.Fail(p.InstrPos(wr), "currentSize is not increased by len(v) after the record was written")
				}
				if core.Describe(core.Forward(core.Args(wr)[1])) != "param:"+func() string {
					for _, pa := range f.Params {
						if strings.HasPrefix(pa.Type().String(), "[]") {
							return pa.Name()
						}
					}
					return "?"
				}() {
					o.Fail(p.InstrPos(wr), "the bytes written are not the record passed in")
				}
			}
			for _, in := range core.Instrs(f, isSizeStore) {
				st := in.(*ssa.Store)
				if !isReset(in) && !a.Norm(st.Val).Equal(core.ParsePoly("cs + len(v)")) {
					o.Fail(p.InstrPos(in), "currentSize is set to %s", a.Norm(st.Val))
				}
			}
		}
	})

	r.Check("D3/K7/size-rule", "SizeLimitRotateRule.ShallRotate(size) compares size against maxSize in the right direction and only when maxSize > 0; maxSize = configured MB · 2^20", func(o *core.O) {
		f := p.Func(logxPkg, "SizeLimitRotateRule", "ShallRotate")
		ctor := p.Func(logxPkg, "", "NewSizeLimitRotateRule")
		if !o.Need(f != nil && ctor != nil, "SizeLimitRotateRule.ShallRotate / NewSizeLimitRotateRule") {
			return
		}
		r.Fn(core.FuncName(f), core.FuncName(ctor))
		isMax := core.FieldLoad("SizeLimitRotateRule.maxSize")
		isSize := func(v ssa.Value) bool {
			_, ok := core.Forward(v).(*ssa.Parameter)
			return ok && v.Type().String() == "int64"
		}
		positive := core.Cmp(token.GTR, isMax, core.IsConstInt(0))
		n := 0
		for _, ret := range core.Returns(f) {
			for _, l := range gxPhiLeaves(core.Result(ret, 0)) {
				if c, ok := l.(*ssa.Const); ok {
					if c.Value != nil && c.Value.String() == "true" {
						o.Fail(p.InstrPos(ret), "ShallRotate may answer true unconditionally")
					}
					continue
				}
				n++
				b, ok := l.(*ssa.BinOp)
				if !ok {
					o.Fail(p.InstrPos(ret), "ShallRotate returns %s, expected maxSize > 0 && maxSize < size", core.Describe(l))
					continue
				}
				// size > maxSize (strict or not): both keep the overshoot at one record
				m1, pos1 := core.Cmp(token.GTR, isSize, isMax)(b)
				m2, pos2 := core.Cmp(token.GEQ, isSize, isMax)(b)
				if !(m1 && pos1) && !(m2 && pos2) {
					o.Fail(p.InstrPos(b), "the size rule answers %s: it must ask for a rotation when size exceeds maxSize", core.Describe(b))
				}
				if w := core.Requires(f, core.Is(b), positive); w != nil {
					o.Fail(p.InstrPos(b), "the size comparison is used although maxSize ≤ 0 (no limit configured): every write rotates")
				}
			}
		}
		o.Site(n, core.FuncName(f))
		if n == 0 {
			o.Fail(p.Pos(f.Pos()), "ShallRotate never compares size with maxSize")
		}
		sts := core.StoresToField(ctor, "SizeLimitRotateRule.maxSize")
		o.Site(len(sts), core.FuncName(ctor))
		if len(sts) == 0 {
			o.Fail(p.Pos(ctor.Pos()), "the constructor does not set maxSize")
		}
		a := &core.Alg{Name: func(v ssa.Value) string {
			if pa, ok := v.(*ssa.Parameter); ok {
				return pa.Name()
			}
			return ""
		}}
		for _, st := range sts {
			got := a.Norm(st.Val)
			ok := false
			for _, pa := range ctor.Params {
				if got.Equal(core.ParsePoly("1048576*" + pa.Name())) {
					ok = true
				}
			}
			if !ok {
				o.Fail(p.InstrPos(st), "maxSize is set to %s, expected megabytes·1048576", got)
			}
		}
		for _, st := range core.StoresToField(ctor, "SizeLimitRotateRule.maxBackups") {
			if _, ok := core.Forward(st.Val).(*ssa.Parameter); !ok {
				o.Fail(p.InstrPos(st), "maxBackups is set to %s", core.Describe(st.Val))
			}
		}
	})

	r.Check("D4/K5/remove-ownership", "os.Remove in lib/logx is applied only to the entries of RotateRule.OutdatedFiles(), or to a log file after its gzip copy was completely written and the gzip stream closed without error", func(o *core.O) {
		n := 0
		for _, f := range p.PkgFuncs(logxPkg) {
			for _, c := range core.Calls(f, isRemove) {
				n++
				r.Fn(core.FuncName(f))
				arg := core.Args(c)[0]
				fromOutdated := c19DerivesFrom(p, f, arg, func(v ssa.Value) bool {
					cl, ok := v.(*ssa.Call)
					return ok && core.CallMethod("logx.RotateRule", "OutdatedFiles")(cl)
				}, 0)
				if fromOutdated {
					continue
				}
				// compression: remove(file) after Copy and Close succeeded, file == the file opened for reading
				isCopy := core.CallTo("io.Copy")
				isGzClose := core.CallTo("(*compress/gzip.Writer).Close")
				opens := core.Calls(f, core.CallTo("os.Open"))
				copies, gz := core.Calls(f, isCopy), core.Calls(f, isGzClose)
				if len(opens) != 1 || len(copies) == 0 || len(gz) == 0 {
					o.Fail(p.InstrPos(c), "%s removes %s, which is neither an outdated backup nor a file just compressed", core.FuncName(f), core.Describe(arg))
					continue
				}
				// (a name kept in a field of a local struct – `t := gzipTask{src: file}` – is the value stored there)
				if core.Describe(core.ForwardField(arg)) != core.Describe(core.ForwardField(core.Args(opens[0])[0])) {
					o.Fail(p.InstrPos(c), "the file removed after compression (%s) is not the file that was compressed (%s)", core.Describe(arg), core.Describe(core.Args(opens[0])[0]))
				}
				if w := c19RequiresNil(f, core.Is(c), func(v ssa.Value) bool { return core.IsResult(v, 1, isCopy) }); w != nil {
					o.Fail(p.InstrPos(c), "the uncompressed backup is removed although copying it into the gzip file failed (or the copy was not attempted)")
				}
				if w := c19RequiresNil(f, core.Is(c), func(v ssa.Value) bool { return core.IsResult(v, 0, isGzClose) }); w != nil {
					o.Fail(p.InstrPos(c), "the uncompressed backup is removed although closing the gzip stream failed or has not happened (trailer not written: the copy is unreadable)")
				}
				// the copy goes from the opened file into a gzip writer on the created .gz file
				for _, cp := range copies {
					if !core.DependsOn(core.Args(cp)[1], func(v ssa.Value) bool {
						cl, i := core.ResultOf(v)
						return cl != nil && i == 0 && cl == opens[0].Value()
					}) {
						o.Fail(p.InstrPos(cp), "the compressed copy does not read from the opened backup")
					}
					if !core.DependsOn(core.Args(cp)[0], func(v ssa.Value) bool {
						cl, ok := v.(*ssa.Call)
						return ok && core.CalleeName(cl) == "compress/gzip.NewWriter"
					}) {
						o.Fail(p.InstrPos(cp), "the copy does not go through a gzip writer")
					}
				}
			}
		}
		o.Site(n)
		if n == 0 {
			o.Fail(logxPkg, "lib/logx never removes outdated backups")
		}
	})

	r.Check("D4/K7/size-rule-retention", "SizeLimitRotateRule.OutdatedFiles sorts the matches before slicing; marks files[:len−maxBackups] only when maxBackups > 0 ∧ len > maxBackups and keeps files[len−maxBackups:]; by age it marks only names below the boundary", func(o *core.O) {
		f := p.Func(logxPkg, "SizeLimitRotateRule", "OutdatedFiles")
		if !o.Need(f != nil, "SizeLimitRotateRule.OutdatedFiles") {
			return
		}
		r.Fn(core.FuncName(f))
		isGlob := core.CallTo("path/filepath.Glob")
		isMatches := func(v ssa.Value) bool { return core.IsResult(v, 0, isGlob) }
		// the list of backups: the matches of the pattern or – since OutdatedFiles drops the current
		// file from them first (D4/K2 current-file-never-outdated) – the list filtered from the matches
		filtered := c19FilteredLists(f, isMatches)
		isFiles := func(v ssa.Value) bool {
			if len(filtered) > 0 {
				return filtered[v]
			}
			return isMatches(v)
		}
		isSort := core.CallTo("sort.Strings", "sort.Sort", "slices.Sort", "sort.Slice", "sort.SliceStable")
		slices := core.Instrs(f, func(in ssa.Instruction) bool {
			s, ok := in.(*ssa.Slice)
			return ok && core.DependsOn(s.X, isFiles) && s.X.Type().String() == "[]string"
		})
		sorts := core.Calls(f, isSort)
		o.Site(len(slices)+len(sorts), core.FuncName(f))
		if len(sorts) == 0 {
			o.Fail(p.Pos(f.Pos()), "the matched backups are not sorted: the oldest ones are not at the front")
		}
		for _, s := range sorts {
			if !core.DependsOn(core.Args(s)[0], isFiles) {
				o.Fail(p.InstrPos(s), "the sort is not over the matched backups")
			}
		}
		// (decided per (block, predecessor): with the listing step factored out as
		// `files, err := r.list(); if err != nil { return }`, the failed Glob joins the sorted list
		// in a φ-pair (nil, err) and leaves through the caller's error test, never towards the slices)
		if w := c19Reach(f, []core.At{core.Entry(f)}, core.Is(slices...), isSort, nil); w != nil && len(slices) > 0 {
			o.Fail(p.InstrPos(w), "the backups are sliced before they are sorted")
		}
		a := &core.Alg{Name: func(v ssa.Value) string {
			if core.FieldAddrNameOfLoad(v) == "SizeLimitRotateRule.maxBackups" {
				return "mb"
			}
			if isFiles(v) {
				return "files"
			}
			return ""
		}}
		want := core.ParsePoly("len(files) - mb")
		mbPos := core.Cmp(token.GTR, core.FieldLoad("SizeLimitRotateRule.maxBackups"), core.IsConstInt(0))
		tooMany := core.CmpPoly(a, want, true) // len(files) − maxBackups > 0 in any spelling (≥ accepted as before)
		// an index that runs over the outdated prefix: φ(0, φ+1) tested against len(files) − maxBackups
		isPrefixIndex := func(v ssa.Value) bool {
			phi, ok := v.(*ssa.Phi)
			if !ok || phi.Referrers() == nil {
				return false
			}
			for _, e := range phi.Edges {
				if c, isC := core.ConstInt(e); isC && c == 0 {
					continue
				}
				if b, isB := e.(*ssa.BinOp); isB && b.Op == token.ADD && b.X == ssa.Value(phi) {
					if one, isOne := core.ConstInt(b.Y); isOne && one == 1 {
						continue
					}
				}
				return false
			}
			for _, ref := range *phi.Referrers() {
				b, ok := ref.(*ssa.BinOp)
				if !ok {
					continue
				}
				if (b.Op == token.LSS && b.X == ssa.Value(phi) && a.Norm(b.Y).Equal(want)) || (b.Op == token.GTR && b.Y == ssa.Value(phi) && a.Norm(b.X).Equal(want)) {
					return true
				}
			}
			return false
		}
		fromPrefixLoop := func(key ssa.Value) bool {
			u, ok := core.Strip(core.Forward(key)).(*ssa.UnOp)
			if !ok || u.Op != token.MUL {
				return false
			}
			ia, ok := u.X.(*ssa.IndexAddr)
			return ok && core.DependsOn(ia.X, isFiles) && isPrefixIndex(ia.Index)
		}
		prefix, suffix := 0, 0
		for _, in := range slices {
			s := in.(*ssa.Slice)
			switch {
			case s.Low == nil && s.High != nil && a.Norm(s.High).Equal(want):
				prefix++
			case s.High == nil && s.Low != nil && a.Norm(s.Low).Equal(want):
				suffix++
			default:
				lo, hi := "", ""
				if s.Low != nil {
					lo = a.Norm(s.Low).String()
				}
				if s.High != nil {
					hi = a.Norm(s.High).String()
				}
				o.Fail(p.InstrPos(in), "backups sliced as files[%s:%s]: neither the outdated prefix files[:len−maxBackups] nor the kept suffix files[len−maxBackups:]", lo, hi)
			}
			if w := core.Requires(f, core.Is(in), mbPos); w != nil {
				o.Fail(p.InstrPos(in), "backups are cut to maxBackups although maxBackups ≤ 0 (unlimited)")
			}
			if w := core.Requires(f, core.Is(in), tooMany); w != nil {
				o.Fail(p.InstrPos(in), "backups are cut although there are not more than maxBackups (negative slice bound)")
			}
		}
		prefixLoops := 0
		// what is marked outdated
		// (a map update on a map made here, or a call of a function literal of this function that
		// stores its parameter into such a map: `r.each(func(f string) { outdated[f] = … })`)
		marks, marksOK := c19Marks(f)
		o.Site(len(marks))
		if !marksOK {
			o.Fail(p.Pos(f.Pos()), "a function literal of %s records something other than the name it is called with", core.FuncName(f))
		}
		isBoundary := func(v ssa.Value) bool {
			return core.DependsOn(v, func(x ssa.Value) bool {
				c, ok := x.(*ssa.Call)
				return ok && core.CalleeName(c) == "time.Now"
			})
		}
		older := core.Cmp(token.LSS, func(v ssa.Value) bool { return !isBoundary(v) }, isBoundary)
		for _, mk := range marks {
			if mk.key == nil {
				continue
			}
			in := mk.site
			mu := struct{ Key ssa.Value }{mk.key}
			fromPrefix := core.DependsOn(mu.Key, func(v ssa.Value) bool {
				// (the outdated prefix files[:len−maxBackups] – not the empty files[:0] the filtered list starts from)
				s, ok := v.(*ssa.Slice)
				return ok && s.Low == nil && s.High != nil && a.Norm(s.High).Equal(want)
			})
			if fromPrefix {
				continue
			}
			if fromPrefixLoop(mu.Key) {
				prefixLoops++
				if w := core.Requires(f, core.Is(in), mbPos); w != nil {
					o.Fail(p.InstrPos(in), "backups are cut to maxBackups although maxBackups ≤ 0 (unlimited)")
				}
				if w := core.Requires(f, core.Is(in), tooMany); w != nil {
					o.Fail(p.InstrPos(in), "backups are cut although there are not more than maxBackups")
				}
				continue
			}
			if !core.DependsOn(mu.Key, isFiles) {
				o.Fail(p.InstrPos(in), "a name that is not one of the matched backups is marked outdated")
			}
			if core.EdgeCount(f, older) == 0 || core.Requires(f, core.Is(in), older) != nil {
				o.Fail(p.InstrPos(in), "a backup is marked outdated by age without its name being below the retention boundary")
			}
			if w := core.Requires(f, core.Is(in), core.Cmp(token.GTR, core.FieldLoad("DailyRotateRule.days"), core.IsConstInt(0))); w != nil {
				o.Fail(p.InstrPos(in), "backups are aged out although days ≤ 0 (keep forever)")
			}
		}
		if len(marks) == 0 {
			o.Fail(p.Pos(f.Pos()), "nothing is ever marked outdated")
		}
		if prefix == 0 && prefixLoops == 0 {
			o.Fail(p.Pos(f.Pos()), "no prefix files[:len−maxBackups] is marked outdated")
		}
	})

	r.Check("D5/K3/close-order", "Close: close(done) ≺ waitGroup.Wait ≺ fp.Sync ≺ fp.Close inside closeOnce.Do; done is closed nowhere else; the worker is added to the wait group before it starts, signals Done when it leaves and hands every received record to write", func(o *core.O) {
		cl := p.Func(logxPkg, "RotateLogger", "Close")
		if !o.Need(cl != nil, "RotateLogger.Close") {
			return
		}
		isCloseDone := func(in ssa.Instruction) bool {
			c, ok := in.(*ssa.Call)
			return ok && core.CalleeName(c) == "builtin:close" && core.IsFieldLoad(c.Call.Args[0], "RotateLogger.done")
		}
		isWait := func(in ssa.Instruction) bool {
			c, ok := in.(*ssa.Call)
			return ok && core.CalleeName(c) == "(*sync.WaitGroup).Wait" && core.FieldAddrName(core.Args(c)[0]) == "RotateLogger.waitGroup"
		}
		isSync := func(in ssa.Instruction) bool {
			c, ok := in.(*ssa.Call)
			return ok && core.CalleeName(c) == "(*os.File).Sync" && core.IsFieldLoad(core.Args(c)[0], "RotateLogger.fp")
		}
		// the shutdown sequence is the function handed to closeOnce.Do – a function literal, a named
		// function, or a bound method value `x.shutdown` (then the method behind the wrapper)
		pkgFns := p.PkgFuncs(logxPkg)
		mcSites, wrappers := c19ClosureSites(pkgFns)
		var body *ssa.Function
		once := false
		for _, c := range core.Calls(cl, core.CallTo("(*sync.Once).Do")) {
			if core.FieldAddrName(core.Args(c)[0]) != "RotateLogger.closeOnce" {
				continue
			}
			if g := c19FuncOf(core.Args(c)[1], mcSites); g != nil && g.Blocks != nil && len(core.Instrs(g, isCloseDone)) > 0 {
				body, once = g, true
			}
		}
		var closers []*ssa.Function
		for _, f := range append(append([]*ssa.Function{}, pkgFns...), wrappers...) {
			if len(core.Instrs(f, isCloseDone)) > 0 {
				closers = append(closers, f)
			}
		}
		if body == nil && len(closers) > 0 {
			body = closers[0]
		}
		if !o.Need(body != nil, "the function closing l.done") {
			return
		}
		for _, f := range closers {
			if c19Canon(f) != c19Canon(body) {
				o.Fail(p.InstrPos(core.Instrs(f, isCloseDone)[0]), "l.done is closed in two places (double close panics)")
			}
		}
		r.Fn(core.FuncName(cl), core.FuncName(body))
		sites := core.Instrs(body, core.Or(isCloseDone, isWait, isSync, isFpClose))
		o.Site(len(sites), core.FuncName(body))
		if !once {
			o.Fail(p.Pos(cl.Pos()), "the shutdown sequence is not run through l.closeOnce.Do: a second Close closes done twice (panic)")
		}
		if w := core.AtMostOnce(body, isCloseDone); w != nil {
			o.Fail(p.InstrPos(w), "done can be closed twice")
		}
		for _, pr := range []struct {
			a, b       func(ssa.Instruction) bool
			what       string
			obligatory bool
		}{
			{isCloseDone, isWait, "Close waits for the worker before telling it to stop (deadlock)", true},
			{isWait, isSync, "the file is synced while the worker may still be writing", false},
			{isWait, isFpClose, "the file is closed while the worker may still be writing (records accepted before Close are lost)", true},
			{isSync, isFpClose, "the file is closed before it is synced", false},
		} {
			if len(core.Instrs(body, pr.b)) == 0 {
				if pr.obligatory {
					o.Fail(p.Pos(body.Pos()), "shutdown sequence incomplete: %s", pr.what)
				}
				continue
			}
			if w := core.Precedes(body, pr.a, pr.b); w != nil {
				o.Fail(p.InstrPos(w), "%s", pr.what)
			}
		}
		// worker
		n := 0
		for _, f := range loggerFns {
			for _, g := range core.Instrs(f, func(in ssa.Instruction) bool { _, ok := in.(*ssa.Go); return ok }) {
				wf, _ := gxClosureOf(g.(*ssa.Go).Call.Value)
				if wf == nil {
					// `go l.runWorker()`: the worker is a named function / method
					if sc := g.(*ssa.Go).Call.StaticCallee(); sc != nil && sc.Blocks != nil {
						wf = sc
					}
				}
				if wf == nil {
					continue
				}
				recv := core.Instrs(wf, func(in ssa.Instruction) bool {
					s, ok := in.(*ssa.Select)
					if !ok {
						return false
					}
					for _, st := range s.States {
						if st.Dir == 2 && core.IsFieldLoad(c19Resolve(st.Chan, mcSites), "RotateLogger.channel") { // types.RecvOnly
							return true
						}
					}
					return false
				})
				if len(recv) == 0 {
					continue
				}
				n++
				r.Fn(core.FuncName(wf))
				isAdd := func(in ssa.Instruction) bool {
					c, ok := in.(*ssa.Call)
					return ok && core.CalleeName(c) == "(*sync.WaitGroup).Add" && core.FieldAddrName(core.Args(c)[0]) == "RotateLogger.waitGroup"
				}
				if w := core.Precedes(f, isAdd, core.Is(g)); w != nil {
					o.Fail(p.InstrPos(g), "the worker is started before it is added to the wait group (Close may not wait for it)")
				}
				dones := core.Instrs(wf, func(in ssa.Instruction) bool {
					d, ok := in.(*ssa.Defer)
					return ok && core.CalleeName(d) == "(*sync.WaitGroup).Done"
				})
				if len(dones) == 0 || core.Precedes(wf, core.Is(dones...), core.Is(recv...)) != nil {
					o.Fail(p.Pos(wf.Pos()), "the worker does not defer waitGroup.Done before entering its loop (Close blocks forever)")
				}
				// every received record reaches a writer
				wrote := false
				for _, c := range core.Calls(wf, func(in ssa.Instruction) bool {
					c, ok := in.(*ssa.Call)
					if !ok {
						return false
					}
					callee := c.Call.StaticCallee()
					if callee == nil && !c.Call.IsInvoke() {
						// the writer held as a function value (`handle: l.write` captured by the worker)
						callee = c19FuncOf(c.Call.Value, mcSites)
					}
					for _, w := range writers {
						if callee == w {
							return true
						}
					}
					return false
				}) {
					for _, a := range core.Args(c) {
						if e, ok := core.Forward(a).(*ssa.Extract); ok && e.Tuple == recv[0].(ssa.Value) {
							wrote = true
						}
					}
				}
				if !wrote {
					o.Fail(p.Pos(wf.Pos()), "the worker does not pass the received record to write")
				}
			}
		}
		o.Site(n)
		if n == 0 {
			o.Fail(logxPkg, "no worker goroutine receiving from l.channel found")
		}
	})

	r.Check("D2/K1/reopen-keeps-size", "a RotateLogger that re-opens an existing log file in append mode starts counting from that file's size (else the size rule lets the file grow past the limit by a whole file)", func(o *core.O) {
		n := 0
		for _, f := range p.PkgFuncs("lib/logx") {
			if !c19IsRecvOf(f, "RotateLogger") {
				continue
			}
			for _, op := range core.Calls(f, core.PlainCallTo("os.OpenFile")) {
				// append mode: flag constant with O_APPEND (0x400)
				fl, ok := core.ConstInt(core.Args(op)[1])
				if !ok || fl&0x400 == 0 {
					continue
				}
				n++
				r.Fn(core.FuncName(f))
				okEdges, _ := core.EdgesOf(f, core.ErrNil(1, core.Is(op)))
				isSize := func(in ssa.Instruction) bool {
					st, ok := in.(*ssa.Store)
					if !ok || core.FieldAddrName(st.Addr) != "RotateLogger.currentSize" {
						return false
					}
					return core.DependsOn(st.Val, func(v ssa.Value) bool {
						c, ok := v.(*ssa.Call)
						return ok && strings.HasSuffix(core.Short(core.CalleeName(c)), "FileInfo).Size")
					})
				}
				if len(okEdges) == 0 {
					o.Fail(p.InstrPos(op), "%s: the error of the append-mode open is not tested", core.FuncName(f))
					continue
				}
				var from []core.At
				for _, e := range okEdges {
					from = append(from, core.Head(e.To))
				}
				if w, ok := core.Reach(core.Q{From: from, Target: core.IsReturn, Blocked: isSize}); ok {
					o.Fail(p.InstrPos(w), "%s re-opens an existing file for append without setting currentSize from its size: the size rule counts from zero", core.FuncName(f))
				}
			}
		}
		o.Site(n)
	})

	r.Check("D4/K9/time-base-agreement", "the time stamps written into backup names and the retention boundaries compared with them use the same time base (time.Now() without, or with the same, zone conversion) per layout", func(o *core.O) {
		// per Format(layout) call of lib/logx rotate rules: the chain of time methods between time.Now() and Format
		chains := map[string]map[string][]string{} // layout -> zone chain -> sites
		n := 0
		for _, f := range p.PkgFuncs("lib/logx") {
			for _, c := range core.Calls(f, core.CallMethod("time.Time", "Format")) {
				layout, ok := core.ConstString(core.Args(c)[1])
				if !ok {
					continue
				}
				// walk the receiver back to time.Now()
				v := core.Forward(core.Args(c)[0])
				var zone []string
				rooted := false
				for i := 0; i < 8; i++ {
					cc, ok := v.(*ssa.Call)
					if !ok {
						break
					}
					name := core.Short(core.CalleeName(cc))
					if name == "time.Now" {
						rooted = true
						break
					}
					switch name {
					case "(time.Time).UTC", "(time.Time).Local", "(time.Time).In":
						zone = append(zone, strings.TrimPrefix(name, "(time.Time)."))
					case "(time.Time).Add", "(time.Time).AddDate", "(time.Time).Truncate", "(time.Time).Round":
					default:
						i = 99
						continue
					}
					v = core.Forward(core.Args(cc)[0])
				}
				if !rooted {
					continue
				}
				n++
				r.Fn(core.FuncName(f))
				key := strings.Join(zone, ">")
				if chains[layout] == nil {
					chains[layout] = map[string][]string{}
				}
				chains[layout][key] = append(chains[layout][key], core.FuncName(f)+" ("+p.InstrPos(c)+")")
			}
		}
		o.Site(n)
		for layout, byZone := range chains {
			if len(byZone) > 1 {
				var parts []string
				for z, sites := range byZone {
					if z == "" {
						z = "local"
					}
					parts = append(parts, z+": "+strings.Join(sites, ", "))
				}
				sort.Strings(parts)
				o.Fail("lib/logx/rotatelogger.go", "time stamps of layout %q are produced in different time bases (%s): names written in one zone are compared with a boundary in another, so young backups can be deleted or old ones kept", layout, strings.Join(parts, " | "))
			}
		}
	})

}
