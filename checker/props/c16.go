package props

import (
	"go/token"
	"go/types"
	"sort"
	"strings"

	"godcheck/core"

	"golang.org/x/tools/go/ssa"
)

func init() { register("C16", c16) }

const exPkg = "lib/executors"

// containerImpl is one concrete TaskContainer implementation.
type containerImpl struct {
	rel, typ        string
	add, rem, exec  *ssa.Function
	state           []string // fields written by AddTask ("T.f")
	pkgFuncs        []*ssa.Function
	stateFieldTypes map[string]types.Type
}

// fieldsWritten lists the fields "T.f" of the receiver type mutated by f.
func fieldsWritten(f *ssa.Function, typ string) []string {
	set := map[string]bool{}
	for _, b := range f.Blocks {
		for _, in := range b.Instrs {
			if st, ok := in.(*ssa.Store); ok {
				if n := core.FieldAddrName(st.Addr); strings.HasPrefix(n, typ+".") {
					set[n] = true
				}
			}
		}
	}
	var out []string
	for k := range set {
		out = append(out, k)
	}
	sort.Strings(out)
	return out
}

func findContainers(p *core.Prog) []containerImpl {
	var out []containerImpl
	for _, rel := range []string{exPkg, "lib/store/sqlx", "lib/stat"} {
		sp := p.Pkg(rel)
		if sp == nil {
			continue
		}
		var names []string
		for n := range sp.Members {
			names = append(names, n)
		}
		sort.Strings(names)
		for _, n := range names {
			if _, ok := sp.Members[n].(*ssa.Type); !ok {
				continue
			}
			a, r, e := p.Func(rel, n, "AddTask"), p.Func(rel, n, "RemoveAll"), p.Func(rel, n, "Execute")
			if a == nil || r == nil || e == nil || a.Blocks == nil || r.Blocks == nil {
				continue
			}
			ci := containerImpl{rel: rel, typ: n, add: a, rem: r, exec: e, pkgFuncs: p.PkgFuncs(rel)}
			ci.state = fieldsWritten(a, n)
			out = append(out, ci)
		}
	}
	return out
}

func isZeroConst(v ssa.Value) bool {
	c, ok := v.(*ssa.Const)
	if !ok {
		return false
	}
	if c.Value == nil {
		return true
	}
	if n, ok := core.ConstInt(c); ok {
		return n == 0
	}
	return false
}

func c16(r *core.Run) {
	p := r.P
	r.Explanation = "Decides on the SSA of lib/executors (+ the containers of lib/store/sqlx and lib/stat), for every path: the container's AddTask/RemoveAll and the `guarded` flag are used only with pe.lock held (incl. closures run synchronously), lock balanced; container state written by AddTask is touched by no other function than AddTask/RemoveAll; when AddTask reports full, RemoveAll and exactly one inflight increment happen before the lock is released and the removed batch is what Add sends to the flusher, after which Add waits for the confirmation; the flusher decrements inflight exactly once per received batch, enters the execution (WaitGroup.Add) before confirming, and executes exactly the received batch; every execution is preceded by exactly one enterExecution and ends in a deferred WaitGroup.Done; every Execute call the flusher's loop can reach runs inside a recover scope below the loop (a literal handed to threading.RunSafe or to any runner that defers a recover before running it, or a function other than the loop's that deferred a non-rethrowing recover before the call), so a panicking batch does not end the flusher while `guarded` stays true; Flush executes what RemoveAll returned under the lock; Wait flushes, then waits; the flusher goroutine defers Flush before its loop and returns only when the quit test said so; the quit test clears `guarded` only with inflight == 0 read under the same lock hold, and reports true only then; a flusher is started (asynchronously) exactly when `guarded` was false, after setting it; thresholds are `len(tasks) >= maxTasks` / `size >= maxChunkSize` measured after the append; every container handed to NewPeriodicalExecutor that can ask for a flush at all (bulk, chunk, sqlx dbInserter) does so whenever the count/size measured after its update has reached the limit field / a declared constant of its package (non-strict threshold in any spelling); every function that takes the tasks out of the container and then executes them (Flush) has counted the execution into the wait group before the removal or within the removal's lock hold; RemoveAll returns the state it then resets."
	r.NotDecided = "panics raised elsewhere on the flusher goroutine (newTicker, AddTask/RemoveAll of a user container, the deferred Flush when the flusher retires); what the recovering function does with the panic beyond not raising it again; exactly-once execution and batch order over interleavings of Add/tick/Flush/Wait; the idle-quit timing; behaviour of the execute callbacks; sync.WaitGroup / channel semantics; for a constant size limit only that the effective threshold is one of the package's declared integer constants (which one is `the` limit is not decided); triggers spelled other than as an ordered comparison of the updated count/size with limit+c (e.g. ==) are reported as not understood."

	curProg = p
	funcs := c16Funcs(p, exPkg)
	if len(funcs) == 0 {
		r.Check("D0/anchor", "package lib/executors is loaded", func(o *core.O) { o.Unres("package %s not found", exPkg) })
		return
	}
	inPkg := map[*ssa.Function]bool{}
	for _, f := range funcs {
		inPkg[f] = true
	}
	isAddTask := core.CallMethod("executors.TaskContainer", "AddTask")
	isRemoveAll := core.CallMethod("executors.TaskContainer", "RemoveAll")
	isExecute := core.CallMethod("executors.TaskContainer", "Execute")
	isWGAdd := core.CallTo("(*sync.WaitGroup).Add")
	isFlush := core.CallTo("(*lib/executors.PeriodicalExecutor).Flush")
	const (
		fGuarded   = "PeriodicalExecutor.guarded"
		fInflight  = "PeriodicalExecutor.inflight"
		fCommander = "field:PeriodicalExecutor.commander"
		fConfirm   = "field:PeriodicalExecutor.confirmChan"
		fWG        = "PeriodicalExecutor.waitGroup"
	)
	// roles
	roleSet := func(pred func(f *ssa.Function) bool) map[*ssa.Function]bool {
		out := map[*ssa.Function]bool{}
		for _, f := range funcs {
			if pred(f) {
				out[f] = true
			}
		}
		return out
	}
	hasCall := func(f *ssa.Function, m func(ssa.Instruction) bool, deep bool) bool {
		fs := []*ssa.Function{f}
		if deep {
			fs = core.WithAnon(f)
		}
		for _, x := range fs {
			if len(core.Instrs(x, m)) > 0 {
				return true
			}
		}
		return false
	}
	onWG := func(m func(ssa.Instruction) bool) func(ssa.Instruction) bool {
		return func(in ssa.Instruction) bool {
			return m(in) && core.FieldAddrName(core.AsCall(in).Common().Args[0]) == fWG
		}
	}
	// WaitGroup operations on pe.waitGroup are recognised by what a call does, not by how the
	// function value it runs is written: a literal, a method value (pe.waitGroup.Wait,
	// pe.addExecution), a variable holding one; function values handed to the goroutine
	// starter do not run as part of the call.
	wg := &c16WG{wgField: fWG, inPkg: inPkg, memo: map[string]int{}, async: func(c ssa.CallInstruction) bool {
		return core.Short(core.CalleeName(c)) == "lib/threading.GoSafe"
	}}
	// enter-only functions: running them counts an execution in (Add) and never out (Done);
	// every call running one is an enter site of its caller. doneFns: the converse.
	enterFns := roleSet(func(f *ssa.Function) bool { return wg.fn(f, "Add", true) && !wg.fn(f, "Done", true) })
	doneFns := roleSet(func(f *ssa.Function) bool {
		return f.Parent() == nil && f.Synthetic == "" && wg.fn(f, "Done", false) && !wg.fn(f, "Add", true)
	})
	// an execution site of a function: the Execute invoke itself; a plain call that runs a function
	// literal of that function whose body invokes Execute – the literal applied on the spot or handed
	// to a synchronous runner (threading.RunSafe, not the goroutine starter): the recover scope of
	// D3/K10 (c16_r9.go); or a plain call of an execute helper (below)
	execLit := func(in ssa.Instruction) *ssa.Function {
		c, ok := in.(*ssa.Call)
		if !ok || wg.async(c) || c.Call.IsInvoke() {
			return nil
		}
		for _, a := range append([]ssa.Value{c.Call.Value}, c.Call.Args...) {
			if _, isFn := a.(*ssa.Function); isFn {
				continue
			}
			if fv, ok := c16ResolveFn(a); ok && fv.body != nil && fv.body.Parent() == in.Parent() && len(core.Instrs(fv.body, isExecute)) > 0 {
				return fv.body
			}
			// a closure this function creates whose body has no lexical parent: the method value
			// `x.m` of a new method, turned into a closure over the receiver's cells (variant 2)
			if g := c16ClosureCreatedIn(a, in.Parent()); g != nil && len(core.Instrs(g, isExecute)) > 0 {
				return g
			}
		}
		return nil
	}
	runsExecuteHere := func(in ssa.Instruction) bool { return isExecute(in) || execLit(in) != nil }
	isPEMethod := func(f *ssa.Function) bool {
		return f.Signature.Recv() != nil && strings.Contains(f.Signature.Recv().Type().String(), "PeriodicalExecutor")
	}
	// an execute helper: a method that runs Execute but takes no part in the wait-group accounting and
	// is only ever run by plain calls (`pe.safeExecute(tasks)` with its own deferred recover): the call
	// of it is the execution site of its caller
	execHelpers := roleSet(func(f *ssa.Function) bool {
		return f.Parent() == nil && isPEMethod(f) && hasCall(f, runsExecuteHere, false) && !wg.fn(f, "Done", true) && !wg.fn(f, "Add", true) && c16UnaccountedUse(funcs, f) == nil
	})
	execHelper := func(in ssa.Instruction) *ssa.Function {
		c, ok := in.(*ssa.Call)
		if !ok {
			return nil
		}
		if g := c.Call.StaticCallee(); g != nil && execHelpers[g] && g != in.Parent() {
			return g
		}
		return nil
	}
	runsExecute := func(in ssa.Instruction) bool { return runsExecuteHere(in) || execHelper(in) != nil }
	execFns := roleSet(func(f *ssa.Function) bool {
		return hasCall(f, runsExecute, false) && isPEMethod(f) && !execHelpers[f]
	})
	addFns := roleSet(func(f *ssa.Function) bool { return hasCall(f, isAddTask, false) })
	callTo := func(set map[*ssa.Function]bool) func(ssa.Instruction) bool {
		return func(in ssa.Instruction) bool {
			c := core.AsCall(in)
			if c == nil {
				return false
			}
			g := c.Common().StaticCallee()
			return g != nil && set[g]
		}
	}
	plain := func(m func(ssa.Instruction) bool) func(ssa.Instruction) bool {
		return func(in ssa.Instruction) bool { _, ok := in.(*ssa.Call); return ok && m(in) }
	}
	isExec, isAddFn := plain(callTo(execFns)), plain(callTo(addFns))
	isEnter := plain(func(in ssa.Instruction) bool { return wg.at(in, "Add", true) && !wg.at(in, "Done", true) })
	isDone := func(in ssa.Instruction) bool { return wg.at(in, "Done", true) && !wg.at(in, "Add", true) }
	var flusher *ssa.Function
	var flSel *ssa.Select
	flK := -1
	for _, f := range funcs {
		for _, s := range selects(f) {
			for i, st := range s.States {
				if st.Dir == types.RecvOnly && chanID(st.Chan) == fCommander {
					flusher, flSel, flK = f, s, i
				}
			}
		}
	}
	// where the flusher is started: `go f()`, a closure / bound method value / function value
	// handed to a goroutine runner
	type flUse struct {
		fn    *ssa.Function
		in    ssa.Instruction
		async bool
		how   string
	}
	var flUses []flUse
	startFns := map[*ssa.Function]bool{}
	if flusher != nil {
		classify := func(f *ssa.Function, v ssa.Value) {
			refs := v.Referrers()
			if refs == nil {
				return
			}
			for _, ref := range *refs {
				switch x := ref.(type) {
				case *ssa.DebugRef:
				case *ssa.Go:
					flUses = append(flUses, flUse{f, x, true, "go"})
				case *ssa.Call:
					n := core.Short(core.CalleeName(x))
					flUses = append(flUses, flUse{f, x, n == "lib/threading.GoSafe", n})
				default:
					flUses = append(flUses, flUse{f, ref, false, "?"})
				}
			}
		}
		for _, f := range funcs {
			for _, b := range f.Blocks {
				for _, in := range b.Instrs {
					switch x := in.(type) {
					case *ssa.MakeClosure:
						g, _ := x.Fn.(*ssa.Function)
						if g == flusher || (g != nil && boundTarget(g) == flusher) {
							classify(f, x)
						}
					case *ssa.Go:
						if x.Call.StaticCallee() == flusher {
							flUses = append(flUses, flUse{f, x, true, "go"})
						}
					case *ssa.Call:
						if x.Call.StaticCallee() == flusher {
							flUses = append(flUses, flUse{f, x, false, "a plain call"})
						}
						for _, a := range x.Call.Args {
							if a == ssa.Value(flusher) {
								n := core.Short(core.CalleeName(x))
								flUses = append(flUses, flUse{f, x, n == "lib/threading.GoSafe", n})
							}
						}
					case *ssa.Defer:
						if x.Call.StaticCallee() == flusher {
							flUses = append(flUses, flUse{f, x, false, "defer"})
						}
					}
				}
			}
		}
		for _, u := range flUses {
			startFns[u.fn] = true
		}
	}
	quitFns := roleSet(func(f *ssa.Function) bool {
		for _, st := range core.StoresToField(f, fGuarded) {
			if core.Describe(st.Val) == "const:false" && !isFreshStore(st) {
				return true
			}
		}
		return false
	})
	isInflightAdd := func(delta int64) func(ssa.Instruction) bool {
		return func(in ssa.Instruction) bool {
			c, ok := in.(*ssa.Call)
			if !ok || !strings.HasPrefix(core.CalleeName(c), "sync/atomic.Add") || len(c.Call.Args) != 2 {
				return false
			}
			if core.FieldAddrName(c.Call.Args[0]) != fInflight {
				return false
			}
			n, ok := core.ConstInt(c.Call.Args[1])
			return ok && (delta == 0 || n == delta)
		}
	}
	for _, f := range funcs {
		r.Fn(core.FuncName(f))
	}
	la := core.NewLockAnalysis(p, exPkg)
	lockHeld := func(in ssa.Instruction) bool {
		for k, v := range la.Held(in) {
			if strings.HasSuffix(k, ".lock") && v == 'W' {
				return true
			}
		}
		return false
	}

	// ---------- D1 ----------
	r.Check("D1/K4/container-and-guarded-under-lock", "TaskContainer.AddTask/RemoveAll on pe.container and every access of pe.guarded happen with pe.lock held (closures run synchronously inherit the lock-set); every function returns with the same lock-set on all paths", func(o *core.O) {
		acc := la.CheckGuards([]core.Guard{{Type: "PeriodicalExecutor", Field: "guarded", Lock: "lock"}}, nil, nil)
		acc = append(acc, la.CheckCallGuards([]core.CallGuard{
			{Callee: isAddTask, RecvField: "container", Lock: "lock"},
			{Callee: isRemoveAll, RecvField: "container", Lock: "lock"},
		}, nil)...)
		core.ReportAccesses(o, p, acc)
		if len(acc) < 5 && o.OK() {
			o.Unres("only %d guarded accesses found (expected AddTask, 2x RemoveAll, 3x guarded)", len(acc))
		}
		// every AddTask/RemoveAll call of the package must have been classified (receiver path pe.container)
		n := 0
		for _, f := range funcs {
			n += len(core.Instrs(f, core.Or(isAddTask, isRemoveAll)))
		}
		calls := 0
		for _, a := range acc {
			if strings.HasPrefix(a.What, "call ") {
				calls++
			}
		}
		if calls != n {
			o.Unres("%d of %d container calls are not made on <executor>.container: receiver not understood", n-calls, n)
		}
		for f, msg := range la.Imbalance {
			if balancedModuloDefers(la, f) {
				continue // e.g. early return before `Lock(); defer Unlock()`
			}
			o.Fail(p.Pos(f.Pos()), "%s: %s", core.FuncName(f), msg)
		}
	})

	conts := findContainers(p)
	r.Check("D1/K5/container-state-owner", "the fields a container's AddTask writes (pending tasks, size, counters) are touched by no function other than its AddTask and RemoveAll, which run under pe.lock", func(o *core.O) {
		if !o.Need(len(conts) >= 4, "TaskContainer implementations (bulk, chunk, dbInserter, metrics)") {
			return
		}
		for _, ci := range conts {
			if len(ci.state) == 0 {
				o.Fail(p.Pos(ci.add.Pos()), "%s.AddTask stores nothing", ci.typ)
				continue
			}
			st := map[string]bool{}
			for _, s := range ci.state {
				st[s] = true
			}
			for _, f := range ci.pkgFuncs {
				if f == ci.add || f == ci.rem {
					continue
				}
				for _, in := range core.Instrs(f, func(in ssa.Instruction) bool {
					switch x := in.(type) {
					case *ssa.FieldAddr:
						return st[core.FieldAddrName(x)]
					case *ssa.Field:
						return st[core.FieldAddrName(x)]
					}
					return false
				}) {
					o.Fail(p.InstrPos(in), "%s touches %s outside AddTask/RemoveAll (not protected by the executor's lock)", core.FuncName(f), core.FieldAddrName(in.(ssa.Value)))
				}
			}
			o.Site(len(ci.state), ci.rel+"."+ci.typ)
			r.Fn(core.FuncName(ci.add), core.FuncName(ci.rem))
		}
	})

	// ---------- D2 ----------
	r.Check("D2/K1/handover-under-lock", "only when AddTask reports full: exactly one RemoveAll and one inflight+1, both before the lock is released; the function then returns (removed batch, true); otherwise (_, false)", func(o *core.O) {
		if !o.Need(len(addFns) > 0, "the function calling TaskContainer.AddTask") {
			return
		}
		for f := range addFns {
			adds := core.Instrs(f, isAddTask)
			o.Site(len(adds), core.FuncName(f))
			isAddRes := func(v ssa.Value) bool { c, ok := v.(*ssa.Call); return ok && isAddTask(c) }
			full := core.BoolVal(isAddRes)
			holds, fails := core.EdgesOf(f, full)
			if len(holds) == 0 {
				o.Fail(p.Pos(f.Pos()), "%s ignores AddTask's result", core.FuncName(f))
				continue
			}
			inc := isInflightAdd(1)
			for _, m := range []struct {
				what string
				is   func(ssa.Instruction) bool
			}{{"RemoveAll", isRemoveAll}, {"inflight+1", inc}} {
				if w := core.Requires(f, m.is, full); w != nil {
					o.Fail(p.InstrPos(w), "%s although the container did not report full", m.what)
				}
				if w, bad := core.Reach(core.Q{From: heads(holds), Target: core.IsReturn, Blocked: m.is}); bad {
					o.Fail(p.InstrPos(w), "container full but a path returns without %s", m.what)
				}
				if w := core.AtMostOnce(f, m.is); w != nil {
					o.Fail(p.InstrPos(w), "%s twice on one path", m.what)
				}
			}
			for _, in := range core.Instrs(f, inc) {
				if !lockHeld(in) {
					o.Fail(p.InstrPos(in), "inflight incremented without pe.lock: the flusher's quit test (inflight==0 under the lock) can retire while a batch is about to be handed over, and Add blocks on the confirmation")
				}
			}
			for _, ret := range core.Returns(f) {
				_, fromFull := core.Reach(core.Q{From: heads(holds), Target: core.Is(ret)})
				_, fromNot := core.Reach(core.Q{From: heads(fails), Target: core.Is(ret)})
				flag := core.Describe(core.Result(ret, 1))
				if fromFull && !fromNot {
					if flag != "const:true" {
						o.Fail(p.InstrPos(ret), "batch removed but reported as %s: the removed tasks are dropped", flag)
					}
					if !core.IsResult(core.Result(ret, 0), 0, isRemoveAll) {
						o.Fail(p.InstrPos(ret), "the returned batch is not what RemoveAll returned")
					}
				} else if fromNot && !fromFull {
					if flag != "const:false" {
						o.Fail(p.InstrPos(ret), "nothing removed but reported as %s", flag)
					}
				} else {
					o.Unres("%s: return not classified by AddTask's result", p.InstrPos(ret))
				}
			}
		}
	})

	r.Check("D2/K3/add-sends-batch-then-awaits-confirm", "Add sends exactly the removed batch to the flusher, only when one was removed, and then waits for the confirmation on every path", func(o *core.O) {
		n := 0
		for _, f := range funcs {
			for _, c := range core.Instrs(f, isAddFn) {
				n++
				o.Site(1, core.FuncName(f))
				call := c.(*ssa.Call)
				res := func(i int) func(ssa.Value) bool {
					return func(v ssa.Value) bool {
						cc, idx := core.ResultOf(core.Forward(v))
						return cc == call && idx == i
					}
				}
				// a send site is a send on pe.commander in f, or a call of an in-package helper
				// that sends one of its parameters on pe.commander (one level)
				type sendSite struct {
					val       ssa.Value
					confirmed bool
				}
				sites := map[ssa.Instruction]sendSite{}
				isRawSend := func(in ssa.Instruction) bool {
					s, ok := in.(*ssa.Send)
					return ok && chanID(s.Chan) == fCommander
				}
				for _, in := range core.Instrs(f, isRawSend) {
					sites[in] = sendSite{in.(*ssa.Send).X, core.MustPass(core.After(in), isRecvOn(fConfirm), core.IsExit) == nil}
				}
				for _, in := range core.Instrs(f, func(in ssa.Instruction) bool { _, ok := in.(*ssa.Call); return ok }) {
					hc := in.(*ssa.Call)
					h := hc.Call.StaticCallee()
					if h == nil || !inPkg[h] || h == f {
						continue
					}
					for _, s2 := range core.Instrs(h, isRawSend) {
						pv, ok := resolveLocal(s2.(*ssa.Send).X).(*ssa.Parameter)
						if !ok {
							continue
						}
						for i, q := range h.Params {
							if q == pv && i < len(hc.Call.Args) {
								sites[in] = sendSite{hc.Call.Args[i], core.MustPass(core.After(s2), isRecvOn(fConfirm), core.IsExit) == nil ||
									core.MustPass(core.After(in), isRecvOn(fConfirm), core.IsExit) == nil}
							}
						}
					}
				}
				isSend := func(in ssa.Instruction) bool { _, ok := sites[in]; return ok }
				sends := core.Instrs(f, isSend)
				if len(sends) == 0 {
					o.Fail(p.InstrPos(c), "%s never hands the removed batch to the flusher", core.FuncName(f))
					continue
				}
				holds, _ := core.EdgesOf(f, core.BoolVal(res(1)))
				if w := core.Requires(f, isSend, core.BoolVal(res(1))); w != nil {
					o.Fail(p.InstrPos(w), "a batch is sent although none was removed")
				}
				if w, bad := core.Reach(core.Q{From: heads(holds), Target: core.IsReturn, Blocked: isSend}); bad || len(holds) == 0 {
					o.Fail(p.InstrPos(c), "a removed batch is not sent to the flusher on some path (tasks lost)")
					_ = w
				}
				for _, s := range sends {
					if !res(0)(sites[s].val) {
						o.Fail(p.InstrPos(s), "Add sends %s instead of the removed batch", core.Describe(sites[s].val))
					}
					if !sites[s].confirmed {
						o.Fail(p.InstrPos(s), "Add returns without waiting for the flusher's confirmation: a following Wait can miss the batch")
					}
				}
			}
		}
		if n == 0 {
			o.Unres("no caller of the add-and-check function found")
		}
	})

	r.Check("D2/K1/inflight-accounting", "inflight is changed only by +1 in the add path and by -1 exactly once per batch the flusher receives", func(o *core.O) {
		if !o.Need(flusher != nil, "the function selecting on pe.commander (flusher)") {
			return
		}
		arm := selectArm(flusher, flSel, flK)
		if !o.Need(len(arm) > 0, "commander arm") {
			return
		}
		dec := isInflightAdd(-1)
		o.Site(len(core.Instrs(flusher, dec)), core.FuncName(flusher))
		if w, bad := core.Reach(core.Q{From: heads(arm), Target: core.Or(core.IsExit, core.Is(flSel)), Blocked: dec}); bad {
			o.Fail(p.InstrPos(w), "a batch is received without decrementing inflight: the flusher can never retire / guarded is never cleared")
		}
		for _, d := range core.Instrs(flusher, dec) {
			if w, bad := core.Reach(core.Q{From: []core.At{core.After(d)}, Target: dec, Blocked: core.Is(flSel)}); bad {
				o.Fail(p.InstrPos(w), "inflight decremented twice for one batch")
			}
		}
		if w, bad := core.Reach(core.Q{From: []core.At{core.Entry(flusher)}, Target: dec, Cut: core.CutSet(arm)}); bad {
			o.Fail(p.InstrPos(w), "inflight decremented without a received batch")
		}
		for _, f := range funcs {
			for _, in := range core.Instrs(f, isInflightAdd(0)) {
				o.Site(1)
				if f == flusher && dec(in) {
					continue
				}
				if addFns[f] && isInflightAdd(1)(in) {
					continue
				}
				o.Fail(p.InstrPos(in), "%s changes inflight outside the hand-over protocol", core.FuncName(f))
			}
			for _, st := range core.StoresToField(f, fInflight) {
				if !isFreshStore(st) {
					o.Fail(p.InstrPos(st), "inflight written non-atomically in %s", core.FuncName(f))
				}
			}
		}
	})

	// ---------- D3 ----------
	r.Check("D3/K3/flusher-enters-before-confirm", "for a received batch the flusher calls enterExecution before it confirms, confirms on every path, and executes exactly the received batch", func(o *core.O) {
		if !o.Need(flusher != nil && len(enterFns) > 0 && len(execFns) > 0, "flusher / enterExecution / executeTasks roles") {
			return
		}
		arm := selectArm(flusher, flSel, flK)
		isConfirm := func(in ssa.Instruction) bool {
			s, ok := in.(*ssa.Send)
			return ok && chanID(s.Chan) == fConfirm
		}
		o.Site(len(core.Instrs(flusher, isConfirm)), core.FuncName(flusher))
		back := core.Or(core.IsExit, core.Is(flSel))
		if w, bad := core.Reach(core.Q{From: heads(arm), Target: isConfirm, Blocked: isEnter}); bad {
			o.Fail(p.InstrPos(w), "the flusher confirms before enterExecution: Add returns and a following Wait can pass before the batch is counted")
		}
		if w, bad := core.Reach(core.Q{From: heads(arm), Target: back, Blocked: isConfirm}); bad {
			o.Fail(p.InstrPos(w), "a received batch is not confirmed on some path: Add blocks forever")
		}
		val := selectRecvValue(flSel, flK)
		execRecv := func(in ssa.Instruction) bool {
			return isExec(in) && val(core.AsCall(in).Common().Args[1])
		}
		if w, bad := core.Reach(core.Q{From: heads(arm), Target: back, Blocked: execRecv}); bad {
			o.Fail(p.InstrPos(w), "a received batch is not executed on some path (tasks lost)")
		}
		for _, c := range core.Instrs(flusher, isConfirm) {
			if w, bad := core.Reach(core.Q{From: []core.At{core.After(c)}, Target: isConfirm, Blocked: core.Is(flSel)}); bad {
				o.Fail(p.InstrPos(w), "two confirmations for one batch: the flusher blocks forever")
			}
		}
		if w, bad := core.Reach(core.Q{From: []core.At{core.Entry(flusher)}, Target: isConfirm, Cut: core.CutSet(arm)}); bad {
			o.Fail(p.InstrPos(w), "confirmation sent without a received batch")
		}
	})

	r.Check("D3/K1/enter-execute-pairing", "every executeTasks call is preceded by exactly one enterExecution, and every enterExecution is followed by its executeTasks on every path", func(o *core.O) {
		if !o.Need(len(enterFns) > 0 && len(execFns) > 0, "enterExecution / executeTasks roles") {
			return
		}
		n := 0
		for _, f := range funcs {
			ens, exs := core.Instrs(f, isEnter), core.Instrs(f, isExec)
			if len(ens)+len(exs) == 0 {
				continue
			}
			if enterFns[f] && len(exs) == 0 {
				// an enter-only function: what runs it is an enter site of the function it runs in,
				// so it must be run by plain synchronous calls only
				o.Site(1, core.FuncName(f))
				if in := c16UnaccountedUse(funcs, f); in != nil {
					o.Unres("%s: %s counts an execution in and is used here other than by a plain call: pairing not understood", p.InstrPos(in), core.FuncName(f))
				}
				continue
			}
			n += len(exs)
			o.Site(len(ens)+len(exs), core.FuncName(f))
			if w := core.Precedes(f, isEnter, isExec); w != nil {
				o.Fail(p.InstrPos(w), "executeTasks without enterExecution: WaitGroup.Done without Add (negative counter panic)")
			}
			for _, x := range exs {
				if w, bad := core.Reach(core.Q{From: []core.At{core.After(x)}, Target: isExec, Blocked: isEnter}); bad {
					o.Fail(p.InstrPos(w), "two executeTasks for one enterExecution")
				}
			}
			for _, e := range ens {
				if w, bad := core.Reach(core.Q{From: []core.At{core.After(e)}, Target: core.Or(core.IsExit, isEnter), Blocked: isExec}); bad {
					o.Fail(p.InstrPos(w), "enterExecution not followed by executeTasks on some path: Wait never returns")
				}
			}
		}
		if n < 2 {
			o.Unres("only %d executeTasks call sites found (Flush and flusher expected)", n)
		}
		for _, f := range funcs {
			for _, a := range core.Instrs(f, onWG(isWGAdd)) {
				o.Site(1)
				if d, ok := core.ConstInt(core.AsCall(a).Common().Args[1]); !ok || d != 1 {
					o.Fail(p.InstrPos(a), "enterExecution adds %s to the WaitGroup", core.Describe(core.AsCall(a).Common().Args[1]))
				}
			}
		}
	})

	r.Check("D3/K1/execute-ends-in-done", "executeTasks defers the WaitGroup.Done (once) before running the container's Execute and before any return, and executes the batch it was given", func(o *core.O) {
		if !o.Need(len(execFns) > 0 && len(doneFns) > 0, "executeTasks / doneExecution roles") {
			return
		}
		isDeferDone := func(in ssa.Instruction) bool {
			d, ok := in.(*ssa.Defer)
			if !ok {
				return false
			}
			return isDone(d)
		}
		for f := range execFns {
			o.Site(len(core.Instrs(f, runsExecute)), core.FuncName(f))
			if len(core.Instrs(f, isDeferDone)) == 0 {
				o.Fail(p.Pos(f.Pos()), "%s does not defer the WaitGroup.Done: a panicking execute callback leaves Wait blocked forever", core.FuncName(f))
				continue
			}
			if w := core.Precedes(f, isDeferDone, core.Or(runsExecute, core.IsReturn)); w != nil {
				o.Fail(p.InstrPos(w), "the batch can be executed / the function can return before Done is deferred")
			}
			if w := core.AtMostOnce(f, core.Or(isDeferDone, plain(isDone))); w != nil {
				o.Fail(p.InstrPos(w), "WaitGroup.Done can run twice for one execution")
			}
			for _, c := range core.Instrs(f, runsExecute) {
				// the value Execute is given, in the scope of f
				// litParam: the parameter of owner that Execute, in the literal lit run at `at`, is given
				// (lit captured it: lexically, or – a closure without a lexical parent – by the binding
				// at its creation site in owner); -1: something else
				litParam := func(lit, owner *ssa.Function, at ssa.Instruction, x ssa.Instruction) int {
					arg := core.Args(core.AsCall(x))[1]
					for i := range owner.Params {
						if core.CapturedParam(owner, i)(arg) || core.CapturedParam(owner, i)(core.Forward(arg)) {
							return i
						}
					}
					if lit.Parent() == nil {
						if k := c16CapturedParamAt(arg, owner, at); k >= 0 {
							return k
						}
						return c16CapturedParamAt(core.Forward(arg), owner, at)
					}
					return -1
				}
				inLit := func(lit, owner *ssa.Function, at ssa.Instruction) bool { // Execute in lit gets a parameter of owner that lit captured
					ok := len(core.Instrs(lit, isExecute)) > 0
					for _, x := range core.Instrs(lit, isExecute) {
						ok = ok && litParam(lit, owner, at, x) >= 0
					}
					return ok
				}
				isParamOf := func(v ssa.Value, owner *ssa.Function) int {
					pa, ok := core.Strip(core.Forward(v)).(*ssa.Parameter)
					if !ok {
						return -1
					}
					for i, q := range owner.Params {
						if q == pa {
							return i
						}
					}
					return -1
				}
				given := false
				switch {
				case execLit(c) != nil:
					given = inLit(execLit(c), f, c)
				case execHelper(c) != nil:
					g := execHelper(c)
					given = true
					for _, x := range core.Instrs(g, runsExecuteHere) {
						k := -1
						if lit := execLit(x); lit != nil {
							if inLit(lit, g, x) {
								for _, y := range core.Instrs(lit, isExecute) {
									if i := litParam(lit, g, x, y); i >= 0 {
										k = i
									}
								}
							}
						} else {
							k = isParamOf(core.Args(core.AsCall(x))[1], g)
						}
						if k < 0 || k >= len(core.Args(core.AsCall(c))) || isParamOf(core.Args(core.AsCall(c))[k], f) < 0 {
							given = false
						}
					}
				default:
					given = isParamOf(core.Args(core.AsCall(c))[1], f) >= 0
				}
				if !given {
					o.Fail(p.InstrPos(c), "Execute is not given the batch handed to %s", core.FuncName(f))
				}
			}
		}
		for f := range doneFns {
			doesDone := func(in ssa.Instruction) bool { return wg.at(in, "Done", false) }
			ds := core.Instrs(f, doesDone)
			o.Site(len(ds), core.FuncName(f))
			if w := core.MustPass(core.Entry(f), doesDone, core.IsExit); w != nil {
				o.Fail(p.InstrPos(w), "%s can return without WaitGroup.Done", core.FuncName(f))
			}
			if w := core.AtMostOnce(f, doesDone); w != nil {
				o.Fail(p.InstrPos(w), "%s calls WaitGroup.Done twice", core.FuncName(f))
			}
		}
	})

	r.Check("D3/K8/flush-executes-removed-batch", "Flush enters the execution, removes all tasks under the lock and executes exactly that batch", func(o *core.O) {
		f := p.Func(exPkg, "PeriodicalExecutor", "Flush")
		if !o.Need(f != nil, "PeriodicalExecutor.Flush") {
			return
		}
		exs := core.Instrs(f, isExec)
		o.Site(len(exs), core.FuncName(f))
		if len(exs) == 0 {
			o.Fail(p.Pos(f.Pos()), "Flush executes nothing")
		}
		if w := core.MustPass(core.Entry(f), isExec, core.IsReturn); w != nil {
			o.Fail(p.InstrPos(w), "Flush can return without executing")
		}
		for _, x := range exs {
			arg := core.Forward(core.AsCall(x).Common().Args[1])
			// the removed batch: RemoveAll's result, also when it travels through a variable that is
			// assigned once, inside a closure run under the lock (`pe.Sync(func() { tasks = … })`)
			removed := func(v ssa.Value) bool {
				return core.IsResult(v, 0, isRemoveAll) || core.IsResult(resolve(v), 0, isRemoveAll)
			}
			ok := removed(arg)
			if c, isCall := arg.(*ssa.Call); isCall && !ok {
				if g := calleeFn(c); g != nil && inPkg[g] {
					ok = len(core.Returns(g)) > 0
					for _, ret := range core.Returns(g) {
						if !removed(core.Result(ret, 0)) {
							ok = false
						}
					}
				}
			}
			if !ok {
				o.Fail(p.InstrPos(x), "Flush executes %s, not the batch RemoveAll returned", core.Describe(arg))
			}
		}
	})

	r.Check("D3/K3/wait-flushes-then-waits", "Wait first flushes the pending tasks, then waits on the executions' WaitGroup, on every path", func(o *core.O) {
		f := p.Func(exPkg, "PeriodicalExecutor", "Wait")
		if !o.Need(f != nil, "PeriodicalExecutor.Wait") {
			return
		}
		isWaitSite := func(in ssa.Instruction) bool {
			// a call that waits on pe.waitGroup: directly, or through the function value it runs
			// (a literal, the method value pe.waitGroup.Wait) or a function of the package
			_, ok := in.(*ssa.Call)
			return ok && wg.at(in, "Wait", true)
		}
		ws := core.Instrs(f, isWaitSite)
		o.Site(len(ws), core.FuncName(f))
		if len(ws) == 0 {
			o.Fail(p.Pos(f.Pos()), "Wait does not wait on the executions' WaitGroup")
		}
		if w := core.MustPass(core.Entry(f), isWaitSite, core.IsReturn); w != nil {
			o.Fail(p.InstrPos(w), "Wait can return without waiting")
		}
		if w := core.Precedes(f, plain(isFlush), isWaitSite); w != nil {
			o.Fail(p.InstrPos(w), "Wait waits before flushing: tasks still in the container are not executed when Wait returns")
		}
	})

	// ---------- D4 ----------
	r.Check("D4/K1/retiring-flusher-flushes", "the flusher goroutine defers Flush before its loop and before any return (tasks added between its last tick and its retirement are not stranded), and returns only when the quit test said so", func(o *core.O) {
		if !o.Need(flusher != nil, "flusher") {
			return
		}
		isDeferFlush := func(in ssa.Instruction) bool {
			_, ok := in.(*ssa.Defer)
			return ok && isFlush(in)
		}
		ds := core.Instrs(flusher, isDeferFlush)
		o.Site(1+len(ds), core.FuncName(flusher))
		if len(ds) == 0 {
			o.Fail(p.Pos(flusher.Pos()), "the flusher does not defer Flush: a task added just before it retires stays in the container until the next Add")
		} else if w := core.Precedes(flusher, isDeferFlush, core.Or(core.IsReturn, core.Is(flSel))); w != nil {
			o.Fail(p.InstrPos(w), "the flusher can loop/return before Flush is deferred")
		}
		isQuitRes := func(v ssa.Value) bool {
			c, ok := v.(*ssa.Call)
			return ok && callTo(quitFns)(c)
		}
		// evaluated per path: a quit flag set from the quit test's result and tested later
		// (`quit = true … if quit { return }`) is the same path as the `return` in place
		quitTrue, _ := core.EdgesOf(flusher, core.BoolVal(isQuitRes))
		var early ssa.Instruction
		if !c16Paths(c16PathQ{Fn: flusher, From: []core.At{core.Entry(flusher)}, Cut: core.CutSet(quitTrue), Visit: func(in ssa.Instruction, _ *c16PathState) bool {
			if core.IsReturn(in) {
				early = in
				return true
			}
			return false
		}}) {
			o.Unres("%s: too many paths to decide when the flusher returns", core.FuncName(flusher))
		}
		if early != nil {
			o.Fail(p.InstrPos(early), "the flusher returns although the quit test did not clear `guarded`: no flusher is ever started again")
		}
		// started asynchronously
		if !o.Need(len(flUses) > 0, "the function that starts the flusher") {
			return
		}
		for _, u := range flUses {
			switch {
			case u.async:
			case u.how == "?":
				o.Unres("%s: flusher function value used in an unknown way", p.InstrPos(u.in))
			default:
				o.Fail(p.InstrPos(u.in), "the flusher loop is run through %s, not in its own goroutine: Add never returns", u.how)
			}
		}
	})

	r.Check("D4/K2/quit-only-when-idle", "`guarded` is cleared only after reading inflight == 0 within the same lock hold, and the quit test reports true only when it cleared it", func(o *core.O) {
		if !o.Need(len(quitFns) > 0, "the function clearing pe.guarded") {
			return
		}
		for f := range quitFns {
			isClear := func(in ssa.Instruction) bool {
				st, ok := in.(*ssa.Store)
				return ok && core.FieldAddrName(st.Addr) == fGuarded && core.Describe(st.Val) == "const:false"
			}
			clears := core.Instrs(f, isClear)
			o.Site(len(clears), core.FuncName(f))
			isLoadInflight := func(v ssa.Value) bool {
				c, ok := v.(*ssa.Call)
				return ok && strings.HasPrefix(core.CalleeName(c), "sync/atomic.Load") && core.FieldAddrName(c.Call.Args[0]) == fInflight
			}
			idle := core.Cmp(token.EQL, isLoadInflight, core.IsConstInt(0))
			if w := core.Requires(f, isClear, idle); w != nil {
				o.Fail(p.InstrPos(w), "`guarded` cleared without inflight == 0: a batch already handed over finds no flusher and its Add blocks")
			}
			loads := core.Instrs(f, func(in ssa.Instruction) bool { v, ok := in.(ssa.Value); return ok && isLoadInflight(v) })
			for _, l := range loads {
				if !lockHeld(l) {
					o.Fail(p.InstrPos(l), "inflight read without pe.lock")
				}
				for _, u := range core.Instrs(f, core.CallTo("(*sync.Mutex).Unlock")) {
					if _, isDefer := u.(*ssa.Defer); isDefer {
						continue
					}
					_, a := core.Reach(core.Q{From: []core.At{core.After(l)}, Target: core.Is(u), Blocked: isClear})
					_, b := core.Reach(core.Q{From: []core.At{core.After(u)}, Target: isClear})
					if a && b {
						o.Fail(p.InstrPos(u), "the lock is released between the inflight test and clearing `guarded`")
					}
				}
			}
			// the result per path: true exactly on the paths that cleared `guarded` (the result
			// may be a constant, a φ of constants, or a result variable assigned on the way)
			if len(clears) == 0 {
				continue
			}
			complete := c16Paths(c16PathQ{Fn: f, From: []core.At{core.Entry(f)}, Mark: isClear, Visit: func(in ssa.Instruction, st *c16PathState) bool {
				ret, ok := in.(*ssa.Return)
				if !ok || in.Block() == f.Recover {
					return false
				}
				if len(ret.Results) != 1 {
					o.Unres("%s: unexpected result shape", core.FuncName(f))
					return true
				}
				val, known := st.Val(ret.Results[0])
				switch {
				case !known:
					o.Unres("%s: quit result %s is not a constant per path: shape not understood", p.InstrPos(ret), core.Describe(ret.Results[0]))
					return true
				case val && !st.Marked:
					o.Fail(p.InstrPos(ret), "the quit test reports true on a path that did not clear `guarded`: the flusher retires while `guarded` stays set and no flusher is ever started again")
				case !val && st.Marked:
					o.Fail(p.InstrPos(ret), "`guarded` cleared but the flusher is told to continue: a second flusher is started next to it")
				}
				return false
			}})
			if !complete {
				o.Unres("%s: too many paths to classify the quit result", core.FuncName(f))
			}
		}
	})

	r.Check("D4/K2/flusher-started-when-unguarded", "after an Add, exactly when `guarded` was false it is set and a flusher is started (under the lock, on every such path); never when it was true", func(o *core.O) {
		if !o.Need(flusher != nil && len(startFns) > 0, "flusher start function") {
			return
		}
		isStart := callTo(startFns)
		n := 0
		for _, f := range funcs {
			isSet := func(in ssa.Instruction) bool {
				st, ok := in.(*ssa.Store)
				return ok && core.FieldAddrName(st.Addr) == fGuarded && core.Describe(st.Val) == "const:true" && !isFreshStore(st)
			}
			sets, starts := core.Instrs(f, isSet), core.Instrs(f, isStart)
			if len(sets)+len(starts) == 0 {
				continue
			}
			n++
			o.Site(len(sets)+len(starts), core.FuncName(f))
			guarded := core.BoolVal(core.FieldLoad(fGuarded))
			_, unguarded := core.EdgesOf(f, guarded)
			if len(unguarded) == 0 {
				o.Fail(p.Pos(f.Pos()), "%s starts a flusher / sets `guarded` without testing it", core.FuncName(f))
				continue
			}
			if w := core.Requires(f, core.Or(isSet, isStart), core.Not(guarded)); w != nil {
				o.Fail(p.InstrPos(w), "flusher started / `guarded` set although a flusher is alive")
			}
			// per tested load of `guarded`: from its false edges every path (on which that same
			// value is false again at later tests) sets the flag and starts a flusher
			for _, ld := range core.Instrs(f, func(in ssa.Instruction) bool {
				v, ok := in.(ssa.Value)
				return ok && core.FieldAddrNameOfLoad(v) == fGuarded
			}) {
				one := core.BoolVal(func(v ssa.Value) bool { return v == ld.(ssa.Value) })
				hl, fl := core.EdgesOf(f, one)
				if len(fl) == 0 {
					continue
				}
				for _, m := range []struct {
					what string
					is   func(ssa.Instruction) bool
				}{{"set `guarded`", isSet}, {"start the flusher", isStart}} {
					if w, bad := core.Reach(core.Q{From: []core.At{core.Entry(f)}, Target: core.IsExit, Blocked: m.is, Cut: core.CutSet(hl)}); bad {
						o.Fail(p.InstrPos(w), "no flusher alive but a path does not %s: added tasks are never flushed by the timer", m.what)
					}
				}
			}
			// the test and the set happen under one lock hold
			for _, s := range sets {
				if !lockHeld(s) {
					o.Fail(p.InstrPos(s), "`guarded` set without pe.lock")
				}
			}
			// the function must itself run after the AddTask of the same lock hold: it is the deferred closure of an add function or the add function itself
			okCtx := addFns[f]
			if body, _ := deferSiteOf(f); body != nil && addFns[body] {
				okCtx = true
			}
			if !okCtx {
				o.Fail(p.Pos(f.Pos()), "%s starts the flusher but is not part of the add path", core.FuncName(f))
			}
		}
		if n == 0 {
			o.Fail(p.Pos(flusher.Pos()), "no function starts the flusher")
		}
	})

	r.Check("D4/K6/flush-thresholds", "bulk: AddTask reports full iff len(tasks) >= maxTasks, chunk: iff size >= maxChunkSize, both measured after the task was appended / its size added", func(o *core.O) {
		type spec struct{ typ, measure, limit string }
		for _, s := range []spec{{"bulkContainer", "tasks", "maxTasks"}, {"chunkContainer", "size", "maxChunkSize"}} {
			f := p.Func(exPkg, s.typ, "AddTask")
			if !o.Need(f != nil, s.typ+".AddTask") {
				return
			}
			mf, lf := s.typ+"."+s.measure, s.typ+"."+s.limit
			var measure func(ssa.Value) bool
			isStoreM := core.IsStoreToField(mf)
			afterStore := func(v ssa.Value) bool {
				// the load happens after the store of the updated value on every path
				in, ok := v.(ssa.Instruction)
				if !ok {
					return false
				}
				return core.Precedes(f, isStoreM, core.Is(in)) == nil && len(core.Instrs(f, isStoreM)) > 0
			}
			storedVal := func(v ssa.Value) bool {
				for _, st := range core.StoresToField(f, mf) {
					if st.Val == v {
						return true
					}
				}
				return false
			}
			if s.measure == "tasks" {
				measure = core.IsLenOf(func(v ssa.Value) bool {
					return (core.FieldAddrNameOfLoad(v) == mf && afterStore(v)) || storedVal(v)
				})
			} else {
				measure = func(v ssa.Value) bool {
					return (core.FieldAddrNameOfLoad(v) == mf && afterStore(v)) || storedVal(v)
				}
			}
			atom := core.Cmp(token.GEQ, measure, core.FieldLoad(lf))
			for _, ret := range core.Returns(f) {
				o.Site(1, core.FuncName(f))
				v := core.Result(ret, 0)
				neg := false
				for {
					u, ok := v.(*ssa.UnOp)
					if !ok || u.Op != token.NOT {
						break
					}
					v, neg = u.X, !neg
				}
				m, pos := atom(v)
				if !m || pos == neg {
					o.Fail(p.InstrPos(ret), "%s.AddTask reports %s, expected %s >= %s measured after the update (a batch may exceed the limit, or by a whole task)", s.typ, core.Describe(core.Result(ret, 0)), s.measure, s.limit)
				}
			}
			if s.measure == "size" {
				for _, st := range core.StoresToField(f, mf) {
					o.Site(1)
					b, ok := st.Val.(*ssa.BinOp)
					if !ok || b.Op != token.ADD {
						o.Fail(p.InstrPos(st), "chunk size is not accumulated")
						continue
					}
					isOld := func(v ssa.Value) bool { return core.FieldAddrNameOfLoad(v) == mf }
					isSz := func(v ssa.Value) bool { return core.FieldAddrNameOfLoad(core.Forward(v)) == "chunk.size" }
					if !(isOld(b.X) && isSz(b.Y)) && !(isOld(b.Y) && isSz(b.X)) {
						o.Fail(p.InstrPos(st), "chunk size becomes %s, expected size + task size", core.Describe(st.Val))
					}
				}
			}
		}
	})

	r.Check("D4/K8/removeall-returns-and-resets", "every container's RemoveAll returns the task list AddTask accumulated (read before the reset) and resets every field AddTask writes to its zero value on every path", func(o *core.O) {
		if !o.Need(len(conts) >= 4, "TaskContainer implementations") {
			return
		}
		for _, ci := range conts {
			f := ci.rem
			for _, fld := range ci.state {
				o.Site(1, core.FuncName(f))
				isReset := func(in ssa.Instruction) bool {
					st, ok := in.(*ssa.Store)
					return ok && core.FieldAddrName(st.Addr) == fld && isZeroConst(st.Val)
				}
				if w := core.MustPass(core.Entry(f), isReset, core.IsReturn); w != nil {
					o.Fail(p.InstrPos(w), "%s.RemoveAll returns without resetting %s: the same tasks are executed again / the threshold stays reached", ci.typ, fld)
				}
				for _, st := range core.StoresToField(f, fld) {
					if !isZeroConst(st.Val) {
						o.Fail(p.InstrPos(st), "%s.RemoveAll stores %s into %s", ci.typ, core.Describe(st.Val), fld)
					}
				}
				// only the task list itself (slice-typed state) has to be handed out
				isSlice := false
				for _, in := range core.Instrs(ci.add, func(in ssa.Instruction) bool {
					fa, ok := in.(*ssa.FieldAddr)
					return ok && core.FieldAddrName(fa) == fld
				}) {
					if pt, ok := in.(*ssa.FieldAddr).Type().Underlying().(*types.Pointer); ok {
						_, isSlice = pt.Elem().Underlying().(*types.Slice)
					}
				}
				if !isSlice {
					continue
				}
				for _, ret := range core.Returns(f) {
					ok := core.DependsOn(ret.Results[0], func(v ssa.Value) bool {
						if core.FieldAddrNameOfLoad(v) != fld {
							return false
						}
						// read before any reset
						_, after := core.Reach(core.Q{From: []core.At{core.Entry(f)}, Target: core.Is(v.(ssa.Instruction)), Blocked: func(in ssa.Instruction) bool { return false }})
						if !after {
							return false
						}
						for _, rs := range core.Instrs(f, isReset) {
							if _, bad := core.Reach(core.Q{From: []core.At{core.After(rs)}, Target: core.Is(v.(ssa.Instruction))}); bad {
								return false
							}
						}
						return true
					})
					if !ok {
						o.Fail(p.InstrPos(ret), "%s.RemoveAll's result does not carry %s as it was before the reset (tasks lost)", ci.typ, fld)
					}
				}
			}
		}
	})

	r.Check("D5/K9/wrappers-delegate", "the bulk and chunk executors' Add/Flush/Wait delegate to the same-named operation of their periodical executor (Wait that only flushes returns while a handed-over batch is still executing)", func(o *core.O) {
		n := 0
		for _, typ := range []string{"BulkExecutor", "ChunkExecutor"} {
			for _, name := range []string{"Add", "Flush", "Wait"} {
				f := p.Func("lib/executors", typ, name)
				if !o.Need(f != nil, "executors."+typ+"."+name) {
					return
				}
				r.Fn(core.FuncName(f))
				var calls []ssa.CallInstruction
				for _, c := range core.Calls(f, func(in ssa.Instruction) bool {
					c := core.AsCall(in)
					return c != nil && strings.HasPrefix(core.Short(core.CalleeName(c)), "(*lib/executors.PeriodicalExecutor).")
				}) {
					calls = append(calls, c)
				}
				n++
				if len(calls) != 1 {
					o.Fail(p.Pos(f.Pos()), "%s calls %d operations of its periodical executor, expected exactly one", core.FuncName(f), len(calls))
					continue
				}
				c := calls[0]
				if got := c.Common().StaticCallee().Name(); got != name {
					o.Fail(p.InstrPos(c), "%s delegates to PeriodicalExecutor.%s instead of %s", core.FuncName(f), got, name)
				}
				if _, isGo := c.(*ssa.Go); isGo {
					o.Fail(p.InstrPos(c), "%s delegates asynchronously", core.FuncName(f))
				}
				if w := core.MustPass(core.Entry(f), core.Is(c.(ssa.Instruction)), core.IsReturn); w != nil {
					o.Fail(p.InstrPos(w), "%s can return without delegating", core.FuncName(f))
				}
				if !strings.HasSuffix(core.Describe(core.Args(c)[0]), ".executor") {
					o.Fail(p.InstrPos(c), "%s delegates to %s, not to its own executor", core.FuncName(f), core.Describe(core.Args(c)[0]))
				}
			}
		}
		o.Site(n)
	})

	c16Extra(r, &c16Env{p: p, funcs: funcs, inPkg: inPkg, conts: conts, isEnter: isEnter, isRemoveAll: isRemoveAll, isExecute: isExecute, async: wg.async, flusher: flusher, flSel: flSel})
}

// isFreshStore: the store initialises a field of an object allocated in the same function (constructor).
func isFreshStore(st *ssa.Store) bool {
	fa, ok := st.Addr.(*ssa.FieldAddr)
	if !ok {
		return false
	}
	_, isAlloc := fa.X.(*ssa.Alloc)
	return isAlloc
}

// balancedModuloDefers re-examines a function the lock engine reported as
// unbalanced: the lock-sets at its returns agree once every lock for which an
// unlock was deferred on all paths to that return is removed.
func balancedModuloDefers(la *core.LockAnalysis, f *ssa.Function) bool {
	isUnlockOf := func(in ssa.Instruction, path string) bool {
		c := core.AsCall(in)
		if c == nil {
			return false
		}
		switch core.Short(core.CalleeName(c)) {
		case "(*sync.Mutex).Unlock", "(*sync.RWMutex).Unlock", "(*sync.RWMutex).RUnlock", "(sync.Locker).Unlock":
			return core.LockPath(core.Args(c)[0]) == path
		}
		return false
	}
	deferUnlock := func(path string) func(ssa.Instruction) bool {
		return func(in ssa.Instruction) bool {
			d, ok := in.(*ssa.Defer)
			if !ok {
				return false
			}
			if isUnlockOf(d, path) {
				return true
			}
			if g := deferredFn(d); g != nil && g.Parent() == f {
				return len(core.Instrs(g, func(x ssa.Instruction) bool { _, isCall := x.(*ssa.Call); return isCall && isUnlockOf(x, path) })) > 0
			}
			return false
		}
	}
	var first map[string]bool
	for _, ret := range core.Returns(f) {
		eff := map[string]bool{}
		for k := range la.Held(ret) {
			ds := core.Instrs(f, deferUnlock(k))
			if len(ds) > 0 && core.Precedes(f, deferUnlock(k), core.Is(ret)) == nil {
				continue // released by the defer
			}
			eff[k] = true
		}
		// a deferred unlock that may run although the lock is not held at the return
		for _, b := range f.Blocks {
			for _, in := range b.Instrs {
				if d, ok := in.(*ssa.Defer); ok {
					if c := core.Short(core.CalleeName(d)); strings.HasSuffix(c, "Unlock") {
						k := core.LockPath(core.Args(d)[0])
						if _, held := la.Held(ret)[k]; !held {
							if _, reach := core.Reach(core.Q{From: []core.At{core.After(d)}, Target: core.Is(ret)}); reach {
								return false
							}
						}
					}
				}
			}
		}
		if first == nil {
			first = eff
			continue
		}
		if len(first) != len(eff) {
			return false
		}
		for k := range eff {
			if !first[k] {
				return false
			}
		}
	}
	return true

}
