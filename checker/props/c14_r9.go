package props

import (
	"fmt"
	"go/token"
	"go/types"
	"strings"

	"godcheck/core"

	"golang.org/x/tools/go/ssa"
)

// Round 9 (defect hunters, finding C14 f1): the success score is an INTEGER, the EWMA a real
// number. How the real value is turned into the integer decides whether the score can move at
// all: under steady traffic (completions a few ms apart) one completion moves the real value by
// less than 1, so a conversion that always truncates drops every step upwards and turns every
// step downwards into a whole point — the score only ratchets down.

// c14RoundLeaf is one way the integer stored into the score can be produced.
type c14RoundLeaf struct {
	kind  string      // "trunc" (float→int conversion), "floor", "ceil", "nearest", "raw"
	real  ssa.Value   // the floating-point value that is rounded (nil for raw)
	val   ssa.Value   // raw: the value itself
	edges []core.Edge // the φ-edges the leaf enters through (outermost first)
}

func c14IsFloatT(t types.Type) bool {
	b, ok := t.Underlying().(*types.Basic)
	return ok && b.Info()&types.IsFloat != 0
}

func c14IsIntT(t types.Type) bool {
	b, ok := t.Underlying().(*types.Basic)
	return ok && b.Info()&types.IsInteger != 0
}

// c14RoundLeaves opens the "rounding skeleton" of an integer value: φ-nodes, numeric
// conversions, math.Ceil/Floor/Trunc/Round and min/max clamps, down to the floating-point values
// that are rounded and the values stored as they are. stop (may be nil) keeps a value closed
// (the sample, which is itself a φ of constants).
func c14RoundLeaves(v ssa.Value, stop func(ssa.Value) bool) []c14RoundLeaf {
	var out []c14RoundLeaf
	// pending is the rounding that will be applied to a bare floating-point value met further in:
	// roundings compose outside-in, and the innermost one decides (the outer ones are the identity
	// on its integral result), so each rounding met on the way in replaces the pending one
	var walk func(v ssa.Value, edges []core.Edge, pending string, depth int)
	walk = func(v ssa.Value, edges []core.Edge, pending string, depth int) {
		v = core.Forward(v)
		raw := func() { out = append(out, c14RoundLeaf{kind: "raw", val: v, edges: edges}) }
		if depth > 12 {
			raw()
			return
		}
		if stop != nil && stop(v) {
			raw()
			return
		}
		switch x := v.(type) {
		case *ssa.Phi:
			for i, e := range x.Edges {
				es := append(append([]core.Edge{}, edges...), core.Edge{From: x.Block().Preds[i], To: x.Block()})
				walk(e, es, pending, depth+1)
			}
			return
		case *ssa.ChangeType:
			walk(x.X, edges, pending, depth+1)
			return
		case *ssa.Convert:
			from, to := x.X.Type(), x.Type()
			switch {
			case c14IsFloatT(from) && c14IsIntT(to):
				walk(x.X, edges, "trunc", depth+1)
				return
			case c14IsIntT(from) && c14IsFloatT(to):
				// an integer seen as a float is exact: a later rounding is the identity on it
				walk(x.X, edges, "", depth+1)
				return
			case (c14IsIntT(from) && c14IsIntT(to)) || (c14IsFloatT(from) && c14IsFloatT(to)):
				walk(x.X, edges, pending, depth+1)
				return
			}
		case *ssa.Call:
			switch core.CalleeName(x) {
			case "math.Ceil":
				walk(x.Call.Args[0], edges, "ceil", depth+1)
				return
			case "math.Floor", "math.Trunc":
				walk(x.Call.Args[0], edges, "floor", depth+1)
				return
			case "math.Round", "math.RoundToEven":
				walk(x.Call.Args[0], edges, "nearest", depth+1)
				return
			case "math.Min", "math.Max", "builtin:min", "builtin:max":
				for _, a := range x.Call.Args {
					walk(a, edges, pending, depth+1)
				}
				return
			}
		}
		if pending != "" && c14IsFloatT(v.Type()) {
			out = append(out, c14RoundLeaf{kind: pending, real: v, edges: edges})
			return
		}
		raw()
	}
	walk(v, nil, "", 0)
	return out
}

// c14RealValue is the one floating-point value under the rounding skeleton of the stored
// integer v (nil when there is none, or more than one).
func c14RealValue(v ssa.Value) ssa.Value {
	var real ssa.Value
	for _, l := range c14RoundLeaves(v, nil) {
		if l.real == nil {
			continue
		}
		x := core.Forward(l.real)
		if real != nil && real != x {
			return nil
		}
		real = x
	}
	return real
}

func c14R9(r *core.Run) {
	p := r.P
	const tf = "subConn.success"
	r.Check("D1/K7/success-rounds-towards-sample", "the integer conversion of the new success score cannot move it away from the sample: the real EWMA value is rounded TOWARDS the sample — up (ceil) only where the sample is not below the old score / the real value, down (truncation, floor) only where it is not above — so that a real value strictly closer to the sample never maps back to the old integer when |sample − old| ≥ 1 (plain truncation drops every gain below one point while a failure always costs a whole one: under steady traffic the score only ratchets down and a recovered backend never regains it; rounding to nearest drops the steps of both directions, so a failing backend never turns unhealthy either)", func(o *core.O) {
		pick := p.Func(p2cPkg, "p2cPicker", "Pick")
		var done *ssa.Function
		var doneBind map[string]ssa.Value
		if pick != nil {
			for _, st := range core.StoresToField(pick, "PickResult.Done") {
				if f, b := gxClosureOf(st.Val); f != nil {
					done, doneBind = f, b
				}
			}
		}
		if !o.Need(pick != nil && done != nil, "the closure stored into PickResult.Done by p2cPicker.Pick") {
			return
		}
		connVar := ""
		for k, v := range doneBind {
			if strings.HasSuffix(v.Type().String(), "p2c.subConn") {
				connVar = k
			}
		}
		if !o.Need(connVar != "", "the *subConn captured by the done-callback") {
			return
		}
		isConn := func(v ssa.Value) bool { return v != nil && gxFreeVarOf(core.Forward(v)) == connVar }
		r.Fn(core.FuncName(done))
		stores := core.Calls(done, gxAtomicOn(tf, "StoreUint64"))
		if len(stores) == 0 {
			o.Unres("the done-callback never stores %s", tf)
			return
		}
		n := 0
		for _, st := range stores {
			args := core.Args(st)
			real := c14RealValue(args[1])
			if real == nil {
				o.Unres("%s: the stored score is not the rounding of one floating-point value (%s): the direction of the rounding cannot be decided", p.InstrPos(st), core.Describe(args[1]))
				continue
			}
			vals := map[string]ssa.Value{}
			a := &core.Alg{Opaque: func(x ssa.Value) bool {
				c, ok := x.(*ssa.Call)
				return ok && core.CalleeName(c) == "math.Exp"
			}, Name: func(x ssa.Value) string {
				if c, ok := x.(*ssa.Call); ok && gxAtomicOn(tf, "LoadUint64")(c) && isConn(gxFieldBase(c.Call.Args[0])) {
					return "old"
				}
				for k, old := range vals {
					if old == x {
						return k
					}
				}
				k := fmt.Sprintf("v%d", len(vals))
				vals[k] = x
				return k
			}}
			poly := a.Norm(real)
			ca, rest, lin := poly.Coef("old")
			inA := map[string]bool{}
			for _, x := range ca.Atoms() {
				inA[x] = true
			}
			var extra []string
			for _, x := range rest.Atoms() {
				if !inA[x] {
					extra = append(extra, x)
				}
			}
			if !lin || len(ca) == 0 || len(extra) != 1 {
				o.Unres("%s: the stored value %s is not of the form a·old + b·sample: old score and sample cannot be told apart (see D1/K7/ewma-convex/success)", p.InstrPos(st), poly)
				continue
			}
			sample := core.PAtom(extra[0])
			isSample := func(v ssa.Value) bool {
				if v == nil || !(c14IsIntT(v.Type()) || c14IsFloatT(v.Type())) {
					return false
				}
				return a.Norm(v).Equal(sample)
			}
			// "going up" in any spelling: sample − old, sample − v and v − old have the same sign
			// (v lies between old and sample); the sample is 0 or the top score, the old score ≥ 0
			old := core.PAtom("old")
			var upHold, downHold []core.Edge
			for _, w := range []core.Poly{sample.Sub(old), sample.Sub(poly), poly.Sub(old)} {
				h, _ := core.EdgesOf(done, core.CmpPoly(a, w, true))
				upHold = append(upHold, h...)
				h, _ = core.EdgesOf(done, core.CmpPoly(a, w.Neg(), true))
				downHold = append(downHold, h...)
			}
			isZero := func(v ssa.Value) bool { f, ok := core.ConstFloat(v); return ok && f == 0 }
			zh, nzh := core.EdgesOf(done, core.Cmp(token.EQL, isSample, isZero))
			downHold = append(downHold, zh...)
			upHold = append(upHold, nzh...)
			guarded := func(l c14RoundLeaf, hold []core.Edge) bool {
				if len(hold) == 0 {
					return false
				}
				if _, ok := core.Reach(core.Q{From: []core.At{core.Entry(done)}, Target: core.Is(st), Cut: core.CutSet(hold)}); !ok {
					return true
				}
				for _, e := range l.edges {
					if e.From.Parent() == done && !gxEdgeReachable(done, e, hold) {
						return true
					}
				}
				return false
			}
			for _, l := range c14RoundLeaves(args[1], isSample) {
				n++
				if l.real != nil && !a.Norm(l.real).Equal(poly) {
					o.Fail(p.InstrPos(st), "%s may become the rounding of %s, which is not the EWMA value %s", tf, a.Norm(l.real), poly)
					continue
				}
				switch l.kind {
				case "trunc", "floor":
					if !guarded(l, downHold) {
						o.Fail(p.InstrPos(st), "the new score is rounded DOWN (%s of %s) also when the sample lies above the old score: a gain below one point is dropped while a failure always costs a whole one — under steady traffic (completions < 10 ms apart) the score only ratchets down and a recovered backend never regains it", l.kind, poly)
					}
				case "ceil":
					if !guarded(l, upHold) {
						o.Fail(p.InstrPos(st), "the new score is rounded UP (ceil of %s) also when the sample lies below the old score: a loss below one point is dropped — under steady traffic a failing backend keeps its score and never turns unhealthy", poly)
					}
				case "nearest":
					o.Fail(p.InstrPos(st), "the new score is rounded to the nearest integer: steps below half a point are dropped in both directions — under steady traffic the score moves neither towards 1000 nor towards 0 (round towards the sample instead)")
				default:
					if !isSample(l.val) {
						o.Fail(p.InstrPos(st), "%s may become %s, which is neither a rounding of the EWMA value nor the sample", tf, core.Describe(l.val))
					}
				}
			}
		}
		o.Site(n, core.FuncName(done))
	})
}
