package props

import (
	"fmt"
	"go/token"
	"go/types"
	"strings"

	"godcheck/core"

	"golang.org/x/tools/go/ssa"
)

// ---------------------------------------------------------------------------
// Ownership of a stateful helper object held in a field ("this manager's own
// flight group"): every value that reaches the field is an object created for
// this owner — by an allocation, or by a call of a function every result of
// which is an object the call itself created — and no creation serves two
// stores. What is not such an object (a package-level variable, a field of
// another object, a parameter of an exported function) can be the same object
// in two owners.
//
// The analysis is on values, not spellings: temporaries and local cells are
// looked through (core.Forward / c18Fwd), interface conversions stripped,
// φ-merged values split into their leaves, constructor helpers followed into
// their return values (≤ 3 levels, across packages of the module), and a
// parameter of an unexported function is followed to the arguments of its
// callers (≤ 2 levels).
// ---------------------------------------------------------------------------

// c18Origin is one leaf a stored value can come from.
type c18Origin struct {
	site ssa.Instruction // the creating instruction in the function of the store (fresh leaves)
	par  *ssa.Parameter  // the leaf is a parameter of the function
	bad  string          // the leaf is not an object created for this store: why
	unk  string          // the leaf's shape is not understood
}

type c18Owner struct {
	p     *core.Prog
	memo  map[string]string // returns-fresh verdicts ("" = fresh, else the reason)
	depth int
}

func c18Rel(f *ssa.Function) string {
	if f == nil || f.Pkg == nil {
		return ""
	}
	return strings.TrimPrefix(strings.TrimPrefix(f.Pkg.Pkg.Path(), core.Mod), "/")
}

// origins lists the leaves of v, a value used inside a function of the module.
func (w *c18Owner) origins(v ssa.Value, depth int, seen map[ssa.Value]bool) []c18Origin {
	for i := 0; i < 6; i++ {
		n := core.Strip(c18Fwd(core.Strip(v)))
		// a type assertion hands on the object it is applied to
		if ta, ok := n.(*ssa.TypeAssert); ok {
			n = ta.X
		} else if e, ok := n.(*ssa.Extract); ok && e.Index == 0 {
			if ta, ok := e.Tuple.(*ssa.TypeAssert); ok {
				n = ta.X
			}
		}
		if n == v {
			break
		}
		v = n
	}
	if seen[v] {
		return nil
	}
	seen[v] = true
	switch x := v.(type) {
	case *ssa.Alloc:
		return []c18Origin{{site: x}}
	case *ssa.Phi:
		var out []c18Origin
		for _, e := range x.Edges {
			out = append(out, w.origins(e, depth, seen)...)
		}
		return out
	case *ssa.Parameter:
		return []c18Origin{{par: x}}
	case *ssa.Const:
		if x.Value == nil {
			return nil // nil: no object at all (a use would panic, nothing is shared)
		}
		return []c18Origin{{unk: "constant " + core.Describe(x)}}
	case *ssa.Extract:
		if c, ok := x.Tuple.(*ssa.Call); ok {
			return w.callOrigin(c, x.Index, depth)
		}
		return []c18Origin{{unk: core.Describe(x)}}
	case *ssa.Call:
		return w.callOrigin(x, 0, depth)
	case *ssa.UnOp:
		if x.Op == token.MUL {
			switch a := x.X.(type) {
			case *ssa.Global:
				return []c18Origin{{bad: "the package-level variable " + a.Name() + ", one object for the whole process"}}
			case *ssa.FieldAddr:
				return []c18Origin{{bad: "the field " + core.FieldAddrName(a) + " of another object"}}
			case *ssa.FreeVar:
				return []c18Origin{{unk: "the captured variable " + a.Name()}}
			case *ssa.IndexAddr:
				return []c18Origin{{bad: "an element of a collection"}}
			}
		}
	case *ssa.Field:
		return []c18Origin{{bad: "the field " + core.FieldAddrName(x) + " of another object"}}
	case *ssa.Lookup:
		return []c18Origin{{bad: "an entry of a map"}}
	case *ssa.FreeVar:
		return []c18Origin{{unk: "the captured variable " + x.Name()}}
	}
	return []c18Origin{{unk: core.Describe(v)}}
}

// callOrigin: result idx of call c is fresh when the callee is a function of
// the module every return of which hands back an object created by that call.
func (w *c18Owner) callOrigin(c *ssa.Call, idx, depth int) []c18Origin {
	h := c.Call.StaticCallee()
	if h == nil {
		return []c18Origin{{unk: "the result of the dynamic call " + core.Short(core.CalleeName(c))}}
	}
	if h.Blocks == nil {
		return []c18Origin{{unk: "the result of " + core.Short(core.CalleeName(c)) + " (no body)"}}
	}
	if why := w.returnsFresh(h, idx, depth+1); why != "" {
		return []c18Origin{{bad: "the result of " + core.FuncName(h) + ", which can return " + why}}
	}
	return []c18Origin{{site: c}}
}

func (w *c18Owner) returnsFresh(h *ssa.Function, idx, depth int) string {
	key := fmt.Sprintf("%p/%d", h, idx)
	if r, ok := w.memo[key]; ok {
		return r
	}
	if depth > 3 {
		return "a value created more than three calls deep (not followed)"
	}
	w.memo[key] = "itself (recursion)"
	res := ""
	for _, r := range core.Returns(h) {
		if idx >= len(r.Results) {
			res = "nothing at that position"
			break
		}
		for _, og := range w.origins(core.Result(r, idx), depth, map[ssa.Value]bool{}) {
			switch {
			case og.site != nil:
			case og.par != nil:
				res = "its argument " + og.par.Name()
			case og.bad != "":
				res = og.bad
			default:
				res = og.unk + " (origin not understood)"
			}
			if res != "" {
				break
			}
		}
		if res != "" {
			break
		}
	}
	w.memo[key] = res
	return res
}

// c18Consumer is a place where a value becomes an owner's object: the store
// into the field, or (up the call chain) the call that hands it to a helper
// which stores its parameter.
type c18Consumer struct {
	fn    *ssa.Function
	in    ssa.Instruction
	val   ssa.Value
	level int
}

// c18OwnField checks the obligation for field tf ("T.f") of package rel and
// returns the number of stores it inspected. what names the object ("flight
// group"), owner the owner ("ResourceManager"), effect what sharing causes.
func c18OwnField(o *core.O, p *core.Prog, rel, tf, what, owner, effect string) int {
	w := &c18Owner{p: p, memo: map[string]string{}}
	all := p.PkgFuncs(rel)
	var work []c18Consumer
	for _, f := range all {
		for _, st := range core.StoresToField(f, tf) {
			work = append(work, c18Consumer{f, st, st.Val, 0})
		}
	}
	n := len(work)
	type use struct {
		c     c18Consumer
		sites []ssa.Instruction
	}
	var uses []use
	for len(work) > 0 {
		c := work[0]
		work = work[1:]
		u := use{c: c}
		for _, og := range w.origins(c.val, 0, map[ssa.Value]bool{}) {
			switch {
			case og.site != nil:
				u.sites = append(u.sites, og.site)
			case og.bad != "":
				o.Fail(p.InstrPos(c.in), "the %s that reaches %s in %s is %s: two %ss share it, so %s", what, tf, core.FuncName(c.fn), og.bad, owner, effect)
			case og.unk != "":
				o.Unres("%s: the %s that reaches %s in %s is %s: whether it is created for this %s is not understood", p.InstrPos(c.in), what, tf, core.FuncName(c.fn), og.unk, owner)
			case og.par != nil:
				fn := og.par.Parent()
				idx := -1
				for i, q := range fn.Params {
					if q == og.par {
						idx = i
					}
				}
				exported := fn.Parent() == nil && token.IsExported(fn.Name())
				switch {
				case idx < 0 || fn.Parent() != nil:
					o.Unres("%s: the %s that reaches %s is a parameter of the closure %s", p.InstrPos(c.in), what, tf, core.FuncName(fn))
				case exported:
					o.Fail(p.InstrPos(c.in), "the %s that reaches %s is the parameter %s of the exported %s: a caller can hand one %s to two %ss, so %s", what, tf, og.par.Name(), core.FuncName(fn), what, owner, effect)
				case c.level >= 2:
					o.Unres("%s: the %s that reaches %s is handed down more than two helpers (not followed)", p.InstrPos(c.in), what, tf)
				case c18UsedAsValue(p.PkgFuncs(c18Rel(fn)), fn):
					o.Unres("%s: the %s that reaches %s is a parameter of %s, which is used as a value (callers unknown)", p.InstrPos(c.in), what, tf, core.FuncName(fn))
				default:
					for _, g := range p.PkgFuncs(c18Rel(fn)) {
						for _, cs := range core.Instrs(g, c18StaticCallTo(map[*ssa.Function]bool{fn: true})) {
							a := cs.(*ssa.Call).Call.Args
							if idx < len(a) {
								work = append(work, c18Consumer{g, cs, a[idx], c.level + 1})
							}
						}
					}
				}
			}
		}
		if len(u.sites) > 0 {
			uses = append(uses, u)
		}
	}
	// no creation serves two stores: once a consumer has taken the object created at s, no consumer
	// of s runs again (the same one in a loop, or a second one) unless a creation of its value ran in between
	for _, a := range uses {
		for _, b := range uses {
			if a.c.fn != b.c.fn {
				continue
			}
			shared := false
			for _, s := range a.sites {
				for _, t := range b.sites {
					if s == t {
						shared = true
					}
				}
			}
			if !shared || a.c.in.Block() == nil || b.c.in.Block() == nil {
				continue
			}
			if _, again := core.Reach(core.Q{From: []core.At{core.After(a.c.in)}, Target: core.Is(b.c.in), Blocked: core.Is(b.sites...)}); again {
				o.Fail(p.InstrPos(b.c.in), "one %s created in %s reaches %s of more than one %s (the creation is not repeated between two uses): they share it, so %s", what, core.FuncName(b.c.fn), tf, owner, effect)
			}
		}
	}
	return n
}

// c18FieldIsValue: field "T.f" of package rel is held by value (a struct, not a
// pointer or interface): the object is part of its owner and cannot be shared.
func c18FieldIsValue(p *core.Prog, rel, tf string) (found, byValue bool) {
	sp := p.Pkg(rel)
	i := strings.Index(tf, ".")
	if sp == nil || i < 0 {
		return false, false
	}
	t := sp.Type(tf[:i])
	if t == nil {
		return false, false
	}
	st, ok := t.Type().Underlying().(*types.Struct)
	if !ok {
		return false, false
	}
	for k := 0; k < st.NumFields(); k++ {
		if st.Field(k).Name() == tf[i+1:] {
			_, isStruct := st.Field(k).Type().Underlying().(*types.Struct)
			return true, isStruct
		}
	}
	return false, false
}

// c18R8 registers the rules added in detection round 8.
func c18R8(r *core.Run) {
	p := r.P
	r.Check("D5/K5/manager-own-flight-group", "every value stored into ResourceManager.singleFlight is a flight group created for that manager: an allocation, or the result of a constructor every return of which hands back an object the call created (NewSingleFlight), made anew for every store — never a package-level variable, a field of another object, or a caller-supplied group [last clause: Get runs create under the bare resource key in this group, and only the executing caller records the resource in its own manager; a Get on manager B that overlaps a Get of the same key on manager A through a shared group is handed A's resource, which B never records: B.Close does not close what B.Get handed out and B's next Get creates a second, different resource for the key]", func(o *core.O) {
		const tf = "ResourceManager.singleFlight"
		found, byValue := c18FieldIsValue(p, syncxPkg, tf)
		if !o.Need(found, "field "+tf) {
			return
		}
		if byValue {
			o.Site(1, tf+" (held by value)")
			return
		}
		for _, f := range p.PkgFuncs(syncxPkg) {
			if len(core.StoresToField(f, tf)) > 0 {
				r.Fn(core.FuncName(f))
			}
		}
		n := c18OwnField(o, p, syncxPkg, tf, "flight group", "manager", "a Get is served another manager's resource, which its own manager neither records nor closes, and its next Get creates a second one")
		o.Site(n, tf)
		if n == 0 {
			o.Unres("no store into %s found: where a manager's flight group comes from is not understood", tf)
		}
	})
}
