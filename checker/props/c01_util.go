package props

import (
	"go/token"
	"go/types"
	"sort"
	"strings"

	"godcheck/core"

	"golang.org/x/tools/go/ssa"
)

// ---- finite evaluation of small boolean predicates (K6) ----
//
// boolEval walks the (loop-free) CFG of a predicate `func(x T) bool` for one
// concrete choice of its subject value and collects the set of results the
// function can return. Conditions comparing the subject with a recognised
// token (nil, a package-level error variable, a constant) are decided; every
// other condition forks both ways (and is recorded, so the rule can decide
// whether that fork is expected). The evaluation depends only on the finite
// function the predicate computes, not on how it is spelled (switch, if-chain,
// `||` chain, early returns, temporaries).

type boolEval struct {
	fn      *ssa.Function
	subject func(ssa.Value) bool
	token   func(ssa.Value) string                // "" = not a recognised comparand
	assume  func(ssa.Value) (val string, ok bool) // optional: fixed result for selected values
	choice  string                                // token the subject equals ("other" = none of them)
	domain  map[string]bool                       // optional: the tokens "other" stands apart from (every choice the rule tries); needed to decide a table lookup for "other"

	outcomes map[string]bool
	forks    map[string]bool // descriptors of undecided conditions that were forked
	steps    int
	aborted  bool
}

const (
	bTrue  = "true"
	bFalse = "false"
)

// tokenOf recognises nil, loads of package-level variables and constants.
func tokenOf(v ssa.Value) string {
	if core.IsNil(v) {
		return "nil"
	}
	s := core.Strip(v)
	if u, ok := s.(*ssa.UnOp); ok && u.Op == token.MUL {
		if g, ok := u.X.(*ssa.Global); ok {
			return "global:" + g.Pkg.Pkg.Path() + "." + g.Name()
		}
	}
	if c, ok := s.(*ssa.Const); ok && c.Value != nil {
		return constToken(c.Type(), c.Value.ExactString())
	}
	return ""
}

func constToken(t types.Type, exact string) string {
	return "const:" + types.TypeString(t, func(p *types.Package) string { return p.Path() }) + ":" + exact
}

// typesConstToken is the token of a declared constant.
func typesConstToken(c *types.Const) string {
	return constToken(c.Type(), c.Val().ExactString())
}

func (e *boolEval) run() {
	e.outcomes, e.forks = map[string]bool{}, map[string]bool{}
	e.walk(e.fn.Blocks[0], map[*ssa.BasicBlock]*ssa.BasicBlock{}, 0)
}

func (e *boolEval) walk(b *ssa.BasicBlock, preds map[*ssa.BasicBlock]*ssa.BasicBlock, depth int) {
	e.steps++
	if depth > 64 || e.steps > 20000 {
		e.aborted = true
		return
	}
	next := func(s *ssa.BasicBlock) {
		np := make(map[*ssa.BasicBlock]*ssa.BasicBlock, len(preds)+1)
		for k, v := range preds {
			np[k] = v
		}
		np[s] = b
		e.walk(s, np, depth+1)
	}
	switch t := b.Instrs[len(b.Instrs)-1].(type) {
	case *ssa.Return:
		if len(t.Results) != 1 {
			e.aborted = true
			return
		}
		e.outcomes[e.eval(core.Forward(t.Results[0]), preds, 0)] = true
	case *ssa.If:
		switch c := e.eval(t.Cond, preds, 0); c {
		case bTrue:
			next(b.Succs[0])
		case bFalse:
			next(b.Succs[1])
		default:
			e.forks[c] = true
			next(b.Succs[0])
			next(b.Succs[1])
		}
	case *ssa.Jump:
		next(b.Succs[0])
	case *ssa.Panic:
		e.outcomes["panic"] = true
	default:
		e.aborted = true
	}
}

func (e *boolEval) eval(v ssa.Value, preds map[*ssa.BasicBlock]*ssa.BasicBlock, d int) string {
	if d > 32 {
		return "sym:…"
	}
	if e.assume != nil {
		if r, ok := e.assume(v); ok {
			return r
		}
	}
	switch x := v.(type) {
	case *ssa.Const:
		if x.Value != nil {
			if s := x.Value.String(); s == bTrue || s == bFalse {
				return s
			}
		}
	case *ssa.UnOp:
		if x.Op == token.NOT {
			switch r := e.eval(x.X, preds, d+1); r {
			case bTrue:
				return bFalse
			case bFalse:
				return bTrue
			default:
				return "sym:!" + strings.TrimPrefix(r, "sym:")
			}
		}
	case *ssa.BinOp:
		if x.Op == token.EQL || x.Op == token.NEQ {
			var other ssa.Value
			switch {
			case e.subject(x.X):
				other = x.Y
			case e.subject(x.Y):
				other = x.X
			}
			if other != nil {
				if tk := e.token(other); tk != "" {
					eq := tk == e.choice
					if (x.Op == token.EQL) == eq {
						return bTrue
					}
					return bFalse
				}
			}
			if bt, isB := x.X.Type().Underlying().(*types.Basic); other == nil && isB && bt.Info()&types.IsBoolean != 0 {
				// comparison of two decided booleans (`m[s] == false`, `ok != true`)
				l, r := e.eval(x.X, preds, d+1), e.eval(x.Y, preds, d+1)
				if (l == bTrue || l == bFalse) && (r == bTrue || r == bFalse) {
					if (x.Op == token.EQL) == (l == r) {
						return bTrue
					}
					return bFalse
				}
			}
		}
	case *ssa.Lookup, *ssa.Extract:
		// the subject looked up in a provably constant package-level map (a table that replaces a switch)
		if r, ok := e.tableLookup(v); ok {
			return r
		}
	case *ssa.Phi:
		if p, ok := preds[x.Block()]; ok {
			for i, q := range x.Block().Preds {
				if q == p {
					return e.eval(x.Edges[i], preds, d+1)
				}
			}
		}
	}
	return "sym:" + core.Describe(v)
}

func (e *boolEval) outcomeList() []string {
	var out []string
	for k := range e.outcomes {
		out = append(out, k)
	}
	sort.Strings(out)
	return out
}

func (e *boolEval) forkList() []string {
	var out []string
	for k := range e.forks {
		out = append(out, strings.TrimPrefix(k, "sym:"))
	}
	sort.Strings(out)
	return out
}

func onlyOutcome(e *boolEval, want string) bool {
	return len(e.outcomes) == 1 && e.outcomes[want]
}

// errorParam returns the unique parameter of interface type error.
func errorParam(f *ssa.Function) *ssa.Parameter {
	var out *ssa.Parameter
	for _, p := range f.Params {
		if p.Type().String() == "error" {
			if out != nil {
				return nil
			}
			out = p
		}
	}
	return out
}

// isValueOf matches the SSA value p itself, looking through spill slots and value-preserving conversions.
func isValueOf(p ssa.Value) func(ssa.Value) bool {
	return func(v ssa.Value) bool {
		return core.Strip(core.Forward(core.Strip(v))) == p
	}
}

// typeKey prints a type with package paths relative to the module and, for
// unnamed function types, without parameter names ("func(error) error").
func typeKey(t types.Type) string {
	q := func(pk *types.Package) string { return pk.Path() }
	if sig, ok := t.(*types.Signature); ok {
		var ps, rs []string
		for i := 0; i < sig.Params().Len(); i++ {
			ps = append(ps, typeKey(sig.Params().At(i).Type()))
		}
		for i := 0; i < sig.Results().Len(); i++ {
			rs = append(rs, typeKey(sig.Results().At(i).Type()))
		}
		s := "func(" + strings.Join(ps, ", ") + ")"
		switch len(rs) {
		case 0:
		case 1:
			s += " " + rs[0]
		default:
			s += " (" + strings.Join(rs, ", ") + ")"
		}
		return s
	}
	return core.Short(types.TypeString(t, q))
}

// paramsOfType returns the parameters of f whose type prints (typeKey) as ts.
func paramsOfType(f *ssa.Function, ts string) []*ssa.Parameter {
	var out []*ssa.Parameter
	for _, p := range f.Params {
		if typeKey(p.Type()) == ts {
			out = append(out, p)
		}
	}
	return out
}

// callOfParam matches dynamic calls of the given parameter (also when the
// parameter was spilled because a closure captures it).
func callOfParam(p *ssa.Parameter) func(ssa.Instruction) bool {
	if p == nil {
		return func(ssa.Instruction) bool { return false }
	}
	return core.CallOfValue(isValueOf(p))
}

func a1IsRecoverCall(v ssa.Value) bool {
	c, ok := v.(*ssa.Call)
	if !ok {
		return false
	}
	b, ok := c.Call.Value.(*ssa.Builtin)
	return ok && b.Name() == "recover"
}

// deferOfClosure matches `defer <closure f>()`.
func deferOfClosure(f *ssa.Function) func(ssa.Instruction) bool {
	return func(in ssa.Instruction) bool {
		d, ok := in.(*ssa.Defer)
		if !ok {
			return false
		}
		mc, ok := d.Call.Value.(*ssa.MakeClosure)
		return ok && mc.Fn == f
	}
}

func headsOf(es []core.Edge) []core.At {
	var from []core.At
	for _, e := range es {
		from = append(from, core.Head(e.To))
	}
	return from
}

// thresholdAtom is the atom "v < limit" for an integer value v matched by
// subject, recognised semantically: any comparison of the subject with a
// constant that is true for limit-1 and false for limit (v < 500, v <= 499,
// 500 > v, !(v >= 500) …).
func thresholdAtom(subject func(ssa.Value) bool, limit int64) core.Atom {
	return func(v ssa.Value) (bool, bool) {
		b, ok := v.(*ssa.BinOp)
		if !ok {
			return false, false
		}
		var c int64
		var cok, swapped bool
		switch {
		case subject(b.X):
			c, cok = core.ConstInt(b.Y)
		case subject(b.Y):
			c, cok = core.ConstInt(b.X)
			swapped = true
		}
		if !cok {
			return false, false
		}
		at := func(x int64) (bool, bool) {
			l, r := x, c
			if swapped {
				l, r = c, x
			}
			switch b.Op {
			case token.LSS:
				return l < r, true
			case token.LEQ:
				return l <= r, true
			case token.GTR:
				return l > r, true
			case token.GEQ:
				return l >= r, true
			}
			return false, false
		}
		lo, ok1 := at(limit - 1)
		hi, ok2 := at(limit)
		if !ok1 || !ok2 || lo == hi {
			return false, false
		}
		// monotone comparison against one constant: deciding limit-1 / limit differently means the cut is exactly at limit
		return true, lo
	}
}

// staticCallTo matches calls (incl. defer/go) whose static callee is f.
func staticCallTo(f *ssa.Function) func(ssa.Instruction) bool {
	return func(in ssa.Instruction) bool {
		cc := core.AsCall(in)
		return f != nil && cc != nil && cc.Common().StaticCallee() == f
	}
}

func isCallValue(pred func(ssa.Instruction) bool) func(ssa.Value) bool {
	return func(v ssa.Value) bool {
		cl, ok := v.(*ssa.Call)
		return ok && pred(cl)
	}
}

// thresholdAlg is the algebra of the admission threshold: k, and accepts/total (the sums
// the Reduce callback feeds from Bucket.Sum / Bucket.Count).
func (c *c01ctx) thresholdAlg() *core.Alg {
	return &core.Alg{Name: func(v ssa.Value) string {
		if c.kField != "" && core.FieldAddrNameOfLoad(v) == c.kField {
			return "k"
		}
		return c.historyName(v)
	}}
}

// ratioSignForms lists normal forms whose sign test decides "ratio ≤ 0" for the value
// handed to the random draw: the ratio itself; q when ratio ≡ max(0, q) (max(0,q) ≤ 0 ⟺
// q ≤ 0); and the numerator n when q ≡ n / d with d > 0 on every history. d > 0 is shown
// by interval evaluation with total ∈ [0, 2^62] (total sums Bucket.Count, which only
// Bucket.add (+1) and Bucket.reset (0) write: the imported window rule W/D1/K7/ring-operations).
func (c *c01ctx) ratioSignForms(a *core.Alg, ratio ssa.Value) []core.Poly {
	forms := []core.Poly{a.Norm(ratio)}
	q := core.Forward(ratio)
	if cl, ok := q.(*ssa.Call); ok {
		switch core.Short(core.CalleeName(cl)) {
		case "math.Max", "builtin:max":
			args := core.Args(cl)
			if len(args) == 2 {
				for i := range args {
					if z, isC := core.ConstFloat(args[i]); isC && z == 0 {
						q = core.Forward(args[1-i])
						forms = append(forms, a.Norm(q))
					}
				}
			}
		}
	}
	for {
		cv, ok := q.(*ssa.Convert)
		if !ok {
			break
		}
		q = core.Forward(cv.X)
	}
	if b, ok := q.(*ssa.BinOp); ok && b.Op == token.QUO {
		den := a.Norm(b.Y)
		if iv, bounded := den.Range(map[string]core.Interval{"total": {Lo: 0, Hi: 1 << 62}}); bounded && iv.Lo > 0 {
			forms = append(forms, a.Norm(b.X))
		}
	}
	return forms
}

// ---- round 11: "the value of parameter prm of root", seen from root and from the closures it creates ----

// c01ClosureFamily is root together with every function literal created (transitively) by it.
func c01ClosureFamily(root *ssa.Function) []*ssa.Function {
	fam := []*ssa.Function{root}
	seen := map[*ssa.Function]bool{root: true}
	for i := 0; i < len(fam); i++ {
		for _, b := range fam[i].Blocks {
			for _, in := range b.Instrs {
				if mc, ok := in.(*ssa.MakeClosure); ok {
					if g, ok := mc.Fn.(*ssa.Function); ok && !seen[g] {
						seen[g] = true
						fam = append(fam, g)
					}
				}
			}
		}
	}
	return fam
}

// c01CellOf resolves an address to the local variable (Alloc of a family member) it denotes:
// the Alloc itself, or a free variable every creation site of its closure binds to one Alloc.
func c01CellOf(addr ssa.Value, fam []*ssa.Function) *ssa.Alloc {
	for depth := 0; depth < 6; depth++ {
		switch x := addr.(type) {
		case *ssa.Alloc:
			return x
		case *ssa.FreeVar:
			g := x.Parent()
			idx := -1
			for k, fv := range g.FreeVars {
				if fv == x {
					idx = k
				}
			}
			var bound ssa.Value
			for _, f := range fam {
				for _, b := range f.Blocks {
					for _, in := range b.Instrs {
						mc, ok := in.(*ssa.MakeClosure)
						if !ok || mc.Fn != ssa.Value(g) || idx < 0 || idx >= len(mc.Bindings) {
							continue
						}
						if bound != nil && bound != mc.Bindings[idx] {
							return nil
						}
						bound = mc.Bindings[idx]
					}
				}
			}
			if bound == nil {
				return nil
			}
			addr = bound
		default:
			return nil
		}
	}
	return nil
}

// c01CellHoldsOnly reports whether the local variable cell holds val for its whole life: its one
// store, made by its own function, stores val; apart from that the cell is only loaded – by its
// function or, through by-reference capture, by closures of the family – and never escapes.
func c01CellHoldsOnly(cell *ssa.Alloc, val ssa.Value, fam []*ssa.Function) bool {
	stores := 0
	var uses func(addr ssa.Value, depth int) bool
	uses = func(addr ssa.Value, depth int) bool {
		if depth > 6 || addr.Referrers() == nil {
			return false
		}
		for _, ref := range *addr.Referrers() {
			switch x := ref.(type) {
			case *ssa.DebugRef:
			case *ssa.UnOp:
				if x.Op != token.MUL {
					return false
				}
			case *ssa.Store:
				if x.Addr != addr || addr != ssa.Value(cell) || core.Strip(x.Val) != val {
					return false // written through a capture, stored away, or given another value
				}
				stores++
			case *ssa.MakeClosure:
				g, ok := x.Fn.(*ssa.Function)
				if !ok {
					return false
				}
				for j, b := range x.Bindings {
					if b == addr {
						if j >= len(g.FreeVars) || !uses(g.FreeVars[j], depth+1) {
							return false
						}
					}
				}
			default:
				return false
			}
		}
		return true
	}
	return uses(cell, 0) && stores == 1
}

// c01ValueOfParam matches the value of root's parameter prm wherever the family can see it:
//   - prm itself (through spill slots, conversions: isValueOf);
//   - a load of the local cell prm was spilled to because a closure captures it – in root or, via
//     the free variable, inside the closure – provided the cell holds nothing else (c01CellHoldsOnly);
//   - a parameter of a function literal of the family that is only ever called (or deferred) where it
//     is created, with such a value in that position.
func c01ValueOfParam(root *ssa.Function, prm *ssa.Parameter) func(ssa.Value) bool {
	fam := c01ClosureFamily(root)
	var match func(v ssa.Value, depth int) bool
	match = func(v ssa.Value, depth int) bool {
		if depth > 4 {
			return false
		}
		v = core.Strip(v)
		if isValueOf(prm)(v) {
			return true
		}
		if ld, ok := v.(*ssa.UnOp); ok && ld.Op == token.MUL {
			if cell := c01CellOf(ld.X, fam); cell != nil && cell.Parent() == root {
				return c01CellHoldsOnly(cell, prm, fam)
			}
			return false
		}
		gp, ok := v.(*ssa.Parameter)
		if !ok || gp.Parent() == root || gp.Parent().Parent() == nil {
			return false
		}
		g := gp.Parent()
		idx := -1
		for k, q := range g.Params {
			if q == gp {
				idx = k
			}
		}
		sites := 0
		for _, f := range fam {
			for _, b := range f.Blocks {
				for _, in := range b.Instrs {
					mc, ok := in.(*ssa.MakeClosure)
					if !ok || mc.Fn != ssa.Value(g) {
						continue
					}
					for _, ref := range *mc.Referrers() {
						if _, isDbg := ref.(*ssa.DebugRef); isDbg {
							continue
						}
						ci, ok := ref.(ssa.CallInstruction)
						if !ok || ci.Common().IsInvoke() || ci.Common().Value != ssa.Value(mc) || idx < 0 || idx >= len(ci.Common().Args) {
							return false // the literal is kept as a value: its callers are not known
						}
						if _, isGo := ref.(*ssa.Go); isGo {
							return false
						}
						if !match(ci.Common().Args[idx], depth+1) {
							return false
						}
						sites++
					}
				}
			}
		}
		return sites > 0
	}
	return func(v ssa.Value) bool { return match(v, 0) }
}

// ---- local cells (round 9) ----
//
// A local variable that closures used to capture stays an address-taken cell
// (Alloc) after the loader has inlined those closures: its value at a load is not
// a φ but the set of stores that reach the load. The helpers below read such a
// cell the way a φ is read: one leaf per reaching store, and – when the stores
// merge at a block with several predecessors – the CFG edge (pred → merge block)
// the value arrives through.

// c01LocalCell: every use of al is a load from it or a store into it (its address
// is not captured, passed, stored or offset), so the stores of its own function
// are all the writes there are.
func c01LocalCell(al *ssa.Alloc) bool {
	if al.Referrers() == nil {
		return false
	}
	for _, r := range *al.Referrers() {
		switch x := r.(type) {
		case *ssa.Store:
			if x.Addr != ssa.Value(al) || x.Val == ssa.Value(al) {
				return false
			}
		case *ssa.UnOp:
			if x.Op != token.MUL {
				return false
			}
		case *ssa.DebugRef:
		default:
			return false
		}
	}
	return true
}

// c01CellLoad decomposes v into a load of a local cell.
func c01CellLoad(v ssa.Value) (*ssa.UnOp, *ssa.Alloc) {
	u, ok := v.(*ssa.UnOp)
	if !ok || u.Op != token.MUL {
		return nil, nil
	}
	al, ok := u.X.(*ssa.Alloc)
	if !ok || !c01LocalCell(al) {
		return nil, nil
	}
	return u, al
}

type c01CellDef struct {
	val  ssa.Value  // the stored value; the Alloc itself: no store on that path (zero value)
	edge *core.Edge // the edge into the merge block nearest to the load; nil: one store reaches the load on every path
}

// c01LastStore is the last store into al among b.Instrs[:end].
func c01LastStore(b *ssa.BasicBlock, end int, al *ssa.Alloc) *ssa.Store {
	for i := end - 1; i >= 0; i-- {
		if s, ok := b.Instrs[i].(*ssa.Store); ok && s.Addr == ssa.Value(al) {
			return s
		}
	}
	return nil
}

// c01ReachingDefs lists the stores into the local cell al that reach load.
func c01ReachingDefs(load *ssa.UnOp, al *ssa.Alloc) []c01CellDef {
	b := load.Block()
	idx := 0
	for i, in := range b.Instrs {
		if in == ssa.Instruction(load) {
			idx = i
		}
	}
	// up the chain of unique predecessors: no merge, one definition
	seen := map[*ssa.BasicBlock]bool{}
	for {
		if s := c01LastStore(b, idx, al); s != nil {
			return []c01CellDef{{val: s.Val}}
		}
		if len(b.Preds) == 0 {
			return []c01CellDef{{val: al}}
		}
		if len(b.Preds) > 1 || seen[b] {
			break
		}
		seen[b] = true
		b = b.Preds[0]
		idx = len(b.Instrs)
	}
	// b is the merge block nearest to the load: per incoming edge, the stores that reach its end
	var out []c01CellDef
	for _, pr := range b.Preds {
		e := &core.Edge{From: pr, To: b}
		vis := map[*ssa.BasicBlock]bool{}
		got := map[ssa.Value]bool{}
		var back func(x *ssa.BasicBlock)
		back = func(x *ssa.BasicBlock) {
			if vis[x] {
				return
			}
			vis[x] = true
			if s := c01LastStore(x, len(x.Instrs), al); s != nil {
				if !got[s.Val] {
					got[s.Val] = true
					out = append(out, c01CellDef{val: s.Val, edge: e})
				}
				return
			}
			if len(x.Preds) == 0 {
				if !got[al] {
					got[al] = true
					out = append(out, c01CellDef{val: al, edge: e})
				}
				return
			}
			for _, y := range x.Preds {
				back(y)
			}
		}
		back(pr)
	}
	return out
}

// c01LeavesWithEdges is gxLeavesWithEdges that also reads local cells: fn is called
// for every value that may flow into v, through φ-nodes and through the reaching
// stores of load/store-only locals; edge is the outermost merge edge the value
// enters through (a φ edge, or the edge into the merge block in front of the load),
// nil when v has one definition. A cell without a store on some path yields the
// Alloc itself as leaf (the zero value: no rule accepts it).
func c01LeavesWithEdges(v ssa.Value, fn func(leaf ssa.Value, edge *core.Edge)) {
	var walk func(v ssa.Value, outer *core.Edge, depth int)
	walk = func(v ssa.Value, outer *core.Edge, depth int) {
		gxLeavesWithEdges(v, func(leaf ssa.Value, edge *core.Edge) {
			if outer != nil {
				edge = outer
			}
			u, al := c01CellLoad(core.Strip(leaf))
			if u == nil || depth >= 4 {
				fn(leaf, edge)
				return
			}
			for _, d := range c01ReachingDefs(u, al) {
				if d.val == ssa.Value(al) {
					fn(al, c01Outer(edge, d.edge))
					continue
				}
				walk(d.val, c01Outer(edge, d.edge), depth+1)
			}
		})
	}
	walk(v, nil, 0)
}

func c01Outer(outer, inner *core.Edge) *core.Edge {
	if outer != nil {
		return outer
	}
	return inner
}
