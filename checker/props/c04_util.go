package props

import (
	"go/constant"
	"go/token"
	"go/types"

	"godcheck/core"

	"golang.org/x/tools/go/ssa"
)

// ---- constant package-level maps (a lookup table that replaces a switch) ----

// c04ConstMap is the content of a package-level map variable that is provably
// constant: keys by constant.Value.ExactString(); the value is nil for
// element types without constants (struct{}).
type c04ConstMap struct {
	keys map[string]constant.Value // key → key constant
	vals map[string]constant.Value // key → element constant (nil: zero-size/zero element)
}

// c04ConstMapOf returns the content of the unexported package-level map g when
// it is initialised exactly once, in the package initialiser, from a map
// literal with constant keys and constant (or empty-struct) elements, and the
// package does nothing else with it than load it for lookups, len and range
// (no update, no delete, no hand-over to a call, no copy into another
// variable); nil otherwise. Analogue of core.Eval's constGlobal for maps.
func c04ConstMapOf(g *ssa.Global) *c04ConstMap {
	if m, ok := c04ConstMapCache[g]; ok {
		return m
	}
	m := c04ConstMapOf1(g)
	c04ConstMapCache[g] = m
	return m
}

var c04ConstMapCache = map[*ssa.Global]*c04ConstMap{}

func c04ConstMapOf1(g *ssa.Global) *c04ConstMap {
	if g == nil || g.Pkg == nil || g.Object() == nil || g.Object().Exported() {
		return nil
	}
	if _, ok := g.Type().(*types.Pointer).Elem().Underlying().(*types.Map); !ok {
		return nil
	}
	initFn := g.Pkg.Func("init")
	if initFn == nil {
		return nil
	}
	var mk *ssa.MakeMap
	stores := 0
	for _, f := range b2AllPkgFuncs(g.Pkg.Prog, g.Pkg) {
		for _, b := range f.Blocks {
			for _, in := range b.Instrs {
				uses := false
				for _, op := range in.Operands(nil) {
					if *op == ssa.Value(g) {
						uses = true
					}
				}
				if !uses {
					continue
				}
				switch x := in.(type) {
				case *ssa.Store:
					if x.Addr != ssa.Value(g) || f != initFn {
						return nil
					}
					stores++
					m, ok := x.Val.(*ssa.MakeMap)
					if !ok {
						return nil
					}
					mk = m
				case *ssa.UnOp:
					if x.Op != token.MUL || !c04MapReadOnly(x) {
						return nil
					}
				case *ssa.DebugRef:
				default:
					return nil
				}
			}
		}
	}
	if stores != 1 || mk == nil || mk.Referrers() == nil {
		return nil
	}
	out := &c04ConstMap{keys: map[string]constant.Value{}, vals: map[string]constant.Value{}}
	for _, r := range *mk.Referrers() {
		switch x := r.(type) {
		case *ssa.MapUpdate:
			if x.Map != ssa.Value(mk) {
				return nil
			}
			k, ok := x.Key.(*ssa.Const)
			if !ok || k.Value == nil {
				return nil
			}
			v, ok := x.Value.(*ssa.Const)
			if !ok {
				return nil
			}
			if v.Value == nil {
				// only the (unique) value of an empty struct type is accepted as a non-constant element
				st, isStruct := v.Type().Underlying().(*types.Struct)
				if !isStruct || st.NumFields() != 0 {
					return nil
				}
			}
			ks := k.Value.ExactString()
			if _, dup := out.keys[ks]; dup {
				return nil
			}
			out.keys[ks] = k.Value
			out.vals[ks] = v.Value
		case *ssa.Store:
			if x.Val != ssa.Value(mk) || x.Addr != ssa.Value(g) {
				return nil
			}
		case *ssa.DebugRef:
		default:
			return nil
		}
	}
	return out
}

// c04MapReadOnly: the loaded map value is only looked up, measured or ranged over.
func c04MapReadOnly(v ssa.Value) bool {
	if v.Referrers() == nil {
		return false
	}
	for _, r := range *v.Referrers() {
		switch x := r.(type) {
		case *ssa.Lookup:
			if x.X != v {
				return false
			}
		case *ssa.Range:
		case *ssa.DebugRef:
		case *ssa.Call:
			if bi, ok := x.Call.Value.(*ssa.Builtin); !ok || bi.Name() != "len" {
				return false
			}
		default:
			return false
		}
	}
	return true
}

// c04TableLookup decomposes a boolean condition value that is decided by a
// lookup in a constant package-level map: `m[k]` for a map of booleans,
// `_, ok := m[k]` (the ok), or `v, _ := m[k]` (the v of a map of booleans).
// It returns the table, the key operand and which result is meant
// (0 = element, 1 = presence).
func c04TableLookup(v ssa.Value) (tab *c04ConstMap, key ssa.Value, res int) {
	v = core.Forward(v)
	res = 0
	if e, ok := v.(*ssa.Extract); ok {
		l, ok := e.Tuple.(*ssa.Lookup)
		if !ok || !l.CommaOk {
			return nil, nil, 0
		}
		v, res = l, e.Index
	}
	l, ok := v.(*ssa.Lookup)
	if !ok {
		return nil, nil, 0
	}
	if _, isMap := l.X.Type().Underlying().(*types.Map); !isMap {
		return nil, nil, 0
	}
	ld, ok := core.Forward(l.X).(*ssa.UnOp)
	if !ok || ld.Op != token.MUL {
		return nil, nil, 0
	}
	g, ok := ld.X.(*ssa.Global)
	if !ok {
		return nil, nil, 0
	}
	tab = c04ConstMapOf(g)
	if tab == nil {
		return nil, nil, 0
	}
	return tab, l.Index, res
}

// c04TableBool evaluates the condition decomposed by c04TableLookup for the key constant k.
func c04TableBool(tab *c04ConstMap, res int, k constant.Value) (val, ok bool) {
	ks := k.ExactString()
	_, present := tab.keys[ks]
	if res == 1 {
		return present, true
	}
	if !present {
		return false, true // zero value of a boolean element
	}
	e := tab.vals[ks]
	if e == nil || e.Kind() != constant.Bool {
		return false, false
	}
	return constant.BoolVal(e), true
}

// c04TableStrKeys lists the string keys of the constant tables that fn consults with a key satisfying isVar.
func c04TableStrKeys(fn *ssa.Function, isVar func(ssa.Value) bool) []string {
	var out []string
	seen := map[string]bool{}
	for _, b := range fn.Blocks {
		for _, in := range b.Instrs {
			l, ok := in.(*ssa.Lookup)
			if !ok {
				continue
			}
			tab, key, _ := c04TableLookup(l)
			if tab == nil || !isVar(key) {
				continue
			}
			for _, k := range tab.keys {
				if k.Kind() == constant.String && !seen[constant.StringVal(k)] {
					seen[constant.StringVal(k)] = true
					out = append(out, constant.StringVal(k))
				}
			}
		}
	}
	return out
}

// c04AssumeEq is b2AssumeEqDeep (the CFG edges of fn that cannot be taken when the
// string matched by isVar equals s: `x == c`, `x != c`, evaluable boolean helpers of x)
// extended by membership tests of x in a constant package-level table.
func c04AssumeEq(fn *ssa.Function, isVar func(ssa.Value) bool, s string) []core.Edge {
	out := b2AssumeEqDeep(fn, isVar, s)
	table := core.Atom(func(v ssa.Value) (bool, bool) {
		tab, key, res := c04TableLookup(v)
		if tab == nil || !isVar(key) {
			return false, false
		}
		val, ok := c04TableBool(tab, res, constant.MakeString(s))
		if !ok {
			return false, false
		}
		return true, val
	})
	_, infeasible := core.EdgesOf(fn, table)
	return append(out, infeasible...)
}
