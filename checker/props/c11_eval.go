package props

import (
	"fmt"
	"go/constant"
	"go/token"
	"go/types"
	"strings"
	"unicode/utf8"

	"godcheck/core"

	"golang.org/x/tools/go/ssa"
)

// A small path-enumerating evaluator for the code of lib/store/sqlx that turns a `db` struct tag
// into the name a field is registered under (K13). Nothing of the analysed program is executed:
// the SSA of the anchored function is interpreted over
//
//   - concrete strings, integers, booleans, slices/arrays/structs of those, local cells,
//   - the opaque value (anything that comes from reflection, parameters, other packages),
//
// with the read of the struct tag ((reflect.StructTag).Get/Lookup with the tag key) answered by
// the test input, the functions of package strings answered by their specification (the checker's
// own strings package), and in-package callees interpreted recursively. A branch on an opaque
// condition is a decision: the paths are enumerated by re-running the function with a prescribed
// decision prefix (depth-first, bounded). What the rule looks at are the observations of a path:
// the string results returned by the root function and the string keys/elements the root stores
// into a map or a slice.

type c11Opaque struct{}

type c11Arr struct{ elems []any }
type c11SliceV struct {
	arr    *c11Arr
	lo, hi int
}
type c11Cell struct{ v any }
type c11CellPtr struct{ cell *c11Cell }
type c11ArrPtr struct{ arr *c11Arr }
type c11ElemPtr struct {
	arr *c11Arr
	idx int
}
type c11Struct struct{ fields []any }
type c11FieldPtr struct {
	st  *c11Struct
	idx int
}
type c11StrIter struct {
	s   string
	pos int
}
type c11Tuple []any

type c11Obs struct {
	kind string // "return", "mapkey", "elem", "panic"
	val  any
	at   ssa.Instruction
}

type c11abort struct{ why string } // the path cannot be followed (bounds, unsupported construct)
type c11stop struct{}              // the path ended (observation in a sink, panic)

type c11Interp struct {
	tagKey   string
	tag      string
	present  bool
	root     *ssa.Function
	sinkOK   func(in ssa.Instruction, v ssa.Value) bool // static filter for map-key / element sinks of the root
	prefix   []bool
	taken    []bool
	steps    int
	depth    int
	obs      []c11Obs
	tagReads int
}

const (
	c11MaxDecisions = 18
	c11MaxRuns      = 400
	c11MaxSteps     = 6000
)

// c11Explore enumerates the paths of root for one tag value and returns the observations of all
// of them; incomplete lists why some paths could not be followed to their end.
func c11Explore(root *ssa.Function, tagKey, tag string, present bool, sinkOK func(ssa.Instruction, ssa.Value) bool) (obs []c11Obs, incomplete []string, tagReads int) {
	var prefix []bool
	seenWhy := map[string]bool{}
	for run := 0; ; run++ {
		if run >= c11MaxRuns {
			incomplete = append(incomplete, "more than "+fmt.Sprint(c11MaxRuns)+" paths")
			return
		}
		e := &c11Interp{tagKey: tagKey, tag: tag, present: present, root: root, sinkOK: sinkOK, prefix: prefix, steps: c11MaxSteps}
		if why := e.runPath(); why != "" && !seenWhy[why] {
			seenWhy[why] = true
			incomplete = append(incomplete, why)
		}
		obs = append(obs, e.obs...)
		tagReads += e.tagReads
		dec := e.taken
		for len(dec) > 0 && !dec[len(dec)-1] {
			dec = dec[:len(dec)-1]
		}
		if len(dec) == 0 {
			return
		}
		dec[len(dec)-1] = false
		prefix = dec
	}
}

func (e *c11Interp) runPath() (why string) {
	defer func() {
		if r := recover(); r != nil {
			switch x := r.(type) {
			case c11abort:
				why = x.why
			case c11stop:
			default:
				panic(r)
			}
		}
	}()
	args := make([]any, len(e.root.Params))
	for i := range args {
		args[i] = c11Opaque{}
	}
	e.call(e.root, args)
	return ""
}

func (e *c11Interp) abort(format string, a ...any) { panic(c11abort{fmt.Sprintf(format, a...)}) }

func (e *c11Interp) decide() bool {
	k := len(e.taken)
	if k < len(e.prefix) {
		e.taken = append(e.taken, e.prefix[k])
		return e.prefix[k]
	}
	if k >= c11MaxDecisions {
		e.abort("more than %d undetermined branches on one path", c11MaxDecisions)
	}
	e.taken = append(e.taken, true)
	return true
}

func c11IsOpaque(v any) bool { _, ok := v.(c11Opaque); return ok }

func c11Str(v any) (string, bool) {
	c, ok := v.(constant.Value)
	if !ok || c.Kind() != constant.String {
		return "", false
	}
	return constant.StringVal(c), true
}

func c11Int(v any) (int, bool) {
	c, ok := v.(constant.Value)
	if !ok || c.Kind() != constant.Int {
		return 0, false
	}
	n, exact := constant.Int64Val(c)
	return int(n), exact
}

func c11MkStr(s string) any { return constant.MakeString(s) }
func c11MkInt(n int) any    { return constant.MakeInt64(int64(n)) }
func c11MkBool(b bool) any  { return constant.MakeBool(b) }

func c11Zero(t types.Type, depth int) any {
	switch u := t.Underlying().(type) {
	case *types.Basic:
		switch {
		case u.Info()&types.IsString != 0:
			return c11MkStr("")
		case u.Info()&types.IsInteger != 0:
			return c11MkInt(0)
		case u.Info()&types.IsBoolean != 0:
			return c11MkBool(false)
		}
	case *types.Slice:
		return c11SliceV{arr: &c11Arr{}}
	case *types.Struct:
		if depth < 3 && u.NumFields() <= 16 {
			st := &c11Struct{fields: make([]any, u.NumFields())}
			for i := range st.fields {
				st.fields[i] = c11Zero(u.Field(i).Type(), depth+1)
			}
			return st
		}
	}
	return c11Opaque{}
}

// c11Copy gives value semantics to struct values (loads and stores copy them).
func c11Copy(v any) any {
	if st, ok := v.(*c11Struct); ok {
		out := &c11Struct{fields: make([]any, len(st.fields))}
		for i, f := range st.fields {
			out.fields[i] = c11Copy(f)
		}
		return out
	}
	return v
}

func (e *c11Interp) call(fn *ssa.Function, args []any) any {
	if fn == nil || len(fn.Blocks) == 0 || len(args) != len(fn.Params) {
		return c11Opaque{}
	}
	if e.depth > 6 {
		e.abort("call depth")
	}
	e.depth++
	defer func() { e.depth-- }()
	env := map[ssa.Value]any{}
	for i, prm := range fn.Params {
		env[prm] = args[i]
	}
	var prev *ssa.BasicBlock
	b := fn.Blocks[0]
	for {
		newPhi := map[ssa.Value]any{}
		for _, in := range b.Instrs {
			phi, ok := in.(*ssa.Phi)
			if !ok {
				break
			}
			idx := -1
			for i, pr := range b.Preds {
				if pr == prev {
					idx = i
				}
			}
			if idx < 0 {
				e.abort("φ without predecessor")
			}
			newPhi[phi] = e.val(env, phi.Edges[idx])
		}
		for k, v := range newPhi {
			env[k] = v
		}
		next := (*ssa.BasicBlock)(nil)
		for _, in := range b.Instrs {
			e.steps--
			if e.steps <= 0 {
				e.abort("step bound")
			}
			switch x := in.(type) {
			case *ssa.Phi, *ssa.DebugRef, *ssa.Defer, *ssa.RunDefers, *ssa.Go, *ssa.Send:
			case *ssa.Return:
				var out c11Tuple
				for _, r := range x.Results {
					out = append(out, e.val(env, r))
				}
				if e.depth == 1 {
					for i, r := range x.Results {
						if bt, ok := r.Type().Underlying().(*types.Basic); ok && bt.Info()&types.IsString != 0 {
							e.obs = append(e.obs, c11Obs{"return", out[i], x})
						}
					}
				}
				switch len(out) {
				case 0:
					return nil
				case 1:
					return out[0]
				}
				return out
			case *ssa.Panic:
				panic(c11stop{})
			case *ssa.Jump:
				next = b.Succs[0]
			case *ssa.If:
				c, ok := core.AsBool(e.val(env, x.Cond))
				if !ok {
					c = e.decide()
				}
				if c {
					next = b.Succs[0]
				} else {
					next = b.Succs[1]
				}
			case *ssa.Store:
				e.store(env, x)
			case *ssa.MapUpdate:
				if e.depth == 1 && c11IsStringType(x.Key.Type()) && e.sinkOK(x, x.Key) {
					e.obs = append(e.obs, c11Obs{"mapkey", e.val(env, x.Key), x})
					panic(c11stop{})
				}
			case ssa.Value:
				env[x] = e.instr(env, x)
			default:
				e.abort("unsupported instruction %T", in)
			}
		}
		if next == nil {
			e.abort("block without terminator")
		}
		prev, b = b, next
	}
}

func c11IsStringType(t types.Type) bool {
	bt, ok := t.Underlying().(*types.Basic)
	return ok && bt.Info()&types.IsString != 0
}

// runtimePanic ends the path. It is an observation only when the path is the concrete one (no
// branch on an opaque condition was taken: otherwise the combination of decisions may be
// infeasible, e.g. "the loop over the fields is entered" with "the field list is empty").
func (e *c11Interp) runtimePanic(at ssa.Instruction, what string) {
	if len(e.taken) == 0 {
		e.obs = append(e.obs, c11Obs{"panic", what, at})
	}
	panic(c11stop{})
}

func (e *c11Interp) store(env map[ssa.Value]any, st *ssa.Store) {
	v := c11Copy(e.val(env, st.Val))
	switch a := e.val(env, st.Addr).(type) {
	case c11CellPtr:
		a.cell.v = v
	case c11ElemPtr:
		a.arr.elems[a.idx] = v
		if e.depth == 1 && c11IsStringType(st.Val.Type()) && e.sinkOK(st, st.Val) {
			if ia, ok := st.Addr.(*ssa.IndexAddr); ok {
				if _, isSlice := ia.X.Type().Underlying().(*types.Slice); isSlice {
					e.obs = append(e.obs, c11Obs{"elem", v, st})
					panic(c11stop{})
				}
			}
		}
	case c11FieldPtr:
		a.st.fields[a.idx] = v
	case c11ArrPtr:
		if src, ok := v.(*c11Arr); ok && len(src.elems) == len(a.arr.elems) {
			copy(a.arr.elems, src.elems)
		} else {
			for i := range a.arr.elems {
				a.arr.elems[i] = c11Opaque{}
			}
		}
	default:
		// a store through an opaque pointer: if the stored value is a tag-derived string element
		// of a slice we cannot see, it is still a sink
		if e.depth == 1 && c11IsStringType(st.Val.Type()) && e.sinkOK(st, st.Val) {
			if ia, ok := st.Addr.(*ssa.IndexAddr); ok {
				if _, isSlice := ia.X.Type().Underlying().(*types.Slice); isSlice {
					e.obs = append(e.obs, c11Obs{"elem", v, st})
					panic(c11stop{})
				}
			}
		}
	}
}

func (e *c11Interp) val(env map[ssa.Value]any, v ssa.Value) any {
	switch x := v.(type) {
	case *ssa.Const:
		if x.Value == nil {
			return c11Zero(x.Type(), 0)
		}
		return x.Value
	case *ssa.Global, *ssa.FreeVar, *ssa.Function, *ssa.Builtin:
		return c11Opaque{}
	}
	r, ok := env[v]
	if !ok {
		e.abort("value %s used before it is defined on this path", v.Name())
	}
	return r
}

// invalidate: a pointer handed to code we do not interpret may be written through.
func c11Invalidate(v any) {
	switch a := v.(type) {
	case c11CellPtr:
		a.cell.v = c11Opaque{}
	case c11ElemPtr:
		a.arr.elems[a.idx] = c11Opaque{}
	case c11FieldPtr:
		a.st.fields[a.idx] = c11Opaque{}
	case c11ArrPtr:
		for i := range a.arr.elems {
			a.arr.elems[i] = c11Opaque{}
		}
	}
}

func (e *c11Interp) instr(env map[ssa.Value]any, v ssa.Value) any {
	switch x := v.(type) {
	case *ssa.Alloc:
		elem := x.Type().Underlying().(*types.Pointer).Elem()
		if at, ok := elem.Underlying().(*types.Array); ok && at.Len() <= 64 {
			arr := &c11Arr{elems: make([]any, at.Len())}
			for i := range arr.elems {
				arr.elems[i] = c11Zero(at.Elem(), 0)
			}
			return c11ArrPtr{arr}
		}
		return c11CellPtr{&c11Cell{c11Zero(elem, 0)}}
	case *ssa.BinOp:
		a, aok := e.val(env, x.X).(constant.Value)
		b, bok := e.val(env, x.Y).(constant.Value)
		if !aok || !bok {
			return c11Opaque{}
		}
		switch x.Op {
		case token.EQL, token.NEQ, token.LSS, token.LEQ, token.GTR, token.GEQ:
			return constant.MakeBool(constant.Compare(a, x.Op, b))
		case token.QUO, token.REM:
			if a.Kind() != constant.Int || b.Kind() != constant.Int {
				return c11Opaque{}
			}
			if constant.Sign(b) == 0 {
				e.runtimePanic(x, "division by zero")
			}
			if x.Op == token.QUO {
				return constant.BinaryOp(a, token.QUO_ASSIGN, b)
			}
			return constant.BinaryOp(a, token.REM, b)
		case token.ADD, token.SUB, token.MUL, token.AND, token.OR, token.XOR, token.AND_NOT:
			if a.Kind() == constant.String && x.Op != token.ADD {
				return c11Opaque{}
			}
			return constant.BinaryOp(a, x.Op, b)
		case token.SHL, token.SHR:
			n, ok := constant.Uint64Val(b)
			if !ok || n > 62 || a.Kind() != constant.Int {
				return c11Opaque{}
			}
			return constant.Shift(a, x.Op, uint(n))
		}
		return c11Opaque{}
	case *ssa.UnOp:
		a := e.val(env, x.X)
		switch x.Op {
		case token.NOT:
			if b, ok := core.AsBool(a); ok {
				return c11MkBool(!b)
			}
		case token.SUB:
			if c, ok := a.(constant.Value); ok && c.Kind() == constant.Int {
				return constant.UnaryOp(token.SUB, c, 0)
			}
		case token.MUL:
			switch pt := a.(type) {
			case c11CellPtr:
				return c11Copy(pt.cell.v)
			case c11ElemPtr:
				return c11Copy(pt.arr.elems[pt.idx])
			case c11FieldPtr:
				return c11Copy(pt.st.fields[pt.idx])
			case c11ArrPtr:
				return &c11Arr{elems: append([]any(nil), pt.arr.elems...)}
			}
		}
		return c11Opaque{}
	case *ssa.FieldAddr:
		if cp, ok := e.val(env, x.X).(c11CellPtr); ok {
			if st, ok := cp.cell.v.(*c11Struct); ok && x.Field < len(st.fields) {
				return c11FieldPtr{st, x.Field}
			}
		}
		if fp, ok := e.val(env, x.X).(c11FieldPtr); ok {
			if st, ok := fp.st.fields[fp.idx].(*c11Struct); ok && x.Field < len(st.fields) {
				return c11FieldPtr{st, x.Field}
			}
		}
		return c11Opaque{}
	case *ssa.Field:
		if st, ok := e.val(env, x.X).(*c11Struct); ok && x.Field < len(st.fields) {
			return c11Copy(st.fields[x.Field])
		}
		return c11Opaque{}
	case *ssa.IndexAddr:
		base := e.val(env, x.X)
		i, iok := c11Int(e.val(env, x.Index))
		switch s := base.(type) {
		case c11SliceV:
			if !iok {
				return c11Opaque{}
			}
			if i < 0 || i >= s.hi-s.lo {
				e.runtimePanic(x, fmt.Sprintf("index %d out of range [0,%d)", i, s.hi-s.lo))
			}
			return c11ElemPtr{s.arr, s.lo + i}
		case c11ArrPtr:
			if !iok {
				return c11Opaque{}
			}
			if i < 0 || i >= len(s.arr.elems) {
				e.runtimePanic(x, fmt.Sprintf("index %d out of range [0,%d)", i, len(s.arr.elems)))
			}
			return c11ElemPtr{s.arr, i}
		}
		return c11Opaque{}
	case *ssa.Index:
		base := e.val(env, x.X)
		i, iok := c11Int(e.val(env, x.Index))
		if s, ok := c11Str(base); ok && iok {
			if i < 0 || i >= len(s) {
				e.runtimePanic(x, fmt.Sprintf("index %d out of range of %q", i, s))
			}
			return c11MkInt(int(s[i]))
		}
		if arr, ok := base.(*c11Arr); ok && iok && i >= 0 && i < len(arr.elems) {
			return c11Copy(arr.elems[i])
		}
		return c11Opaque{}
	case *ssa.Lookup:
		base := e.val(env, x.X)
		i, iok := c11Int(e.val(env, x.Index))
		if s, ok := c11Str(base); ok && iok && !x.CommaOk {
			if i < 0 || i >= len(s) {
				e.runtimePanic(x, fmt.Sprintf("index %d out of range of %q", i, s))
			}
			return c11MkInt(int(s[i]))
		}
		return c11Opaque{}
	case *ssa.Slice:
		return e.slice(env, x)
	case *ssa.MakeSlice:
		n, ok := c11Int(e.val(env, x.Len))
		if !ok || n < 0 || n > 256 {
			return c11Opaque{}
		}
		arr := &c11Arr{elems: make([]any, n)}
		et := x.Type().Underlying().(*types.Slice).Elem()
		for i := range arr.elems {
			arr.elems[i] = c11Zero(et, 0)
		}
		return c11SliceV{arr, 0, n}
	case *ssa.Convert:
		return e.convert(x, e.val(env, x.X))
	case *ssa.ChangeType:
		return e.val(env, x.X)
	case *ssa.MakeInterface, *ssa.ChangeInterface:
		return c11Opaque{}
	case *ssa.Extract:
		if t, ok := e.val(env, x.Tuple).(c11Tuple); ok && x.Index < len(t) {
			return t[x.Index]
		}
		return c11Opaque{}
	case *ssa.Range:
		if s, ok := c11Str(e.val(env, x.X)); ok {
			return &c11StrIter{s: s}
		}
		return c11Opaque{}
	case *ssa.Next:
		it, ok := e.val(env, x.Iter).(*c11StrIter)
		if !ok || !x.IsString {
			return c11Opaque{}
		}
		if it.pos >= len(it.s) {
			return c11Tuple{c11MkBool(false), c11MkInt(0), c11MkInt(0)}
		}
		r, w := utf8.DecodeRuneInString(it.s[it.pos:])
		out := c11Tuple{c11MkBool(true), c11MkInt(it.pos), c11MkInt(int(r))}
		it.pos += w
		return out
	case *ssa.Call:
		return e.callInstr(env, x)
	case *ssa.MakeMap, *ssa.MakeClosure, *ssa.MakeChan, *ssa.TypeAssert, *ssa.Select, *ssa.SliceToArrayPointer:
		return c11Opaque{}
	}
	return c11Opaque{}
}

func (e *c11Interp) slice(env map[ssa.Value]any, x *ssa.Slice) any {
	base := e.val(env, x.X)
	bound := func(v ssa.Value, dflt int) (int, bool) {
		if v == nil {
			return dflt, true
		}
		return c11Int(e.val(env, v))
	}
	if x.Max != nil {
		return c11Opaque{}
	}
	switch s := base.(type) {
	case constant.Value:
		str, ok := c11Str(s)
		if !ok {
			return c11Opaque{}
		}
		lo, lok := bound(x.Low, 0)
		hi, hok := bound(x.High, len(str))
		if !lok || !hok {
			return c11Opaque{}
		}
		if lo < 0 || hi > len(str) || lo > hi {
			e.runtimePanic(x, fmt.Sprintf("slice bounds [%d:%d] out of range of %q", lo, hi, str))
		}
		return c11MkStr(str[lo:hi])
	case c11SliceV:
		lo, lok := bound(x.Low, 0)
		hi, hok := bound(x.High, s.hi-s.lo)
		if !lok || !hok {
			return c11Opaque{}
		}
		if lo < 0 || s.lo+hi > len(s.arr.elems) || lo > hi {
			e.runtimePanic(x, fmt.Sprintf("slice bounds [%d:%d] out of range", lo, hi))
		}
		return c11SliceV{s.arr, s.lo + lo, s.lo + hi}
	case c11ArrPtr:
		lo, lok := bound(x.Low, 0)
		hi, hok := bound(x.High, len(s.arr.elems))
		if !lok || !hok {
			return c11Opaque{}
		}
		if lo < 0 || hi > len(s.arr.elems) || lo > hi {
			e.runtimePanic(x, fmt.Sprintf("slice bounds [%d:%d] out of range", lo, hi))
		}
		return c11SliceV{s.arr, lo, hi}
	}
	return c11Opaque{}
}

func (e *c11Interp) convert(x *ssa.Convert, a any) any {
	from, to := x.X.Type().Underlying(), x.Type().Underlying()
	if bt, ok := to.(*types.Basic); ok {
		switch {
		case bt.Info()&types.IsInteger != 0:
			if c, ok := a.(constant.Value); ok && c.Kind() == constant.Int {
				n, _ := constant.Int64Val(c)
				switch bt.Kind() {
				case types.Uint8:
					return c11MkInt(int(uint8(n)))
				case types.Int8:
					return c11MkInt(int(int8(n)))
				case types.Int32:
					return c11MkInt(int(int32(n)))
				case types.Uint32:
					return c11MkInt(int(uint32(n)))
				case types.Int16:
					return c11MkInt(int(int16(n)))
				case types.Uint16:
					return c11MkInt(int(uint16(n)))
				}
				return c
			}
		case bt.Info()&types.IsString != 0:
			if fb, ok := from.(*types.Basic); ok {
				if fb.Info()&types.IsString != 0 {
					return a
				}
				if n, ok := c11Int(a); ok && fb.Info()&types.IsInteger != 0 {
					return c11MkStr(string(rune(n)))
				}
			}
			if fs, ok := from.(*types.Slice); ok {
				sv, isS := a.(c11SliceV)
				eb, isB := fs.Elem().Underlying().(*types.Basic)
				if isS && isB {
					var sb strings.Builder
					for _, el := range sv.arr.elems[sv.lo:sv.hi] {
						n, ok := c11Int(el)
						if !ok {
							return c11Opaque{}
						}
						if eb.Kind() == types.Uint8 {
							sb.WriteByte(byte(n))
						} else {
							sb.WriteRune(rune(n))
						}
					}
					return c11MkStr(sb.String())
				}
			}
		}
		return c11Opaque{}
	}
	if ts, ok := to.(*types.Slice); ok {
		if s, ok := c11Str(a); ok {
			if eb, ok := ts.Elem().Underlying().(*types.Basic); ok {
				arr := &c11Arr{}
				if eb.Kind() == types.Uint8 {
					for i := 0; i < len(s); i++ {
						arr.elems = append(arr.elems, c11MkInt(int(s[i])))
					}
				} else {
					for _, r := range s {
						arr.elems = append(arr.elems, c11MkInt(int(r)))
					}
				}
				return c11SliceV{arr, 0, len(arr.elems)}
			}
		}
	}
	return c11Opaque{}
}

func (e *c11Interp) callInstr(env map[ssa.Value]any, x *ssa.Call) any {
	var args []any
	for _, a := range x.Call.Args {
		args = append(args, e.val(env, a))
	}
	opaqueCall := func() any {
		for _, a := range args {
			c11Invalidate(a)
			if s, ok := a.(c11SliceV); ok {
				for i := s.lo; i < s.hi; i++ {
					s.arr.elems[i] = c11Opaque{}
				}
			}
		}
		return c11Opaque{}
	}
	if x.Call.IsInvoke() {
		return opaqueCall()
	}
	if bi, ok := x.Call.Value.(*ssa.Builtin); ok {
		switch bi.Name() {
		case "len":
			if len(args) == 1 {
				if s, ok := c11Str(args[0]); ok {
					return c11MkInt(len(s))
				}
				if s, ok := args[0].(c11SliceV); ok {
					return c11MkInt(s.hi - s.lo)
				}
			}
			return c11Opaque{}
		case "cap":
			if s, ok := args[0].(c11SliceV); ok {
				return c11MkInt(len(s.arr.elems) - s.lo)
			}
			return c11Opaque{}
		case "append":
			if len(args) == 2 {
				a, aok := args[0].(c11SliceV)
				b, bok := args[1].(c11SliceV)
				if aok && bok { // always reallocates: aliasing through spare capacity is not modelled
					arr := &c11Arr{}
					arr.elems = append(arr.elems, a.arr.elems[a.lo:a.hi]...)
					arr.elems = append(arr.elems, b.arr.elems[b.lo:b.hi]...)
					return c11SliceV{arr, 0, len(arr.elems)}
				}
			}
			return c11Opaque{}
		}
		return opaqueCall()
	}
	callee := x.Call.StaticCallee()
	if callee == nil {
		return opaqueCall()
	}
	name := core.CalleeName(x)
	switch name {
	case "(reflect.StructTag).Get", "(reflect.StructTag).Lookup":
		if k, ok := c11Str(args[1]); ok && k == e.tagKey {
			e.tagReads++
			t := e.tag
			if !e.present {
				t = ""
			}
			if strings.HasSuffix(name, "Get") {
				return c11MkStr(t)
			}
			return c11Tuple{c11MkStr(t), c11MkBool(e.present)}
		}
		return c11Opaque{}
	}
	if strings.HasPrefix(name, "strings.") {
		if r, ok := c11Strings(strings.TrimPrefix(name, "strings."), args); ok {
			return r
		}
		return opaqueCall()
	}
	if callee.Pkg != nil && e.root.Pkg != nil && callee.Pkg == e.root.Pkg && len(callee.Blocks) > 0 && callee.Recover == nil {
		return e.call(callee, args)
	}
	return opaqueCall()
}

// c11Strings answers a call of package strings on concrete arguments by the specification of
// the function (the checker's own standard library); ok=false for anything else.
func c11Strings(fn string, args []any) (res any, ok bool) {
	var s []string
	var n []int
	for _, a := range args {
		if str, isS := c11Str(a); isS {
			s = append(s, str)
		} else if i, isI := c11Int(a); isI {
			n = append(n, i)
		} else {
			return nil, false
		}
	}
	strs := func(l []string) any {
		arr := &c11Arr{}
		for _, x := range l {
			arr.elems = append(arr.elems, c11MkStr(x))
		}
		return c11SliceV{arr, 0, len(arr.elems)}
	}
	ss, sn, ssn := len(s) == 2 && len(n) == 0, len(s) == 1 && len(n) == 1, len(s) == 2 && len(n) == 1
	switch {
	case fn == "Split" && ss:
		return strs(strings.Split(s[0], s[1])), true
	case fn == "SplitN" && ssn:
		return strs(strings.SplitN(s[0], s[1], n[0])), true
	case fn == "SplitAfter" && ss:
		return strs(strings.SplitAfter(s[0], s[1])), true
	case fn == "SplitAfterN" && ssn:
		return strs(strings.SplitAfterN(s[0], s[1], n[0])), true
	case fn == "Fields" && len(s) == 1 && len(n) == 0:
		return strs(strings.Fields(s[0])), true
	case fn == "Index" && ss:
		return c11MkInt(strings.Index(s[0], s[1])), true
	case fn == "LastIndex" && ss:
		return c11MkInt(strings.LastIndex(s[0], s[1])), true
	case fn == "IndexAny" && ss:
		return c11MkInt(strings.IndexAny(s[0], s[1])), true
	case fn == "LastIndexAny" && ss:
		return c11MkInt(strings.LastIndexAny(s[0], s[1])), true
	case fn == "IndexByte" && sn:
		return c11MkInt(strings.IndexByte(s[0], byte(n[0]))), true
	case fn == "LastIndexByte" && sn:
		return c11MkInt(strings.LastIndexByte(s[0], byte(n[0]))), true
	case fn == "IndexRune" && sn:
		return c11MkInt(strings.IndexRune(s[0], rune(n[0]))), true
	case fn == "Count" && ss:
		return c11MkInt(strings.Count(s[0], s[1])), true
	case fn == "Contains" && ss:
		return c11MkBool(strings.Contains(s[0], s[1])), true
	case fn == "ContainsAny" && ss:
		return c11MkBool(strings.ContainsAny(s[0], s[1])), true
	case fn == "ContainsRune" && sn:
		return c11MkBool(strings.ContainsRune(s[0], rune(n[0]))), true
	case fn == "HasPrefix" && ss:
		return c11MkBool(strings.HasPrefix(s[0], s[1])), true
	case fn == "HasSuffix" && ss:
		return c11MkBool(strings.HasSuffix(s[0], s[1])), true
	case fn == "EqualFold" && ss:
		return c11MkBool(strings.EqualFold(s[0], s[1])), true
	case fn == "Compare" && ss:
		return c11MkInt(strings.Compare(s[0], s[1])), true
	case fn == "TrimSpace" && len(s) == 1 && len(n) == 0:
		return c11MkStr(strings.TrimSpace(s[0])), true
	case fn == "Trim" && ss:
		return c11MkStr(strings.Trim(s[0], s[1])), true
	case fn == "TrimLeft" && ss:
		return c11MkStr(strings.TrimLeft(s[0], s[1])), true
	case fn == "TrimRight" && ss:
		return c11MkStr(strings.TrimRight(s[0], s[1])), true
	case fn == "TrimPrefix" && ss:
		return c11MkStr(strings.TrimPrefix(s[0], s[1])), true
	case fn == "TrimSuffix" && ss:
		return c11MkStr(strings.TrimSuffix(s[0], s[1])), true
	case fn == "ToLower" && len(s) == 1 && len(n) == 0:
		return c11MkStr(strings.ToLower(s[0])), true
	case fn == "ToUpper" && len(s) == 1 && len(n) == 0:
		return c11MkStr(strings.ToUpper(s[0])), true
	case fn == "Clone" && len(s) == 1 && len(n) == 0:
		return c11MkStr(s[0]), true
	case fn == "Repeat" && sn && n[0] >= 0 && n[0] < 16:
		return c11MkStr(strings.Repeat(s[0], n[0])), true
	case fn == "Cut" && ss:
		b, a, f := strings.Cut(s[0], s[1])
		return c11Tuple{c11MkStr(b), c11MkStr(a), c11MkBool(f)}, true
	case fn == "CutPrefix" && ss:
		a, f := strings.CutPrefix(s[0], s[1])
		return c11Tuple{c11MkStr(a), c11MkBool(f)}, true
	case fn == "CutSuffix" && ss:
		a, f := strings.CutSuffix(s[0], s[1])
		return c11Tuple{c11MkStr(a), c11MkBool(f)}, true
	case fn == "ReplaceAll" && len(s) == 3 && len(n) == 0:
		return c11MkStr(strings.ReplaceAll(s[0], s[1], s[2])), true
	}
	return nil, false
}
