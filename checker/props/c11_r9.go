package props

import (
	"go/token"
	"strconv"
	"strings"

	"godcheck/core"

	"golang.org/x/tools/go/ssa"
)

// c11R9: rules written for the genuine defects repaired by the fix commits cacfa7f (panic(nil) /
// Goexit committed – the D1 rules of c11.go were restated on "the body returned normally"),
// 43ca335 (positional mapping indexed past the field list), 28339f0 (Rows.Err never consulted
// after the row loop) and d525180 (the body's error formatted with %s when Rollback fails too).
func c11R9(r *core.Run) {
	p := r.P
	defer c11R10(r)
	r.Explanation += " That an index into the flattened field list which runs over the result's columns is reachable only where the list is known to be at least as long as the column list (or the index is bounded by the list itself); that, in every function of lib/store/sqlx that iterates rows, no nil error is returned after Next() reported false unless Err() was consulted and was nil; that every error the finaliser stores on a path on which the body's error is non-nil wraps that error (%w / errors.Join / the error itself)."
	r.NotDecided += " Positional mapping: only that the index stays inside the field list, not which field a column lands in. Rows.Err: only the functions of lib/store/sqlx that call Next themselves; a Next result that is not branched on directly is reported unresolved. Wrapping: fmt.Errorf with a constant format and errors.Join are understood; any other constructor of the stored error is reported unresolved; what the message says is not examined."

	// ---- 43ca335: positional mapping stays inside the field list ----
	r.Check("D3/K3/positional-index-within-fields", "an index into the flattened field list of the destination that ranges over the result's columns is reachable only where len(fields) ≥ len(columns) has been established, or where the index itself is bounded by len(fields) [a query result is copied by position when untagged, for every result set incl. extra columns: one column more than the struct has fields must end in an error or a mapped prefix, not in an index-out-of-range panic inside QueryRow(s)(Partial)]", func(o *core.O) {
		flat := c11Flatteners(p)
		if !o.Need(len(flat) > 0, "the recursive field flattener ([]reflect.Value) of lib/store/sqlx") {
			return
		}
		isFlatCall := func(in ssa.Instruction) bool {
			c := core.AsCall(in)
			return c != nil && flat[c.Common().StaticCallee()]
		}
		isFields := func(v ssa.Value) bool { return core.IsResult(core.Strip(core.Forward(v)), 0, isFlatCall) }
		n := 0
		for _, g := range p.PkgFuncs(sqlx) {
			if flat[g] {
				continue
			}
			for _, in := range core.Instrs(g, func(in ssa.Instruction) bool {
				ia, ok := in.(*ssa.IndexAddr)
				return ok && isFields(ia.X)
			}) {
				ia := in.(*ssa.IndexAddr)
				n++
				r.Fn(core.FuncName(g))
				if k, ok := core.ConstInt(ia.Index); ok {
					if w := core.Requires(g, core.Is(in), gxAtLeast(core.IsLenOf(isFields), k+1)); w != nil {
						o.Fail(p.InstrPos(in), "%s reads field #%d of the flattened destination without having established that it has that many fields", core.FuncName(g), k)
					}
					continue
				}
				alg := c11ColumnsAlg(g, isFields, ia.Index)
				belowFields := core.CmpPoly(alg, core.ParsePoly("len(fields) - idx"), false)
				if core.EdgeCount(g, belowFields) > 0 && core.Requires(g, core.Is(in), belowFields) == nil {
					continue // the loop is bounded by the field list itself
				}
				belowColumns := core.CmpPoly(alg, core.ParsePoly("len(columns) - idx"), false)
				enough := core.CmpPoly(alg, core.ParsePoly("len(fields) - len(columns)"), true)
				if core.EdgeCount(g, belowColumns) == 0 || core.Requires(g, core.Is(in), belowColumns) != nil {
					o.Fail(p.InstrPos(in), "%s indexes the flattened field list with %s, which is bounded neither by the number of fields nor by the number of columns", core.FuncName(g), core.Describe(ia.Index))
					continue
				}
				if w := core.Requires(g, core.Is(in), enough); w != nil {
					o.Fail(p.InstrPos(in), "%s indexes the flattened field list with an index that runs over the result's columns, and nothing on the way establishes len(fields) ≥ len(columns): a result with more columns than the untagged destination has fields panics (index out of range) instead of returning an error", core.FuncName(g))
				}
			}
		}
		o.Site(n, sqlx)
	})

	// ---- 28339f0: the iteration error of the rows is not swallowed ----
	r.Check("D3/K2/rows-err-checked-after-iteration", "in every function of lib/store/sqlx that calls Next() on the rows, a nil error is returned after Next() reported false only through a check of Err(): the return hands on Err()'s result, or lies behind the edge on which Err() was nil [a query result is copied into the destination, for every result set and driver fault: Next() is false at the end of the result and on a driver error alike; returning nil without Err() reports a truncated result as complete, and a Transact body built on it commits]", func(o *core.O) {
		isNext := core.Or(core.CallMethod("sqlx.rowsScanner", "Next"), core.CallMethod("sql.Rows", "Next"))
		isErr := core.Or(core.CallMethod("sqlx.rowsScanner", "Err"), core.CallMethod("sql.Rows", "Err"))
		n := 0
		for _, g := range p.PkgFuncs(sqlx) {
			nexts := core.Calls(g, isNext)
			if len(nexts) == 0 {
				continue
			}
			r.Fn(core.FuncName(g))
			res := g.Signature.Results()
			last := res.Len() - 1
			if last < 0 || res.At(last).Type().String() != "error" {
				n += len(nexts)
				o.Fail(p.Pos(g.Pos()), "%s iterates rows but has no error result to report an iteration error with", core.FuncName(g))
				continue
			}
			okEdges, _ := core.EdgesOf(g, core.ErrNil(0, isErr))
			cut := core.CutSet(okEdges)
			told := map[*ssa.Return]bool{}
			for _, c := range nexts {
				n++
				c := c
				hasNext := core.BoolVal(func(v ssa.Value) bool { return core.IsResult(v, 0, core.Is(c)) })
				_, empty := core.EdgesOf(g, hasNext)
				if len(empty) == 0 {
					o.Unres("%s: the result of Next() (%s) is not branched on directly", core.FuncName(g), p.InstrPos(c))
					continue
				}
				var from []core.At
				for _, e := range empty {
					from = append(from, core.Head(e.To))
				}
				taken := func(e core.Edge) bool {
					if cut(e) {
						return false
					}
					for _, s := range empty {
						if s == e {
							return true
						}
					}
					_, ok := core.Reach(core.Q{From: from, Target: core.Is(gxLast(e.From)), Cut: cut})
					return ok
				}
				for _, ret := range core.Returns(g) {
					ret := ret
					gxLeavesWithEdges(core.Result(ret, last), func(leaf ssa.Value, edge *core.Edge) {
						if !core.IsNil(core.Strip(leaf)) {
							return
						}
						reached := false
						if edge == nil {
							_, reached = core.Reach(core.Q{From: from, Target: core.Is(ret), Cut: cut})
						} else {
							reached = taken(*edge)
						}
						if reached && !told[ret] {
							told[ret] = true
							o.Fail(p.InstrPos(ret), "%s returns nil after Next() reported false without having consulted Err(): a driver fault while fetching rows is swallowed and the truncated result is reported as complete", core.FuncName(g))
						}
					})
				}
			}
		}
		o.Site(n, sqlx)
	})

	// ---- d525180: the body's error stays identifiable ----
	isCommit := core.CallMethod("sqlx.trans", "Commit")
	errLoad := c11ErrVarLoad(p)
	errNil := core.Cmp(token.EQL, errLoad, core.IsNil)
	for _, f := range p.PkgFuncs(sqlx) {
		if len(core.Calls(f, isCommit)) == 0 {
			continue
		}
		f := f
		name := core.FuncName(f)
		r.Check("D1/K8/body-error-wrapped/"+name, "every error the finaliser stores into the named result on a path on which the body's error is non-nil wraps the body's error: it is that error, or fmt.Errorf with the %w verb on it, or errors.Join with it among the operands [when the function fails Transact rolls back and returns the function's error – also when Rollback fails too: formatted with %s/%v only its text survives and errors.Is/As no longer find it]", func(o *core.O) {
			_, failed := core.EdgesOf(f, errNil)
			var from []core.At
			for _, e := range failed {
				from = append(from, core.Head(e.To))
			}
			n := 0
			for _, in := range core.Instrs(f, func(in ssa.Instruction) bool { _, ok := c11ErrVarStore(p, in); return ok }) {
				st := in.(*ssa.Store)
				if _, ok := core.Reach(core.Q{From: from, Target: core.Is(in)}); !ok {
					continue
				}
				gxLeavesWithEdges(st.Val, func(leaf ssa.Value, edge *core.Edge) {
					if edge != nil {
						onPath := false
						for _, s := range failed {
							if s == *edge {
								onPath = true
							}
						}
						if !onPath {
							_, onPath = core.Reach(core.Q{From: from, Target: core.Is(gxLast(edge.From))})
						}
						if !onPath {
							return
						}
					}
					n++
					switch c11Wraps(leaf, errLoad) {
					case 0:
						o.Fail(p.InstrPos(in), "the body failed: the finaliser replaces its error by %s, which does not wrap it (errors.Is/As on Transact's result no longer find the function's error)", c11DescribeErr(leaf))
					case 2:
						o.Unres("%s: cannot decide whether %s (%s) wraps the body's error", name, core.Describe(leaf), p.InstrPos(in))
					}
				})
			}
			// a finaliser that stores nothing on those paths hands the body's error on unchanged
			o.Site(n+len(failed), name)
		})
	}
}

// c11Flatteners: by role, the functions of lib/store/sqlx that return a []reflect.Value and call themselves.
func c11Flatteners(p *core.Prog) map[*ssa.Function]bool {
	flat := map[*ssa.Function]bool{}
	for _, f := range p.PkgFuncs(sqlx) {
		if f.Signature.Results().Len() != 1 || f.Signature.Results().At(0).Type().String() != "[]reflect.Value" {
			continue
		}
		for _, c := range core.Calls(f, func(in ssa.Instruction) bool { return core.AsCall(in) != nil }) {
			if c.Common().StaticCallee() == f {
				flat[f] = true
			}
		}
	}
	return flat
}

// c11ColumnsAlg names the quantities of the row mapper g: "fields" (the flattened field list),
// "columns" (a []string parameter of g, the result of a Columns() call, or a slice made with
// exactly len(columns) elements – `values := make([]any, len(columns))`), "idx" (the given value).
func c11ColumnsAlg(g *ssa.Function, isFields func(ssa.Value) bool, idx ssa.Value) *core.Alg {
	isColumns := func(v ssa.Value) bool {
		v = core.Strip(core.Forward(core.Strip(v)))
		if pa, ok := v.(*ssa.Parameter); ok && pa.Parent() == g {
			return pa.Type().String() == "[]string"
		}
		return core.IsResult(v, 0, core.CallMethod("", "Columns")) && v.Type().String() == "[]string"
	}
	base := func(v ssa.Value) string {
		switch {
		case idx != nil && v == idx:
			return "idx"
		case isFields(v):
			return "fields"
		case isColumns(v):
			return "columns"
		}
		return ""
	}
	opaque := func(v ssa.Value) bool { return idx != nil && v == idx }
	lenColumns := core.ParsePoly("len(columns)")
	return &core.Alg{Opaque: opaque, Name: func(v ssa.Value) string {
		if s := base(v); s != "" {
			return s
		}
		if ms, ok := v.(*ssa.MakeSlice); ok {
			inner := &core.Alg{Opaque: opaque, Name: base}
			if inner.Norm(ms.Len).Equal(lenColumns) {
				return "columns"
			}
		}
		return ""
	}}
}

// c11Wraps: does the error value v wrap the body's error (a load of the shared error variable)?
// 1 yes, 0 no, 2 cannot tell.
func c11Wraps(v ssa.Value, isBodyErr func(ssa.Value) bool) int {
	v = core.Strip(v)
	if isBodyErr(v) {
		return 1
	}
	c, ok := v.(*ssa.Call)
	if !ok {
		if core.IsNil(v) {
			return 0
		}
		if _, isLoad := v.(*ssa.UnOp); isLoad {
			return 0 // some other variable or a package-level error
		}
		return 2
	}
	operand := func(a ssa.Value) bool { return isBodyErr(core.Strip(core.Forward(core.Strip(a)))) }
	switch core.CalleeName(c) {
	case "fmt.Errorf":
		if len(c.Call.Args) != 2 {
			return 2
		}
		format, ok := core.ConstString(c.Call.Args[0])
		if !ok {
			return 2
		}
		elems, ok := sliceLiteralElems(c.Call.Args[1])
		if !ok {
			if core.IsNil(c.Call.Args[1]) {
				return 0
			}
			return 2
		}
		verbs, ok := c11Verbs(format)
		if !ok {
			return 2
		}
		for i, vb := range verbs {
			if vb == 'w' && i < len(elems) && operand(elems[i]) {
				return 1
			}
		}
		return 0
	case "errors.Join":
		if len(c.Call.Args) != 1 {
			return 2
		}
		elems, ok := sliceLiteralElems(c.Call.Args[0])
		if !ok {
			return 2
		}
		for _, e := range elems {
			if operand(e) {
				return 1
			}
			// one level of nesting: errors.Join(err, fmt.Errorf("…%w", e))
		}
		return 0
	case "errors.New":
		return 0
	}
	if c.Call.IsInvoke() {
		return 0 // the result of a method of the transaction (Rollback's / Commit's own error)
	}
	return 2
}

// c11Verbs lists the verbs of a format string in operand order; ok is false for formats with
// explicit argument indexes or `*` widths (operand positions are then not the verb positions).
func c11Verbs(format string) ([]rune, bool) {
	var out []rune
	rs := []rune(format)
	for i := 0; i < len(rs); i++ {
		if rs[i] != '%' {
			continue
		}
		i++
		for i < len(rs) && strings.ContainsRune("+-# 0123456789.", rs[i]) {
			i++
		}
		if i >= len(rs) {
			break
		}
		switch rs[i] {
		case '%':
			continue
		case '*', '[':
			return nil, false
		}
		out = append(out, rs[i])
	}
	return out, true
}

func c11DescribeErr(v ssa.Value) string {
	v = core.Strip(v)
	if c, ok := v.(*ssa.Call); ok {
		name := core.Short(core.CalleeName(c))
		if name == "fmt.Errorf" && len(c.Call.Args) > 0 {
			if f, ok := core.ConstString(c.Call.Args[0]); ok {
				return "fmt.Errorf(" + strconv.Quote(f) + ", …)"
			}
		}
		return "the result of " + name
	}
	return core.Describe(v)
}
