package props

import (
	"go/token"
	"go/types"
	"sort"
	"strings"

	"godcheck/core"

	"golang.org/x/tools/go/ssa"
)

func init() { register("C18", c18) }

const syncxPkg = "lib/syncx"

// guarded-by tables of DESIGN Appendix A.1 for lib/syncx
var c18Guards = []core.Guard{
	{Type: "flightGroup", Field: "calls", Lock: "lock"},
	{Type: "lockedGroup", Field: "m", Lock: "mu"},
	{Type: "Pool", Field: "created", Lock: "lock"},
	{Type: "Pool", Field: "head", Lock: "lock"},
	{Type: "RefResource", Field: "ref", Lock: "lock"},
	{Type: "RefResource", Field: "cleaned", Lock: "lock"},
	{Type: "ResourceManager", Field: "resources", Lock: "lock"},
	{Type: "ManagedResource", Field: "resource", Lock: "lock"},
	{Type: "ImmutableResource", Field: "resource", Lock: "lock"},
	{Type: "ImmutableResource", Field: "err", Lock: "lock"},
}

// ---------------------------------------------------------------- helpers

type instrPred = func(ssa.Instruction) bool

// c18UsedAsValue: f is referenced other than as the callee of a plain call
// (stored, passed, deferred, started as a goroutine): its callers are unknown.
func c18UsedAsValue(fs []*ssa.Function, f *ssa.Function) bool {
	for _, g := range fs {
		for _, b := range g.Blocks {
			for _, in := range b.Instrs {
				for _, op := range in.Operands(nil) {
					if *op != ssa.Value(f) {
						continue
					}
					if c, ok := in.(*ssa.Call); ok && c.Call.Value == ssa.Value(f) {
						continue
					}
					return true
				}
			}
		}
	}
	return false
}

func c18FuncNames(fs []*ssa.Function) []string {
	var out []string
	for _, f := range fs {
		out = append(out, core.FuncName(f))
	}
	sort.Strings(out)
	return out
}

// c18Builtin matches a call (or defer) of builtin name whose first argument satisfies pred.
func c18Builtin(name string, pred func(ssa.Value) bool) instrPred {
	return func(in ssa.Instruction) bool {
		c := core.AsCall(in)
		if c == nil {
			return false
		}
		b, ok := c.Common().Value.(*ssa.Builtin)
		return ok && b.Name() == name && len(c.Common().Args) > 0 && pred(c.Common().Args[0])
	}
}

func c18LookupOn(tf string) instrPred {
	return func(in ssa.Instruction) bool {
		l, ok := in.(*ssa.Lookup)
		return ok && core.IsFieldLoad(l.X, tf)
	}
}

// c18Found is the atom "the key is present in map field tf" (comma-ok result
// of a lookup, or the looked-up value compared with nil).
func c18Found(tf string) core.Atom { return c18FoundBy(c18LookupOn(tf), nil) }

var c18Unlocks = map[string]bool{"(*sync.Mutex).Unlock": true, "(*sync.RWMutex).Unlock": true, "(*sync.RWMutex).RUnlock": true, "(sync.Locker).Unlock": true}

// c18UnlockOf matches an immediate (not deferred) unlock of lock field tf.
func c18UnlockOf(tf string) instrPred {
	return func(in ssa.Instruction) bool {
		c, ok := in.(*ssa.Call)
		if !ok || !c18Unlocks[core.Short(core.CalleeName(c))] {
			return false
		}
		a := core.Args(c)
		return len(a) > 0 && (core.FieldAddrName(a[0]) == tf || core.IsFieldLoad(a[0], tf))
	}
}

func c18StaticCallTo(set map[*ssa.Function]bool) instrPred {
	return func(in ssa.Instruction) bool {
		c, ok := in.(*ssa.Call)
		if !ok {
			return false
		}
		callee := c.Call.StaticCallee()
		return callee != nil && set[callee]
	}
}

// c18UserFnCall matches a dynamic call of a parameter / captured variable of
// type func() (any, error): the caller-supplied function of the flight groups.
func c18UserFnCall(in ssa.Instruction) bool {
	return core.CallOfValue(func(v ssa.Value) bool {
		sig, ok := v.Type().Underlying().(*types.Signature)
		if !ok || sig.Params().Len() != 0 || sig.Results().Len() != 2 {
			return false
		}
		v = core.Strip(core.Forward(core.Strip(v)))
		switch x := v.(type) {
		case *ssa.Parameter:
			return true
		case *ssa.UnOp:
			_, fv := x.X.(*ssa.FreeVar)
			return fv
		}
		return false
	})(in)
}

// c18Via lifts an instruction predicate over direct calls of top-level
// functions of the package (one level): with must, the callee executes a
// matching instruction on every path to its exits; otherwise somewhere.
func c18Via(pkg map[*ssa.Function]bool, pred instrPred, must bool) instrPred {
	return func(in ssa.Instruction) bool {
		if pred(in) {
			return true
		}
		c, ok := in.(*ssa.Call)
		if !ok {
			return false
		}
		h := c.Call.StaticCallee()
		if h == nil || !pkg[h] || h.Parent() != nil {
			return false
		}
		if must {
			return len(core.Instrs(h, pred)) > 0 && core.MustPass(core.Entry(h), pred, core.IsExit) == nil
		}
		for _, g := range core.WithAnon(h) {
			if len(core.Instrs(g, pred)) > 0 {
				return true
			}
		}
		return false
	}
}

// c18OnlyCalledFrom: every use of helper h is a direct call from root or its closures.
func c18OnlyCalledFrom(all []*ssa.Function, h, root *ssa.Function) bool {
	if h.Parent() != nil || c18UsedAsValue(all, h) {
		return false
	}
	in := map[*ssa.Function]bool{}
	for _, f := range core.WithAnon(root) {
		in[f] = true
	}
	n := 0
	for _, f := range all {
		for _, c := range core.Instrs(f, c18StaticCallTo(map[*ssa.Function]bool{h: true})) {
			_ = c
			if !in[f] {
				return false
			}
			n++
		}
	}
	return n > 0
}

// c18DeferredBody is the function whose body a defer statement runs: the
// deferred closure, or a deferred function/method of the package.
func c18DeferredBody(d *ssa.Defer, pkg map[*ssa.Function]bool) *ssa.Function {
	if mc, ok := d.Call.Value.(*ssa.MakeClosure); ok {
		return mc.Fn.(*ssa.Function)
	}
	if h := d.Call.StaticCallee(); h != nil && pkg[h] {
		return h
	}
	return nil
}

// c18GroupFns lists the functions that implement a flight group: the methods
// of typ with their closures, and the functions of the package they reach
// through static calls (plain, deferred or spawned), closures and bound method
// values. The methods are not required to do the work themselves: a helper, or
// a method of a small state struct the method's locals were moved into, that
// runs on behalf of a group method is part of the group by what it does.
func c18GroupFns(p *core.Prog, inPkg map[*ssa.Function]bool, typ string) []*ssa.Function {
	var out []*ssa.Function
	seen := map[*ssa.Function]bool{}
	var add func(f *ssa.Function)
	add = func(f *ssa.Function) {
		if f == nil || seen[f] || f.Blocks == nil {
			return
		}
		seen[f] = true
		out = append(out, f)
		for _, a := range f.AnonFuncs {
			// not the literals that a program variant inlined where they were applied and hid as dead code
			if inPkg[a] {
				add(a)
			}
		}
		for _, b := range f.Blocks {
			for _, in := range b.Instrs {
				switch x := in.(type) {
				case *ssa.MakeClosure:
					// a function literal made here (also by an inlined copy of a helper), or a bound
					// method wrapper: the wrapper itself has no place in the package, its body's
					// static callee is picked up by the scan of the wrapper
					if fn, ok := x.Fn.(*ssa.Function); ok {
						add(fn)
					}
				case ssa.CallInstruction:
					if h := x.Common().StaticCallee(); h != nil && inPkg[h] {
						add(h)
					}
				}
			}
		}
	}
	for _, m := range p.Methods(syncxPkg, typ) {
		add(m)
	}
	return out
}

// c18Ret is one way a function returns result idx: the return instruction, or
// (when the result is a φ in the return block) the CFG edge into the return
// block that selects the value. For an edge site `in` is the terminator of the
// edge's source block (the jump of an arm that assigns the result, or the
// `if`/select test itself when an arm is empty and the variable keeps its
// initial value: `r := false; select { case …: r = true; default: }; return r`).
// A way of returning is taken when that terminator is reached and the edge is
// followed; the queries below (requires, reach, reachFromEdges, mustPass) say
// this in terms of core.Reach, so that rules never ask about the terminator
// alone (an `if` is reached on both outcomes).
type c18Ret struct {
	in   ssa.Instruction
	val  ssa.Value
	edge *core.Edge
}

func c18RetSites(fn *ssa.Function, idx int) (sites []c18Ret, ok bool) {
	ok = true
	for _, r := range core.Returns(fn) {
		if idx >= len(r.Results) {
			return nil, false
		}
		v := core.Result(r, idx)
		if phi, isPhi := v.(*ssa.Phi); isPhi && phi.Block() == r.Block() {
			for i, e := range phi.Edges {
				pred := phi.Block().Preds[i]
				last := pred.Instrs[len(pred.Instrs)-1]
				n := 0
				for _, q := range phi.Block().Preds {
					if q == pred {
						n++
					}
				}
				if n != 1 {
					ok = false // two edges from one block: (From, To) does not name the way
				}
				sites = append(sites, c18Ret{last, core.Forward(e), &core.Edge{From: pred, To: phi.Block()}})
			}
			continue
		}
		sites = append(sites, c18Ret{r, v, nil})
	}
	return
}

// reach: can this way of returning be taken on a path described by q (From,
// Blocked, Cut; Target is set here)?
func (s c18Ret) reach(q core.Q) bool {
	if s.edge != nil && q.Cut != nil && q.Cut(*s.edge) {
		return false
	}
	q.Target = core.Is(s.in)
	_, ok := core.Reach(q)
	return ok
}

// requires: every path from the entry that returns this way passes an edge on
// which one of the atoms holds (core.Requires for a way of returning).
func (s c18Ret) requires(fn *ssa.Function, atoms ...core.Atom) bool {
	var cut []core.Edge
	for _, a := range atoms {
		h, _ := core.EdgesOf(fn, a)
		cut = append(cut, h...)
	}
	return !s.reach(core.Q{From: []core.At{core.Entry(fn)}, Cut: core.CutSet(cut)})
}

// reachFromEdges: can this way of returning be taken after one of the edges es
// (core.ReachableFromEdges for a way of returning; the selecting edge may be
// one of es itself)?
func (s c18Ret) reachFromEdges(es []core.Edge, blocked func(ssa.Instruction) bool) bool {
	if s.edge != nil {
		for _, e := range es {
			if e == *s.edge {
				return true
			}
		}
	}
	return s.reach(core.Q{From: c18Heads(es), Blocked: blocked})
}

// mustPass: every path from the entry that returns this way executes a site.
func (s c18Ret) mustPass(fn *ssa.Function, site func(ssa.Instruction) bool) bool {
	return !s.reach(core.Q{From: []core.At{core.Entry(fn)}, Blocked: site})
}

func c18IsConstBool(v ssa.Value, b bool) bool {
	if b {
		return core.Describe(v) == "const:true"
	}
	return core.Describe(v) == "const:false"
}

func c18Heads(es []core.Edge) []core.At {
	var out []core.At
	for _, e := range es {
		out = append(out, core.Head(e.To))
	}
	return out
}

func c18SelectIndex(sel *ssa.Select, i int64) core.Atom {
	return core.Cmp(token.EQL, func(v ssa.Value) bool {
		e, ok := v.(*ssa.Extract)
		return ok && e.Index == 0 && e.Tuple == ssa.Value(sel)
	}, core.IsConstInt(i))
}

func c18Selects(fn *ssa.Function) []*ssa.Select {
	var out []*ssa.Select
	for _, in := range core.Instrs(fn, func(in ssa.Instruction) bool { _, ok := in.(*ssa.Select); return ok }) {
		out = append(out, in.(*ssa.Select))
	}
	return out
}

// c18AtomicOp matches sync/atomic.<op>Xxx(addr, …) and (*atomic.T).<op>(…).
func c18AtomicOp(c ssa.CallInstruction, op string) bool {
	n := core.CalleeName(c)
	return strings.HasPrefix(n, "sync/atomic."+op) || (strings.HasPrefix(n, "(*sync/atomic.") && strings.HasSuffix(n, ")."+op))
}

// c18AtomicCAS01 checks that call is atomic.CompareAndSwap*(&T.f, 0, 1).
func c18AtomicCAS01(c ssa.CallInstruction, tf string) string {
	a := c.Common().Args
	if len(a) != 3 {
		return "not a 3-argument compare-and-swap"
	}
	if core.FieldAddrName(a[0]) != tf {
		return "does not operate on " + tf
	}
	if o, ok := core.ConstInt(a[1]); (!ok || o != 0) && !c18IsConstBool(a[1], false) {
		return "expected old value is not 0"
	}
	if n, ok := core.ConstInt(a[2]); (!ok || n != 1) && !c18IsConstBool(a[2], true) {
		return "new value is not 1"
	}
	return ""
}

// ---------------------------------------------------------------- rule table

func c18(r *core.Run) {
	p := r.P
	r.Explanation = "Decides for lib/syncx, on every control-flow path: lock balance and the guarded-by tables (flightGroup.calls, lockedGroup.m, Pool{created,head}, RefResource{ref,cleaned}, ResourceManager.resources, ManagedResource.resource, ImmutableResource{resource,err}); Guard runs its function under the lock; in both flight groups: lookup and insertion form one critical section, the key is inserted only when absent and published (with its WaitGroup armed) before the user function runs, cleanup (delete + Done) is deferred around the user function, SingleFlight deletes before Done, shared callers wait, only the creator executes and DoEx reports fresh accordingly; Limit capacity = n, Borrow sends, TryBorrow/Return are the non-blocking send/receive and report their outcome; TimeoutLimit reports success only after a borrow, ErrTimeout only once the remaining time is <= 0 (remaining = timeout - elapsed, false only from the timer case) and signals after a successful return; Pool increments created only under created < limit and before create, unlinks the head before handing it out, destroys and discounts an aged head, re-tests after Wait (in a loop, Cond built on the pool's lock) and signals on Put; RefResource runs clean only on ref reaching 0 after cleaned=true and Use refuses when cleaned; ResourceManager.Get creates only inside singleFlight.Do(key) after a failed lookup and stores the result, every flight group stored into a ResourceManager is created for that manager alone (never a package-level, copied or caller-supplied group), Close closes every entry; DoneChan closes only inside once.Do; OnceGuard/SpinLock use CAS 0→1 and Lock returns only after a successful TryLock."
	r.NotDecided = "linearizability of concurrent histories against the sequential specifications; timing of timed borrows and resource ageing (clock values); fairness/liveness of waiters; aliasing of guarded maps through local copies; a manager's flight group shared through a wrapper object that is itself fresh, through a whole-struct copy of a ResourceManager, or leaked to another holder after creation."

	la := core.NewLockAnalysis(p, syncxPkg)
	all := p.PkgFuncs(syncxPkg)
	inPkg := map[*ssa.Function]bool{}
	for _, f := range all {
		inPkg[f] = true
	}

	// ================= D1: lock discipline =================
	var typs []string
	seenT := map[string]bool{}
	for _, g := range c18Guards {
		if !seenT[g.Type] {
			seenT[g.Type] = true
			typs = append(typs, g.Type)
		}
	}
	acc := la.CheckGuards(c18Guards, nil, nil)
	for _, t := range typs {
		t := t
		var fields []string
		for _, g := range c18Guards {
			if g.Type == t {
				fields = append(fields, g.Field+"<-"+g.Lock)
			}
		}
		r.Check("D1/K4/guarded-by/"+t, "every access to "+t+"{"+strings.Join(fields, ",")+"} outside the constructor happens with the lock held (writes: write lock): in the function itself, in a helper all of whose callers hold it, or in a closure run synchronously under it", func(o *core.O) {
			var mine []core.Access
			for _, a := range acc {
				if strings.HasPrefix(a.What, t+".") {
					mine = append(mine, a)
				}
			}
			core.ReportAccesses(o, p, mine)
		})
	}
	r.Check("D1/K4/lock-balance", "every function of lib/syncx returns with the same locks on all paths and releases a lock with the matching operation; only unexported helpers that are exclusively called directly inside the package (their effect is applied at each call site) may return with a lock more or less than they were entered with", func(o *core.O) {
		for _, f := range la.Funcs {
			if m, bad := la.Imbalance[f]; bad {
				o.Fail(p.Pos(f.Pos()), "%s: %s", core.FuncName(f), m)
			}
			eff := la.NetEffect(f)
			if eff == "" {
				continue
			}
			helper := f.Parent() == nil && !token.IsExported(f.Name()) && !c18UsedAsValue(la.Funcs, f)
			if !helper {
				o.Fail(p.Pos(f.Pos()), "%s %s", core.FuncName(f), eff)
			} else {
				o.Site(0, core.FuncName(f)+" ["+eff+"]")
			}
		}
		o.Site(len(la.Funcs))
		r.Fn(c18FuncNames(la.Funcs)...)
	})
	r.Check("D1/K4/guard-runs-under-lock", "syncx.Guard calls the given function with the given lock held, and Barrier.Guard passes its own lock", func(o *core.O) {
		g := p.Func(syncxPkg, "", "Guard")
		bg := p.Func(syncxPkg, "Barrier", "Guard")
		if !o.Need(g != nil && bg != nil && len(g.Params) == 2, "syncx.Guard / Barrier.Guard") {
			return
		}
		calls := core.Instrs(g, core.CallOfValue(func(v ssa.Value) bool { return core.Strip(core.Forward(v)) == ssa.Value(g.Params[1]) }))
		o.Site(len(calls), core.FuncName(g))
		if len(calls) == 0 {
			o.Fail(p.Pos(g.Pos()), "Guard never calls the guarded function")
		}
		for _, c := range calls {
			if _, ok := la.Held(c)[core.LockPath(g.Params[0])]; !ok {
				o.Fail(p.InstrPos(c), "the guarded function runs without the lock (held: %s)", la.Held(c))
			}
		}
		cs := core.Calls(bg, core.CallTo(syncxPkg+".Guard"))
		o.Site(len(cs), core.FuncName(bg))
		if len(cs) == 0 {
			o.Fail(p.Pos(bg.Pos()), "Barrier.Guard does not delegate to Guard")
		}
		for _, c := range cs {
			if a := core.Args(c); core.FieldAddrName(core.Strip(a[0])) != "Barrier.lock" {
				o.Fail(p.InstrPos(c), "Barrier.Guard locks %s instead of its own lock", core.Describe(a[0]))
			}
		}
	})

	r.Check("D1/K4/no-self-deadlock", "no lock of lib/syncx is acquired (directly, or inside a directly called function of the package) while the same lock expression is still held — neither on all paths (must-hold set) nor on some path from an earlier acquisition in the same function, such as the retry edge of a loop", func(o *core.O) {
		n := 0
		for _, f := range la.Funcs {
			for _, b := range f.Blocks {
				for i, in := range b.Instrs {
					c, ok := in.(*ssa.Call)
					if !ok {
						continue
					}
					for path, k := range la.MayAcquire(c) {
						n++
						if hk, held := la.HeldKind(c, path); held && (hk == 'W' || k == 'W') {
							o.Fail(p.InstrPos(c), "%s acquires %s (via %s) while already holding it: self-deadlock", core.FuncName(f), path, core.Short(core.CalleeName(c)))
							continue
						}
						// does c leave the lock held? then no further acquisition before a release
						if i+1 >= len(b.Instrs) {
							continue
						}
						k1, heldAfter := la.HeldKind(b.Instrs[i+1], path)
						if !heldAfter {
							continue
						}
						path := path
						again := func(t ssa.Instruction) bool {
							tc, ok := t.(*ssa.Call)
							if !ok {
								return false
							}
							k2, ok := la.MayAcquire(tc)[path]
							return ok && (k1 == 'W' || k2 == 'W')
						}
						released := func(t ssa.Instruction) bool {
							var rel []string
							switch x := t.(type) {
							case *ssa.Call:
								rel = la.Releases(x)
							case *ssa.RunDefers:
								rel = la.DeferredReleases(x)
							}
							for _, q := range rel {
								if q == path {
									return true
								}
							}
							return false
						}
						if w, ok := core.Reach(core.Q{From: []core.At{core.After(c)}, Target: again, Blocked: released}); ok {
							o.Fail(p.InstrPos(w), "%s: %s, acquired at %s, is acquired again on a path that did not release it: self-deadlock", core.FuncName(f), path, p.InstrPos(c))
						}
					}
				}
			}
		}
		o.Site(n)
	})

	// ================= D2: flight groups =================
	isDone := core.CallTo("(*sync.WaitGroup).Done")
	isWait := core.CallTo("(*sync.WaitGroup).Wait")
	isAdd := core.CallTo("(*sync.WaitGroup).Add")
	type group struct{ typ, mapF, lockF string }
	for _, g := range []group{{"flightGroup", "calls", "lock"}, {"lockedGroup", "m", "mu"}} {
		g := g
		tf := g.typ + "." + g.mapF
		fns := c18GroupFns(p, inPkg, g.typ)
		isLookup := c18LookupOn(tf)
		isUpdate := core.IsMapUpdateOn(tf)
		isDelete := c18Builtin("delete", core.FieldLoad(tf))
		isUnlock := c18UnlockOf(g.typ + "." + g.lockF)
		found := c18Found(tf)
		inserters := map[*ssa.Function]bool{}
		executors := map[*ssa.Function]bool{}
		for _, f := range fns {
			if len(core.Instrs(f, isUpdate)) > 0 {
				inserters[f] = true
			}
			if len(core.Instrs(f, c18UserFnCall)) > 0 {
				executors[f] = true
			}
		}
		insertEvent := core.Or(isUpdate, c18StaticCallTo(inserters))

		r.Check("D2/K3/check-then-insert-atomic/"+g.typ, "between the lookup that finds the key absent and the insertion of the key the group's lock is never released (no second caller can insert in between), also across the call of the inserting helper", func(o *core.O) {
			if !o.Need(len(inserters) > 0, "a method of "+g.typ+" inserting into "+tf) {
				return
			}
			n := 0
			check := func(f *ssa.Function, from core.At, what string) {
				for _, u := range core.Instrs(f, isUnlock) {
					if _, ok := core.Reach(core.Q{From: []core.At{from}, Target: core.Is(u), Blocked: core.Or(isLookup, insertEvent)}); !ok {
						continue
					}
					if w, ok := core.Reach(core.Q{From: []core.At{core.After(u)}, Target: insertEvent, Blocked: isLookup}); ok {
						o.Fail(p.InstrPos(w), "%s: the key is inserted after the lock was released at %s following %s, without looking it up again: two callers can both insert", core.FuncName(f), p.InstrPos(u), what)
					}
				}
			}
			for _, f := range fns {
				for _, l := range core.Instrs(f, isLookup) {
					n++
					check(f, core.After(l), "the lookup at "+p.InstrPos(l))
				}
				if inserters[f] {
					n++
					check(f, core.Entry(f), "its entry (callers hold the lock)")
				}
			}
			o.Site(n, c18FuncNames(fns)...)
			// the lookup exists at all
			nl := 0
			for _, f := range fns {
				nl += len(core.Instrs(f, isLookup))
			}
			if nl == 0 {
				o.Fail(p.Pos(fns[0].Pos()), "%s never looks the key up before inserting", g.typ)
			}
		})

		r.Check("D2/K2/insert-only-when-absent/"+g.typ, "the key is inserted (directly or through the inserting helper) only on the not-found outcome of the lookup; a caller that finds the key waits on its WaitGroup before returning or looking again", func(o *core.O) {
			n := 0
			for _, f := range fns {
				ls := core.Instrs(f, isLookup)
				if len(ls) == 0 {
					continue
				}
				r.Fn(core.FuncName(f))
				ev := core.Instrs(f, insertEvent)
				n += len(ev)
				if len(ev) == 0 {
					o.Fail(p.Pos(f.Pos()), "%s looks the key up but never inserts it", core.FuncName(f))
				}
				if w := core.Requires(f, insertEvent, core.Not(found)); w != nil {
					o.Fail(p.InstrPos(w), "%s inserts the key although the lookup may have found a call in progress", core.FuncName(f))
				}
				holds, _ := core.EdgesOf(f, found)
				n += len(holds)
				if len(holds) == 0 {
					o.Fail(p.Pos(f.Pos()), "%s does not test the outcome of the lookup", core.FuncName(f))
				}
				// per lookup: a path that starts where this lookup's outcome is "found" and does not run the
				// lookup again (such a path ends at the lookup: it is a target) cannot take an edge on which
				// the same outcome tests "not found" (`if done { return }` inside the critical section,
				// `if done { wait }` after it)
				for _, l := range ls {
					foundL := c18FoundBy(isLookup, l.(*ssa.Lookup))
					holdsL, failsL := core.EdgesOf(f, foundL)
					if w, ok := core.Reach(core.Q{From: c18Heads(holdsL), Target: core.Or(core.IsReturn, isLookup), Blocked: isWait, Cut: core.CutSet(failsL)}); ok {
						o.Fail(p.InstrPos(w), "%s: a caller that found a call in progress goes on without waiting for it", core.FuncName(f))
					}
				}
			}
			o.Site(n)
		})

		r.Check("D2/K3/publish-before-execute/"+g.typ, "the WaitGroup is armed (Add) before the key is inserted, and the user function runs only after the insertion", func(o *core.O) {
			n := 0
			for f := range inserters {
				r.Fn(core.FuncName(f))
				n += len(core.Instrs(f, isUpdate))
				if len(core.Instrs(f, isAdd)) == 0 {
					o.Fail(p.Pos(f.Pos()), "%s inserts the key but never arms the WaitGroup", core.FuncName(f))
				}
				if w := core.Precedes(f, isAdd, isUpdate); w != nil {
					o.Fail(p.InstrPos(w), "%s publishes the call before WaitGroup.Add: a waiter can pass Wait before the call ran", core.FuncName(f))
				}
			}
			if !o.Need(len(executors) > 0, "a method of "+g.typ+" (or a function it reaches) calling the user function") {
				return
			}
			for f := range executors {
				r.Fn(core.FuncName(f))
				calls := core.Instrs(f, c18UserFnCall)
				n += len(calls)
				if inserters[f] {
					if w := core.Precedes(f, isUpdate, c18UserFnCall); w != nil {
						o.Fail(p.InstrPos(w), "%s runs the user function before the key is inserted", core.FuncName(f))
					}
					continue
				}
				// inserted by a sibling helper: on every call chain from the group's API down to f the key
				// is inserted before the call (Do → createCall …; makeCall → run)
				var insertedBefore func(f *ssa.Function, depth int)
				insertedBefore = func(f *ssa.Function, depth int) {
					callers := 0
					toF := c18StaticCallTo(map[*ssa.Function]bool{f: true})
					for _, h := range fns {
						cs := core.Instrs(h, toF)
						if len(cs) == 0 {
							continue
						}
						callers++
						w := core.Precedes(h, insertEvent, toF)
						if w == nil {
							continue
						}
						// h does not insert first: fine when h is itself an internal step all of whose callers do
						if depth < 3 && h != f && h.Parent() == nil && !token.IsExported(h.Name()) && !c18UsedAsValue(all, h) {
							insertedBefore(h, depth+1)
							continue
						}
						o.Fail(p.InstrPos(w), "%s runs the user function (via %s) before the key is inserted", core.FuncName(h), core.FuncName(f))
					}
					if callers == 0 || c18UsedAsValue(all, f) {
						o.Fail(p.Pos(f.Pos()), "%s runs the user function but its callers cannot be enumerated", core.FuncName(f))
					}
				}
				insertedBefore(f, 0)
			}
			o.Site(n)
		})

		// cleanupDefers finds, among the defer statements dominating the call of
		// the user function, the one that performs Done and the one that deletes
		// the key on every path (directly deferred, or a deferred closure).
		cleanupDefers := func(f *ssa.Function, call ssa.Instruction) (doneD, delD *ssa.Defer) {
			for _, in := range core.Instrs(f, func(in ssa.Instruction) bool { _, ok := in.(*ssa.Defer); return ok }) {
				d := in.(*ssa.Defer)
				if !core.Dominates(d, call) {
					continue
				}
				covers := func(site instrPred) bool {
					if site(d) {
						return true
					}
					c := c18DeferredBody(d, inPkg)
					if c == nil {
						return false
					}
					return len(core.Instrs(c, site)) > 0 && core.MustPass(core.Entry(c), site, core.IsExit) == nil
				}
				if doneD == nil && covers(isDone) {
					doneD = d
				}
				if delD == nil && covers(isDelete) {
					delD = d
				}
			}
			return
		}
		r.Check("D2/K1/cleanup-on-every-exit/"+g.typ, "the call of the user function is dominated by deferred cleanup that, on every path (also when the user function panics), deletes the key and calls WaitGroup.Done", func(o *core.O) {
			if !o.Need(len(executors) > 0, "a method of "+g.typ+" (or a function it reaches) calling the user function") {
				return
			}
			n := 0
			for f := range executors {
				r.Fn(core.FuncName(f))
				for _, call := range core.Instrs(f, c18UserFnCall) {
					n++
					doneD, delD := cleanupDefers(f, call)
					if doneD == nil {
						o.Fail(p.InstrPos(call), "%s: no deferred WaitGroup.Done on every path around the user function: waiters hang if it panics", core.FuncName(f))
					}
					if delD == nil {
						o.Fail(p.InstrPos(call), "%s: no deferred delete of the key on every path around the user function: the key stays taken if it panics", core.FuncName(f))
					}
				}
			}
			o.Site(n)
		})
		if g.typ != "flightGroup" {
			// lockedGroup: a Done before the delete only makes woken callers spin until the delete; not required by the property
			continue
		}
		r.Check("D2/K3/delete-before-done/"+g.typ, "the cleanup deletes the key before it releases the waiters with Done: a caller arriving after the waiters were released must not be handed the finished call (a later call executes afresh)", func(o *core.O) {
			n := 0
			for f := range executors {
				for _, call := range core.Instrs(f, c18UserFnCall) {
					doneD, delD := cleanupDefers(f, call)
					if doneD == nil || delD == nil {
						continue // reported by cleanup-on-every-exit
					}
					n++
					if doneD != delD {
						// two defer statements run last-in first-out: Done must have been registered first
						if !core.Dominates(doneD, delD) {
							o.Fail(p.InstrPos(doneD), "%s: the deferred Done runs before the deferred delete (defers run last-in first-out)", core.FuncName(f))
						}
						continue
					}
					c := c18DeferredBody(doneD, inPkg)
					if c == nil {
						// `defer wg.Done()` and the delete in one statement cannot both be direct calls
						o.Unres("%s: shape of the deferred cleanup not understood", core.FuncName(f))
						continue
					}
					r.Fn(core.FuncName(c))
					plain := func(pr instrPred) instrPred {
						return func(in ssa.Instruction) bool { _, ok := in.(*ssa.Call); return ok && pr(in) }
					}
					deferred := func(pr instrPred) []ssa.Instruction {
						return core.Instrs(c, func(in ssa.Instruction) bool { _, ok := in.(*ssa.Defer); return ok && pr(in) })
					}
					// an immediate Done must come after an immediate delete
					if w, ok := core.Reach(core.Q{From: []core.At{core.Entry(c)}, Target: plain(isDone), Blocked: plain(isDelete)}); ok {
						o.Fail(p.InstrPos(w), "%s releases the waiters (Done) before the key is deleted: a later caller can be handed the finished call instead of executing afresh", core.FuncName(c))
					}
					// a Done deferred inside the cleanup runs at its end: fine unless the delete is deferred even earlier
					for _, dd := range deferred(isDone) {
						for _, dl := range deferred(isDelete) {
							if !core.Dominates(dd, dl) {
								o.Fail(p.InstrPos(dd), "%s: the deferred Done runs before the deferred delete", core.FuncName(c))
							}
						}
					}
				}
			}
			o.Site(n)
		})
	}

	c18R9(r) // D2/K1/no-result-without-return/flightGroup (c18_r9.go)
	r.Check("D2/K8/results-from-the-shared-call/flightGroup", "every caller of one flight receives that flight's result: in Do/DoEx each returned value of interface type and each returned error is a load of the corresponding field (by type: the interface-typed and the error-typed field) of the call object the creator handed back, on the sharing path as well as after the own execution", func(o *core.O) {
		tf := "flightGroup.calls"
		fns := c18GroupFns(p, inPkg, "flightGroup")
		creators := map[*ssa.Function]bool{}
		for _, f := range fns {
			res := f.Signature.Results()
			if len(core.Instrs(f, core.IsMapUpdateOn(tf))) > 0 && len(core.Instrs(f, c18UserFnCall)) == 0 && res.Len() == 2 {
				if b, ok := res.At(1).Type().Underlying().(*types.Basic); ok && b.Kind() == types.Bool {
					creators[f] = true
				}
			}
		}
		if !o.Need(len(creators) == 1, "the creator (lookup-or-insert returning (call, done)) of flightGroup") {
			return
		}
		isCreate := c18StaticCallTo(creators)
		isErrT := func(t types.Type) bool { return t.String() == "error" }
		isAnyT := func(t types.Type) bool {
			it, ok := t.Underlying().(*types.Interface)
			return ok && it.NumMethods() == 0
		}
		n := 0
		for _, f := range fns {
			if creators[f] || f.Parent() != nil || len(core.Instrs(f, isCreate)) == 0 {
				continue
			}
			r.Fn(core.FuncName(f))
			res := f.Signature.Results()
			for i := 0; i < res.Len(); i++ {
				rt := res.At(i).Type()
				if !isErrT(rt) && !isAnyT(rt) {
					continue
				}
				sites, ok := c18RetSites(f, i)
				if !ok {
					o.Unres("%s: shape of result #%d not understood", core.FuncName(f), i)
					continue
				}
				for _, s := range sites {
					n++
					good := false
					if u, isLoad := core.Forward(s.val).(*ssa.UnOp); isLoad && u.Op == token.MUL {
						if fa, isFA := u.X.(*ssa.FieldAddr); isFA && core.IsResult(core.Forward(fa.X), 0, isCreate) {
							ft := u.Type()
							good = (isErrT(rt) && isErrT(ft)) || (isAnyT(rt) && !isErrT(ft) && isAnyT(ft))
						}
					}
					if !good {
						what := "value"
						if isErrT(rt) {
							what = "error"
						}
						o.Fail(p.InstrPos(s.in), "%s returns %s as its %s instead of the shared call's own %s field: callers sharing a flight do not receive the result of the one execution (a follower of a failed flight sees no error)", core.FuncName(f), core.Describe(s.val), what, what)
					}
				}
			}
		}
		o.Site(n)
		if n == 0 {
			o.Unres("no function of flightGroup returning the results of a created call found")
		}
	})

	r.Check("D2/K2/only-creator-executes/flightGroup", "createCall reports done=true exactly on the found outcome; Do/DoEx run the user function only when done is false, and DoEx reports fresh=false for a shared result and fresh=true for its own execution", func(o *core.O) {
		tf := "flightGroup.calls"
		fns := c18GroupFns(p, inPkg, "flightGroup")
		creators := map[*ssa.Function]bool{}
		executors := map[*ssa.Function]bool{}
		isBool := func(t types.Type) bool {
			b, ok := t.Underlying().(*types.Basic)
			return ok && b.Kind() == types.Bool
		}
		for _, f := range fns {
			res := f.Signature.Results()
			if len(core.Instrs(f, core.IsMapUpdateOn(tf))) > 0 && len(core.Instrs(f, c18UserFnCall)) == 0 && res.Len() == 2 && isBool(res.At(1).Type()) {
				creators[f] = true
			}
			if len(core.Instrs(f, c18UserFnCall)) > 0 {
				executors[f] = true
			}
		}
		if !o.Need(len(creators) <= 1 && len(executors) > 0, "the creator (lookup-or-insert returning (call, done)) and the executor of flightGroup") {
			return
		}
		n := 0
		for c := range creators {
			r.Fn(core.FuncName(c))
			holds, _ := core.EdgesOf(c, c18Found(tf))
			sites, ok := c18RetSites(c, 1)
			if !ok {
				o.Unres("%s: shape of the done result not understood", core.FuncName(c))
				return
			}
			for _, s := range sites {
				n++
				// the flag is the outcome of the lookup itself (carried in a named result): right on every
				// path with positive polarity, wrong on every path when negated
				fv, fneg := c18Fwd(s.val), false
				for {
					u, ok := fv.(*ssa.UnOp)
					if !ok || u.Op != token.NOT {
						break
					}
					fv, fneg = c18Fwd(u.X), !fneg
				}
				if m, pos := c18Found(tf)(fv); m {
					if pos == fneg {
						o.Fail(p.InstrPos(s.in), "%s reports done=%s: true when the key was absent and false when a call was found in progress", core.FuncName(c), core.Describe(s.val))
					}
					continue
				}
				fromFound := s.reachFromEdges(holds, nil)
				switch {
				case fromFound && !c18IsConstBool(s.val, true):
					o.Fail(p.InstrPos(s.in), "%s reports done=%s on the found outcome: the sharing caller would execute again", core.FuncName(c), core.Describe(s.val))
				case !fromFound && !c18IsConstBool(s.val, false):
					o.Fail(p.InstrPos(s.in), "%s reports done=%s after inserting a new call: nobody would execute it", core.FuncName(c), core.Describe(s.val))
				}
			}
		}
		isCreate := c18StaticCallTo(creators)
		// a function that neither looks the key up nor creates the call but calls an executor executes
		// (makeCall → run): the decision is taken by its caller
		for changed := true; changed; {
			changed = false
			for _, f := range fns {
				if executors[f] || creators[f] || f.Parent() != nil || len(core.Instrs(f, core.Or(isCreate, c18LookupOn(tf)))) > 0 {
					continue
				}
				if len(core.Instrs(f, c18StaticCallTo(executors))) > 0 {
					executors[f] = true
					changed = true
				}
			}
		}
		// "the call was found in progress": the creator's done flag, or (creation inlined) the lookup's outcome
		done := core.AnyOf(core.BoolVal(func(v ssa.Value) bool { return core.IsResult(v, 1, isCreate) }), c18Found(tf))
		isExec := core.Or(c18StaticCallTo(executors), c18UserFnCall)
		for _, f := range fns {
			if creators[f] || len(core.Instrs(f, core.Or(isCreate, c18LookupOn(tf)))) == 0 {
				continue
			}
			r.Fn(core.FuncName(f))
			ex := core.Instrs(f, isExec)
			n += len(ex)
			if len(ex) == 0 {
				o.Fail(p.Pos(f.Pos()), "%s creates a call but never executes it", core.FuncName(f))
			}
			if w := core.Requires(f, isExec, core.Not(done)); w != nil {
				o.Fail(p.InstrPos(w), "%s executes the user function although the call was found in progress (done)", core.FuncName(f))
			}
			_, notDone := core.EdgesOf(f, done)
			if w, ok := core.Reach(core.Q{From: c18Heads(notDone), Target: core.IsReturn, Blocked: isExec}); ok {
				o.Fail(p.InstrPos(w), "%s returns without executing the call it created", core.FuncName(f))
			}
			if f.Signature.Results().Len() == 3 { // DoEx: (val, fresh, err)
				sites, ok := c18RetSites(f, 1)
				if !ok {
					o.Unres("%s: shape of the fresh result not understood", core.FuncName(f))
					return
				}
				for _, s := range sites {
					n++
					// fresh computed from the flag itself: `!done` is right on every path, `done` on none
					base, neg := s.val, false
					for {
						u, ok := base.(*ssa.UnOp)
						if !ok || u.Op != token.NOT {
							break
						}
						base, neg = u.X, !neg
					}
					if m, pos := done(base); m {
						// done(base) matched with polarity pos: base is true exactly when (pos ? found : not found)
						if neg == pos {
							continue
						}
						o.Fail(p.InstrPos(s.in), "%s reports fresh=%s: true for a shared result and false for its own execution", core.FuncName(f), core.Describe(s.val))
						continue
					}
					afterExec := s.reach(core.Q{From: []core.At{core.Entry(f)}, Blocked: isExec})
					// afterExec==true means s is reachable WITHOUT executing: shared
					shared := afterExec
					if shared && !c18IsConstBool(s.val, false) {
						o.Fail(p.InstrPos(s.in), "%s reports fresh=%s for a shared result", core.FuncName(f), core.Describe(s.val))
					}
					if !shared && !c18IsConstBool(s.val, true) {
						o.Fail(p.InstrPos(s.in), "%s reports fresh=%s for its own execution", core.FuncName(f), core.Describe(s.val))
					}
				}
			}
		}
		o.Site(n)
	})

	// ================= D3: Limit / TimeoutLimit / Cond =================
	poolLoad := core.FieldLoad("Limit.pool")
	r.Check("D3/K6/limit-capacity", "NewLimit(n) creates the pool channel with capacity exactly n", func(o *core.O) {
		f := p.Func(syncxPkg, "", "NewLimit")
		if !o.Need(f != nil && len(f.Params) == 1, "syncx.NewLimit(n)") {
			return
		}
		r.Fn(core.FuncName(f))
		sts := core.StoresToField(f, "Limit.pool")
		o.Site(len(sts), core.FuncName(f))
		if len(sts) == 0 {
			o.Fail(p.Pos(f.Pos()), "NewLimit does not initialise Limit.pool")
		}
		for _, st := range sts {
			mk, ok := core.Strip(core.Forward(st.Val)).(*ssa.MakeChan)
			if !ok {
				o.Fail(p.InstrPos(st), "Limit.pool is not a freshly made channel")
				continue
			}
			if core.Strip(mk.Size) != ssa.Value(f.Params[0]) {
				o.Fail(p.InstrPos(mk), "the channel capacity is %s, not the limit n", core.Describe(mk.Size))
			}
		}
	})
	r.Check("D3/K1/borrow-is-send", "Limit.Borrow sends into the pool on every path; TryBorrow is a non-blocking select on that send and returns true exactly when the send happened", func(o *core.O) {
		b := p.Func(syncxPkg, "Limit", "Borrow")
		tb := p.Func(syncxPkg, "Limit", "TryBorrow")
		if !o.Need(b != nil && tb != nil, "Limit.Borrow / Limit.TryBorrow") {
			return
		}
		r.Fn(core.FuncName(b), core.FuncName(tb))
		isSend := func(in ssa.Instruction) bool { s, ok := in.(*ssa.Send); return ok && poolLoad(s.Chan) }
		o.Site(len(core.Instrs(b, isSend)), core.FuncName(b))
		if w := core.MustPass(core.Entry(b), isSend, core.IsReturn); w != nil {
			o.Fail(p.InstrPos(w), "Limit.Borrow returns on a path without sending into the pool (the borrow is not counted)")
		}
		sels := c18Selects(tb)
		if len(sels) != 1 || sels[0].Blocking || len(sels[0].States) != 1 || sels[0].States[0].Dir != types.SendOnly || !poolLoad(sels[0].States[0].Chan) {
			o.Fail(p.Pos(tb.Pos()), "Limit.TryBorrow is not a single non-blocking send into the pool")
			return
		}
		sent := c18SelectIndex(sels[0], 0)
		sites, ok := c18RetSites(tb, 0)
		if !ok {
			o.Unres("Limit.TryBorrow: shape of the result not understood")
			return
		}
		o.Site(len(sites), core.FuncName(tb))
		for _, s := range sites {
			switch {
			case c18IsConstBool(s.val, true):
				if !s.requires(tb, sent) {
					o.Fail(p.InstrPos(s.in), "TryBorrow reports success although nothing was sent into the pool")
				}
			case c18IsConstBool(s.val, false):
				if !s.requires(tb, core.Not(sent)) {
					o.Fail(p.InstrPos(s.in), "TryBorrow reports failure although a slot was taken (the slot leaks)")
				}
			default:
				o.Fail(p.InstrPos(s.in), "TryBorrow returns %s instead of the outcome of the send", core.Describe(s.val))
			}
		}
	})
	r.Check("D3/K2/return-is-nonblocking-receive", "Limit.Return is a non-blocking receive from the pool: nil only when a slot was received, ErrLimitReturn otherwise — after the receive found the pool empty, or without trying only on paths that are infeasible for a pool whose capacity (and length) is 1, 2 or large, i.e. taken only when nothing can be outstanding", func(o *core.O) {
		f := p.Func(syncxPkg, "Limit", "Return")
		if !o.Need(f != nil, "Limit.Return") {
			return
		}
		r.Fn(core.FuncName(f))
		sels := c18Selects(f)
		if len(sels) != 1 || sels[0].Blocking || len(sels[0].States) != 1 || sels[0].States[0].Dir != types.RecvOnly || !poolLoad(sels[0].States[0].Chan) {
			o.Fail(p.Pos(f.Pos()), "Limit.Return is not a single non-blocking receive from the pool (returning more than was borrowed must fail, not block)")
			return
		}
		got := c18SelectIndex(sels[0], 0)
		sites, ok := c18RetSites(f, 0)
		if !ok {
			o.Unres("Limit.Return: shape of the result not understood")
			return
		}
		o.Site(len(sites), core.FuncName(f))
		for _, s := range sites {
			if core.IsNil(s.val) {
				if !s.requires(f, got) {
					o.Fail(p.InstrPos(s.in), "Return reports success although nothing was received from the pool")
				}
				continue
			}
			if !core.IsGlobal(syncxPkg, "ErrLimitReturn")(s.val) {
				o.Fail(p.InstrPos(s.in), "Return fails with %s instead of ErrLimitReturn", core.Describe(s.val))
			}
			// (rule updated with fix 4707767: a limit of 0 refuses before the select, so "every path to the
			// error passes the select's default" became "no path from a received slot, and no path around the
			// select that a pool with room for a borrow can take")
			gotEdges, notGotEdges := core.EdgesOf(f, got)
			if s.reachFromEdges(gotEdges, nil) {
				o.Fail(p.InstrPos(s.in), "Return reports an error although a slot was released")
			}
			for _, k := range []int64{1, 2, 1 << 20} {
				if s.reach(core.Q{From: []core.At{core.Entry(f)}, Cut: c18CutEither(core.CutSet(notGotEdges), core.ConcreteCut(f, c18CapOrLenOf(poolLoad), k))}) {
					o.Fail(p.InstrPos(s.in), "Return reports an error without trying to receive although the pool (capacity/length %d) can hold outstanding borrows: a borrowed slot is never released", k)
					break
				}
			}
		}
	})

	isWaitTO := core.CallTo("(*" + syncxPkg + ".Cond).WaitWithTimeout")
	r.Check("D3/K2/timed-borrow", "TimeoutLimit.Borrow returns nil only after a successful TryBorrow and ErrTimeout only when the remaining timeout returned by WaitWithTimeout is <= 0 (or the wait reported the timer); TryBorrow delegates to the limit", func(o *core.O) {
		f := p.Func(syncxPkg, "TimeoutLimit", "Borrow")
		tb := p.Func(syncxPkg, "TimeoutLimit", "TryBorrow")
		if !o.Need(f != nil && tb != nil, "TimeoutLimit.Borrow / TryBorrow") {
			return
		}
		r.Fn(core.FuncName(f), core.FuncName(tb))
		isTry := core.CallTo("("+syncxPkg+".TimeoutLimit).TryBorrow", "("+syncxPkg+".Limit).TryBorrow")
		borrowed := core.BoolVal(func(v ssa.Value) bool { return core.IsResult(v, 0, isTry) })
		remainLE0 := core.Cmp(token.LEQ, func(v ssa.Value) bool { return core.IsResult(v, 0, isWaitTO) }, core.IsConstInt(0))
		timerFired := core.Not(core.BoolVal(func(v ssa.Value) bool { return core.IsResult(v, 1, isWaitTO) }))
		sites, ok := c18RetSites(f, 0)
		if !ok {
			o.Unres("TimeoutLimit.Borrow: shape of the result not understood")
			return
		}
		o.Site(len(sites), core.FuncName(f))
		nTimeout := 0
		for _, s := range sites {
			if core.IsNil(s.val) {
				if !s.requires(f, borrowed) {
					o.Fail(p.InstrPos(s.in), "Borrow reports success on a path without a successful TryBorrow: more than n borrows can be outstanding")
				}
				continue
			}
			if !core.IsGlobal(syncxPkg, "ErrTimeout")(s.val) {
				o.Fail(p.InstrPos(s.in), "Borrow fails with %s instead of ErrTimeout", core.Describe(s.val))
				continue
			}
			nTimeout++
			if !s.requires(f, remainLE0, timerFired) {
				o.Fail(p.InstrPos(s.in), "Borrow reports ErrTimeout on a path where neither the remaining timeout is <= 0 nor the timer fired")
			}
		}
		if nTimeout == 0 {
			o.Fail(p.Pos(f.Pos()), "Borrow never reports ErrTimeout")
		}
		// TryBorrow's result is the limit's
		ts, ok := c18RetSites(tb, 0)
		o.Site(len(ts), core.FuncName(tb))
		for _, s := range ts {
			if !ok || !core.IsResult(s.val, 0, core.CallTo("("+syncxPkg+".Limit).TryBorrow")) {
				o.Fail(p.InstrPos(s.in), "TimeoutLimit.TryBorrow does not return the outcome of Limit.TryBorrow")
			}
		}
	})
	r.Check("D3/K7/remaining-time", "Cond.WaitWithTimeout arms its timer with the given timeout, reports false only from the timer case and true only from the signal case, and the remaining time is timeout - (time elapsed since before the wait)", func(o *core.O) {
		f := p.Func(syncxPkg, "Cond", "WaitWithTimeout")
		if !o.Need(f != nil && len(f.Params) == 2, "Cond.WaitWithTimeout") {
			return
		}
		r.Fn(core.FuncName(f))
		timeout := f.Params[1]
		timers := core.Calls(f, core.CallTo("time.NewTimer", "time.After"))
		sels := c18Selects(f)
		if len(timers) != 1 || len(sels) != 1 || !sels[0].Blocking {
			o.Fail(p.Pos(f.Pos()), "WaitWithTimeout is not one blocking select against one timer")
			return
		}
		if core.Strip(timers[0].Common().Args[0]) != ssa.Value(timeout) {
			o.Fail(p.InstrPos(timers[0]), "the timer is armed with %s instead of the timeout", core.Describe(timers[0].Common().Args[0]))
		}
		sigIdx, timIdx := int64(-1), int64(-1)
		for i, st := range sels[0].States {
			if st.Dir != types.RecvOnly {
				continue
			}
			if core.IsFieldLoad(st.Chan, "Cond.signal") {
				sigIdx = int64(i)
			} else if core.DependsOn(st.Chan, func(v ssa.Value) bool { return v == timers[0].Value() }) {
				timIdx = int64(i)
			}
		}
		if sigIdx < 0 || timIdx < 0 || len(sels[0].States) != 2 {
			o.Fail(p.InstrPos(sels[0]), "the select does not wait on exactly the signal channel and the timer")
			return
		}
		flags, ok1 := c18RetSites(f, 1)
		if !ok1 {
			o.Unres("WaitWithTimeout: shape of the results not understood")
			return
		}
		o.Site(len(flags), core.FuncName(f))
		alg := &core.Alg{Name: func(v ssa.Value) string {
			if v == ssa.Value(timeout) {
				return "T"
			}
			if c, ok := v.(*ssa.Call); ok && core.Short(core.CalleeName(c)) == "lib/timex.Since" {
				return "E"
			}
			return ""
		}}
		for _, s := range flags {
			ret, isRet := s.in.(*ssa.Return)
			switch {
			case c18IsConstBool(s.val, false):
				if !s.requires(f, c18SelectIndex(sels[0], timIdx)) {
					o.Fail(p.InstrPos(s.in), "WaitWithTimeout reports 'timed out' on a path that is not the timer case")
				}
			case c18IsConstBool(s.val, true):
				if !s.requires(f, c18SelectIndex(sels[0], sigIdx)) {
					o.Fail(p.InstrPos(s.in), "WaitWithTimeout reports 'signalled' on a path that is not the signal case")
				}
				if !isRet {
					o.Unres("WaitWithTimeout: remaining time not attributable to the signal case")
					continue
				}
				got := alg.Norm(core.Result(ret, 0))
				if !got.Equal(core.ParsePoly("T - E")) {
					o.Fail(p.InstrPos(s.in), "remaining time is %s, expected T - E (timeout minus elapsed): a wrong remainder makes Borrow give up early or late", got)
				}
			default:
				o.Fail(p.InstrPos(s.in), "WaitWithTimeout's flag is %s, not a constant per select case", core.Describe(s.val))
			}
		}
		// elapsed is measured from a clock reading taken before the select
		sinces := core.Calls(f, core.CallTo("lib/timex.Since"))
		if len(sinces) == 0 {
			o.Fail(p.Pos(f.Pos()), "elapsed time is not measured with timex.Since")
		}
		for _, c := range sinces {
			beg, ok := core.Forward(c.Common().Args[0]).(*ssa.Call)
			if !ok || core.Short(core.CalleeName(beg)) != "lib/timex.Now" || !core.Dominates(beg, sels[0]) {
				o.Fail(p.InstrPos(c), "elapsed time is not measured from a timex.Now() reading taken before the wait")
			}
		}
	})
	r.Check("D3/K2/timed-return-signals", "TimeoutLimit.Return signals a waiter after, and only after, a successful Limit.Return and reports the limit's error otherwise", func(o *core.O) {
		f := p.Func(syncxPkg, "TimeoutLimit", "Return")
		if !o.Need(f != nil, "TimeoutLimit.Return") {
			return
		}
		r.Fn(core.FuncName(f))
		isRet := core.CallTo("(" + syncxPkg + ".Limit).Return")
		isSignal := core.CallTo("(*" + syncxPkg + ".Cond).Signal")
		okAtom := core.ErrNil(0, isRet)
		sigs := core.Instrs(f, isSignal)
		o.Site(len(sigs)+len(core.Instrs(f, isRet)), core.FuncName(f))
		if len(core.Instrs(f, isRet)) == 0 {
			o.Fail(p.Pos(f.Pos()), "TimeoutLimit.Return does not return the slot to the limit")
			return
		}
		if w := core.Requires(f, isSignal, okAtom); w != nil {
			o.Fail(p.InstrPos(w), "a waiter is signalled although no slot was returned")
		}
		holds, _ := core.EdgesOf(f, okAtom)
		if len(holds) == 0 {
			o.Fail(p.Pos(f.Pos()), "the error of Limit.Return is not tested")
		}
		if w, ok := core.Reach(core.Q{From: c18Heads(holds), Target: core.IsReturn, Blocked: isSignal}); ok {
			o.Fail(p.InstrPos(w), "a slot was returned but no waiter is signalled: a timed Borrow sleeps until its timeout although a slot is free")
		}
		sites, ok := c18RetSites(f, 0)
		for _, s := range sites {
			if !ok {
				break
			}
			if core.IsNil(s.val) {
				if !s.requires(f, okAtom) {
					o.Fail(p.InstrPos(s.in), "Return reports success although the limit refused the return")
				}
			}
		}
	})

	// ================= D4: Pool =================
	r.Check("D4/K2/pool-bounded-creation", "Pool.Get increments created only under created < limit, calls create only after that increment, and NewPool stores n as the limit", func(o *core.O) {
		get := p.Func(syncxPkg, "Pool", "Get")
		np := p.Func(syncxPkg, "", "NewPool")
		if !o.Need(get != nil && np != nil && len(np.Params) > 0, "Pool.Get / NewPool") {
			return
		}
		r.Fn(core.FuncName(get), core.FuncName(np))
		isIncr := func(in ssa.Instruction) bool {
			st, ok := in.(*ssa.Store)
			if !ok || core.FieldAddrName(st.Addr) != "Pool.created" {
				return false
			}
			b, ok := st.Val.(*ssa.BinOp)
			if ok && b.Op == token.SUB {
				if c, isC := core.ConstInt(b.Y); isC && c > 0 && core.IsFieldLoad(b.X, "Pool.created") {
					return false // a decrement
				}
			}
			return true // anything that is not a plain decrement may raise the count
		}
		isCreate := core.CallOfValue(core.FieldLoad("Pool.create"))
		below := core.Cmp(token.LSS, core.FieldLoad("Pool.created"), core.FieldLoad("Pool.limit"))
		incs := core.Instrs(get, isIncr)
		crs := core.Instrs(get, isCreate)
		o.Site(len(incs)+len(crs), core.FuncName(get))
		if len(incs) == 0 || len(crs) == 0 {
			o.Fail(p.Pos(get.Pos()), "Pool.Get does not count (%d) or create (%d) resources", len(incs), len(crs))
		}
		for _, in := range incs {
			st := in.(*ssa.Store)
			b, ok := st.Val.(*ssa.BinOp)
			one := ok && b.Op == token.ADD && ((core.IsFieldLoad(b.X, "Pool.created") && core.IsConstInt(1)(b.Y)) || (core.IsFieldLoad(b.Y, "Pool.created") && core.IsConstInt(1)(b.X)))
			if !one {
				o.Fail(p.InstrPos(in), "created is set to %s, not created+1", core.Describe(st.Val))
			}
		}
		if w := core.Requires(get, isIncr, below); w != nil {
			o.Fail(p.InstrPos(w), "created is incremented on a path without the test created < limit: the pool can exceed its limit")
		}
		if w := core.Requires(get, isCreate, below); w != nil {
			o.Fail(p.InstrPos(w), "a resource is created on a path without the test created < limit")
		}
		if w := core.Precedes(get, isIncr, isCreate); w != nil {
			o.Fail(p.InstrPos(w), "a resource is created without being counted in created")
		}
		// created is raised nowhere else; it is lowered only in Get or in a helper of Get
		for _, f := range all {
			if f == get {
				continue
			}
			for _, st := range core.StoresToField(f, "Pool.created") {
				if isIncr(st) || !c18OnlyCalledFrom(all, f, get) {
					o.Fail(p.InstrPos(st), "%s writes Pool.created", core.FuncName(f))
				}
			}
		}
		lim := core.StoresToField(np, "Pool.limit")
		o.Site(len(lim), core.FuncName(np))
		if len(lim) == 0 {
			o.Fail(p.Pos(np.Pos()), "NewPool does not set the limit")
		}
		for _, st := range lim {
			if core.Strip(core.Forward(st.Val)) != ssa.Value(np.Params[0]) {
				o.Fail(p.InstrPos(st), "the limit is %s, not n", core.Describe(st.Val))
			}
		}
		for _, f := range all {
			if f != np {
				for _, st := range core.StoresToField(f, "Pool.limit") {
					o.Fail(p.InstrPos(st), "%s changes the pool's limit", core.FuncName(f))
				}
			}
		}
	})
	r.Check("D4/K1/pool-head-handover", "Pool.Get unlinks the head (head = head.next) before handing its item out or testing its age; an aged head (lastUsed+maxAge < now) is destroyed and discounted from created and never handed out", func(o *core.O) {
		get := p.Func(syncxPkg, "Pool", "Get")
		if !o.Need(get != nil, "Pool.Get") {
			return
		}
		r.Fn(core.FuncName(get))
		hasHead := core.Cmp(token.NEQ, core.FieldLoad("Pool.head"), core.IsNil)
		holds, _ := core.EdgesOf(get, hasHead)
		isPop := func(in ssa.Instruction) bool {
			st, ok := in.(*ssa.Store)
			return ok && core.FieldAddrName(st.Addr) == "Pool.head" && core.IsFieldLoad(st.Val, "node.next")
		}
		if len(holds) == 0 || len(core.Instrs(get, isPop)) == 0 {
			o.Fail(p.Pos(get.Pos()), "Pool.Get does not test/unlink the idle list head")
			return
		}
		isItemRet := func(in ssa.Instruction) bool {
			ret, ok := in.(*ssa.Return)
			return ok && len(ret.Results) == 1 && core.DependsOn(core.Result(ret, 0), core.FieldLoad("node.item"))
		}
		items := core.Instrs(get, isItemRet)
		o.Site(len(items)+len(holds), core.FuncName(get))
		if len(items) == 0 {
			o.Fail(p.Pos(get.Pos()), "Pool.Get never hands out an idle resource")
		}
		// Every handed-out item stems from a read of the list head; between that
		// read and the return the head is unlinked. Edges on which the head is
		// known to be nil are cut (no item can be returned from a nil node), which
		// makes the rule independent of where the nil test sits (inline, repeated
		// after an extracted pop helper, or nested).
		_, headNil := core.EdgesOf(get, hasHead)
		isHeadLoad := func(in ssa.Instruction) bool {
			u, ok := in.(*ssa.UnOp)
			return ok && u.Op == token.MUL && core.FieldAddrName(u.X) == "Pool.head"
		}
		headLoads := core.Instrs(get, isHeadLoad)
		for _, ret := range items {
			src := 0
			for _, l := range headLoads {
				lv := l.(ssa.Value)
				if !core.DependsOn(core.Result(ret.(*ssa.Return), 0), func(v ssa.Value) bool { return v == lv }) {
					continue
				}
				src++
				if _, ok := core.Reach(core.Q{From: []core.At{core.After(l)}, Target: core.Is(ret), Blocked: isPop, Cut: core.CutSet(headNil)}); ok {
					o.Fail(p.InstrPos(ret), "an idle resource is handed out without being unlinked from the list: two holders can get it")
				}
			}
			if src == 0 {
				o.Fail(p.InstrPos(ret), "the handed-out item does not stem from the idle list head")
			}
		}
		// the aged test
		isNow := func(v ssa.Value) bool {
			c, ok := v.(*ssa.Call)
			return ok && core.Short(core.CalleeName(c)) == "lib/timex.Now"
		}
		isDeadline := func(v ssa.Value) bool {
			b, ok := v.(*ssa.BinOp)
			if !ok || b.Op != token.ADD {
				return false
			}
			return (core.IsFieldLoad(b.X, "node.lastUsed") && core.IsFieldLoad(b.Y, "Pool.maxAge")) || (core.IsFieldLoad(b.Y, "node.lastUsed") && core.IsFieldLoad(b.X, "Pool.maxAge"))
		}
		aged := core.Cmp(token.LSS, isDeadline, isNow)
		agedE, _ := core.EdgesOf(get, aged)
		o.Site(len(agedE))
		if len(agedE) == 0 {
			o.Fail(p.Pos(get.Pos()), "Pool.Get has no test lastUsed+maxAge < now: resources idle beyond their maximum age are reused (or fresh ones destroyed)")
			return
		}
		isDestroy := core.CallOfValue(core.FieldLoad("Pool.destroy"))
		isDecr := func(in ssa.Instruction) bool {
			st, ok := in.(*ssa.Store)
			if !ok || core.FieldAddrName(st.Addr) != "Pool.created" {
				return false
			}
			b, ok := st.Val.(*ssa.BinOp)
			return ok && b.Op == token.SUB && core.IsFieldLoad(b.X, "Pool.created") && core.IsConstInt(1)(b.Y)
		}
		stop := core.Or(core.IsReturn, core.CallTo("(*sync.Cond).Wait"), core.CallOfValue(core.FieldLoad("Pool.create")), func(in ssa.Instruction) bool {
			// the next look at the list head
			u, ok := in.(*ssa.UnOp)
			return ok && u.Op == token.MUL && core.FieldAddrName(u.X) == "Pool.head"
		})
		if w, ok := core.Reach(core.Q{From: c18Heads(agedE), Target: stop, Blocked: c18Via(inPkg, isDestroy, true)}); ok {
			o.Fail(p.InstrPos(w), "an aged resource is dropped or handed out without being destroyed")
		}
		if w, ok := core.Reach(core.Q{From: c18Heads(agedE), Target: stop, Blocked: c18Via(inPkg, isDecr, true)}); ok {
			o.Fail(p.InstrPos(w), "an aged resource is discarded without created--: the pool loses a slot for good")
		}
		// once found aged, the node is never handed out (the next read of the head starts a new candidate)
		if w, ok := core.Reach(core.Q{From: c18Heads(agedE), Target: isItemRet, Blocked: core.Or(isPop, isHeadLoad)}); ok {
			o.Fail(p.InstrPos(w), "an aged resource is handed out")
		}
		// every hand-out evaluates the age comparison after reading the head, unless maxAge <= 0
		noMaxAge, _ := core.EdgesOf(get, core.Not(core.Cmp(token.GTR, core.FieldLoad("Pool.maxAge"), core.IsConstInt(0))))
		isAgeCmp := func(in ssa.Instruction) bool {
			v, ok := in.(ssa.Value)
			if !ok {
				return false
			}
			m, _ := aged(v)
			return m
		}
		for _, l := range headLoads {
			if w, ok := core.Reach(core.Q{From: []core.At{core.After(l)}, Target: isItemRet, Blocked: core.Or(isAgeCmp, func(in ssa.Instruction) bool { return in != l && isHeadLoad(in) }), Cut: core.CutSet(noMaxAge, headNil)}); ok {
				o.Fail(p.InstrPos(w), "an idle resource is handed out on a path that did not test its age")
			}
		}
		for _, c := range core.Calls(get, isDestroy) {
			if a := c.Common().Args; len(a) != 1 || !core.IsFieldLoad(a[0], "node.item") {
				o.Fail(p.InstrPos(c), "destroy is not applied to the unlinked resource")
			}
		}
		// decrement only for a destroyed resource
		for _, d := range core.Instrs(get, c18Via(inPkg, isDecr, false)) {
			if w := core.Requires(get, core.Is(d), aged); w != nil {
				o.Fail(p.InstrPos(d), "created-- on a path where no aged resource was destroyed: the pool can exceed its limit")
			}
		}
	})
	r.Check("D4/K1/pool-wait-and-signal", "Pool.Get waits on the pool's condition inside a loop and hands nothing out after waking without re-testing (head != nil or created < limit); the Cond is built on the pool's own lock; Put links the resource in front of the list and signals on every path", func(o *core.O) {
		get := p.Func(syncxPkg, "Pool", "Get")
		put := p.Func(syncxPkg, "Pool", "Put")
		np := p.Func(syncxPkg, "", "NewPool")
		if !o.Need(get != nil && put != nil && np != nil, "Pool.Get / Pool.Put / NewPool") {
			return
		}
		r.Fn(core.FuncName(get), core.FuncName(put), core.FuncName(np))
		isCondWait := func(in ssa.Instruction) bool {
			c, ok := in.(*ssa.Call)
			return ok && core.Short(core.CalleeName(c)) == "(*sync.Cond).Wait" && core.IsFieldLoad(c.Call.Args[0], "Pool.cond")
		}
		waits := core.Instrs(get, isCondWait)
		o.Site(len(waits), core.FuncName(get))
		if len(waits) == 0 {
			o.Fail(p.Pos(get.Pos()), "Pool.Get never waits for a returned resource")
		}
		hasHead, _ := core.EdgesOf(get, core.Cmp(token.NEQ, core.FieldLoad("Pool.head"), core.IsNil))
		below, _ := core.EdgesOf(get, core.Cmp(token.LSS, core.FieldLoad("Pool.created"), core.FieldLoad("Pool.limit")))
		for _, w := range waits {
			if _, ok := core.Reach(core.Q{From: []core.At{core.After(w)}, Target: core.Is(w)}); !ok {
				o.Fail(p.InstrPos(w), "cond.Wait is not inside a loop")
			}
			if x, ok := core.Reach(core.Q{From: []core.At{core.After(w)}, Target: core.IsReturn, Cut: core.CutSet(hasHead, below)}); ok {
				o.Fail(p.InstrPos(x), "after waking from cond.Wait a resource is handed out without re-testing the list head / the creation budget")
			}
		}
		// Cond built on the pool's lock
		conds := core.Calls(np, core.CallTo("sync.NewCond"))
		locks := core.StoresToField(np, "Pool.lock")
		o.Site(len(conds)+len(locks), core.FuncName(np))
		if len(conds) != 1 || len(locks) != 1 {
			o.Fail(p.Pos(np.Pos()), "NewPool does not build exactly one lock and one Cond")
		} else {
			a, b := core.Strip(core.Forward(conds[0].Common().Args[0])), core.Strip(core.Forward(locks[0].Val))
			if a != b {
				o.Fail(p.InstrPos(conds[0]), "the Cond is built on %s but the pool locks %s: Wait would release a lock that is not held", core.Describe(a), core.Describe(b))
			}
			cst := core.StoresToField(np, "Pool.cond")
			if len(cst) != 1 || core.Forward(cst[0].Val) != conds[0].Value() {
				o.Fail(p.InstrPos(conds[0]), "the Cond is not stored in Pool.cond")
			}
		}
		// Put
		isSignal := func(in ssa.Instruction) bool {
			c := core.AsCall(in)
			if c == nil {
				return false
			}
			n := core.Short(core.CalleeName(c))
			return (n == "(*sync.Cond).Signal" || n == "(*sync.Cond).Broadcast") && core.IsFieldLoad(c.Common().Args[0], "Pool.cond")
		}
		pushes := core.StoresToField(put, "Pool.head")
		o.Site(len(pushes), core.FuncName(put))
		if len(pushes) == 0 {
			o.Fail(p.Pos(put.Pos()), "Pool.Put does not link the resource into the idle list")
		}
		for _, st := range pushes {
			if w := core.MustPass(core.After(st), isSignal, core.IsReturn); w != nil {
				o.Fail(p.InstrPos(st), "a resource is put back but no waiter is signalled on some path: a blocked Get never wakes")
			}
			// the new node keeps the rest of the list
			nd := core.Strip(core.Forward(st.Val))
			keeps := false
			for _, in := range core.Instrs(put, core.IsStoreToField("node.next")) {
				s2 := in.(*ssa.Store)
				if fa, ok := s2.Addr.(*ssa.FieldAddr); ok && fa.X == nd && core.IsFieldLoad(s2.Val, "Pool.head") && core.Dominates(s2, st) {
					keeps = true
				}
			}
			if !keeps {
				o.Fail(p.InstrPos(st), "the pushed node does not link to the previous head: idle resources are lost while still counted in created")
			}
		}
	})

	// ================= D5: RefResource, ResourceManager, DoneChan, OnceGuard, SpinLock =================
	r.Check("D5/K2/refresource-clean-once", "RefResource.Clean calls clean only when ref has reached 0 and only after cleaned was set; Use counts a use and reports success only when not cleaned, and fails with ErrUseOfCleaned otherwise", func(o *core.O) {
		cl := p.Func(syncxPkg, "RefResource", "Clean")
		use := p.Func(syncxPkg, "RefResource", "Use")
		if !o.Need(cl != nil && use != nil, "RefResource.Clean / Use") {
			return
		}
		r.Fn(core.FuncName(cl), core.FuncName(use))
		isCleanCall := core.CallOfValue(core.FieldLoad("RefResource.clean"))
		refVal := func(v ssa.Value) bool {
			if core.IsFieldLoad(v, "RefResource.ref") {
				return true
			}
			// the decremented value that is also stored back
			b, ok := core.Forward(v).(*ssa.BinOp)
			return ok && b.Op == token.SUB && core.IsFieldLoad(b.X, "RefResource.ref") && core.IsConstInt(1)(b.Y)
		}
		zero := core.AnyOf(core.Cmp(token.EQL, refVal, core.IsConstInt(0)), core.Cmp(token.LEQ, refVal, core.IsConstInt(0)))
		setCleaned := func(in ssa.Instruction) bool {
			st, ok := in.(*ssa.Store)
			return ok && core.FieldAddrName(st.Addr) == "RefResource.cleaned" && c18IsConstBool(st.Val, true)
		}
		isDecr := func(in ssa.Instruction) bool {
			st, ok := in.(*ssa.Store)
			if !ok || core.FieldAddrName(st.Addr) != "RefResource.ref" {
				return false
			}
			b, ok := st.Val.(*ssa.BinOp)
			return ok && b.Op == token.SUB && core.IsFieldLoad(b.X, "RefResource.ref") && core.IsConstInt(1)(b.Y)
		}
		cc := core.Instrs(cl, isCleanCall)
		o.Site(len(cc), core.FuncName(cl))
		if len(cc) == 0 {
			o.Fail(p.Pos(cl.Pos()), "Clean never calls the clean function")
		}
		if w := core.Requires(cl, isCleanCall, zero); w != nil {
			o.Fail(p.InstrPos(w), "clean() is reachable without the test ref == 0: the resource is cleaned while still in use")
		}
		if w := core.Precedes(cl, setCleaned, isCleanCall); w != nil {
			o.Fail(p.InstrPos(w), "clean() runs before (or without) cleaned = true: it can run again, and Use is not refused")
		}
		if w := core.Precedes(cl, isDecr, isCleanCall); w != nil {
			o.Fail(p.InstrPos(w), "clean() runs on a path that did not release a reference")
		}
		if w := core.AtMostOnce(cl, isCleanCall); w != nil {
			o.Fail(p.InstrPos(w), "clean() can run twice in one Clean")
		}
		for _, f := range all {
			if f != cl && len(core.Instrs(f, isCleanCall)) > 0 {
				o.Fail(p.Pos(f.Pos()), "%s calls the clean function outside RefResource.Clean", core.FuncName(f))
			}
			if f != cl {
				for _, in := range core.Instrs(f, core.IsStoreToField("RefResource.cleaned")) {
					o.Fail(p.InstrPos(in), "%s writes RefResource.cleaned", core.FuncName(f))
				}
			}
		}
		// Use
		notCleaned := core.Not(core.BoolVal(core.FieldLoad("RefResource.cleaned")))
		isIncr := func(in ssa.Instruction) bool {
			st, ok := in.(*ssa.Store)
			return ok && core.FieldAddrName(st.Addr) == "RefResource.ref"
		}
		// the body of Use: Use itself, or the closure it runs under the lock (Guard style)
		useAPI := use
		for _, f := range core.WithAnon(useAPI) {
			if len(core.Instrs(f, isIncr)) > 0 {
				use = f
				break
			}
		}
		incs := core.Instrs(use, isIncr)
		o.Site(len(incs), core.FuncName(use))
		if len(incs) == 0 {
			o.Fail(p.Pos(use.Pos()), "Use does not count the use")
		}
		for _, in := range incs {
			b, ok := in.(*ssa.Store).Val.(*ssa.BinOp)
			if !ok || b.Op != token.ADD || !core.IsFieldLoad(b.X, "RefResource.ref") || !core.IsConstInt(1)(b.Y) {
				o.Fail(p.InstrPos(in), "Use sets ref to %s, not ref+1", core.Describe(in.(*ssa.Store).Val))
			}
		}
		if w := core.Requires(use, isIncr, notCleaned); w != nil {
			o.Fail(p.InstrPos(w), "Use counts a use of an already cleaned resource")
		}
		if use != useAPI {
			return // closure style: the result travels through a captured variable; only the counting guard is decided
		}
		sites, ok := c18RetSites(use, 0)
		if !ok {
			o.Unres("RefResource.Use: shape of the result not understood")
			return
		}
		for _, s := range sites {
			if core.IsNil(s.val) {
				if !s.requires(use, notCleaned) {
					o.Fail(p.InstrPos(s.in), "Use succeeds on a cleaned resource")
				}
				if !s.mustPass(use, isIncr) {
					o.Fail(p.InstrPos(s.in), "Use succeeds without counting the use: the resource can be cleaned under its user")
				}
			} else if !core.IsGlobal(syncxPkg, "ErrUseOfCleaned")(s.val) {
				o.Fail(p.InstrPos(s.in), "Use fails with %s instead of ErrUseOfCleaned", core.Describe(s.val))
			}
		}
	})

	r.Check("D5/K2/managed-take-rechecks", "ManagedResource.Take generates a resource only after finding resource == nil while holding the write lock (the unlocked/read-locked fast path alone would let two callers generate, the second overwriting the first), and stores what it generated", func(o *core.O) {
		f := p.Func(syncxPkg, "ManagedResource", "Take")
		if !o.Need(f != nil, "ManagedResource.Take") {
			return
		}
		r.Fn(core.FuncName(f))
		isGen := core.CallOfValue(core.FieldLoad("ManagedResource.generate"))
		gens := core.Instrs(f, isGen)
		o.Site(len(gens), core.FuncName(f))
		if len(gens) == 0 {
			o.Fail(p.Pos(f.Pos()), "Take never generates a resource")
		}
		underW := func(v ssa.Value) bool {
			u, ok := v.(*ssa.UnOp)
			if !ok || u.Op != token.MUL {
				return false
			}
			fa, ok := u.X.(*ssa.FieldAddr)
			if !ok || core.FieldAddrName(fa) != "ManagedResource.resource" {
				return false
			}
			k, held := la.HeldKind(u, core.LockPath(fa.X)+".lock")
			return held && k == 'W'
		}
		empty := core.Cmp(token.EQL, underW, core.IsNil)
		if w := core.Requires(f, isGen, empty); w != nil {
			o.Fail(p.InstrPos(w), "a resource is generated without re-testing resource == nil under the write lock: concurrent Takes generate twice and one resource is lost")
		}
		for _, g := range gens {
			st := false
			for _, s := range core.StoresToField(f, "ManagedResource.resource") {
				if core.Forward(s.Val) == g.(ssa.Value) && core.MustPass(core.After(g), core.Is(s), core.IsReturn) == nil {
					st = true
				}
			}
			if !st {
				o.Fail(p.InstrPos(g), "the generated resource is not stored on every path: every Take generates again")
			}
		}
	})
	r.Check("D5/K2/manager-creates-once", "ResourceManager.Get calls create only inside the function passed to singleFlight.Do with the same key, only after the lookup of that key failed, and stores the created resource under the key on the success path", func(o *core.O) {
		get := p.Func(syncxPkg, "ResourceManager", "Get")
		if !o.Need(get != nil && len(get.Params) == 3, "ResourceManager.Get(key, create)") {
			return
		}
		keyP, createP := get.Params[1].Name(), get.Params[2].Name()
		isCreate := core.CallOfValue(func(v ssa.Value) bool {
			return core.IsParam(createP)(v) || core.IsFreeVar(createP)(v)
		})
		isKey := func(v ssa.Value) bool { return core.IsParam(keyP)(v) || core.IsFreeVar(keyP)(v) }
		tf := "ResourceManager.resources"
		n := 0
		for _, f := range core.WithAnon(get) {
			cs := core.Instrs(f, isCreate)
			if len(cs) == 0 {
				continue
			}
			n += len(cs)
			r.Fn(core.FuncName(f))
			if f.Parent() != get {
				o.Fail(p.InstrPos(cs[0]), "create is called directly in %s, outside the single-flight section: concurrent Gets create several resources", core.FuncName(f))
				continue
			}
			// f is passed to singleFlight.Do(key, f)
			passed := false
			for _, c := range core.Calls(get, core.CallTo("("+syncxPkg+".SingleFlight).Do", "("+syncxPkg+".SingleFlight).DoEx")) {
				a := core.Args(c)
				if len(a) == 3 && core.IsFieldLoad(a[0], "ResourceManager.singleFlight") {
					if mc, ok := a[2].(*ssa.MakeClosure); ok && mc.Fn == ssa.Value(f) {
						passed = true
						if !isKey(a[1]) {
							o.Fail(p.InstrPos(c), "the single-flight key is %s, not the resource key", core.Describe(a[1]))
						}
					}
				}
			}
			if !passed {
				o.Fail(p.Pos(f.Pos()), "%s calls create but is not the function passed to singleFlight.Do", core.FuncName(f))
			}
			// re-check inside the flight
			found := c18Found(tf)
			if core.EdgeCount(f, core.Not(found)) == 0 {
				o.Fail(p.Pos(f.Pos()), "%s creates without looking the key up first: a Get after the flight ended creates a second resource", core.FuncName(f))
			}
			if w := core.Requires(f, isCreate, core.Not(found)); w != nil {
				o.Fail(p.InstrPos(w), "create is reachable although the key may already have a resource")
			}
			for _, l := range core.Instrs(f, c18LookupOn(tf)) {
				if !isKey(l.(*ssa.Lookup).Index) {
					o.Fail(p.InstrPos(l), "the lookup uses %s, not the resource key", core.Describe(l.(*ssa.Lookup).Index))
				}
			}
			// store on success
			okCreate := core.ErrNil(1, isCreate)
			holds, _ := core.EdgesOf(f, okCreate)
			if len(holds) == 0 {
				o.Fail(p.Pos(f.Pos()), "the error of create is not tested")
			}
			isStore := core.IsMapUpdateOn(tf)
			if w, ok := core.Reach(core.Q{From: c18Heads(holds), Target: core.IsReturn, Blocked: c18Via(inPkg, isStore, true)}); ok {
				o.Fail(p.InstrPos(w), "a created resource is returned without being stored: the next Get creates another one and Close never closes this one")
			}
			for _, in := range core.Instrs(f, isStore) {
				mu := in.(*ssa.MapUpdate)
				if !isKey(mu.Key) || !core.IsResult(mu.Value, 0, isCreate) {
					o.Fail(p.InstrPos(in), "the store is not resources[key] = <created resource>")
				}
				if w := core.Requires(f, core.Is(in), okCreate); w != nil {
					o.Fail(p.InstrPos(in), "a resource is stored although create failed")
				}
			}
		}
		o.Site(n, core.FuncName(get))
		if n == 0 {
			o.Fail(p.Pos(get.Pos()), "ResourceManager.Get never calls create")
		}
	})
	r.Check("D5/K1/manager-closes-all", "ResourceManager.Close calls Close on the value of every iteration of its range over resources and leaves the loop only when the map is exhausted", func(o *core.O) {
		f := p.Func(syncxPkg, "ResourceManager", "Close")
		if !o.Need(f != nil, "ResourceManager.Close") {
			return
		}
		r.Fn(core.FuncName(f))
		isNext := func(in ssa.Instruction) bool {
			nx, ok := in.(*ssa.Next)
			if !ok {
				return false
			}
			rg, ok := nx.Iter.(*ssa.Range)
			return ok && core.IsFieldLoad(rg.X, "ResourceManager.resources")
		}
		nexts := core.Instrs(f, isNext)
		o.Site(len(nexts), core.FuncName(f))
		if len(nexts) != 1 {
			o.Fail(p.Pos(f.Pos()), "Close does not iterate over resources (found %d range loops)", len(nexts))
			return
		}
		nx := nexts[0].(*ssa.Next)
		more := core.BoolVal(func(v ssa.Value) bool {
			e, ok := v.(*ssa.Extract)
			return ok && e.Index == 0 && e.Tuple == ssa.Value(nx)
		})
		body, done := core.EdgesOf(f, more)
		isClose := func(in ssa.Instruction) bool {
			c, ok := in.(*ssa.Call)
			if !ok || core.Short(core.CalleeName(c)) != "(io.Closer).Close" {
				return false
			}
			e, ok := c.Call.Value.(*ssa.Extract)
			return ok && e.Tuple == ssa.Value(nx) && e.Index == 2
		}
		o.Site(len(core.Instrs(f, isClose)))
		if len(body) == 0 {
			o.Fail(p.InstrPos(nx), "the range loop has no body")
			return
		}
		if w, ok := core.Reach(core.Q{From: c18Heads(body), Target: core.Or(core.IsExit, core.Is(nx)), Blocked: isClose}); ok {
			o.Fail(p.InstrPos(w), "an iteration ends without closing its resource")
		}
		if w, ok := core.Reach(core.Q{From: c18Heads(body), Target: core.IsReturn, Cut: core.CutSet(done)}); ok {
			o.Fail(p.InstrPos(w), "Close leaves the loop before the map is exhausted (e.g. on the first error): the remaining resources stay open")
		}
	})

	c18R8(r)
	c18R9b(r, inPkg) // D5/K1/manager-created-recorded-or-closed, D3/K2/return-pairs-with-completed-borrow (c18_r9b.go)
	c18R10(r, inPkg) // D4/K3/pool-destroy-before-budget-reuse (c18_r10.go)
	c18R11(r, la)    // D5/K3/managed-discard-only-the-compared-current (c18_r11.go)

	r.Check("D5/K5/donechan-close-once", "the done channel of DoneChan is closed only inside the function passed to DoneChan.once.Do", func(o *core.O) {
		isClose := c18Builtin("close", core.FieldLoad("DoneChan.done"))
		n := 0
		for _, f := range all {
			for _, c := range core.Instrs(f, isClose) {
				n++
				r.Fn(core.FuncName(f))
				ok := false
				if par := f.Parent(); par != nil {
					for _, d := range core.Calls(par, core.CallTo("(*sync.Once).Do")) {
						a := core.Args(d)
						if mc, isMC := a[1].(*ssa.MakeClosure); isMC && mc.Fn == ssa.Value(f) && core.FieldAddrName(a[0]) == "DoneChan.once" {
							ok = true
						}
					}
					if c18UsedAsValueExcept(all, f) {
						ok = false
					}
				}
				if !ok {
					o.Fail(p.InstrPos(c), "%s closes DoneChan.done outside once.Do: a second Close panics", core.FuncName(f))
				}
			}
		}
		o.Site(n)
		cl := p.Func(syncxPkg, "DoneChan", "Close")
		if o.Need(cl != nil, "DoneChan.Close") {
			reach := false
			for _, f := range core.WithAnon(cl) {
				if len(core.Instrs(f, isClose)) > 0 {
					reach = true
				}
			}
			if !reach {
				o.Fail(p.Pos(cl.Pos()), "DoneChan.Close never closes the channel")
			}
		}
	})

	r.Check("D5/K6/cas-guards", "OnceGuard.Take and SpinLock.TryLock return the outcome of an atomic compare-and-swap 0→1 on their flag; SpinLock.Lock returns only after a successful TryLock; SpinLock.Unlock atomically stores 0", func(o *core.O) {
		isCAS := func(in ssa.Instruction) bool {
			c := core.AsCall(in)
			return c != nil && c18AtomicOp(c, "CompareAndSwap")
		}
		for _, it := range []struct{ recv, name, field string }{{"OnceGuard", "Take", "OnceGuard.done"}, {"SpinLock", "TryLock", "SpinLock.lock"}} {
			f := p.Func(syncxPkg, it.recv, it.name)
			if !o.Need(f != nil, it.recv+"."+it.name) {
				return
			}
			r.Fn(core.FuncName(f))
			cs := core.Calls(f, isCAS)
			o.Site(len(cs), core.FuncName(f))
			if len(cs) != 1 {
				o.Fail(p.Pos(f.Pos()), "%s does not perform exactly one compare-and-swap", core.FuncName(f))
				continue
			}
			if m := c18AtomicCAS01(cs[0], it.field); m != "" {
				o.Fail(p.InstrPos(cs[0]), "%s: %s", core.FuncName(f), m)
			}
			sites, ok := c18RetSites(f, 0)
			for _, s := range sites {
				if ok && core.IsResult(s.val, 0, isCAS) {
					continue
				}
				// explicit true/false per outcome
				swapped := core.BoolVal(func(v ssa.Value) bool { return core.IsResult(v, 0, isCAS) })
				switch {
				case ok && c18IsConstBool(s.val, true) && s.requires(f, swapped):
				case ok && c18IsConstBool(s.val, false) && s.requires(f, core.Not(swapped)):
				default:
					o.Fail(p.InstrPos(s.in), "%s does not return the outcome of the compare-and-swap", core.FuncName(f))
				}
			}
		}
		lock := p.Func(syncxPkg, "SpinLock", "Lock")
		unlock := p.Func(syncxPkg, "SpinLock", "Unlock")
		if !o.Need(lock != nil && unlock != nil, "SpinLock.Lock / Unlock") {
			return
		}
		r.Fn(core.FuncName(lock), core.FuncName(unlock))
		isTry := core.CallTo("(*" + syncxPkg + ".SpinLock).TryLock")
		isCASLock := func(in ssa.Instruction) bool {
			c := core.AsCall(in)
			return isCAS(in) && c18AtomicCAS01(c, "SpinLock.lock") == ""
		}
		acquired := core.BoolVal(func(v ssa.Value) bool { return core.IsResult(v, 0, core.Or(isTry, isCASLock)) })
		o.Site(len(core.Instrs(lock, core.Or(isTry, isCASLock))), core.FuncName(lock))
		if w := core.Requires(lock, core.IsReturn, acquired); w != nil {
			o.Fail(p.InstrPos(w), "SpinLock.Lock returns on a path without a successful TryLock: two holders")
		}
		for _, c := range core.Calls(lock, isTry) {
			if core.Args(c)[0] != ssa.Value(lock.Params[0]) {
				o.Fail(p.InstrPos(c), "SpinLock.Lock tries another lock")
			}
		}
		stores := core.Calls(unlock, func(in ssa.Instruction) bool {
			c := core.AsCall(in)
			if c == nil {
				return false
			}
			return c18AtomicOp(c, "Swap") || c18AtomicOp(c, "Store")
		})
		o.Site(len(stores), core.FuncName(unlock))
		if len(stores) != 1 {
			o.Fail(p.Pos(unlock.Pos()), "SpinLock.Unlock does not perform exactly one atomic store")
		}
		for _, c := range stores {
			a := c.Common().Args
			if core.FieldAddrName(a[0]) != "SpinLock.lock" || !(core.IsConstInt(0)(a[1]) || c18IsConstBool(a[1], false)) {
				o.Fail(p.InstrPos(c), "SpinLock.Unlock does not reset the flag to 0")
			}
			if w := core.MustPass(core.Entry(unlock), core.Is(c), core.IsReturn); w != nil {
				o.Fail(p.InstrPos(w), "SpinLock.Unlock returns without releasing on some path")
			}
		}
		// nothing else writes the flags
		for _, f := range all {
			for _, in := range core.Instrs(f, func(in ssa.Instruction) bool {
				st, ok := in.(*ssa.Store)
				return ok && (core.FieldAddrName(st.Addr) == "SpinLock.lock" || core.FieldAddrName(st.Addr) == "OnceGuard.done")
			}) {
				o.Fail(p.InstrPos(in), "%s writes the flag non-atomically", core.FuncName(f))
			}
		}
	})
}

// c18UsedAsValueExcept: closure f escapes other than as a direct call argument
// (stored in a variable/field, returned, started as a goroutine).
func c18UsedAsValueExcept(fs []*ssa.Function, f *ssa.Function) bool {
	for _, g := range fs {
		for _, b := range g.Blocks {
			for _, in := range b.Instrs {
				for _, op := range in.Operands(nil) {
					mc, ok := (*op).(*ssa.MakeClosure)
					if !ok || mc.Fn != ssa.Value(f) {
						continue
					}
					if _, isCall := in.(*ssa.Call); !isCall {
						return true
					}
				}
			}
		}
	}
	return false
}
