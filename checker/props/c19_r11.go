package props

import (
	"go/types"
	"strings"

	"godcheck/core"

	"golang.org/x/tools/go/ssa"
)

// Rule added for the seeded change C19-wm1 (round 10).
//
//  D4/K7 retention-period-in-days
//        "Clean-up removes only backups older than the retention days": the moment the retention
//        boundary names is the clock read moved back by the configured number of DAYS. Wherever a
//        function that runs for a rule's OutdatedFiles moves a time.Time by an amount computed from
//        the rule's days field (time.Time.Add / AddDate), the amount is exactly −days·24h
//        (−86 400·10⁹ ns per day, or AddDate(0, 0, −days)): with any other factor (hours instead of
//        days, the sign dropped) a backup inside the retention period orders below the boundary and
//        is unlinked, or no backup is ever outdated. The amount is compared as a polynomial in the
//        days field (core.Alg), so constants, conversions, temporaries, the order of the factors,
//        the place of the minus sign and small helpers (the days handed as a parameter by in-package
//        callers that pass the field itself) do not matter.
//        Not decided: a boundary computed without Add/AddDate (Unix seconds arithmetic …) – the
//        obligation is then unresolved, not held; an amount with other ingredients than the days
//        field (clamps, φ) is unresolved as well.

const c19DaysField = "DailyRotateRule.days"

// c19DaysNamer names the leaves of the shift amount: the days field of the rule, and a parameter
// that every in-package caller feeds with the days field itself.
func c19DaysNamer(p *core.Prog, pkg string) func(v ssa.Value) string {
	var name func(v ssa.Value, depth int) string
	name = func(v ssa.Value, depth int) string {
		v = core.Strip(core.Forward(v))
		if core.IsFieldLoad(v, c19DaysField) {
			return "days"
		}
		pa, ok := v.(*ssa.Parameter)
		if !ok || depth > 3 || pa.Parent() == nil {
			return ""
		}
		g := pa.Parent()
		idx := -1
		for i, q := range g.Params {
			if q == pa {
				idx = i
			}
		}
		if idx < 0 {
			return ""
		}
		sites := 0
		for _, h := range p.PkgFuncs(pkg) {
			for _, c := range core.Calls(h, func(in ssa.Instruction) bool {
				cc := core.AsCall(in)
				return cc != nil && cc.Common().StaticCallee() == g
			}) {
				args := core.Args(c)
				if idx >= len(args) || name(args[idx], depth+1) != "days" {
					return ""
				}
				sites++
			}
		}
		if sites == 0 {
			return ""
		}
		return "days"
	}
	return func(v ssa.Value) string { return name(v, 0) }
}

func c19R11(r *core.Run, pkg string) {
	p := r.P

	r.Check("D4/K7/retention-period-in-days", "per rotate rule, every shift of a time.Time (time.Time.Add / AddDate) made in the course of OutdatedFiles by an amount computed from the rule's days field moves it back by exactly days·24h – the amount equals −86400·10⁹ ns·days, or AddDate(0, 0, −days) [clean-up clause – removes only backups older than the retention DAYS: the boundary the listed names are ordered against is the clock moved back by this amount; with another factor (hours for days, a dropped sign) every backup older than days hours but inside the retention period orders below the boundary and is unlinked after the next rotation, or none ever is]", func(o *core.O) {
		rules := c19RuleTypes(p, pkg)
		if !o.Need(len(rules) > 0, "a struct type of "+pkg+" implementing RotateRule") {
			return
		}
		w := c19NewIngWalker(p, pkg)
		namer := c19DaysNamer(p, pkg)
		isDays := func(v ssa.Value) bool { return namer(v) == "days" }
		alg := &core.Alg{Name: namer}
		wantNs := core.ParsePoly("-86400000000000*days")
		wantDays := core.ParsePoly("-1*days")
		isInt := func(v ssa.Value) bool {
			b, ok := v.Type().Underlying().(*types.Basic)
			return ok && b.Info()&types.IsInteger != 0
		}
		onlyDays := func(q core.Poly) bool {
			at := q.Atoms()
			return len(at) == 1 && at[0] == "days"
		}
		reported := map[ssa.Instruction]bool{}
		for _, rt := range rules {
			n := 0
			for _, g := range w.reachable(rt.outdated, 3) {
				for _, c := range core.Calls(g, core.CallTo("(time.Time).Add", "(time.Time).AddDate")) {
					args := core.Args(c)
					callee := core.Short(core.CalleeName(c))
					var amount []ssa.Value
					switch {
					case strings.HasSuffix(callee, ".Add") && len(args) == 2:
						amount = args[1:2]
					case strings.HasSuffix(callee, ".AddDate") && len(args) == 4:
						amount = args[1:4]
					default:
						continue
					}
					dep := false
					for _, a := range amount {
						if isInt(a) && core.DependsOn(a, isDays) {
							dep = true
						}
					}
					if !dep {
						continue // a shift that has nothing to do with the retention days
					}
					n++
					r.Fn(core.FuncName(g))
					in := c.(ssa.Instruction)
					if reported[in] {
						continue
					}
					if len(amount) == 1 {
						got := alg.Norm(amount[0])
						switch {
						case got.Equal(wantNs):
						case onlyDays(got):
							reported[in] = true
							o.Fail(p.InstrPos(in), "%s: %s moves the clock by %s ns for the retention boundary, expected −86400000000000·days (days·24h back): backups are compared with a boundary that is not the retention days old – with days taken as hours every backup older than days hours is unlinked by the clean-up although it is inside the retention period; with the sign dropped the boundary lies in the future and every backup is", rt.name, core.FuncName(g), got)
						default:
							reported[in] = true
							o.Unres("%s: %s moves the clock by %s, which is not a polynomial in the rule's days field alone – whether it is days·24h is not decided (%s)", rt.name, core.FuncName(g), got, p.InstrPos(in))
						}
						continue
					}
					y, m, d := alg.Norm(amount[0]), alg.Norm(amount[1]), alg.Norm(amount[2])
					zero := core.PInt(0)
					switch {
					case y.Equal(zero) && m.Equal(zero) && d.Equal(wantDays):
					case len(y.Atoms())+len(m.Atoms()) == 0 && onlyDays(d) || (onlyDays(y) || onlyDays(m)) && len(d.Atoms()) == 0:
						reported[in] = true
						o.Fail(p.InstrPos(in), "%s: %s moves the clock by AddDate(%s, %s, %s) for the retention boundary, expected AddDate(0, 0, −days): the boundary is not the retention days old, backups inside the retention period are unlinked or outdated ones kept", rt.name, core.FuncName(g), y, m, d)
					default:
						reported[in] = true
						o.Unres("%s: %s moves the clock by AddDate(%s, %s, %s) – whether that is the retention days is not decided (%s)", rt.name, core.FuncName(g), y, m, d, p.InstrPos(in))
					}
				}
			}
			o.Site(n, rt.name)
			if n == 0 {
				o.Unres("%s: no time.Time.Add/AddDate by an amount computed from %s was found in the functions that run for OutdatedFiles – how old the retention boundary is is not decided", rt.name, c19DaysField)
			}
		}
	})
}
