package props

// Round 12: the jwt parser that verifies bearer tokens admits every HMAC signing method and
// validates the time claims.
//
// The property's first sentence is an iff over "every token (any secret, algorithm header, …)": a
// token whose HMAC signature verifies under the current or previous secret and whose time claims
// are valid runs the handler — whichever member of the HMAC family (HS256, HS384, HS512) signed
// it. jwt.Parser.ValidMethods, when non-nil, turns away every token whose alg is not listed
// *before* the key function is asked, so a parser restricted to HS256 answers a correctly signed
// HS384/HS512 token with 401. Symmetrically Parser.SkipClaimsValidation admits expired tokens.
// Decided on the configuration of the parser, not on how it is built: every value that package
// api/token gives Parser.ValidMethods (through jwt.WithValidMethods or a direct store — a composite
// literal is a store) lists all three HMAC methods; nothing sets SkipClaimsValidation; and the
// parser handed to request.ParseFromRequest is one configured inside the package (so the scan
// covers it).

import (
	"go/constant"
	"go/token"
	"go/types"
	"strings"

	"godcheck/core"

	"golang.org/x/tools/go/ssa"
)

const c04JwtPkg = "github.com/golang-jwt/jwt/v4"

// c04IsJwtParser: t is jwt.Parser or *jwt.Parser.
func c04IsJwtParser(t types.Type) bool {
	n, ok := c04Deref(t).(*types.Named)
	return ok && n.Obj().Pkg() != nil && n.Obj().Pkg().Path() == c04JwtPkg && n.Obj().Name() == "Parser"
}

// c04HmacGlobal: v is a load of one of jwt's SigningMethodHS* variables; returns its algorithm name.
func c04HmacGlobal(v ssa.Value) (string, bool) {
	u, ok := core.Strip(v).(*ssa.UnOp)
	if !ok || u.Op != token.MUL {
		return "", false
	}
	g, ok := u.X.(*ssa.Global)
	if !ok || g.Pkg == nil || g.Pkg.Pkg.Path() != c04JwtPkg || !strings.HasPrefix(g.Name(), "SigningMethodHS") {
		return "", false
	}
	return strings.TrimPrefix(g.Name(), "SigningMethod"), true
}

// c04AlgName: the algorithm name a string value denotes: a constant, SigningMethodHSnnn.Alg() or
// SigningMethodHSnnn.Name.
func c04AlgName(v ssa.Value) (string, bool) {
	v = core.Strip(v)
	if c, ok := v.(*ssa.Const); ok && c.Value != nil && c.Value.Kind() == constant.String {
		return constant.StringVal(c.Value), true
	}
	if c, ok := v.(*ssa.Call); ok {
		a := core.Args(c)
		if c.Call.Method != nil && c.Call.Method.Name() == "Alg" || c.Call.StaticCallee() != nil && c.Call.StaticCallee().Name() == "Alg" {
			if len(a) >= 1 {
				return c04HmacGlobal(a[0])
			}
		}
	}
	if base, f := core.FieldOf(v); f != nil && f.Name() == "Name" {
		return c04HmacGlobal(base)
	}
	return "", false
}

// c04MethodList evaluates a []string value: restricts=false when it is nil (no restriction);
// otherwise the algorithm names it is known to contain and whether every element was resolved.
func c04MethodList(v ssa.Value, depth int) (restricts bool, names map[string]bool, closed bool) {
	names = map[string]bool{}
	v = core.Strip(v)
	if core.IsNil(v) {
		return false, names, true
	}
	switch x := v.(type) {
	case *ssa.Slice:
		al, ok := x.X.(*ssa.Alloc)
		if !ok || x.Low != nil || x.High != nil {
			return true, names, false
		}
		closed = true
		for _, r := range *al.Referrers() {
			switch u := r.(type) {
			case *ssa.IndexAddr:
				for _, rr := range *u.Referrers() {
					if st, ok := rr.(*ssa.Store); ok && st.Addr == ssa.Value(u) {
						if n, ok := c04AlgName(st.Val); ok {
							names[n] = true
						} else {
							closed = false
						}
					}
				}
			case *ssa.Slice, *ssa.DebugRef:
			default:
				closed = false
			}
		}
		return true, names, closed
	case *ssa.Phi:
		if depth > 3 {
			return true, names, false
		}
		// the restriction of a merged value: every listed method must be in every non-nil arm
		first, any, closed := true, false, true
		for _, e := range x.Edges {
			r, ns, cl := c04MethodList(e, depth+1)
			if !r {
				continue
			}
			any = true
			closed = closed && cl
			if first {
				names, first = ns, false
				continue
			}
			for n := range names {
				if !ns[n] {
					delete(names, n)
				}
			}
		}
		return any, names, closed
	}
	return true, names, false
}

func c04r12(r *core.Run) {
	p := r.P
	r.Check("D2/K8/parser-admits-every-hmac-method", "the jwt.Parser that api/token verifies bearer tokens with carries no restriction that turns correctly authenticated tokens away or admits others: whatever package api/token gives Parser.ValidMethods (jwt.WithValidMethods, a direct store, a literal) is nil or lists HS256, HS384 and HS512, and SkipClaimsValidation is never set [first sentence, 'if' direction over \"every token (any … algorithm header)\": a token whose HMAC-SHA384/512 signature verifies under the current or previous secret must run the handler, a parser restricted to HS256 answers it with 401; 'only if': with claims validation skipped an expired token runs the handler]", func(o *core.O) {
		isPFR := core.CallTo(c04JwtPkg + "/request.ParseFromRequest")
		isWithParser := core.CallTo(c04JwtPkg + "/request.WithParser")
		isNewParser := core.CallTo(c04JwtPkg + ".NewParser")
		isValidMethods := core.CallTo(c04JwtPkg + ".WithValidMethods")
		isSkip := core.CallTo(c04JwtPkg + ".WithoutClaimsValidation")
		fns := b2PkgFuncs(p, c04TokenPkg)
		inPkg := map[*ssa.Function]bool{}
		for _, f := range fns {
			inPkg[f] = true
		}
		checkList := func(where string, v ssa.Value) {
			restricts, names, closed := c04MethodList(v, 0)
			if !restricts {
				return
			}
			var missing []string
			for _, n := range []string{"HS256", "HS384", "HS512"} {
				if !names[n] {
					missing = append(missing, n)
				}
			}
			if len(missing) == 0 {
				return
			}
			if closed {
				o.Fail(where, "the token parser accepts only the listed signing methods and %s is not among them: a bearer token correctly signed with that HMAC method under the current/previous secret and with valid time claims is answered 401 and the handler does not run", strings.Join(missing, ", "))
			} else {
				o.Unres("%s: Parser.ValidMethods is given %s, which could not be evaluated (not known to contain %s)", where, core.Describe(v), strings.Join(missing, ", "))
			}
		}
		// (1) anchor: the parser handed to ParseFromRequest is configured inside the package
		sites := 0
		var originOK func(v ssa.Value, depth int) bool
		originOK = func(v ssa.Value, depth int) bool {
			if depth > 5 {
				return false
			}
			for _, leaf := range gxPhiLeaves(core.Forward(core.Strip(v))) {
				leaf = core.Strip(leaf)
				idx := 0
				if ex, ok := leaf.(*ssa.Extract); ok {
					idx, leaf = ex.Index, ex.Tuple
				}
				switch x := leaf.(type) {
				case *ssa.Alloc:
					if !c04IsJwtParser(x.Type()) {
						return false
					}
				case *ssa.Call:
					if isNewParser(x) {
						continue
					}
					g := x.Call.StaticCallee()
					if g == nil || !inPkg[g] || g.Blocks == nil {
						return false
					}
					for _, ret := range core.Returns(g) {
						if !originOK(core.Result(ret, idx), depth+1) {
							return false
						}
					}
				default:
					return false
				}
			}
			return true
		}
		for _, f := range fns {
			for _, c := range core.Calls(f, isPFR) {
				sites++
				r.Fn(core.FuncName(f))
				_ = c
			}
			for _, c := range core.Calls(f, isWithParser) {
				a := core.Args(c)
				if len(a) == 1 && !originOK(a[0], 0) {
					o.Unres("%s: the parser handed to request.WithParser is %s, not one built in package api/token (its configuration is not decided)", p.InstrPos(c), core.Describe(a[0]))
				}
			}
		}
		o.Site(sites, c04TokenPkg)
		if sites == 0 {
			o.Unres("no function of api/token calls request.ParseFromRequest")
			return
		}
		// (2) no configuration of a jwt.Parser in the package restricts the methods or skips the claims
		for _, f := range fns {
			for _, b := range f.Blocks {
				for _, in := range b.Instrs {
					switch x := in.(type) {
					case *ssa.Store:
						fa, ok := x.Addr.(*ssa.FieldAddr)
						if !ok || !c04IsJwtParser(fa.X.Type()) {
							continue
						}
						st, ok := c04Deref(fa.X.Type()).Underlying().(*types.Struct)
						if !ok {
							continue
						}
						switch st.Field(fa.Field).Name() {
						case "ValidMethods":
							checkList(p.InstrPos(in), x.Val)
						case "SkipClaimsValidation":
							if c, ok := core.Strip(x.Val).(*ssa.Const); !ok || c.Value == nil || c.Value.Kind() != constant.Bool || constant.BoolVal(c.Value) {
								o.Fail(p.InstrPos(in), "the token parser's SkipClaimsValidation is set: a correctly signed but expired / not-yet-valid token is parsed without error, so the handler runs for a token whose time claims are invalid")
							}
						}
					default:
						c := core.AsCall(in)
						if c == nil {
							continue
						}
						if isValidMethods(in) && len(core.Args(c)) == 1 {
							checkList(p.InstrPos(in), core.Args(c)[0])
						}
						if isSkip(in) {
							o.Fail(p.InstrPos(in), "the token parser is built with jwt.WithoutClaimsValidation: a correctly signed but expired / not-yet-valid token is parsed without error, so the handler runs for a token whose time claims are invalid")
						}
					}
				}
			}
		}
	})
}
