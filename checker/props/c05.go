package props

import (
	"fmt"
	"go/constant"
	"go/token"
	"go/types"
	"strings"

	"godcheck/core"

	"golang.org/x/tools/go/ssa"
)

func init() { register("C05", c05) }

const mapPkg = "lib/mapping"

// packages that take part in unmarshalling documents into tagged structs
var c05Scope = []string{mapPkg, "lib/conf", "api/httpx", "api/internal/encoding", "internal/encoding"}

// ---- small value helpers (shared with C20) ----

// sameVal: the two operands denote the same value (one SSA register, or the
// same conversion / constant applied to the same value).
func sameVal(a, b ssa.Value) bool {
	a, b = core.Forward(a), core.Forward(b)
	if a == b {
		return true
	}
	switch x := a.(type) {
	case *ssa.Convert:
		y, ok := b.(*ssa.Convert)
		return ok && types.Identical(x.Type(), y.Type()) && sameVal(x.X, y.X)
	case *ssa.ChangeType:
		y, ok := b.(*ssa.ChangeType)
		return ok && types.Identical(x.Type(), y.Type()) && sameVal(x.X, y.X)
	case *ssa.MakeInterface:
		y, ok := b.(*ssa.MakeInterface)
		return ok && types.Identical(x.X.Type(), y.X.Type()) && sameVal(x.X, y.X)
	case *ssa.Const:
		y, ok := b.(*ssa.Const)
		if !ok || !types.Identical(x.Type(), y.Type()) {
			return false
		}
		if x.Value == nil || y.Value == nil {
			return x.Value == nil && y.Value == nil
		}
		return constant.Compare(x.Value, token.EQL, y.Value)
	}
	return false
}

func staticCallee(c ssa.CallInstruction) *ssa.Function {
	if c.Common().IsInvoke() {
		return nil
	}
	f, _ := c.Common().Value.(*ssa.Function)
	return f
}

// callSitesOf lists the static calls of fn inside funcs and reports whether fn
// is also used as a value (then its callers are not enumerable).
func callSitesOf(funcs []*ssa.Function, fn *ssa.Function) (sites []ssa.CallInstruction, escapes bool) {
	for _, g := range funcs {
		for _, b := range g.Blocks {
			for _, in := range b.Instrs {
				c := core.AsCall(in)
				if c != nil && staticCallee(c) == fn {
					sites = append(sites, c)
				}
				for _, op := range in.Operands(nil) {
					if *op == ssa.Value(fn) && (c == nil || op != &c.Common().Value) {
						escapes = true
					}
				}
			}
		}
	}
	return
}

func isNamedType(t types.Type, pkg, name string) bool {
	n, ok := t.(*types.Named)
	return ok && n.Obj().Name() == name && n.Obj().Pkg() != nil && n.Obj().Pkg().Path() == pkg
}

func paramOfType(f *ssa.Function, pred func(types.Type) bool) *ssa.Parameter {
	var out *ssa.Parameter
	for _, pa := range f.Params {
		if pred(pa.Type()) {
			if out != nil {
				return nil // ambiguous
			}
			out = pa
		}
	}
	return out
}

func isReflectKind(t types.Type) bool { return isNamedType(t, "reflect", "Kind") }

func paramIndex(f *ssa.Function, pa *ssa.Parameter) int {
	for i, x := range f.Params {
		if x == pa {
			return i
		}
	}
	return -1
}

// evalCmp evaluates `l op r` on integers.
func evalCmp(op token.Token, l, r int64) (bool, bool) {
	switch op {
	case token.EQL:
		return l == r, true
	case token.NEQ:
		return l != r, true
	case token.LSS:
		return l < r, true
	case token.LEQ:
		return l <= r, true
	case token.GTR:
		return l > r, true
	case token.GEQ:
		return l >= r, true
	}
	return false, false
}

// cutForValue deletes the branch edges that cannot be taken when the SSA value
// `sel` (a switch selector such as a reflect.Kind parameter) equals k.
func cutForValue(fn *ssa.Function, sel ssa.Value, k int64) func(core.Edge) bool {
	cut := map[core.Edge]bool{}
	for _, b := range fn.Blocks {
		if len(b.Instrs) == 0 {
			continue
		}
		iff, ok := b.Instrs[len(b.Instrs)-1].(*ssa.If)
		if !ok {
			continue
		}
		cond, flip := iff.Cond, false
		for {
			u, ok := cond.(*ssa.UnOp)
			if !ok || u.Op != token.NOT {
				break
			}
			cond, flip = u.X, !flip
		}
		bin, ok := cond.(*ssa.BinOp)
		if !ok {
			continue
		}
		var res, known bool
		if sameVal(bin.X, sel) {
			if c, ok := core.ConstInt(bin.Y); ok {
				res, known = evalCmp(bin.Op, k, c)
			}
		} else if sameVal(bin.Y, sel) {
			if c, ok := core.ConstInt(bin.X); ok {
				res, known = evalCmp(bin.Op, c, k)
			}
		}
		if !known {
			continue
		}
		if flip {
			res = !res
		}
		if res {
			cut[core.Edge{From: b, To: b.Succs[1]}] = true
		} else {
			cut[core.Edge{From: b, To: b.Succs[0]}] = true
		}
	}
	return func(e core.Edge) bool { return cut[e] }
}

// reachableUnder lists the instructions matching pred that stay reachable from
// the entry of fn once the edges in cut are deleted.
func reachableUnder(fn *ssa.Function, cut func(core.Edge) bool, pred func(ssa.Instruction) bool) []ssa.Instruction {
	var out []ssa.Instruction
	for _, in := range core.Instrs(fn, pred) {
		if _, ok := core.Reach(core.Q{From: []core.At{core.Entry(fn)}, Target: core.Is(in), Cut: cut}); ok {
			out = append(out, in)
		}
	}
	return out
}

// errNonNil classifies an error-typed value as certainly non-nil: a call of
// fmt.Errorf / errors.New, or a load of a package-level variable that is
// assigned exactly once, in the package initialiser, from such a call.
func errNonNil(pkgFuncs []*ssa.Function, v ssa.Value) bool {
	v = core.Forward(v)
	isCtor := func(x ssa.Value) bool {
		c, ok := x.(*ssa.Call)
		if !ok {
			return false
		}
		switch core.CalleeName(c) {
		case "fmt.Errorf", "errors.New":
			return true
		}
		return false
	}
	if isCtor(v) {
		return true
	}
	u, ok := v.(*ssa.UnOp)
	if !ok || u.Op != token.MUL {
		return false
	}
	g, ok := u.X.(*ssa.Global)
	if !ok {
		return false
	}
	n, good := 0, true
	for _, f := range pkgFuncs {
		for _, b := range f.Blocks {
			for _, in := range b.Instrs {
				for _, op := range in.Operands(nil) {
					if *op != ssa.Value(g) {
						continue
					}
					switch x := in.(type) {
					case *ssa.Store:
						if x.Addr == ssa.Value(g) {
							n++
							if f.Name() != "init" || !isCtor(x.Val) {
								good = false
							}
						} else {
							good = false // address stored somewhere
						}
					case *ssa.UnOp:
						// a load
					default:
						good = false // address escapes
					}
				}
			}
		}
	}
	return good && n == 1
}

// fieldStoresInto collects, for a fresh struct allocation, the value stored to
// each field index, and the source of a whole-struct copy into it (if any).
func fieldStoresInto(al *ssa.Alloc) (fields map[int]ssa.Value, whole ssa.Value) {
	fields = map[int]ssa.Value{}
	for _, ref := range *al.Referrers() {
		switch x := ref.(type) {
		case *ssa.Store:
			if x.Addr == ssa.Value(al) {
				whole = x.Val
			}
		case *ssa.FieldAddr:
			for _, r2 := range *x.Referrers() {
				if st, ok := r2.(*ssa.Store); ok && st.Addr == ssa.Value(x) {
					fields[x.Field] = st.Val
				}
			}
		}
	}
	return
}

// rootOfAddr strips FieldAddr/IndexAddr chains from an address.
func rootOfAddr(v ssa.Value) ssa.Value {
	for i := 0; i < 12; i++ {
		switch x := v.(type) {
		case *ssa.FieldAddr:
			v = x.X
		case *ssa.IndexAddr:
			v = x.X
		default:
			return v
		}
	}
	return v
}

func c05(r *core.Run) {
	defer c05Extra(r)
	p := r.P
	r.Explanation = "Decides, for every path of the unmarshalling code (lib/mapping, lib/conf, api/httpx, the two encoding helpers): every reflect SetInt/SetUint/SetFloat is guarded by the matching Overflow* test on the same reflect.Value and operand; every single-result type assertion is justified by a dominating successful comma-ok/type-switch on the same value or by the per-kind agreement between the string converter and the typed setter (and each call of the setter is fed by the converter for the same kind under err == nil); the per-document copy of the cached field options keys every field from the cached original, returns the original only when the resolved Optional equals it, and the cached options are written only while still private to their constructor; range/options validators guard every assignment in the six primitive-assignment functions; validateNumberRange implements exactly the [ ( ] ) boundary table; the YAML entry points are YamlToJson followed by the JSON entry point; httpx.Parse runs the four part parsers in order and stops at the first error; the four process-wide caches are touched only under their locks."
	r.NotDecided = "exactness for every struct shape x document (value-dependent reflect behaviour, float32 rounding, Convert between same-kind types), defaults/optional semantics in full, panic-freedom of reflect.Set/SetMapIndex with named element/key types, JSON==YAML equality of the produced struct, the httpc->httpx round trip."

	var scopeFuncs []*ssa.Function
	for _, rel := range c05Scope {
		scopeFuncs = append(scopeFuncs, p.PkgFuncs(rel)...)
	}
	mapFuncs := p.PkgFuncs(mapPkg)
	posOf := func(in ssa.Instruction) string { return p.InstrPos(in) }

	// ------------------------------------------------------------------ D1
	narrow := map[string]string{
		"(reflect.Value).SetInt":   "(reflect.Value).OverflowInt",
		"(reflect.Value).SetUint":  "(reflect.Value).OverflowUint",
		"(reflect.Value).SetFloat": "(reflect.Value).OverflowFloat",
	}
	r.Check("D1/K11b/overflow-checked", "every reflect.Value.SetInt/SetUint/SetFloat with a non-constant operand is reachable only through the false edge of the matching Overflow* test on the same reflect.Value and the same operand", func(o *core.O) {
		if !o.Need(len(mapFuncs) > 0, "package "+mapPkg) {
			return
		}
		for _, f := range scopeFuncs {
			for _, c := range core.Calls(f, func(in ssa.Instruction) bool {
				c := core.AsCall(in)
				return c != nil && narrow[core.CalleeName(c)] != ""
			}) {
				name := core.CalleeName(c)
				o.Site(1, core.FuncName(f))
				r.Fn(core.FuncName(f))
				r.Calls++
				args := core.Args(c)
				recv, x := args[0], args[1]
				if _, isConst := core.Strip(x).(*ssa.Const); isConst {
					continue
				}
				ovf := narrow[name]
				guard := core.Not(core.BoolVal(func(v ssa.Value) bool {
					call, ok := v.(*ssa.Call)
					if !ok || core.CalleeName(call) != ovf {
						return false
					}
					a := core.Args(call)
					return sameVal(a[0], recv) && sameVal(a[1], x)
				}))
				if w := requiresX(f, core.Is(c), guard); w != nil {
					o.Fail(posOf(c), "%s: %s(%s) is not guarded by %s on the same value: a document number outside the field's type wraps or becomes Inf instead of failing",
						core.FuncName(f), strings.TrimPrefix(name, "(reflect.Value)."), core.Describe(x), strings.TrimPrefix(ovf, "(reflect.Value)."))
				}
			}
		}
	})

	r.Check("D1/K2/convert-only-same-kind", "reflect.Value.Convert is applied to a document value only where the destination type's Kind() was compared equal to the document value's Kind() - in the function itself or, following the value up through in-package callers, at every call site (a conversion between different kinds truncates or wraps silently)", func(o *core.O) {
		isDestKind := func(doc ssa.Value) func(ssa.Value) bool {
			return func(v ssa.Value) bool {
				c, ok := core.Forward(v).(*ssa.Call)
				if !ok {
					return false
				}
				isTypeKind := c.Call.IsInvoke() && c.Call.Method.Name() == "Kind" && isNamedType(c.Call.Value.Type(), "reflect", "Type")
				isValueKind := !c.Call.IsInvoke() && core.CalleeName(c) == "(reflect.Value).Kind"
				return (isTypeKind || isValueKind) && !isKindOf(doc)(v)
			}
		}
		var guarded func(f *ssa.Function, in ssa.Instruction, doc ssa.Value, depth int) (bool, string)
		guarded = func(f *ssa.Function, in ssa.Instruction, doc ssa.Value, depth int) (bool, string) {
			atom := core.Cmp(token.EQL, isDestKind(doc), isKindOf(doc))
			if core.EdgeCount(f, atom) > 0 && requiresX(f, core.Is(in), atom) == nil {
				return true, ""
			}
			here := posOf(in) + " in " + core.FuncName(f)
			if depth == 0 {
				return false, here
			}
			var pa *ssa.Parameter
			for _, x := range f.Params {
				if sameDoc(doc, x) {
					pa = x
				}
			}
			if pa == nil || (f.Object() != nil && f.Object().Exported()) || f.Pkg == nil {
				return false, here
			}
			sites, esc := callSitesOf(core.SSAPkgFuncs(p.SSA, f.Pkg), f)
			if esc || len(sites) == 0 {
				return false, here
			}
			for _, cs := range sites {
				r.Fn(core.FuncName(cs.Parent()))
				r.Calls++
				if ok, w := guarded(cs.Parent(), cs, cs.Common().Args[paramIndex(f, pa)], depth-1); !ok {
					return false, w
				}
			}
			return true, ""
		}
		if !o.Need(len(mapFuncs) > 0, "package "+mapPkg) {
			return
		}
		o.ZeroOK() // lint: a tree without any reflect Convert satisfies it
		for _, f := range scopeFuncs {
			for _, c := range core.Calls(f, core.CallTo("(reflect.Value).Convert")) {
				o.Site(1, core.FuncName(f))
				r.Fn(core.FuncName(f))
				q, ok := core.Forward(core.Args(c)[0]).(*ssa.Call)
				if !ok || core.CalleeName(q) != "reflect.ValueOf" {
					// a reflect.Value of unknown origin (a sanitising helper's parameter): the
					// test must be local, on this very value and the very type converted to
					rv, typ := core.Args(c)[0], core.Args(c)[1]
					rvKind := func(v ssa.Value) bool {
						k, ok := core.Forward(v).(*ssa.Call)
						return ok && !k.Call.IsInvoke() && core.CalleeName(k) == "(reflect.Value).Kind" && sameVal(k.Call.Args[0], rv)
					}
					typKind := func(v ssa.Value) bool {
						k, ok := core.Forward(v).(*ssa.Call)
						return ok && k.Call.IsInvoke() && k.Call.Method.Name() == "Kind" && sameVal(k.Call.Value, typ)
					}
					atom := core.Cmp(token.EQL, typKind, rvKind)
					if core.EdgeCount(f, atom) == 0 || requiresX(f, core.Is(c), atom) != nil {
						o.Fail(posOf(c), "%s: converts %s to %s without v.Kind() == type.Kind() having been established on every path: a value of another kind is truncated, wrapped or re-interpreted silently", core.FuncName(f), core.Describe(rv), core.Describe(typ))
					}
					continue
				}
				if ok, where := guarded(f, c, q.Call.Args[0], 4); !ok {
					o.Fail(posOf(c), "%s: reflect Convert of a document value is reachable without destination kind == document kind having been established (unguarded at %s): e.g. a float converted into an int field is truncated silently", core.FuncName(f), where)
				}
			}
		}
	})

	// ------------------------------------------------------------------ D2
	// candidates for the converter/setter table: functions with a reflect.Kind
	// parameter that assert a parameter of interface type without comma-ok.
	// A setter may also keep its per-kind bodies as functions in a constant table
	// keyed by the kind: then the assertion sits in a table entry, and the setter is
	// the dispatcher that looks the entry up and hands its `any` parameter on.
	type tableUse struct {
		fn    *ssa.Function // the setter (the function with the reflect.Kind parameter)
		ta    *ssa.TypeAssert
		sel   *ssa.Parameter
		v     *ssa.Parameter // the setter's parameter that is asserted
		entry *ssa.Function  // the table entry holding ta (nil: ta is in fn itself)
		q     *ssa.Call      // the setter's call of the entry looked up
	}
	kindEval := newC05KindEval(p.SSA)
	var tableUses []tableUse
	var plainAsserts []struct {
		fn *ssa.Function
		ta *ssa.TypeAssert
	}
	nAsserts := 0
	for _, f := range scopeFuncs {
		sel := paramOfType(f, isReflectKind)
		for _, in := range core.Instrs(f, func(in ssa.Instruction) bool {
			ta, ok := in.(*ssa.TypeAssert)
			return ok && !ta.CommaOk
		}) {
			ta := in.(*ssa.TypeAssert)
			nAsserts++
			if pa, isParam := ta.X.(*ssa.Parameter); isParam && sel != nil {
				tableUses = append(tableUses, tableUse{fn: f, ta: ta, sel: sel, v: pa})
				continue
			} else if isParam {
				if ds, ok := kindEval.dispatchersOf(f, paramIndex(f, pa)); ok {
					for _, d := range ds {
						tableUses = append(tableUses, tableUse{fn: d.d, ta: ta, sel: d.sel, v: d.v, entry: f, q: d.q})
					}
					continue
				}
			}
			plainAsserts = append(plainAsserts, struct {
				fn *ssa.Function
				ta *ssa.TypeAssert
			}{f, ta})
		}
	}
	commaOkJustified := func(f *ssa.Function, ta *ssa.TypeAssert) bool {
		if mi, ok := ta.X.(*ssa.MakeInterface); ok && types.Identical(mi.X.Type(), ta.AssertedType) {
			return true
		}
		for _, in := range core.Instrs(f, func(in ssa.Instruction) bool {
			b, ok := in.(*ssa.TypeAssert)
			return ok && b.CommaOk && types.Identical(b.AssertedType, ta.AssertedType) && sameVal(b.X, ta.X)
		}) {
			b := in.(*ssa.TypeAssert)
			okEdge := core.BoolVal(func(v ssa.Value) bool {
				e, ok := v.(*ssa.Extract)
				return ok && e.Tuple == ssa.Value(b) && e.Index == 1
			})
			if requiresX(f, core.Is(ta), okEdge) == nil {
				return true
			}
		}
		return false
	}
	r.Check("D2/K11a/no-unchecked-assertion", "every single-result type assertion in the unmarshalling packages (outside the converter/setter table) is dominated by a successful comma-ok assertion or type-switch case of the same value to the same type; a Kind()==String test is not accepted (json.Number has kind String)", func(o *core.O) {
		if !o.Need(len(mapFuncs) > 0, "package "+mapPkg) {
			return
		}
		// the rule inspects every type assertion; count comma-ok ones too so that the
		// obligation is non-vacuous once every single-result assertion is gone
		all := 0
		for _, f := range scopeFuncs {
			all += len(core.Instrs(f, func(in ssa.Instruction) bool { _, ok := in.(*ssa.TypeAssert); return ok }))
		}
		o.Site(all)
		for _, a := range plainAsserts {
			r.Fn(core.FuncName(a.fn))
			if !commaOkJustified(a.fn, a.ta) {
				o.Fail(posOf(a.ta), "%s: %s.(%s) is a single-result assertion not dominated by a successful comma-ok/type-switch of the same value: an ill-typed document value panics instead of failing with an error",
					core.FuncName(a.fn), core.Describe(a.ta.X), types.TypeString(a.ta.AssertedType, nil))
			}
		}
	})
	r.Check("D2/K6/converter-setter-agreement", "a setter that asserts its `any` parameter per reflect.Kind is only called (in-package, under err == nil) with result #0 of a converter called with the same kind, and for every kind the converter's possibly-successful returns produce exactly the dynamic type the setter asserts for that kind", func(o *core.O) {
		if !o.Need(len(tableUses) > 0, "a function with a reflect.Kind parameter asserting its interface parameter (setMatchedPrimitiveValue)") {
			return
		}
		type pair struct {
			prod    *ssa.Function
			prodSel *ssa.Parameter
		}
		prodOf := map[*ssa.Function][]pair{}
		done := map[*ssa.Function]bool{}
		for _, u := range tableUses {
			f := u.fn
			if done[f] {
				continue
			}
			done[f] = true
			r.Fn(core.FuncName(f))
			if f.Object() != nil && f.Object().Exported() {
				o.Fail(p.Pos(f.Pos()), "%s is exported: its callers cannot be enumerated, the unchecked assertions are not justified", core.FuncName(f))
				continue
			}
			var pkgFuncs []*ssa.Function
			if f.Pkg != nil {
				pkgFuncs = core.SSAPkgFuncs(p.SSA, f.Pkg)
			}
			sites, esc := callSitesOf(pkgFuncs, f)
			if esc || len(sites) == 0 {
				o.Fail(p.Pos(f.Pos()), "%s: callers cannot be enumerated (used as a value: %v, call sites: %d)", core.FuncName(f), esc, len(sites))
				continue
			}
			vIdx, kIdx := paramIndex(f, u.v), paramIndex(f, u.sel)
			for _, cs := range sites {
				g := cs.Parent()
				r.Fn(core.FuncName(g))
				r.Calls++
				args := cs.Common().Args
				q, idx := core.ResultOf(core.Forward(args[vIdx]))
				var prod *ssa.Function
				if q != nil {
					prod = staticCallee(q)
				}
				if q == nil || idx != 0 || prod == nil || prod.Blocks == nil || prod.Signature.Results().Len() != 2 {
					o.Fail(posOf(cs), "%s passes %s to %s: not result #0 of an in-module converter, the setter's unchecked assertions are not justified", core.FuncName(g), core.Describe(args[vIdx]), core.FuncName(f))
					continue
				}
				ps := paramOfType(prod, isReflectKind)
				if ps == nil {
					o.Fail(posOf(cs), "converter %s has no reflect.Kind parameter", core.FuncName(prod))
					continue
				}
				if !sameVal(q.Call.Args[paramIndex(prod, ps)], args[kIdx]) {
					o.Fail(posOf(cs), "%s converts for kind %s but sets for kind %s", core.FuncName(g), core.Describe(q.Call.Args[paramIndex(prod, ps)]), core.Describe(args[kIdx]))
				}
				if w := requiresX(g, core.Is(cs), core.ErrNil(1, core.Is(q))); w != nil {
					o.Fail(posOf(cs), "%s calls %s although %s may have failed (its result is then a placeholder of another type)", core.FuncName(g), core.FuncName(f), core.FuncName(prod))
				}
				prodOf[f] = append(prodOf[f], pair{prod, ps})
			}
		}
		for _, u := range tableUses {
			for _, pr := range prodOf[u.fn] {
				r.Fn(core.FuncName(pr.prod))
				for k := int64(0); k < 32; k++ {
					cut := kindEval.cut(u.fn, u.sel, k)
					if u.entry == nil {
						if _, ok := core.Reach(core.Q{From: []core.At{core.Entry(u.fn)}, Target: core.Is(u.ta), Cut: cut}); !ok {
							continue
						}
					} else {
						// the assertion sits in a table entry: is that the entry called for this kind?
						if _, ok := core.Reach(core.Q{From: []core.At{core.Entry(u.fn)}, Target: core.Is(u.q), Cut: cut}); !ok {
							continue
						}
						callee, ok := kindEval.value(u.q.Call.Value, u.sel, k, 0)
						if !ok {
							o.Fail(posOf(u.q), "kind %d: the table entry %s calls (%s) cannot be resolved", k, core.FuncName(u.fn), core.Describe(u.q.Call.Value))
							continue
						}
						if fn, isFn := callee.(*ssa.Function); !isFn || fn != u.entry {
							continue // another entry, or none (a nil function: the call panics before any assertion)
						}
					}
					// evaluated per kind: a switch / if chain over the kind, or a lookup of the
					// kind in a constant table of converter functions, in the converter itself
					// or in the function it delegates to
					ts, why := kindEval.produced(pr.prod, pr.prodSel, k, 0)
					if why != "" {
						o.Fail(posOf(u.ta), "kind %d: the dynamic type produced by %s is not static: %s", k, core.FuncName(pr.prod), why)
						continue
					}
					o.Site(1)
					for _, t := range ts {
						if !types.Identical(t, u.ta.AssertedType) {
							o.Fail(posOf(u.ta), "kind %d: %s produces %s but %s asserts %s: the assertion panics", k, core.FuncName(pr.prod), t, core.FuncName(u.ta.Parent()), u.ta.AssertedType)
						}
					}
				}
			}
		}
	})

	// ------------------------------------------------------------------ D3
	isOptsCtx := func(t types.Type) bool {
		pt, ok := t.(*types.Pointer)
		return ok && isNamedType(pt.Elem(), core.Mod+"/"+mapPkg, "fieldOptionsWithContext")
	}
	r.Check("D3/K11c/options-copy-complete", "a function that returns a rebuilt fieldOptionsWithContext on one path and the cached original on another keys every field from the same field of the original (the resolved Optional excepted), and returns the original only when its Optional equals the resolved one", func(o *core.O) {
		found := 0
		for _, f := range mapFuncs {
			res := f.Signature.Results()
			if res.Len() == 0 || !isOptsCtx(res.At(0).Type()) {
				continue
			}
			var fresh []*ssa.Alloc
			var orig []*ssa.Return
			var origDesc string
			for _, ret := range core.Returns(f) {
				v := core.Result(ret, 0)
				if al, ok := v.(*ssa.Alloc); ok {
					fresh = append(fresh, al)
				} else if !core.IsNil(v) {
					orig = append(orig, ret)
					origDesc = core.Describe(v)
				}
			}
			if len(fresh) == 0 {
				continue
			}
			found++
			r.Fn(core.FuncName(f))
			st := fresh[0].Type().(*types.Pointer).Elem().Underlying().(*types.Struct)
			for _, al := range fresh {
				fields, whole := fieldStoresInto(al)
				src := origDesc
				if whole != nil {
					src = core.Describe(whole)
					if origDesc != "" && src != origDesc {
						o.Fail(posOf(al), "%s copies %s but returns %s on the other path", core.FuncName(f), src, origDesc)
					}
				}
				if src == "" {
					o.Unres("%s: cannot identify the options the copy is built from", core.FuncName(f))
					continue
				}
				for i := 0; i < st.NumFields(); i++ {
					fname := st.Field(i).Name()
					o.Site(1)
					v, stored := fields[i]
					if !stored {
						if whole == nil {
							o.Fail(posOf(al), "%s rebuilds the options without field %s: the tag's %s setting is silently dropped on this path", core.FuncName(f), fname, fname)
						}
						continue
					}
					if core.Describe(v) == src+"."+fname {
						continue
					}
					// a field that differs from the original: the original may only be
					// returned when it equals this value
					isOrigField := func(x ssa.Value) bool { return core.Describe(x) == src+"."+fname && x != v }
					isNew := func(x ssa.Value) bool { return sameVal(x, v) }
					if len(orig) == 0 {
						continue
					}
					for _, ret := range orig {
						if w := requiresX(f, core.Is(ret), core.Cmp(token.EQL, isOrigField, isNew)); w != nil {
							o.Fail(posOf(ret), "%s returns the cached options although their %s may differ from the value resolved for this document (%s)", core.FuncName(f), fname, core.Describe(v))
						}
					}
					if _, isConst := v.(*ssa.Const); isConst {
						o.Fail(posOf(al), "%s sets %s to a constant in the copy", core.FuncName(f), fname)
					}
				}
			}
		}
		if found == 0 {
			o.Unres("no function in %s returns a rebuilt *fieldOptionsWithContext (toOptionsWithContext)", mapPkg)
		}
	})
	r.Check("D3/K5/cached-options-immutable", "fields of fieldOptions/fieldOptionsWithContext are stored only into an object that is still private to its constructor (a local allocation, or a parameter that every in-package caller binds to one)", func(o *core.O) {
		isOptsStruct := func(t types.Type) bool {
			if pt, ok := t.Underlying().(*types.Pointer); ok {
				t = pt.Elem()
			}
			return isNamedType(t, core.Mod+"/"+mapPkg, "fieldOptionsWithContext") || isNamedType(t, core.Mod+"/"+mapPkg, "fieldOptions")
		}
		touches := func(addr ssa.Value) bool {
			for v, i := addr, 0; i < 12; i++ {
				if isOptsStruct(v.Type()) {
					return true
				}
				switch x := v.(type) {
				case *ssa.FieldAddr:
					v = x.X
				case *ssa.IndexAddr:
					v = x.X
				default:
					return false
				}
			}
			return false
		}
		freshArg := func(v ssa.Value) bool {
			_, ok := rootOfAddr(v).(*ssa.Alloc)
			return ok
		}
		for _, f := range mapFuncs {
			for _, in := range core.Instrs(f, func(in ssa.Instruction) bool {
				st, ok := in.(*ssa.Store)
				return ok && touches(st.Addr)
			}) {
				st := in.(*ssa.Store)
				o.Site(1)
				r.Fn(core.FuncName(f))
				switch root := rootOfAddr(st.Addr).(type) {
				case *ssa.Alloc:
					continue
				case *ssa.Parameter:
					sites, esc := callSitesOf(mapFuncs, f)
					ok := !esc && len(sites) > 0 && (f.Object() == nil || !f.Object().Exported())
					for _, cs := range sites {
						if !freshArg(cs.Common().Args[paramIndex(f, root)]) {
							ok = false
						}
					}
					if ok {
						continue
					}
				}
				o.Fail(posOf(in), "%s writes %s of options that may already be cached and shared between documents and goroutines", core.FuncName(f), core.Describe(st.Addr))
			}
		}
	})

	// ------------------------------------------------------------------ D4
	isReflectSet := func(in ssa.Instruction) bool {
		c := core.AsCall(in)
		return c != nil && strings.HasPrefix(core.CalleeName(c), "(reflect.Value).Set")
	}
	mp := func(names ...string) func(ssa.Instruction) bool {
		var full []string
		for _, n := range names {
			if strings.HasPrefix(n, "(*") {
				full = append(full, "(*"+mapPkg+"."+n[2:])
			} else {
				full = append(full, mapPkg+"."+n)
			}
		}
		return core.CallTo(full...)
	}
	type d4row struct {
		recv, fn   string
		validators []string
		sink       func(ssa.Instruction) bool
		rowSinks   []string // calls of the functions anchored by these rows are sinks too
		sinkName   string
	}
	d4 := []d4row{
		{"Unmarshaler", "processFieldPrimitiveWithJSONNumber", []string{"validateJsonNumberRange", "validateValueInOptions"}, isReflectSet, nil, "reflect Set*"},
		{"", "fillPrimitive", []string{"validateJsonNumberRange"}, mp("setValue", "setMatchedPrimitiveValue"), nil, "setValue"},
		{"", "fillWithSameType", []string{"validateValueRange"}, core.Or(isReflectSet, mp("setSameKindValue")), nil, "setSameKindValue / reflect Set*"},
		{"", "validateAndSetValue", []string{"validateValueRange"}, core.Or(isReflectSet, mp("setMatchedPrimitiveValue")), nil, "setMatchedPrimitiveValue"},
		{"Unmarshaler", "processFieldPrimitive", []string{"validateValueInOptions"}, mp("setSameKindValue"), []string{"fillWithSameType"}, "fillWithSameType"},
		{"Unmarshaler", "processFieldWithEnvValue", []string{"validateValueInOptions"}, core.Or(isReflectSet, mp("fillDurationValue", "setValue")), []string{"processFieldPrimitiveWithJSONNumber"}, "assignment of the environment value"},
	}
	// Each row is anchored by the name of the function in the pinned tree and, when
	// that name is gone (the function was renamed or became a method of another
	// type), by role: the functions of the package that run all of the row's
	// validators and contain one of its sinks (functions that are another row's by
	// name are left to that row). Rows are resolved in order; a row's sinks may
	// refer to the functions an earlier row resolved to.
	d4Named := map[*ssa.Function]bool{}
	for _, row := range d4 {
		if f := p.Func(mapPkg, row.recv, row.fn); f != nil {
			d4Named[f] = true
		}
	}
	d4Funcs := map[string][]*ssa.Function{}
	d4Sink := map[string]func(ssa.Instruction) bool{}
	for _, row := range d4 {
		row := row
		sink := row.sink
		for _, rs := range row.rowSinks {
			targets := d4Funcs[rs]
			sink = core.Or(sink, func(in ssa.Instruction) bool {
				c := core.AsCall(in)
				if c == nil {
					return false
				}
				callee := staticCallee(c)
				for _, t := range targets {
					if callee == t {
						return true
					}
				}
				return false
			})
		}
		d4Sink[row.fn] = sink
		if f := p.Func(mapPkg, row.recv, row.fn); f != nil {
			d4Funcs[row.fn] = []*ssa.Function{f}
			continue
		}
		for _, g := range mapFuncs {
			if d4Named[g] || len(core.Instrs(g, sink)) == 0 {
				continue
			}
			all := true
			for _, v := range row.validators {
				if len(core.Calls(g, mp(v))) == 0 {
					all = false
				}
			}
			if all {
				d4Funcs[row.fn] = append(d4Funcs[row.fn], g)
			}
		}
	}
	for _, row := range d4 {
		row := row
		row.sink = d4Sink[row.fn]
		r.Check("D4/K2/validated-before-set/"+row.fn, fmt.Sprintf("in %s every %s is reachable only through the err == nil edge of %s", row.fn, row.sinkName, strings.Join(row.validators, " and of ")), func(o *core.O) {
			fs := d4Funcs[row.fn]
			if !o.Need(len(fs) > 0, mapPkg+"."+row.fn+" (or another function running "+strings.Join(row.validators, ", ")+" before "+row.sinkName+")") {
				return
			}
			for _, f := range fs {
				r.Fn(core.FuncName(f))
				sinks := core.Instrs(f, row.sink)
				o.Site(len(sinks), core.FuncName(f))
				if len(sinks) == 0 {
					o.Unres("%s contains no %s", core.FuncName(f), row.sinkName)
					continue
				}
				// the options of the field being assigned, as handed to f: its
				// *fieldOptionsWithContext parameter, or that field of a parameter / receiver
				// that bundles the field's context in a struct
				var optsSrc func(ssa.Value) bool
				if optsParam := paramOfType(f, isOptsCtx); optsParam != nil {
					optsSrc = func(x ssa.Value) bool { return x == ssa.Value(optsParam) }
				} else {
					n := 0
					for _, pa := range f.Params {
						if c05HasOptsField(pa.Type(), isOptsCtx) {
							n++
						}
					}
					if n == 1 {
						optsSrc = func(x ssa.Value) bool {
							pa, ok := x.(*ssa.Parameter)
							return ok && c05HasOptsField(pa.Type(), isOptsCtx)
						}
					}
				}
				for _, v := range row.validators {
					isV := mp(v)
					calls := core.Calls(f, isV)
					if len(calls) == 0 {
						o.Fail(p.Pos(f.Pos()), "%s never calls %s: the tag's constraint is not enforced", core.FuncName(f), v)
						continue
					}
					// the validator must be given this field's options
					for _, c := range calls {
						if optsSrc == nil {
							o.Unres("%s has no *fieldOptionsWithContext parameter", core.FuncName(f))
							break
						}
						if !core.DependsOn(c.Common().Args[len(c.Common().Args)-1], optsSrc) {
							o.Fail(posOf(c), "%s validates against %s, not against the field's options", core.FuncName(f), core.Describe(c.Common().Args[len(c.Common().Args)-1]))
						}
					}
					for _, s := range sinks {
						if w := requiresX(f, core.Is(s), core.ErrNil(0, isV)); w != nil {
							o.Fail(posOf(s), "%s: value assigned (%s) although %s was not run or its error is ignored: an out-of-range / not-listed value is accepted", core.FuncName(f), core.Short(core.CalleeName(s.(ssa.CallInstruction))), v)
						}
					}
				}
			}
		})
	}
	r.Check("D4/K2/validated-before-set/string-mode-options", "every call of fillPrimitive in lib/mapping that is given field options (fillPrimitive does not check the options list itself) is reachable only when the options list is empty or stringx.Contains(options, value) holds", func(o *core.O) {
		// anchored by role: the callers of fillPrimitive, whatever they are called and
		// however the handling of a named field with a value is split into functions
		// (fillPrimitive itself: the function the fillPrimitive row above resolved to)
		sinkFns := d4Funcs["fillPrimitive"]
		if !o.Need(len(sinkFns) > 0, mapPkg+".fillPrimitive") {
			return
		}
		optsIdx := map[*ssa.Function]int{}
		for _, sink := range sinkFns {
			optsIdx[sink] = paramIndex(sink, paramOfType(sink, isOptsCtx))
			if !o.Need(optsIdx[sink] >= 0, "the *fieldOptionsWithContext parameter of "+core.FuncName(sink)) {
				return
			}
			if _, esc := callSitesOf(mapFuncs, sink); esc {
				o.Unres("%s is used as a value: its callers cannot be enumerated", core.FuncName(sink))
				return
			}
		}
		isOptions := func(v ssa.Value) bool {
			c, ok := core.Forward(v).(*ssa.Call)
			return ok && core.Short(core.CalleeName(c)) == "(*"+mapPkg+".fieldOptionsWithContext).options"
		}
		empty := core.AnyOf(
			core.Cmp(token.LEQ, core.IsLenOf(isOptions), core.IsConstInt(0)),
			core.Cmp(token.EQL, core.IsLenOf(isOptions), core.IsConstInt(0)),
			core.Cmp(token.LSS, core.IsLenOf(isOptions), core.IsConstInt(1)),
		)
		listed := core.BoolVal(func(v ssa.Value) bool {
			c, ok := v.(*ssa.Call)
			return ok && core.Short(core.CalleeName(c)) == "lib/stringx.Contains" && isOptions(c.Call.Args[0])
		})
		n := 0
		for _, f := range mapFuncs {
			for _, s := range core.Instrs(f, func(in ssa.Instruction) bool {
				c := core.AsCall(in)
				if c == nil || staticCallee(c) == nil {
					return false
				}
				_, isSink := optsIdx[staticCallee(c)]
				return isSink
			}) {
				c := s.(ssa.CallInstruction)
				if core.IsNil(core.Forward(c.Common().Args[optsIdx[staticCallee(c)]])) {
					continue // no options to enforce
				}
				n++
				o.Site(1, core.FuncName(f))
				r.Fn(core.FuncName(f))
				if w := requiresX(f, core.Is(s), empty, listed); w != nil {
					o.Fail(posOf(s), "%s: fillPrimitive is reachable with a non-empty options list and a value that is not in it", core.FuncName(f))
				}
			}
		}
		if n == 0 {
			o.Unres("no call of %s with field options found in %s", core.FuncName(sinkFns[0]), mapPkg)
		}
	})
	r.Check("D4/K6/range-boundary-table", "validateNumberRange(fv, nr) returns an error exactly when fv < left, fv == left on an open left end, fv > right, or fv == right on an open right end (evaluated for all 36 combinations of the two flags and the two orderings), and for fv = NaN under each of the four bracket combinations (every ordered comparison with NaN is false, so a validator made of rejecting comparisons alone lets NaN through every range=: a value outside its declared range must fail); nil range accepts", func(o *core.O) {
		var f *ssa.Function
		for _, g := range mapFuncs {
			if g.Parent() == nil && len(g.Params) == 2 && g.Signature.Results().Len() == 1 {
				if b, ok := g.Params[0].Type().(*types.Basic); ok && b.Kind() == types.Float64 {
					if pt, ok := g.Params[1].Type().(*types.Pointer); ok && isNamedType(pt.Elem(), core.Mod+"/"+mapPkg, "numberRange") {
						f = g
					}
				}
			}
		}
		if !o.Need(f != nil, "the function (float64, *numberRange) error of "+mapPkg) {
			return
		}
		r.Fn(core.FuncName(f))
		fv, nr := f.Params[0], f.Params[1]
		type env struct {
			isNil  bool
			li, ri bool
			cl, cr int  // sign of fv-left, fv-right
			nan    bool // fv is NaN: every comparison with it is false, except != which is true
		}
		var eval func(v ssa.Value, e env, prev, cur *ssa.BasicBlock) (bool, bool)
		fieldOf := func(v ssa.Value) string {
			u, ok := v.(*ssa.UnOp)
			if !ok || u.Op != token.MUL {
				return ""
			}
			fa, ok := u.X.(*ssa.FieldAddr)
			if !ok || fa.X != ssa.Value(nr) {
				return ""
			}
			return core.FieldAddrName(fa)
		}
		sign := func(v ssa.Value, e env) (int, bool) {
			switch fieldOf(v) {
			case "numberRange.left":
				return e.cl, true
			case "numberRange.right":
				return e.cr, true
			}
			return 0, false
		}
		eval = func(v ssa.Value, e env, prev, cur *ssa.BasicBlock) (bool, bool) {
			switch x := v.(type) {
			case *ssa.Const:
				if x.Value != nil && x.Value.Kind() == constant.Bool {
					return constant.BoolVal(x.Value), true
				}
			case *ssa.UnOp:
				if x.Op == token.NOT {
					b, ok := eval(x.X, e, prev, cur)
					return !b, ok
				}
				switch fieldOf(x) {
				case "numberRange.leftInclude":
					return e.li, true
				case "numberRange.rightInclude":
					return e.ri, true
				}
			case *ssa.Phi:
				for i, pb := range x.Block().Preds {
					if pb == prev && x.Block() == cur {
						return eval(x.Edges[i], e, nil, nil)
					}
				}
			case *ssa.BinOp:
				if (x.X == ssa.Value(nr) && core.IsNil(x.Y)) || (x.Y == ssa.Value(nr) && core.IsNil(x.X)) {
					return evalCmp(x.Op, b2i(e.isNil), 1)
				}
				if x.X == ssa.Value(fv) && x.Y == ssa.Value(fv) {
					// fv != fv / fv == fv: the NaN test spelled as a self-comparison
					switch x.Op {
					case token.NEQ:
						return e.nan, true
					case token.EQL:
						return !e.nan, true
					}
					return false, false
				}
				if x.X == ssa.Value(fv) {
					if s, ok := sign(x.Y, e); ok {
						if e.nan {
							return x.Op == token.NEQ, true
						}
						return evalCmp(x.Op, int64(s), 0)
					}
				}
				if x.Y == ssa.Value(fv) {
					if s, ok := sign(x.X, e); ok {
						if e.nan {
							return x.Op == token.NEQ, true
						}
						return evalCmp(x.Op, 0, int64(s))
					}
				}
			case *ssa.Call:
				if !x.Call.IsInvoke() && core.CalleeName(x) == "math.IsNaN" && len(x.Call.Args) == 1 && x.Call.Args[0] == ssa.Value(fv) {
					return e.nan, true
				}
			}
			return false, false
		}
		run := func(e env) (isErr, ok bool) {
			var prev *ssa.BasicBlock
			cur := f.Blocks[0]
			for steps := 0; steps < 200; steps++ {
				switch t := cur.Instrs[len(cur.Instrs)-1].(type) {
				case *ssa.Return:
					return !core.IsNil(core.Result(t, 0)), true
				case *ssa.Jump:
					prev, cur = cur, cur.Succs[0]
				case *ssa.If:
					b, ok := eval(t.Cond, e, prev, cur)
					if !ok {
						return false, false
					}
					if b {
						prev, cur = cur, cur.Succs[0]
					} else {
						prev, cur = cur, cur.Succs[1]
					}
				default:
					return false, false
				}
			}
			return false, false
		}
		if isErr, ok := run(env{isNil: true}); !ok || isErr {
			o.Fail(p.Pos(f.Pos()), "%s: a nil range must accept every value (evaluated: err=%v, decided=%v)", core.FuncName(f), isErr, ok)
		}
		for _, li := range []bool{false, true} {
			for _, ri := range []bool{false, true} {
				for cl := -1; cl <= 1; cl++ {
					for cr := -1; cr <= 1; cr++ {
						e := env{li: li, ri: ri, cl: cl, cr: cr}
						got, ok := run(e)
						o.Site(1)
						if !ok {
							o.Unres("%s: a branch condition is not a flag test or a comparison of fv with left/right", core.FuncName(f))
							return
						}
						want := cl < 0 || (cl == 0 && !li) || cr > 0 || (cr == 0 && !ri)
						if got != want {
							o.Fail(p.Pos(f.Pos()), "%s: leftInclude=%v rightInclude=%v sign(fv-left)=%d sign(fv-right)=%d: returns error=%v, expected %v", core.FuncName(f), li, ri, cl, cr, got, want)
						}
					}
				}
			}
		}
		// NaN lies in no range, whatever the brackets
		for _, li := range []bool{false, true} {
			for _, ri := range []bool{false, true} {
				got, ok := run(env{li: li, ri: ri, nan: true})
				o.Site(1)
				if !ok {
					o.Unres("%s: a branch condition is not a flag test, a NaN test or a comparison of fv with left/right", core.FuncName(f))
					return
				}
				if !got {
					o.Fail(p.Pos(f.Pos()), "%s: leftInclude=%v rightInclude=%v fv=NaN: returns nil - NaN compares false with both bounds, so it passes every declared range= (a float field with range=[0:1] accepts the form/env/string value \"NaN\")", core.FuncName(f), li, ri)
				}
			}
		}
		// the error returned is non-nil by construction
		for _, ret := range core.Returns(f) {
			v := core.Result(ret, 0)
			if !core.IsNil(v) && !errNonNil(mapFuncs, v) {
				o.Fail(posOf(ret), "%s: the value returned for an out-of-range number (%s) is not provably a non-nil error", core.FuncName(f), core.Describe(v))
			}
		}
	})

	// ------------------------------------------------------------------ D5
	type pipe struct{ rel, fn, first, second string }
	for _, pl := range []pipe{
		{mapPkg, "UnmarshalYamlBytes", "internal/encoding.YamlToJson", mapPkg + ".UnmarshalJsonBytes"},
		{"lib/conf", "LoadFromYamlBytes", "internal/encoding.YamlToJson", "lib/conf.LoadFromJsonBytes"},
	} {
		pl := pl
		r.Check("D5/K1/yaml-is-json-pipeline/"+pl.fn, pl.fn+"(content, v) = "+pl.second+"(YamlToJson(content), v): same converter, its output fed on under err == nil, destination passed through, every success path goes through the JSON entry point", func(o *core.O) {
			f := p.Func(pl.rel, "", pl.fn)
			if !o.Need(f != nil, pl.rel+"."+pl.fn) {
				return
			}
			r.Fn(core.FuncName(f))
			c1 := core.Calls(f, core.CallTo(pl.first))
			c2 := core.Calls(f, core.CallTo(pl.second))
			o.Site(len(c1)+len(c2), core.FuncName(f))
			if len(c1) != 1 || len(c2) != 1 {
				o.Fail(p.Pos(f.Pos()), "%s: expected one call of %s and one of %s, found %d and %d", core.FuncName(f), pl.first, pl.second, len(c1), len(c2))
				return
			}
			a1, a2 := c1[0].Common().Args, c2[0].Common().Args
			if !sameVal(a1[0], f.Params[0]) {
				o.Fail(posOf(c1[0]), "YamlToJson is not applied to the document")
			}
			if !core.IsResult(a2[0], 0, core.Is(c1[0])) {
				o.Fail(posOf(c2[0]), "%s is fed %s, not the converted document", pl.second, core.Describe(a2[0]))
			}
			for i := 1; i < len(a2) && i < len(f.Params); i++ {
				if !sameVal(a2[i], f.Params[i]) {
					o.Fail(posOf(c2[0]), "argument #%d of %s is %s, not the caller's", i, pl.second, core.Describe(a2[i]))
				}
			}
			if w := requiresX(f, core.Is(c2[0]), core.ErrNil(1, core.Is(c1[0]))); w != nil {
				o.Fail(posOf(c2[0]), "the JSON entry point runs although YamlToJson failed")
			}
			for _, ret := range core.Returns(f) {
				v := core.Result(ret, 0)
				if core.IsResult(v, 0, core.Is(c2[0])) || core.IsResult(v, 1, core.Is(c1[0])) {
					continue
				}
				o.Fail(posOf(ret), "%s returns %s: neither the converter's error nor the JSON entry point's result", core.FuncName(f), core.Describe(v))
			}
		})
	}
	r.Check("D5/K3/parse-all-parts-stop-at-first-error", "httpx.Parse calls ParsePath, ParseForm, ParseHeaders, ParseJsonBody on (r, v), each later one only under err == nil of every earlier one, and returns the failing parser's error", func(o *core.O) {
		f := p.Func("api/httpx", "", "Parse")
		if !o.Need(f != nil, "api/httpx.Parse") {
			return
		}
		r.Fn(core.FuncName(f))
		parts := []string{"ParsePath", "ParseForm", "ParseHeaders", "ParseJsonBody"}
		var calls []ssa.CallInstruction
		for _, n := range parts {
			cs := core.Calls(f, core.CallTo("api/httpx."+n))
			o.Site(len(cs), n)
			if len(cs) != 1 {
				o.Fail(p.Pos(f.Pos()), "Parse calls %s %d times (expected once): that part of the request is not parsed", n, len(cs))
				return
			}
			c := cs[0]
			if !sameVal(c.Common().Args[0], f.Params[0]) || !sameVal(c.Common().Args[1], f.Params[1]) {
				o.Fail(posOf(c), "%s is not applied to Parse's request and destination", n)
			}
			calls = append(calls, c)
		}
		for i, c := range calls {
			for j := i + 1; j < len(calls); j++ {
				if w := requiresX(f, core.Is(calls[j]), core.ErrNil(0, core.Is(c))); w != nil {
					o.Fail(posOf(calls[j]), "%s runs although %s failed", parts[j], parts[i])
				}
			}
			// whenever part i fails, its error is what Parse returns
			_, fails := core.EdgesOf(f, core.ErrNil(0, core.Is(c)))
			if i < len(calls)-1 && len(fails) == 0 {
				o.Fail(posOf(c), "the error of %s is never tested", parts[i])
			}
			for _, ret := range core.Returns(f) {
				if core.ReachableFromEdges(fails, core.Is(ret), nil) != nil && !core.IsResult(core.Result(ret, 0), 0, core.Is(c)) {
					o.Fail(posOf(ret), "after %s failed Parse returns %s instead of that error", parts[i], core.Describe(core.Result(ret, 0)))
				}
			}
		}
		last := calls[len(calls)-1]
		ok := false
		for _, ret := range core.Returns(f) {
			if core.IsResult(core.Result(ret, 0), 0, core.Is(last)) {
				ok = true
			}
		}
		if !ok {
			o.Fail(posOf(last), "the result of %s is not returned", parts[len(parts)-1])
		}
		for _, ret := range core.Returns(f) {
			if core.IsNil(core.Result(ret, 0)) {
				o.Fail(posOf(ret), "Parse returns nil without the verdict of the last part parser")
			}
		}
	})
	r.Check("D5/K4/caches-under-their-locks", "every package-level map of lib/mapping that is updated after package initialisation (the memo tables of parsed tags, implicitly required structs, key paths and parsed defaults - held in a package-level variable directly or in a map field of a struct a package-level variable holds) is read and updated only while one and the same mutex is held, updated only under its write lock; variable and mutex are inferred (the mutex held at most accesses, a package-level one or a sibling field of the map), not named; lock balance on every path", func(o *core.O) {
		c05CacheLockRule(r, o)
	})
	// ------------------------------------------------------------------ D6 (beyond DESIGN)
	r.Check("D6/K2/reflect-kind-established", "reflect.ValueOf(x).IsNil/Len/Cap/Index/MapKeys/MapIndex on an `any` parameter x of lib/mapping is reachable only when x's kind was established: inside the function (Kind()==K test, comma-ok/type-switch to a type of that kind) or at every in-package call site (same tests, a statically typed argument, or the caller's own parameter with the same requirement)", func(o *core.O) {
		if !o.Need(len(mapFuncs) > 0, "package "+mapPkg) {
			return
		}
		c05KindRule(r, o, mapFuncs)
	})
	// ------------------------------------------------------------------ D7 (beyond DESIGN)
	r.Check("D7/K8/reflect-set-assignable", "in lib/mapping a reflect.Value derived from a document value (reflect.ValueOf of an interface value or of a type-switch binding, Index/MapIndex/MapKeys/Elem of such, passed through reflect.Value parameters/results) reaches the source operand of reflect.Value.Set or the key/element operands of SetMapIndex only as result #0 of a sanitising helper under err == nil (by role: every non-error return is the value itself under v.Type().AssignableTo(typ), a Convert(T) result or a fresh reflect.New(T), T computed from typ), or on a path where its Type().AssignableTo(...) succeeded or its type was compared equal; a key is not sanitised for the element type nor vice versa", func(o *core.O) {
		if !o.Need(len(mapFuncs) > 0, "package "+mapPkg) {
			return
		}
		c05AssignRule(r, o, mapFuncs)
	})

	r.Check("D1/K6/decimal-parse", "numbers that arrive as text are parsed as decimal 64-bit values: every strconv.ParseInt/ParseUint in the unmarshalling packages passes base 10 and bitSize 64, ParseFloat bitSize 64 (base 0 would read 0100 as 64 and accept 0x10 / 1_000)", func(o *core.O) {
		n := 0
		for _, rel := range []string{"lib/mapping", "lib/conf", "api/httpx", "internal/encoding", "api/internal/encoding"} {
			for _, f := range p.PkgFuncs(rel) {
				for _, c := range core.Calls(f, core.CallTo("strconv.ParseInt", "strconv.ParseUint", "strconv.ParseFloat")) {
					n++
					r.Fn(core.FuncName(f))
					args := core.Args(c)
					name := core.Short(core.CalleeName(c))
					if name == "strconv.ParseFloat" {
						if b, ok := core.ConstInt(args[1]); !ok || b != 64 {
							o.Fail(p.InstrPos(c), "%s: ParseFloat bitSize is %s, expected 64", core.FuncName(f), core.Describe(args[1]))
						}
						continue
					}
					if b, ok := core.ConstInt(args[1]); !ok || b != 10 {
						o.Fail(p.InstrPos(c), "%s: %s base is %s, expected 10 (the document's text must mean the same number in every field)", core.FuncName(f), name, core.Describe(args[1]))
					}
					if b, ok := core.ConstInt(args[2]); !ok || b != 64 {
						o.Fail(p.InstrPos(c), "%s: %s bitSize is %s, expected 64 (narrowing is checked separately by Overflow*)", core.FuncName(f), name, core.Describe(args[2]))
					}
				}
			}
		}
		o.Site(n)
	})

	r.Check("D5/K6/yaml-numbers-stay-numbers", "the YAML→JSON bridge turns every Go numeric type a YAML decoder can produce into a JSON number (a numeric type missing from the case list becomes a JSON string, so the same content means different things in YAML and JSON)", func(o *core.O) {
		want := []string{"int", "int8", "int16", "int32", "int64", "uint", "uint8", "uint16", "uint32", "uint64", "float32", "float64"}
		n := 0
		for _, f := range p.PkgFuncs("internal/encoding") {
			// role: a function that type-switches an `any` and converts some cases to json.Number
			toNum := core.Instrs(f, func(in ssa.Instruction) bool {
				c, ok := in.(*ssa.Call)
				if !ok {
					return false
				}
				if callee := c.Call.StaticCallee(); callee != nil && callee.Signature.Results().Len() == 1 &&
					callee.Signature.Results().At(0).Type().String() == "encoding/json.Number" {
					return true
				}
				return false
			})
			asserts := core.Instrs(f, func(in ssa.Instruction) bool {
				ta, ok := in.(*ssa.TypeAssert)
				return ok && ta.CommaOk
			})
			if len(toNum) == 0 || len(asserts) == 0 {
				continue
			}
			n++
			r.Fn(core.FuncName(f))
			// which asserted types lead to the number conversion without passing another successful assertion?
			covered := map[string]bool{}
			for _, a := range asserts {
				ta := a.(*ssa.TypeAssert)
				okEdges, _ := core.EdgesOf(f, core.BoolVal(func(v ssa.Value) bool {
					e, ok := v.(*ssa.Extract)
					return ok && e.Tuple == ssa.Value(ta) && e.Index == 1
				}))
				// from the success edge, the conversion must be reached before any other comma-ok test
				if w := core.ReachableFromEdges(okEdges, core.Is(toNum...), func(in ssa.Instruction) bool {
					_, isIf := in.(*ssa.If)
					return isIf
				}); w != nil {
					covered[ta.AssertedType.String()] = true
				}
			}
			for _, t := range want {
				if !covered[t] {
					o.Fail(p.Pos(f.Pos()), "%s: a value of type %s is not converted to a JSON number", core.FuncName(f), t)
				}
			}
		}
		o.Site(n)
	})

	r.Check("D5/K6/repr-float-precision", "the YAML→JSON bridge renders numbers through lang.Repr: a float64 is formatted with bitSize 64 and a float32 with bitSize 32 (formatting a float64 at 32 bits rounds YAML floats that JSON keeps exact)", func(o *core.O) {
		n := 0
		for _, f := range p.PkgFuncs("lib/lang") {
			for _, c := range core.Calls(f, core.CallTo("strconv.FormatFloat")) {
				n++
				r.Fn(core.FuncName(f))
				args := core.Args(c)
				bits, ok := core.ConstInt(args[3])
				if !ok {
					o.Fail(p.InstrPos(c), "FormatFloat bitSize is not a constant")
					continue
				}
				from32 := false
				if cv, isConv := args[0].(*ssa.Convert); isConv {
					if b, isB := cv.X.Type().Underlying().(*types.Basic); isB && b.Kind() == types.Float32 {
						from32 = true
					}
				}
				want := int64(64)
				if from32 {
					want = 32
				}
				if bits != want {
					o.Fail(p.InstrPos(c), "%s formats a float%d with bitSize %d: the shortest representation is computed for the wrong precision", core.FuncName(f), want, bits)
				}
				if prec, ok := core.ConstInt(args[2]); !ok || prec != -1 {
					o.Fail(p.InstrPos(c), "%s formats floats with a fixed precision instead of the shortest exact one (-1)", core.FuncName(f))
				}
			}
		}
		o.Site(n)
	})

	r.Check("D5/K6/config-key-letter-ranges", "config key normalisation classifies exactly 'A'..'Z' and 'a'..'z' as letters (inclusive bounds, evaluated from the comparisons of the rune with constants)", func(o *core.O) {
		f := p.Func("lib/conf", "", "toCamelCase")
		if f == nil {
			// by role: the function of lib/conf comparing runes with both 'A' and 'z'
			for _, g := range p.PkgFuncs("lib/conf") {
				lo, hi := false, false
				for _, in := range core.Instrs(g, func(in ssa.Instruction) bool { _, ok := in.(*ssa.BinOp); return ok }) {
					b := in.(*ssa.BinOp)
					if k, ok := core.ConstInt(b.Y); ok && k == 'A' {
						lo = true
					}
					if k, ok := core.ConstInt(b.Y); ok && (k == 'z' || k == 'z'+1) {
						hi = true
					}
				}
				if lo && hi {
					f = g
				}
			}
		}
		if !o.Need(f != nil, "lib/conf key normaliser (toCamelCase)") {
			return
		}
		r.Fn(core.FuncName(f))
		lower, upper := map[int64]bool{}, map[int64]bool{}
		n := 0
		for _, in := range core.Instrs(f, func(in ssa.Instruction) bool { _, ok := in.(*ssa.BinOp); return ok }) {
			b := in.(*ssa.BinOp)
			k, ok := core.ConstInt(b.Y)
			op := b.Op
			if !ok {
				if k, ok = core.ConstInt(b.X); !ok {
					continue
				}
				switch op { // const op v  ≡  v flip(op) const
				case token.LSS:
					op = token.GTR
				case token.GTR:
					op = token.LSS
				case token.LEQ:
					op = token.GEQ
				case token.GEQ:
					op = token.LEQ
				}
			}
			if k < 60 || k > 126 {
				continue
			}
			switch op {
			case token.GEQ:
				lower[k] = true
			case token.GTR:
				lower[k+1] = true
			case token.LEQ:
				upper[k] = true
			case token.LSS:
				upper[k-1] = true
			default:
				continue
			}
			n++
		}
		o.Site(n, core.FuncName(f))
		for _, w := range []int64{'A', 'a'} {
			if !lower[w] {
				o.Fail(p.Pos(f.Pos()), "no lower bound %q for letters", rune(w))
			}
		}
		for _, w := range []int64{'Z', 'z'} {
			if !upper[w] {
				o.Fail(p.Pos(f.Pos()), "no inclusive upper bound %q for letters (keys containing that letter would not be normalised)", rune(w))
			}
		}
		for k := range lower {
			if k != 'A' && k != 'a' {
				o.Fail(p.Pos(f.Pos()), "unexpected letter-range lower bound %q", rune(k))
			}
		}
		for k := range upper {
			if k != 'Z' && k != 'z' {
				o.Fail(p.Pos(f.Pos()), "unexpected letter-range upper bound %q", rune(k))
			}
		}
	})

	r.Check("D5/K8/httpc-path-not-pre-escaped", "the client puts path variables into URL.Path unescaped (URL.String escapes once; escaping before storing double-escapes, so the server parses a different value than was sent)", func(o *core.O) {
		n := 0
		for _, f := range p.PkgFuncs("api/httpc") {
			for _, in := range core.Instrs(f, func(in ssa.Instruction) bool {
				st, ok := in.(*ssa.Store)
				return ok && core.FieldAddrName(st.Addr) == "URL.Path"
			}) {
				n++
				r.Fn(core.FuncName(f))
				isEscape := func(v ssa.Value) bool {
					c, ok := v.(*ssa.Call)
					if !ok {
						return false
					}
					name := core.Short(core.CalleeName(c))
					return name == "net/url.PathEscape" || name == "net/url.QueryEscape"
				}
				bad := core.DependsOn(in.(*ssa.Store).Val, isEscape)
				// element stores into a slice the path is joined from
				core.DependsOn(in.(*ssa.Store).Val, func(v ssa.Value) bool {
					if _, isSlice := v.Type().Underlying().(*types.Slice); !isSlice || v.Referrers() == nil {
						return false
					}
					for _, rf := range *v.Referrers() {
						ia, ok := rf.(*ssa.IndexAddr)
						if !ok {
							continue
						}
						for _, r2 := range *ia.Referrers() {
							if st, ok := r2.(*ssa.Store); ok && st.Addr == ssa.Value(ia) && core.DependsOn(st.Val, isEscape) {
								bad = true
							}
						}
					}
					return false
				})
				if bad {
					o.Fail(p.InstrPos(in), "%s stores an already escaped value into URL.Path", core.FuncName(f))
				}
			}
		}
		o.Site(n)
	})

}

func b2i(b bool) int64 {
	if b {
		return 1
	}
	return 0
}
