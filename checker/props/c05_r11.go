package props

import (
	"fmt"
	"go/token"
	"go/types"
	"strings"

	"godcheck/core"

	"golang.org/x/tools/go/ssa"
)

// Round 11 (seeded change C05-wm1): the member walk of an optional embedded struct is
// EVALUATED on small member lists instead of matching how its bookkeeping is spelled.
func c05R11(r *core.Run) {
	p := r.P
	r.Explanation += " Round 11: the walk over the members of an optional embedded struct (lib/mapping: the function that loops over NumField() members, asks each member's options whether it is optional and looks its key up in the document) is evaluated on every list of 1..3 members x {optional, required} x {present, absent}: whenever some member is present and some required member is absent it returns a non-nil error, wherever in the declaration order the absent one stands."
	r.NotDecided += " Round 11, not decided: member lists longer than three; walks whose bookkeeping lives behind calls of helpers that existed in the pinned tree or in heap objects (reported unresolved, not passed); the converse direction (no error when every required member is present)."

	r.Check("D3/K9/optional-embedded-partial-fails", "the function of lib/mapping that walks the members of an optional embedded (anonymous) struct - by role: it loops over NumField() members, asks the member's options optional() and looks the member's key up in the document - returns a non-nil error for every member list of length 1..3 in which at least one member is present in the document and at least one required (non-optional) member is absent, whatever the declaration order of the two; decided by evaluating the function's SSA with the per-member answers of optional() and of the lookup scripted and all other calls succeeding (clause 'a required field that is absent ... makes it fail': a partially present optional embedded struct whose absent required member goes uncounted is accepted with that member silently zero, for JSON, YAML, map and conf loading alike)", func(o *core.O) {
		n := 0
		for _, f := range p.PkgFuncs("lib/mapping") {
			if !c05IsOptionalMemberWalk(f) {
				continue
			}
			n++
			r.Fn(core.FuncName(f))
			undecided := false
			failed := false
			for size := 1; size <= 3 && !failed; size++ {
				total := 1
				for i := 0; i < size; i++ {
					total *= 4
				}
				for code := 0; code < total && !failed; code++ {
					script := make([]c05Member, size)
					c := code
					anyHas, anyMissing := false, false
					for i := range script {
						script[i] = c05Member{opt: c&1 != 0, has: c&2 != 0}
						c >>= 2
						anyHas = anyHas || script[i].has
						anyMissing = anyMissing || (!script[i].opt && !script[i].has)
					}
					if !(anyHas && anyMissing) {
						continue
					}
					out, ret := c05RunWalk(f, script)
					switch out {
					case 0:
						failed = true
						pos := p.Pos(f.Pos())
						if ret != nil {
							pos = p.InstrPos(ret)
						}
						o.Fail(pos, "%s returns nil for an optional embedded struct with members %s: a member is present but a required member is absent, and the document is accepted with that member left zero instead of failing", core.FuncName(f), c05ScriptString(script))
					case -1:
						undecided = true
					}
				}
			}
			if undecided && !failed {
				o.Unres("%s: the member walk could not be evaluated (a branch depends on a value the evaluator does not model)", core.FuncName(f))
			}
		}
		o.Site(n, "lib/mapping: walk over the members of an optional embedded struct")
	})
}

type c05Member struct{ opt, has bool }

func c05ScriptString(s []c05Member) string {
	var parts []string
	for _, m := range s {
		a, b := "required", "absent"
		if m.opt {
			a = "optional"
		}
		if m.has {
			b = "present"
		}
		parts = append(parts, a+"+"+b)
	}
	return "[" + strings.Join(parts, ", ") + "]"
}

func c05CallName(c ssa.CallInstruction) string {
	cc := c.Common()
	if cc.IsInvoke() {
		return cc.Method.Name()
	}
	if fn := cc.StaticCallee(); fn != nil {
		return fn.Name()
	}
	return ""
}

func c05IsOptionalCall(c ssa.CallInstruction) bool {
	cc := c.Common()
	if cc.IsInvoke() || c05CallName(c) != "optional" {
		return false
	}
	fn := cc.StaticCallee()
	return fn != nil && fn.Pkg != nil && strings.HasSuffix(fn.Pkg.Pkg.Path(), "lib/mapping") && len(cc.Args) == 1
}

// a lookup of a key in the document: (any, bool) result, one operand a valuer.
func c05IsLookupCall(c ssa.CallInstruction) bool {
	cc := c.Common()
	tup, ok := cc.Signature().Results().Underlying().(*types.Tuple)
	if !ok || tup.Len() != 2 {
		return false
	}
	if b, ok := tup.At(1).Type().Underlying().(*types.Basic); !ok || b.Kind() != types.Bool {
		return false
	}
	ops := append([]ssa.Value{}, cc.Args...)
	if cc.IsInvoke() {
		ops = append(ops, cc.Value)
	}
	for _, a := range ops {
		if strings.Contains(strings.ToLower(a.Type().String()), "valuer") {
			return true
		}
	}
	return false
}

func c05InCycle(b *ssa.BasicBlock) bool {
	seen := map[*ssa.BasicBlock]bool{}
	work := append([]*ssa.BasicBlock{}, b.Succs...)
	for len(work) > 0 {
		x := work[len(work)-1]
		work = work[:len(work)-1]
		if x == b {
			return true
		}
		if seen[x] {
			continue
		}
		seen[x] = true
		work = append(work, x.Succs...)
	}
	return false
}

func c05IsOptionalMemberWalk(f *ssa.Function) bool {
	if f == nil || len(f.Blocks) == 0 {
		return false
	}
	res := f.Signature.Results()
	if res.Len() == 0 || res.At(res.Len()-1).Type().String() != "error" {
		return false
	}
	numField, opt, look := false, false, false
	for _, b := range f.Blocks {
		cyc := -1
		for _, in := range b.Instrs {
			c, ok := in.(ssa.CallInstruction)
			if !ok {
				continue
			}
			if c05CallName(c) == "NumField" {
				numField = true
			}
			isOpt, isLook := c05IsOptionalCall(c), c05IsLookupCall(c)
			if !isOpt && !isLook {
				continue
			}
			if cyc < 0 {
				cyc = 0
				if c05InCycle(b) {
					cyc = 1
				}
			}
			if cyc == 1 {
				opt = opt || isOpt
				look = look || isLook
			}
		}
	}
	return numField && opt && look
}

type c05Nil struct{}
type c05Err struct{}
type c05Cell struct{ v any }

func c05IsErrType(t types.Type) bool { return t != nil && t.String() == "error" }

func c05ZeroOf(t types.Type) any {
	if b, ok := t.Underlying().(*types.Basic); ok {
		switch {
		case b.Info()&types.IsBoolean != 0:
			return false
		case b.Info()&types.IsInteger != 0:
			return int64(0)
		}
	}
	if c05IsErrType(t) {
		return c05Nil{}
	}
	return nil
}

// c05RunWalk evaluates f with the scripted members: 0 = returned a nil error, 1 = returned a
// non-nil error, -1 = not decided. Nothing of the analysed program is executed.
func c05RunWalk(f *ssa.Function, script []c05Member) (int, ssa.Instruction) {
	env := map[ssa.Value]any{}
	cur := int64(-1)
	val := func(v ssa.Value) any {
		if c, ok := v.(*ssa.Const); ok {
			if c.Value == nil {
				if _, basic := c.Type().Underlying().(*types.Basic); basic {
					return c05ZeroOf(c.Type())
				}
				return c05Nil{}
			}
			if b, ok := c.Type().Underlying().(*types.Basic); ok {
				switch {
				case b.Info()&types.IsBoolean != 0:
					return c.Value.String() == "true"
				case b.Info()&types.IsInteger != 0:
					return c.Int64()
				}
			}
			return nil
		}
		return env[v]
	}
	resultOf := func(t types.Type, fresh bool) any {
		one := func(t types.Type) any {
			if c05IsErrType(t) {
				if fresh {
					return c05Err{}
				}
				return c05Nil{}
			}
			return nil
		}
		if tup, ok := t.(*types.Tuple); ok {
			if tup.Len() == 1 {
				return one(tup.At(0).Type())
			}
			out := make([]any, tup.Len())
			for i := range out {
				out[i] = one(tup.At(i).Type())
			}
			return out
		}
		return one(t)
	}
	blk := f.Blocks[0]
	var prev *ssa.BasicBlock
	for steps := 0; steps < 4000; steps++ {
		// φ-nodes in parallel
		pi := -1
		for i, pr := range blk.Preds {
			if pr == prev {
				pi = i
			}
		}
		phiVals := map[*ssa.Phi]any{}
		for _, in := range blk.Instrs {
			ph, ok := in.(*ssa.Phi)
			if !ok {
				break
			}
			if pi < 0 {
				return -1, nil
			}
			phiVals[ph] = val(ph.Edges[pi])
		}
		for ph, v := range phiVals {
			env[ph] = v
		}
		var next *ssa.BasicBlock
		for _, in := range blk.Instrs {
			switch in := in.(type) {
			case *ssa.Phi:
			case *ssa.BinOp:
				env[in] = c05BinOp(in.Op, val(in.X), val(in.Y))
			case *ssa.UnOp:
				x := val(in.X)
				switch in.Op {
				case token.NOT:
					if b, ok := x.(bool); ok {
						env[in] = !b
					}
				case token.SUB:
					if i, ok := x.(int64); ok {
						env[in] = -i
					}
				case token.MUL:
					if c, ok := x.(*c05Cell); ok {
						env[in] = c.v
					}
				}
			case *ssa.Alloc:
				if pt, ok := in.Type().Underlying().(*types.Pointer); ok {
					env[in] = &c05Cell{v: c05ZeroOf(pt.Elem())}
				}
			case *ssa.Store:
				if c, ok := val(in.Addr).(*c05Cell); ok {
					c.v = val(in.Val)
				}
			case *ssa.ChangeType:
				env[in] = val(in.X)
			case *ssa.Convert:
				if _, ok := val(in.X).(int64); ok {
					env[in] = val(in.X)
				}
			case *ssa.Extract:
				if tup, ok := val(in.Tuple).([]any); ok && in.Index < len(tup) {
					env[in] = tup[in.Index]
				}
			case *ssa.Call:
				name := c05CallName(in)
				cc := in.Common()
				switch {
				case name == "NumField":
					env[in] = int64(len(script))
				case c05IsOptionalCall(in):
					if cur < 0 || int(cur) >= len(script) {
						return -1, nil
					}
					env[in] = script[cur].opt
				case c05IsLookupCall(in):
					if cur < 0 || int(cur) >= len(script) {
						return -1, nil
					}
					env[in] = []any{nil, script[cur].has}
				default:
					if name == "Field" {
						for _, a := range cc.Args {
							if i, ok := val(a).(int64); ok {
								cur = i
							}
						}
					}
					fresh := false
					if fn := cc.StaticCallee(); fn != nil && fn.Pkg != nil {
						q := fn.Pkg.Pkg.Path() + "." + fn.Name()
						fresh = q == "fmt.Errorf" || q == "errors.New"
					}
					env[in] = resultOf(cc.Signature().Results(), fresh)
				}
			case *ssa.If:
				b, ok := val(in.Cond).(bool)
				if !ok {
					return -1, nil
				}
				if b {
					next = blk.Succs[0]
				} else {
					next = blk.Succs[1]
				}
			case *ssa.Jump:
				next = blk.Succs[0]
			case *ssa.Return:
				if len(in.Results) == 0 {
					return -1, nil
				}
				switch val(in.Results[len(in.Results)-1]).(type) {
				case c05Nil:
					return 0, in
				case c05Err:
					return 1, in
				}
				return -1, nil
			case *ssa.Panic:
				return -1, nil
			}
		}
		if next == nil {
			return -1, nil
		}
		prev, blk = blk, next
	}
	return -1, nil
}

func c05BinOp(op token.Token, x, y any) any {
	switch a := x.(type) {
	case int64:
		b, ok := y.(int64)
		if !ok {
			return nil
		}
		switch op {
		case token.ADD:
			return a + b
		case token.SUB:
			return a - b
		case token.MUL:
			return a * b
		case token.EQL:
			return a == b
		case token.NEQ:
			return a != b
		case token.LSS:
			return a < b
		case token.LEQ:
			return a <= b
		case token.GTR:
			return a > b
		case token.GEQ:
			return a >= b
		}
	case bool:
		b, ok := y.(bool)
		if !ok {
			return nil
		}
		switch op {
		case token.EQL:
			return a == b
		case token.NEQ:
			return a != b
		case token.AND:
			return a && b
		case token.OR:
			return a || b
		}
	case c05Nil, c05Err:
		_, xn := x.(c05Nil)
		var yn bool
		switch y.(type) {
		case c05Nil:
			yn = true
		case c05Err:
			yn = false
		default:
			return nil
		}
		if !xn && !yn {
			return nil
		}
		switch op {
		case token.EQL:
			return xn == yn
		case token.NEQ:
			return xn != yn
		}
	}
	return nil
}

var _ = fmt.Sprint
