package props

import (
	"godcheck/core"

	"golang.org/x/tools/go/ssa"
)

// c11R11: rule written for the independently seeded change C11-xm1 (the scan target of the row loop
// of unmarshalRows is allocated once before the loop and reused for every row: the elements appended
// for a []struct destination are shallow copies, so pointer-typed fields – which the mapper only
// allocates when nil – are shared by all rows and every row shows the last row's value).
func c11R11(r *core.Run) {
	p := r.P
	r.Explanation += " That every row of a many-row result is scanned into a destination of its own: a reflect.New whose value (or anything derived from it by Elem/Addr/Interface/Indirect/ValueOf, a φ or a conversion) is used inside a loop over Next() is executed inside that loop and does not travel over the loop's back edge."
	r.NotDecided += " Row targets: only targets made by reflect.New in the function that loops over Next() (new helpers are seen through the inlined variants); a target kept across rows is accepted when the loop resets it ((reflect.Value).Set/SetZero on it or on its Elem) – that the reset value is the zero value is not decided; a reuse guarded by a proof that the element type holds no pointer at any depth would be reported although it is equivalent."

	r.Check("D3/K1/row-target-allocated-per-row", "in every function of lib/store/sqlx that loops over Next(), a scan target made by reflect.New that the loop uses is made inside the loop, once per row, and is not carried over the loop's back edge: no row is scanned into storage an earlier row was scanned into [a query result is copied into the destination for every destination shape (pointer fields, slices of structs, slices of pointers) and many rows: the element appended for a row is a shallow copy of the target or the target itself; a target that outlives its row keeps the pointer fields the mapper allocates only when nil, so all elements share them and every row shows the last row's values – silently]", func(o *core.O) {
		isNext := core.Or(core.CallMethod("sqlx.rowsScanner", "Next"), core.CallMethod("sql.Rows", "Next"))
		n := 0
		loops := 0
		for _, g := range p.PkgFuncs(sqlx) {
			inLoop := map[*ssa.BasicBlock]bool{}
			for _, c := range core.Calls(g, isNext) {
				for b := range c11CycleBlocks(c.Block()) {
					inLoop[b] = true
				}
			}
			if len(inLoop) == 0 {
				continue
			}
			loops++
			r.Fn(core.FuncName(g))
			for _, a := range core.Calls(g, core.CallTo("reflect.New")) {
				av, ok := a.(ssa.Value)
				if !ok {
					continue
				}
				used, carried, reset := c11TargetUses(av, inLoop)
				if used == nil {
					continue // not a target of the row loop
				}
				n++
				if reset {
					continue
				}
				if !inLoop[a.Block()] {
					o.Fail(p.InstrPos(a), "%s allocates a scan target once, outside the loop over Next(), and uses it for every row (%s): the elements appended for the rows are shallow copies of one struct (or one pointer), so pointer-typed fields – allocated by the mapper only when nil – are shared and all rows of the result show the last row's values", core.FuncName(g), p.InstrPos(used))
					continue
				}
				if carried != nil {
					o.Fail(p.InstrPos(a), "%s keeps the scan target of one row for the following rows (it travels over the back edge of the loop over Next() through %s): the elements appended for the rows share the target's pointer-typed fields, and all rows show the last row's values", core.FuncName(g), p.InstrPos(carried))
				}
			}
		}
		if loops == 0 {
			o.Unres("no function of lib/store/sqlx calls Next() on the rows inside a loop")
			return
		}
		if n == 0 {
			o.Unres("no reflect.New feeds the loop over Next() of a function of lib/store/sqlx: the allocation of the per-row scan target was not found")
			return
		}
		o.Site(n, sqlx)
	})
}

// c11CycleBlocks: the blocks that lie on a cycle through b (empty when b is not in a loop).
func c11CycleBlocks(b *ssa.BasicBlock) map[*ssa.BasicBlock]bool {
	fwd := map[*ssa.BasicBlock]bool{}
	var walk func(x *ssa.BasicBlock, seen map[*ssa.BasicBlock]bool, next func(*ssa.BasicBlock) []*ssa.BasicBlock)
	walk = func(x *ssa.BasicBlock, seen map[*ssa.BasicBlock]bool, next func(*ssa.BasicBlock) []*ssa.BasicBlock) {
		for _, s := range next(x) {
			if !seen[s] {
				seen[s] = true
				walk(s, seen, next)
			}
		}
	}
	walk(b, fwd, func(x *ssa.BasicBlock) []*ssa.BasicBlock { return x.Succs })
	if !fwd[b] {
		return nil
	}
	bwd := map[*ssa.BasicBlock]bool{}
	walk(b, bwd, func(x *ssa.BasicBlock) []*ssa.BasicBlock { return x.Preds })
	out := map[*ssa.BasicBlock]bool{}
	for x := range fwd {
		if bwd[x] {
			out[x] = true
		}
	}
	return out
}

// c11TargetUses follows the value of an allocation forward through what is still the same target
// (φ, conversions, Elem/Addr/Interface/Indirect/ValueOf) and reports an instruction inside the loop
// that uses it (nil: none), a loop-header φ the target passes through on its way to a use inside the
// loop (the target survives the back edge), and whether the loop resets the target.
func c11TargetUses(a ssa.Value, inLoop map[*ssa.BasicBlock]bool) (used, carried ssa.Instruction, reset bool) {
	type item struct {
		v     ssa.Value
		carry ssa.Instruction
	}
	seen := map[ssa.Value]bool{a: true}
	work := []item{{a, nil}}
	for len(work) > 0 {
		it := work[0]
		work = work[1:]
		refs := it.v.Referrers()
		if refs == nil {
			continue
		}
		for _, in := range *refs {
			if _, dbg := in.(*ssa.DebugRef); dbg {
				continue
			}
			carry := it.carry
			var nextv ssa.Value
			switch x := in.(type) {
			case *ssa.Phi:
				nextv = x
				if inLoop[x.Block()] && carry == nil {
					for _, pr := range x.Block().Preds {
						if !inLoop[pr] {
							carry = x // a φ at the loop's entry: merges the value of the previous iteration
							break
						}
					}
				}
			case *ssa.MakeInterface:
				nextv = x
			case *ssa.ChangeType:
				nextv = x
			case *ssa.ChangeInterface:
				nextv = x
			case *ssa.TypeAssert:
				if !x.CommaOk {
					nextv = x
				}
			case *ssa.Call:
				switch core.CalleeName(x) {
				case "(reflect.Value).Elem", "(reflect.Value).Addr", "(reflect.Value).Interface", "reflect.Indirect", "reflect.ValueOf", "(reflect.Value).Convert":
					nextv = x
				case "(reflect.Value).Set", "(reflect.Value).SetZero":
					if inLoop[x.Block()] && len(x.Call.Args) > 0 && x.Call.Args[0] == it.v {
						reset = true
					}
				}
			}
			if _, isPhi := in.(*ssa.Phi); !isPhi && inLoop[in.Block()] {
				if used == nil {
					used = in
				}
				if carry != nil && carried == nil {
					carried = carry
				}
			}
			if nextv != nil && !seen[nextv] {
				seen[nextv] = true
				work = append(work, item{nextv, carry})
			}
		}
	}
	return
}
