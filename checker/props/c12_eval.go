package props

import (
	"fmt"
	"go/constant"
	"go/token"
	"go/types"
	"sort"
	"strings"

	"godcheck/core"

	"golang.org/x/tools/go/ssa"
)

// Deciding a predicate over an error value by evaluation (K13).
//
// acceptable(err) is a function of one interface value that can only tell
// errors apart by comparing err with fixed values: nil, a constant boxed into
// an interface (redis.Nil) or a package-level sentinel variable
// (context.Canceled). Its truth set is therefore decided by running it, in a
// small interpreter over its SSA, once on every such value it mentions – in its
// own comparisons or in a package-level table it scans – and once on an error
// that equals none of them. That is independent of how the membership test is
// spelled (||-chain, switch, early returns, a loop over an array or slice of
// sentinels, an index loop, a helper). core.Eval cannot be used: it computes over
// scalar constants, and the elements here are interface values.
//
// Nothing of the analysed program is executed; anything outside the fragment
// (stores, foreign calls, a table that is written anywhere but in its
// initialiser) makes the evaluation fail and the obligation unresolved.

// c12sent is an error value known by name; c12other is an error that is
// identical to no value the program names.
type c12sent string

const c12other c12sent = "an error it does not name"

type c12ptr struct {
	arr []any
	idx int
}

type c12evalFail struct{ why string }

type c12ev struct {
	name   func(ssa.Value) string // the rule's names of the values it cares about ("" = none)
	steps  int
	depth  int
	seen   map[c12sent]bool // every named value met: compared, loaded, or held in a table
	tables map[*ssa.Global][]any
}

func (e *c12ev) fail(format string, args ...any) { panic(c12evalFail{fmt.Sprintf(format, args...)}) }

// run evaluates fn on one argument; why explains a failure.
func (e *c12ev) run(fn *ssa.Function, arg any) (res []any, why string) {
	e.steps = 20000
	e.depth = 0
	defer func() {
		if r := recover(); r != nil {
			f, ok := r.(c12evalFail)
			if !ok {
				panic(r)
			}
			res, why = nil, f.why
		}
	}()
	return e.call(fn, []any{arg}), ""
}

// sentinel names v when it is a fixed error value by itself: what the rule
// names, nil, a constant boxed into an interface, or a load of a package-level
// variable of interface type (sentinels are taken never to be reassigned, as the
// comparison-based form of the rule did).
func (e *c12ev) sentinel(v ssa.Value) (c12sent, bool) {
	if _, isIface := v.Type().Underlying().(*types.Interface); !isIface {
		return "", false
	}
	if n := e.name(v); n != "" {
		return c12sent(n), true
	}
	switch x := v.(type) {
	case *ssa.Const:
		if x.Value == nil {
			return "nil", true
		}
	case *ssa.MakeInterface:
		if c, ok := x.X.(*ssa.Const); ok && c.Value != nil {
			return c12sent(c.Type().String() + "(" + c.Value.ExactString() + ")"), true
		}
	case *ssa.ChangeInterface:
		return e.sentinel(x.X)
	case *ssa.UnOp:
		if g, ok := x.X.(*ssa.Global); ok && x.Op == token.MUL && g.Pkg != nil {
			return c12sent(core.Short(g.Pkg.Pkg.Path()) + "." + g.Name()), true
		}
	}
	return "", false
}

func (e *c12ev) call(fn *ssa.Function, args []any) []any {
	if fn == nil || len(fn.Blocks) == 0 || len(args) != len(fn.Params) || fn.Recover != nil {
		e.fail("%s cannot be evaluated (no body, defers or a different arity)", core.FuncName(fn))
	}
	if e.depth > 6 {
		e.fail("calls nested too deeply")
	}
	e.depth++
	defer func() { e.depth-- }()
	env := map[ssa.Value]any{}
	for i, prm := range fn.Params {
		env[prm] = args[i]
	}
	var prev *ssa.BasicBlock
	b := fn.Blocks[0]
	for {
		newPhi := map[ssa.Value]any{}
		for _, in := range b.Instrs {
			phi, ok := in.(*ssa.Phi)
			if !ok {
				break
			}
			idx := -1
			for i, pr := range b.Preds {
				if pr == prev {
					idx = i
				}
			}
			if idx < 0 {
				e.fail("φ without a predecessor")
			}
			newPhi[phi] = e.val(env, phi.Edges[idx])
		}
		for k, v := range newPhi {
			env[k] = v
		}
		for _, in := range b.Instrs {
			if e.steps--; e.steps <= 0 {
				e.fail("%s does not terminate within the step bound", core.FuncName(fn))
			}
			switch x := in.(type) {
			case *ssa.Phi, *ssa.DebugRef:
			case *ssa.Return:
				var out []any
				for _, r := range x.Results {
					out = append(out, e.val(env, r))
				}
				return out
			case *ssa.Jump:
				prev, b = b, b.Succs[0]
			case *ssa.If:
				c, ok := core.AsBool(e.val(env, x.Cond))
				if !ok {
					e.fail("branch on a value that is not a boolean")
				}
				if c {
					prev, b = b, b.Succs[0]
				} else {
					prev, b = b, b.Succs[1]
				}
			case ssa.Value:
				env[x] = e.instr(env, x)
			default:
				e.fail("%s has an effect (%T): not a pure predicate", core.FuncName(fn), in)
			}
		}
	}
}

func (e *c12ev) val(env map[ssa.Value]any, v ssa.Value) any {
	if r, ok := env[v]; ok {
		return r
	}
	if s, ok := e.sentinel(v); ok {
		if _, isInstr := v.(ssa.Instruction); !isInstr { // constants; instructions are evaluated where they stand
			e.seen[s] = true
			return s
		}
	}
	if c, ok := v.(*ssa.Const); ok && c.Value != nil {
		return c.Value
	}
	e.fail("value %s is not known", core.Describe(v))
	return nil
}

func (e *c12ev) instr(env map[ssa.Value]any, v ssa.Value) any {
	if s, ok := e.sentinel(v); ok {
		e.seen[s] = true
		return s
	}
	switch x := v.(type) {
	case *ssa.BinOp:
		a, b := e.val(env, x.X), e.val(env, x.Y)
		sa, aSent := a.(c12sent)
		sb, bSent := b.(c12sent)
		if aSent || bSent {
			if !aSent || !bSent || (x.Op != token.EQL && x.Op != token.NEQ) {
				e.fail("an error value is used in %s", x.Op)
			}
			return constant.MakeBool((sa == sb) == (x.Op == token.EQL))
		}
		ca, aok := a.(constant.Value)
		cb, bok := b.(constant.Value)
		if !aok || !bok {
			e.fail("operands of %s are not constants", x.Op)
		}
		switch x.Op {
		case token.EQL, token.NEQ, token.LSS, token.LEQ, token.GTR, token.GEQ:
			return constant.MakeBool(constant.Compare(ca, x.Op, cb))
		case token.ADD, token.SUB, token.MUL, token.AND, token.OR, token.XOR:
			if ca.Kind() == constant.Int && cb.Kind() == constant.Int {
				r := constant.BinaryOp(ca, x.Op, cb)
				if _, exact := constant.Int64Val(r); exact { // index arithmetic only: no wrap-around modelled
					return r
				}
			}
		}
		e.fail("operator %s is not modelled", x.Op)
	case *ssa.UnOp:
		switch x.Op {
		case token.NOT:
			b, ok := core.AsBool(e.val(env, x.X))
			if !ok {
				e.fail("! of a non-boolean")
			}
			return constant.MakeBool(!b)
		case token.MUL:
			if g, ok := x.X.(*ssa.Global); ok {
				return e.table(g)
			}
			if pt, ok := e.val(env, x.X).(c12ptr); ok {
				return pt.arr[pt.idx]
			}
		}
		e.fail("%s is not modelled", core.Describe(x))
	case *ssa.Index:
		arr, ok := e.val(env, x.X).([]any)
		i, iok := core.AsInt(e.val(env, x.Index))
		if !ok || !iok || i < 0 || int(i) >= len(arr) {
			e.fail("index out of range (would panic)")
		}
		return arr[i]
	case *ssa.IndexAddr:
		var arr []any
		if g, ok := x.X.(*ssa.Global); ok {
			arr = e.table(g)
		} else {
			arr, _ = e.val(env, x.X).([]any)
		}
		i, iok := core.AsInt(e.val(env, x.Index))
		if arr == nil || !iok || i < 0 || int(i) >= len(arr) {
			e.fail("index out of range (would panic)")
		}
		return c12ptr{arr, int(i)}
	case *ssa.ChangeType:
		return e.val(env, x.X)
	case *ssa.ChangeInterface:
		return e.val(env, x.X)
	case *ssa.Extract:
		t, ok := e.val(env, x.Tuple).([]any)
		if !ok || x.Index >= len(t) {
			e.fail("extract of a non-tuple")
		}
		return t[x.Index]
	case *ssa.Call:
		if bi, ok := x.Call.Value.(*ssa.Builtin); ok {
			if bi.Name() == "len" && len(x.Call.Args) == 1 {
				if arr, ok := e.val(env, x.Call.Args[0]).([]any); ok {
					return constant.MakeInt64(int64(len(arr)))
				}
			}
			e.fail("builtin %s is not modelled", bi.Name())
		}
		callee := x.Call.StaticCallee()
		if callee == nil || x.Call.IsInvoke() || callee.Pkg == nil || callee.Pkg != x.Parent().Pkg {
			e.fail("calls %s, which is outside the package: errors are no longer told apart by identity alone", core.Short(core.CalleeName(x)))
		}
		var args []any
		for _, a := range x.Call.Args {
			args = append(args, e.val(env, a))
		}
		res := e.call(callee, args)
		if len(res) == 1 {
			return res[0]
		}
		return res
	}
	e.fail("%s (%T) is not modelled", core.Describe(v), v)
	return nil
}

// table is the content of a package-level array or slice variable that is
// provably constant: unexported, written exactly once – by the package
// initialiser, from a composite literal whose elements are fixed values – and
// otherwise only read (indexed, measured, ranged over).
func (e *c12ev) table(g *ssa.Global) []any {
	if t, ok := e.tables[g]; ok {
		if t == nil {
			e.fail("%s is not a constant table", g.Name())
		}
		return t
	}
	e.tables[g] = nil
	t, why := e.readTable(g)
	if t == nil {
		e.fail("%s is not a constant table: %s", g.Name(), why)
	}
	e.tables[g] = t
	for _, el := range t {
		if s, ok := el.(c12sent); ok {
			e.seen[s] = true
		}
	}
	return t
}

func (e *c12ev) readTable(g *ssa.Global) ([]any, string) {
	if g.Pkg == nil || g.Object() == nil || g.Object().Exported() {
		return nil, "exported or synthetic variable (other packages may write it)"
	}
	var elem types.Type
	n := int64(-1)
	switch t := g.Type().Underlying().(*types.Pointer).Elem().Underlying().(type) {
	case *types.Array:
		elem, n = t.Elem(), t.Len()
	case *types.Slice:
		elem = t.Elem()
	default:
		return nil, "not an array or slice"
	}
	initFn := g.Pkg.Func("init")
	var store *ssa.Store
	inPlace := map[int64]ssa.Value{}
	for _, f := range core.SSAPkgFuncs(g.Pkg.Prog, g.Pkg) {
		for _, b := range f.Blocks {
			for _, in := range b.Instrs {
				uses := false
				for _, op := range in.Operands(nil) {
					if *op == ssa.Value(g) {
						uses = true
					}
				}
				if !uses {
					continue
				}
				where := core.FuncName(f)
				switch x := in.(type) {
				case *ssa.Store:
					if x.Addr != ssa.Value(g) || f != initFn || store != nil {
						return nil, "assigned in " + where
					}
					store = x
				case *ssa.UnOp:
					if x.Op != token.MUL || !c12readOnly(x, 0) {
						return nil, "its value is handed on or modified in " + where
					}
				case *ssa.IndexAddr:
					if x.X != ssa.Value(g) {
						return nil, "used as an index in " + where
					}
					if f == initFn { // element initialised in place
						i, isC := core.ConstInt(x.Index)
						st := c12soleStore(x)
						if _, dup := inPlace[i]; !isC || st == nil || dup {
							return nil, "element written in a way that is not a literal initialisation"
						}
						inPlace[i] = st.Val
					} else if !c12onlyLoaded(x) {
						return nil, "an element is written or its address taken in " + where
					}
				case *ssa.DebugRef:
				default:
					return nil, "its address is used in " + where
				}
			}
		}
	}
	elems := map[int64]ssa.Value{}
	switch {
	case store != nil && len(inPlace) == 0:
		// the literal: a local array filled element by element, stored whole (array) or sliced (slice)
		var lit *ssa.Alloc
		switch x := store.Val.(type) {
		case *ssa.UnOp:
			lit, _ = x.X.(*ssa.Alloc)
		case *ssa.Slice:
			if x.Low == nil && x.High == nil && x.Max == nil {
				lit, _ = x.X.(*ssa.Alloc)
			}
		}
		if lit == nil || lit.Parent() != initFn {
			return nil, "not initialised by a composite literal"
		}
		arr, ok := lit.Type().Underlying().(*types.Pointer).Elem().Underlying().(*types.Array)
		if !ok {
			return nil, "not initialised by a composite literal"
		}
		n = arr.Len()
		for _, r := range *lit.Referrers() {
			switch x := r.(type) {
			case *ssa.IndexAddr:
				i, isC := core.ConstInt(x.Index)
				st := c12soleStore(x)
				if _, dup := elems[i]; !isC || st == nil || dup || x.X != ssa.Value(lit) {
					return nil, "literal element written more than once or at a computed index"
				}
				elems[i] = st.Val
			case *ssa.UnOp, *ssa.Slice:
				if rv, _ := r.(ssa.Value); rv != store.Val {
					return nil, "the literal's backing array is used elsewhere"
				}
			case *ssa.DebugRef:
			default:
				return nil, "the literal's backing array is used elsewhere"
			}
		}
	case store == nil && n >= 0:
		elems = inPlace
	default:
		return nil, "not initialised exactly once"
	}
	out := make([]any, n)
	for i := range out {
		v, ok := elems[int64(i)]
		if !ok { // left at the zero value
			if _, isIface := elem.Underlying().(*types.Interface); !isIface {
				return nil, "element left at a zero value that is not modelled"
			}
			out[i] = c12sent("nil")
			continue
		}
		if s, ok := e.sentinel(v); ok {
			out[i] = s
		} else if c, ok := v.(*ssa.Const); ok && c.Value != nil {
			out[i] = c.Value
		} else {
			return nil, fmt.Sprintf("element %d is %s, not a fixed value", i, core.Describe(v))
		}
	}
	for i := range elems {
		if i < 0 || i >= n {
			return nil, "element index out of range"
		}
	}
	return out, ""
}

// c12soleStore: the address is used for exactly one store and nothing else.
func c12soleStore(ia *ssa.IndexAddr) *ssa.Store {
	var st *ssa.Store
	for _, r := range *ia.Referrers() {
		switch x := r.(type) {
		case *ssa.Store:
			if x.Addr != ssa.Value(ia) || st != nil {
				return nil
			}
			st = x
		case *ssa.DebugRef:
		default:
			return nil
		}
	}
	return st
}

func c12onlyLoaded(ia *ssa.IndexAddr) bool {
	for _, r := range *ia.Referrers() {
		switch x := r.(type) {
		case *ssa.UnOp:
			if x.Op != token.MUL {
				return false
			}
		case *ssa.DebugRef:
		default:
			return false
		}
	}
	return true
}

// c12readOnly: a loaded array/slice value is only indexed, measured or merged.
func c12readOnly(v ssa.Value, d int) bool {
	if v.Referrers() == nil || d > 4 {
		return false
	}
	for _, r := range *v.Referrers() {
		switch x := r.(type) {
		case *ssa.Index, *ssa.DebugRef:
		case *ssa.IndexAddr:
			if x.X != v || !c12onlyLoaded(x) {
				return false
			}
		case *ssa.Call:
			if bi, ok := x.Call.Value.(*ssa.Builtin); ok {
				if bi.Name() != "len" && bi.Name() != "cap" {
					return false
				}
				continue
			}
			// handed to a helper of the same package that only reads it
			callee := x.Call.StaticCallee()
			if callee == nil || x.Call.IsInvoke() || callee.Pkg == nil || callee.Pkg != x.Parent().Pkg || len(callee.Blocks) == 0 || len(callee.Params) != len(x.Call.Args) {
				return false
			}
			for i, a := range x.Call.Args {
				if a == v && !c12readOnly(callee.Params[i], d+1) {
					return false
				}
			}
		case *ssa.Phi:
			if !c12readOnly(x, d+1) {
				return false
			}
		default:
			return false
		}
	}
	return true
}

// c12checkErrorSet decides that the predicate f(err) is true exactly for the
// error values named in want: f is evaluated on each of them, on every other
// fixed value it mentions (in a comparison or in a constant table), and on an
// error identical to none of them.
func c12checkErrorSet(o *core.O, p *core.Prog, f *ssa.Function, want map[string]bool, name func(ssa.Value) string) {
	e := &c12ev{name: name, seen: map[c12sent]bool{}, tables: map[*ssa.Global][]any{}}
	// values mentioned anywhere in f, also on paths the evaluation does not take
	for _, b := range f.Blocks {
		for _, in := range b.Instrs {
			for _, op := range in.Operands(nil) {
				if *op != nil {
					if s, ok := e.sentinel(*op); ok {
						e.seen[s] = true
					}
				}
			}
		}
	}
	queue := []c12sent{c12other}
	for n := range want {
		queue = append(queue, c12sent(n))
	}
	sort.Slice(queue, func(i, j int) bool { return queue[i] < queue[j] })
	done := map[c12sent]bool{}
	where := p.Pos(f.Pos())
	for len(queue) > 0 && len(done) < 64 {
		x := queue[0]
		queue = queue[1:]
		if done[x] {
			continue
		}
		done[x] = true
		o.Site(1)
		res, why := e.run(f, x)
		if res == nil {
			o.Unres("%s cannot be evaluated on err = %s: %s", core.FuncName(f), x, why)
			return
		}
		got, isBool := false, false
		if len(res) == 1 {
			got, isBool = core.AsBool(res[0])
		}
		switch {
		case !isBool:
			o.Unres("%s does not answer a boolean on err = %s", core.FuncName(f), x)
			return
		case want[string(x)] && !got:
			o.Fail(where, "%s no longer accepts %s: that outcome now counts as a failure and trips the breaker", core.FuncName(f), x)
		case !want[string(x)] && got && x == c12other:
			o.Fail(where, "%s also accepts %s: real failures never trip the breaker", core.FuncName(f), x)
		case !want[string(x)] && got:
			o.Fail(where, "%s also accepts %s", core.FuncName(f), x)
		}
		var more []c12sent
		for s := range e.seen {
			if !done[s] {
				more = append(more, s)
			}
		}
		sort.Slice(more, func(i, j int) bool { return more[i] < more[j] })
		queue = append(queue, more...)
	}
	var names []string
	for n := range want {
		if !done[c12sent(n)] {
			names = append(names, n)
		}
	}
	if len(names) > 0 {
		o.Unres("%s was not evaluated on %s", core.FuncName(f), strings.Join(names, ", "))
	}
}
