package props

import (
	"fmt"
	"go/token"
	"go/types"
	"sort"
	"strings"

	"godcheck/core"

	"golang.org/x/tools/go/ssa"
)

func init() { register("C12", c12) }

const (
	c12redisPkg = "lib/store/redis"
	c12kvPkg    = "lib/store/kv"
	c12goRedis  = "github.com/go-redis/redis"
)

// c12exc is one line of the reasoned exception table (DESIGN Appendix A.2,
// re-confirmed against the code). Everything not listed follows the majority
// rule: go-redis method of the wrapper's own name, node from getRedis(r),
// inside r.brk.DoWithAcceptable(…, acceptable), ctx first, parameters in
// declaration order through type-directed conversions only, no constant
// arguments, the command's error handed to the breaker and to the caller.
type c12exc struct {
	callee    string  // go-redis method when it is not the wrapper's name without "Ctx"
	delegate  string  // the wrapper forwards to this sibling wrapper instead of calling go-redis
	noBreaker bool    // runs outside the breaker
	nodeParam bool    // node is supplied by the caller
	consts    []int64 // constant command arguments, in order
	swallow   string  // "nil": redis.Nil becomes (zero value, nil); "caller": the wrapper has no error result (any error reads as false) – the breaker still gets the error
	earlyNil  bool    // returns nil before the command when the last parameter (size) is ≤ 0
	product   string  // leaf that is the product of two consecutive parameters
	loopBuilt bool    // a variadic argument is built element-wise in a loop over a parameter
	elem1     bool    // the value is element [1] of the reply (BLPOP answers [key, value])
	why       string
}

var c12exceptions = map[string]c12exc{
	"SetCtx":         {consts: []int64{0}, why: "SET without expiry: go-redis takes expiration 0"},
	"SetExCtx":       {callee: "Set", why: "SET with expiry is go-redis Set with expiration seconds·time.Second"},
	"SetNXCtx":       {consts: []int64{0}, why: "SETNX without expiry: expiration 0"},
	"SetNXExCtx":     {callee: "SetNX", why: "SET NX EX is go-redis SetNX with expiration seconds·time.Second"},
	"SRandMemberCtx": {callee: "SRandMemberN", why: "the wrapper always asks for count members"},
	"ZAddFloatCtx":   {callee: "ZAdd", why: "single member as red.Z{Score, Member}"},
	"ZAddsCtx":       {callee: "ZAdd", loopBuilt: true, why: "members converted pair by pair to []*red.Z"},
	"ZAddCtx":        {delegate: "ZAddFloatCtx", why: "integer score widened to float64"},
	"ZRangeByScoreWithScoresAndLimitCtx": {callee: "ZRangeByScoreWithScores", earlyNil: true, product: "ZRangeBy.Offset",
		why: "paging through ZRangeBy{Offset: page·size, Count: size}; size ≤ 0 answers empty without a round trip"},
	"ZRevRangeByScoreWithScoresAndLimitCtx": {callee: "ZRevRangeByScoreWithScores", earlyNil: true, product: "ZRangeBy.Offset",
		why: "paging through ZRangeBy{Offset: page·size, Count: size}; size ≤ 0 answers empty without a round trip"},
	"BLPopCtx":            {delegate: "BLPopWithTimeoutCtx", consts: []int64{5_000_000_000}, why: "default blocking timeout blockingQueryTimeout = 5 s"},
	"BLPopExCtx":          {callee: "BLPop", noBreaker: true, nodeParam: true, consts: []int64{5_000_000_000}, elem1: true, why: "blocking pop on a caller-supplied dedicated connection, documented as outside the breaker"},
	"BLPopWithTimeoutCtx": {callee: "BLPop", noBreaker: true, nodeParam: true, elem1: true, why: "blocking pop on a caller-supplied dedicated connection, documented as outside the breaker"},
	// ScriptLoadCtx was tabled as running outside the breaker ("as upstream") until round 9: it uses the shared
	// client of getRedis like every other command, so its failures have to count and an open breaker has to stop it.
	"PingCtx":   {swallow: "caller", why: "liveness probe: the caller is shown false for any error; the closure still returns the error to the breaker"},
	"GetCtx":    {swallow: "nil", why: "documented: an absent key reads as \"\" without error"},
	"GetSetCtx": {swallow: "nil", why: "documented: no previous value reads as \"\" without error"},
	"HMSetCtx":  {why: "map[string]string copied entry by entry to map[string]any (checked as a map-copy shape)"},
}

// kv.Store methods that forward to a sibling kv.Store method (which routes) instead of routing themselves.
var c12kvDelegates = map[string]string{"ZAddCtx": "ZAddFloatCtx"} // integer score widened to float64, as in redis.Redis

// kv.Store methods whose redis.Redis counterpart is spelled differently.
var c12kvNames = map[string]string{"HSetNxCtx": "HSetNXCtx"}

// c12wrap is what is extracted from one XxxCtx wrapper.
type c12wrap struct {
	name  string
	fn    *ssa.Function
	w     *c12fn
	cmds  []ssa.CallInstruction // go-redis command calls (invoke on Node / Cmdable)
	cmdFn *ssa.Function         // function (closure) holding the command call
	deleg []*ssa.Call           // calls to sibling wrappers
	exc   c12exc
}

func c12isGoRedisInvoke(c ssa.CallInstruction) bool {
	cc := c.Common()
	return cc.IsInvoke() && cc.Method.Pkg() != nil && strings.HasPrefix(cc.Method.Pkg().Path(), c12goRedis)
}

func c12extract(fn *ssa.Function) *c12wrap {
	x := &c12wrap{name: fn.Name(), fn: fn, w: newC12fn(fn), exc: c12exceptions[fn.Name()]}
	for _, f := range c12closures(fn) {
		for _, c := range core.Calls(f, func(in ssa.Instruction) bool { return core.AsCall(in) != nil }) {
			if c12isGoRedisInvoke(c) {
				x.cmds = append(x.cmds, c)
				x.cmdFn = f
			} else if call, ok := c.(*ssa.Call); ok {
				n := core.Short(core.CalleeName(c))
				if strings.HasPrefix(n, "(*"+c12redisPkg+".Redis).") && strings.HasSuffix(n, "Ctx") {
					x.deleg = append(x.deleg, call)
				}
			}
		}
	}
	return x
}

// hops: when the closure holding the command is not itself handed to the
// breaker but applied by another closure of the wrapper (what is left of a
// higher-order helper such as withNode(fn func(Node) error) once the loader has
// inlined it: the helper's closure calls the wrapper's literal with the node),
// hops lists those applications from the command closure outwards and outer is
// the closure that remains: the one that has to be handed to the breaker.
func (x *c12wrap) hops() (calls []*ssa.Call, outer *ssa.Function) {
	outer = x.cmdFn
	for i := 0; i < 3 && outer != nil && outer != x.fn; i++ {
		c := x.w.soleCallOf(x.w.mcs[outer])
		if c == nil || c.Parent() == x.fn {
			break
		}
		calls = append(calls, c)
		outer = c.Parent()
	}
	return
}

// hopArg follows a parameter of the command closure to the argument it is
// applied to (see hops); any other value is returned unchanged.
func (x *c12wrap) hopArg(v ssa.Value) ssa.Value {
	calls, _ := x.hops()
	callee := x.cmdFn
	for _, h := range calls {
		prm, ok := v.(*ssa.Parameter)
		if !ok || prm.Parent() != callee {
			break
		}
		for i, q := range callee.Params {
			if q == prm && i < len(h.Call.Args) {
				v = core.Forward(h.Call.Args[i])
			}
		}
		callee = h.Parent()
	}
	return v
}

// cmd returns the single command call, or nil.
func (x *c12wrap) cmd() ssa.CallInstruction {
	if len(x.cmds) == 1 {
		return x.cmds[0]
	}
	return nil
}

// results of the command: errVals are the SSA values carrying the command's
// error, res(v) names the values carrying its reply ("res#i").
func (x *c12wrap) cmdResults() (errVals map[ssa.Value]bool, res func(ssa.Value) string) {
	errVals = map[ssa.Value]bool{}
	names := map[ssa.Value]string{}
	cv, ok := x.cmd().(*ssa.Call)
	if !ok {
		return errVals, func(ssa.Value) string { return "" }
	}
	tupleOf := func(call *ssa.Call) {
		tup, ok := call.Type().(*types.Tuple)
		if !ok {
			return
		}
		for _, r := range *call.Referrers() {
			if e, ok := r.(*ssa.Extract); ok {
				if e.Index == tup.Len()-1 {
					errVals[e] = true
				} else {
					names[e] = fmt.Sprintf("res#%d", e.Index)
				}
			}
		}
	}
	if _, isTuple := cv.Type().(*types.Tuple); isTuple { // Pipelined: ([]Cmder, error)
		tupleOf(cv)
	}
	var recvs []ssa.Value = []ssa.Value{cv}
	for _, r := range *cv.Referrers() {
		if fa, ok := r.(*ssa.FieldAddr); ok { // embedded baseCmd
			recvs = append(recvs, fa)
		}
	}
	for _, rv := range recvs {
		for _, r := range *rv.Referrers() {
			call, ok := r.(*ssa.Call)
			if !ok || call.Call.IsInvoke() || len(call.Call.Args) == 0 || call.Call.Args[0] != rv {
				continue
			}
			switch c12methodName(call) {
			case "Result":
				tupleOf(call)
			case "Err":
				errVals[call] = true
			case "Val":
				names[call] = "res#0"
			}
		}
	}
	return errVals, func(v ssa.Value) string { return names[v] }
}

func c12(r *core.Run) {
	p := r.P
	defer c12Extra(r)
	r.Explanation = "Decides, for every method of redis.Redis and kv.kvStore on the current source: each context-free method forwards to its …Ctx twin with an empty context, its own parameters in order, and returns that call's results; each XxxCtx wrapper issues exactly one go-redis command of its own name (modulo a reasoned exception table), on the node obtained from getRedis(receiver), with its ctx first, inside r.brk.DoWithAcceptable(…, acceptable) whose error it returns; wrapper parameters reach the command's argument positions (option-struct fields and variadic elements flattened in declaration/index order) in declaration order, each exactly through the conversion its types dictate (identity, FormatInt base 10, seconds·time.Second, time.Unix(s,0)), with no parameter dropped and no constant argument outside the table; the closure hands the command's error to the breaker and returns nil only when it is nil (redis.Nil swallowed exactly in GetCtx/GetSetCtx; PingCtx, which shows its caller only a bool, included); replies reach the caller through the conversion their types dictate (a Duration reply in whole seconds by evaluation on sample replies: non-negative replies divided by time.Second, go-redis' negative sentinels passed through); acceptable is exactly {nil, redis.Nil, context.Canceled}; every single-key kv.Store method routes by the parameter it forwards as the Redis method's key, forwards to the same-named Redis method with parameters in order and returns its results; DelCtx visits every key and deletes each on the node it hashes to."
	r.NotDecided = "equality of effect on a server and per reachable server state; go-redis itself; the element-wise conversions inside toPairs/toStrings; which parameter go-redis treats as the key (its signatures are trusted to mirror the wrapper's order)."
	r.Trusted = append(r.Trusted, "go-redis v8 Cmdable signatures mirror the wrapper signatures position by position")

	var wraps []*c12wrap
	var plain []*ssa.Function
	byName := map[string]*ssa.Function{}
	for _, f := range p.Methods(c12redisPkg, "Redis") {
		byName[f.Name()] = f
	}
	for _, f := range p.Methods(c12redisPkg, "Redis") {
		if strings.HasSuffix(f.Name(), "Ctx") {
			wraps = append(wraps, c12extract(f))
		} else if byName[f.Name()+"Ctx"] != nil {
			plain = append(plain, f)
		}
	}
	kvByName := map[string]*ssa.Function{}
	var kvCtx, kvPlain []*ssa.Function
	for _, f := range p.Methods(c12kvPkg, "kvStore") {
		kvByName[f.Name()] = f
	}
	for _, f := range p.Methods(c12kvPkg, "kvStore") {
		if strings.HasSuffix(f.Name(), "Ctx") {
			kvCtx = append(kvCtx, f)
		} else if kvByName[f.Name()+"Ctx"] != nil {
			kvPlain = append(kvPlain, f)
		}
	}

	// ---- D1: context-free twins ----
	twins := func(o *core.O, fs []*ssa.Function, sib map[string]*ssa.Function, min int) {
		if !o.Need(len(fs) >= min, fmt.Sprintf(">= %d context-free methods with a Ctx twin (found %d)", min, len(fs))) {
			return
		}
		for _, f := range fs {
			r.Fn(core.FuncName(f))
			twin := sib[f.Name()+"Ctx"]
			var calls []*ssa.Call
			for _, g := range c12closures(f) {
				for _, in := range core.Instrs(g, func(in ssa.Instruction) bool {
					c, ok := in.(*ssa.Call)
					return ok && c.Call.StaticCallee() == twin
				}) {
					calls = append(calls, in.(*ssa.Call))
				}
			}
			o.Site(len(calls))
			if len(calls) != 1 || calls[0].Parent() != f {
				// which other method does it call instead?
				other := ""
				for _, in := range core.Instrs(f, func(in ssa.Instruction) bool { return core.AsCall(in) != nil }) {
					n := c12methodName(in.(ssa.CallInstruction))
					if strings.HasSuffix(n, "Ctx") && n != twin.Name() {
						other = " (calls " + n + ")"
					}
				}
				o.Fail(p.Pos(f.Pos()), "%s calls its twin %s %d times%s: the plain and the context form differ", core.FuncName(f), twin.Name(), len(calls), other)
				continue
			}
			c := calls[0]
			r.Calls++
			args := c.Call.Args
			if len(args) != len(f.Params)+1 {
				o.Fail(p.InstrPos(c), "%s passes %d arguments to %s, expected receiver, context and its %d parameters", core.FuncName(f), len(args), twin.Name(), len(f.Params)-1)
				continue
			}
			if core.Forward(core.Strip(args[0])) != ssa.Value(f.Params[0]) {
				o.Fail(p.InstrPos(c), "%s calls %s on %s, not on its own receiver", core.FuncName(f), twin.Name(), core.Describe(args[0]))
			}
			if !c12isEmptyCtx(args[1]) {
				o.Fail(p.InstrPos(c), "%s passes %s as context, expected context.Background()", core.FuncName(f), core.Describe(args[1]))
			}
			for i := 1; i < len(f.Params); i++ {
				if core.Forward(args[i+1]) != ssa.Value(f.Params[i]) {
					o.Fail(p.InstrPos(c), "%s passes %s as argument #%d of %s, expected its own parameter #%d (%s): arguments permuted or altered", core.FuncName(f), core.Describe(args[i+1]), i, twin.Name(), i, f.Params[i].Name())
				}
			}
			if m := c12returnsResultsOf(p, f, c); m != "" {
				o.Fail(p.InstrPos(c), "%s does not return the results of %s: %s", core.FuncName(f), twin.Name(), m)
			}
		}
	}
	r.Check("D1/K9/twins/redis.Redis", "every context-free method of redis.Redis calls exactly its own …Ctx twin once, on its receiver, with context.Background() and its parameters in order, and returns that call's results", func(o *core.O) {
		twins(o, plain, byName, 95)
	})
	r.Check("D1/K9/twins/kv.kvStore", "every context-free method of kv.kvStore calls exactly its own …Ctx twin once, on its receiver, with context.Background() and its parameters in order, and returns that call's results", func(o *core.O) {
		twins(o, kvPlain, kvByName, 65)
	})

	// ---- D2: callee table ----
	r.Check("D2/K9/go-redis-callee", "every XxxCtx wrapper issues exactly one go-redis command, named Xxx unless the exception table names another (SetEx→Set, SetNXEx→SetNX, SRandMember→SRandMemberN, ZAddFloat/ZAdds→ZAdd, …AndLimit→…, BLPopEx/BLPopWithTimeout→BLPop); ZAddCtx and BLPopCtx delegate to the tabled sibling", func(o *core.O) {
		if !o.Need(len(wraps) >= 95, fmt.Sprintf(">= 95 XxxCtx wrappers on redis.Redis (found %d)", len(wraps))) {
			return
		}
		for _, x := range wraps {
			r.Fn(core.FuncName(x.fn))
			where := p.Pos(x.fn.Pos())
			if x.exc.delegate != "" {
				o.Site(len(x.deleg))
				if len(x.cmds) != 0 || len(x.deleg) != 1 || x.deleg[0].Call.StaticCallee() != byName[x.exc.delegate] {
					o.Fail(where, "%s is tabled as delegating to %s (%s) but issues %d commands and %d sibling calls", x.name, x.exc.delegate, x.exc.why, len(x.cmds), len(x.deleg))
				}
				continue
			}
			o.Site(len(x.cmds))
			if len(x.deleg) != 0 {
				o.Fail(p.InstrPos(x.deleg[0]), "%s calls sibling wrapper %s: not in the delegation table", x.name, c12methodName(x.deleg[0]))
			}
			if len(x.cmds) != 1 {
				o.Fail(where, "%s issues %d go-redis commands, expected exactly one", x.name, len(x.cmds))
				continue
			}
			r.Calls++
			want := strings.TrimSuffix(x.name, "Ctx")
			if x.exc.callee != "" {
				want = x.exc.callee
			}
			if got := x.cmd().Common().Method.Name(); got != want {
				o.Fail(p.InstrPos(x.cmd()), "%s issues go-redis %s, expected %s: a different command reaches the server", x.name, got, want)
			}
		}
		// stale table entries fail closed
		for n := range c12exceptions {
			if byName[n] == nil {
				o.Unres("exception table names %s, which no longer exists", n)
			}
		}
	})

	// ---- D2: breaker, node, ctx ----
	r.Check("D2/K2/breaker-node-ctx", "every wrapper (except the tabled BLPopEx/BLPopWithTimeout, which run on a caller-supplied dedicated connection) runs its command inside the closure given to r.brk.DoWithAcceptable(…, acceptable) on its own receiver's breaker and returns that call's error (PingCtx, which has no error result, excepted); the node is result #0 of getRedis(receiver) (a caller-supplied node only for the BLPop family); the wrapper's ctx is the command's first argument", func(o *core.O) {
		for _, x := range wraps {
			if x.exc.delegate != "" && len(x.deleg) == 1 {
				// tabled delegation: own receiver, own ctx, results handed back unchanged
				d := x.deleg[0]
				o.Site(1)
				if x.w.paramIndex(core.Forward(d.Call.Args[0])) != 0 || x.w.paramIndex(d.Call.Args[1]) != 1 {
					o.Fail(p.InstrPos(d), "%s delegates to %s with receiver %s and context %s, expected its own receiver and ctx", x.name, x.exc.delegate, core.Describe(d.Call.Args[0]), core.Describe(d.Call.Args[1]))
				}
				if m := c12returnsResultsOf(p, x.fn, d); m != "" {
					o.Fail(p.InstrPos(d), "%s does not return the results of %s: %s", x.name, x.exc.delegate, m)
				}
				continue
			}
			cmd := x.cmd()
			if cmd == nil {
				continue
			}
			o.Site(1)
			where := p.InstrPos(cmd)
			args := core.Args(cmd) // node, ctx, ...
			// ctx
			if len(args) < 2 || x.w.paramIndex(args[1]) != 1 || !strings.HasSuffix(x.fn.Params[1].Type().String(), "context.Context") {
				o.Fail(where, "%s: the command's context is %s, not the wrapper's ctx parameter (cancellation/deadline would not reach the command)", x.name, core.Describe(args[1]))
			}
			// node
			node := x.hopArg(core.Forward(args[0]))
			_, brkFn := x.hops()
			if x.exc.nodeParam {
				if k := x.w.paramIndex(node); k < 0 {
					o.Fail(where, "%s is tabled as using the caller-supplied node, but the command runs on %s", x.name, core.Describe(node))
				}
			} else {
				gc, idx := core.ResultOf(node)
				if gc == nil || idx != 0 || core.Short(core.CalleeName(gc)) != c12redisPkg+".getRedis" {
					if _, isP := node.(*ssa.Parameter); isP && x.w.paramIndex(node) < 0 {
						o.Unres("%s: node is a closure parameter (helper-extracted shape not understood)", x.name)
					} else {
						o.Fail(where, "%s: the command runs on %s, not on the node returned by getRedis", x.name, core.Describe(node))
					}
				} else if x.w.paramIndex(gc.Call.Args[0]) != 0 {
					o.Fail(p.InstrPos(gc), "%s: getRedis is called with %s, not the wrapper's receiver", x.name, core.Describe(gc.Call.Args[0]))
				}
			}
			// breaker
			mc := x.w.mcs[brkFn]
			var brk *ssa.Call
			if mc != nil && mc.Parent() == x.fn {
				for _, ref := range *mc.Referrers() {
					if c, ok := ref.(*ssa.Call); ok && c.Call.IsInvoke() && c.Call.Method.Name() == "DoWithAcceptable" &&
						len(c.Call.Args) == 2 && c.Call.Args[0] == ssa.Value(mc) {
						brk = c
					}
				}
			}
			if x.exc.noBreaker {
				if !x.exc.nodeParam {
					// the only reason for leaving the breaker out is a connection that is not the address's shared one
					o.Fail(where, "%s is tabled as running outside the breaker but uses the shared client of getRedis: its failures never reach the breaker of the address and an open breaker does not stop it", x.name)
				}
				if brk != nil {
					o.Fail(where, "%s is tabled as running outside the breaker (%s) but runs under it: update the table", x.name, x.exc.why)
				}
				continue
			}
			if brk == nil {
				o.Fail(where, "%s: the command does not run inside the closure passed to r.brk.DoWithAcceptable: failures of this command never trip the breaker and an open breaker does not stop it", x.name)
				continue
			}
			r.Calls++
			base, fld := core.FieldOf(core.Forward(brk.Call.Value))
			if fld == nil || fld.Name() != "brk" || x.w.paramIndex(base) != 0 {
				o.Fail(p.InstrPos(brk), "%s: DoWithAcceptable is invoked on %s, not on the receiver's own breaker", x.name, core.Describe(brk.Call.Value))
			}
			if f, ok := core.Strip(brk.Call.Args[1]).(*ssa.Function); !ok || f.Pkg == nil || f.Pkg.Pkg.Path() != core.Mod+"/"+c12redisPkg || f.Name() != "acceptable" {
				o.Fail(p.InstrPos(brk), "%s: the acceptable predicate is %s, not redis.acceptable (redis.Nil / cancellation could trip the breaker, or real failures never would)", x.name, core.Describe(brk.Call.Args[1]))
			}
			if res := x.fn.Signature.Results(); x.exc.swallow == "caller" {
				// tabled: the wrapper has no error result to hand the breaker's error to
				if res.Len() > 0 && res.At(res.Len()-1).Type().String() == "error" {
					o.Fail(where, "%s is tabled as having no error result (%s) but has one: update the table", x.name, x.exc.why)
				}
				continue
			}
			// the wrapper returns the breaker's error as its last result
			for _, ret := range core.Returns(x.fn) {
				if len(ret.Results) == 0 {
					o.Fail(p.InstrPos(ret), "%s returns no error", x.name)
					continue
				}
				v := ret.Results[len(ret.Results)-1]
				ok := core.Forward(v) == ssa.Value(brk)
				if !ok {
					if u, isLoad := v.(*ssa.UnOp); isLoad && u.Op == token.MUL {
						if cell := x.w.resultCell(u.X); cell != nil {
							sts := x.w.cellStores(cell)
							ok = len(sts) > 0
							for _, st := range sts {
								if st.Val != ssa.Value(brk) {
									ok = false
								}
							}
						}
					}
				}
				if !ok {
					o.Fail(p.InstrPos(ret), "%s: the returned error is %s, not the result of r.brk.DoWithAcceptable (command or breaker errors are lost)", x.name, core.Describe(core.Forward(v)))
				}
			}
		}
	})

	// ---- D3: argument order and conversions ----
	type argInfo struct {
		x      *c12wrap
		call   ssa.CallInstruction
		leaves []c12leaf
		first  int // index of the first leaf-bearing argument in core.Args(call) (after receiver and ctx)
	}
	var argInfos []argInfo
	for _, x := range wraps {
		var call ssa.CallInstruction
		if x.exc.delegate != "" && len(x.deleg) == 1 {
			call = x.deleg[0]
		} else if x.cmd() != nil {
			call = x.cmd()
		}
		if call == nil {
			continue
		}
		ai := argInfo{x: x, call: call}
		args := core.Args(call)
		for i := 2; i < len(args); i++ {
			label := fmt.Sprintf("arg%d", i-1)
			ai.leaves = append(ai.leaves, x.w.flatten(args[i], label, 0)...)
		}
		argInfos = append(argInfos, ai)
	}
	r.Check("D3/K8/argument-order", "wrapper parameters reach the command's argument positions (option-struct fields in declaration order, variadic elements in index order) in declaration order; every parameter is used; constant arguments only as tabled (Set/SetNX expiry 0, BLPop default timeout)", func(o *core.O) {
		for _, ai := range argInfos {
			x := ai.x
			o.Site(1)
			where := p.InstrPos(ai.call)
			var seq []int
			var seqLabels []string
			var consts []int64
			used := map[int]bool{}
			for _, lf := range ai.leaves {
				ps, opq := x.w.deps(lf.v)
				for _, k := range ps {
					if k < 2 || (x.exc.nodeParam && k == 2) {
						o.Fail(where, "%s: %s of the command depends on the wrapper's %s", x.name, lf.label, []string{"receiver", "ctx", "node"}[k])
						continue
					}
					seq = append(seq, k)
					seqLabels = append(seqLabels, lf.label)
					used[k] = true
				}
				if len(ps) == 0 {
					if c, ok := core.ConstInt(lf.v); ok && len(opq) == 0 {
						consts = append(consts, c)
					} else {
						o.Fail(where, "%s: %s of the command is %s, which comes from no wrapper parameter", x.name, lf.label, x.w.shape(lf.v, nil))
					}
				}
			}
			for i := 1; i < len(seq); i++ {
				if seq[i] < seq[i-1] {
					o.Fail(where, "%s: parameter %q reaches %s after parameter %q reached %s: arguments are not forwarded in declaration order (swapped?)",
						x.name, x.fn.Params[seq[i]].Name(), seqLabels[i], x.fn.Params[seq[i-1]].Name(), seqLabels[i-1])
					break
				}
			}
			for k := 2; k < len(x.fn.Params); k++ {
				if x.exc.nodeParam && k == 2 {
					continue // the node is the command's receiver
				}
				if !used[k] {
					o.Fail(where, "%s: parameter %q reaches no argument of the command", x.name, x.fn.Params[k].Name())
				}
			}
			if fmt.Sprint(consts) != fmt.Sprint(x.exc.consts) && !(len(consts) == 0 && len(x.exc.consts) == 0) {
				o.Fail(where, "%s: constant command arguments %v, the table allows %v", x.name, consts, x.exc.consts)
			}
		}
	})
	r.Check("D3/K7/argument-conversion", "each parameter reaches its argument position through exactly the conversion the two types dictate: identity (numeric widening included), strconv.FormatInt(x, 10) for integer→string score bounds, x·time.Second for integer seconds→Duration, time.Unix(x, 0) for integer→Time; ZRangeBy.Offset = page·size and the HMSet map copy (key→key, value→value) as tabled", func(o *core.O) {
		for _, ai := range argInfos {
			x := ai.x
			where := p.InstrPos(ai.call)
			for _, lf := range ai.leaves {
				ps, _ := x.w.deps(lf.v)
				if len(ps) == 0 {
					continue
				}
				o.Site(1)
				sh := x.w.shape(lf.v, nil)
				if x.exc.loopBuilt {
					if _, isPhi := lf.v.(*ssa.Phi); isPhi {
						continue // element-wise conversion; field mapping forced by the types (float64 Score, string Member)
					}
				}
				pk := fmt.Sprintf("p%d", ps[0])
				pt := x.fn.Params[ps[0]].Type()
				lt := lf.v.Type()
				ok := false
				want := pk
				switch {
				case x.exc.product != "" && strings.HasSuffix(lf.label, "."+strings.SplitN(x.exc.product, ".", 2)[1]):
					// the tabled product is required, not merely allowed: Offset = page alone shifts every page but the first
					n := len(x.fn.Params)
					want = fmt.Sprintf("(p%d*p%d)", n-2, n-1)
					ok = len(ps) == 2 && sh == want && ps[1] == ps[0]+1 && ps[1] == n-1
				case len(ps) != 1:
					want = "a single parameter"
				case lt.String() == "time.Duration" && pt.String() != "time.Duration":
					want = "(1000000000*" + pk + ")"
					ok = sh == want
				case lt.String() == "time.Time":
					want = "time.Unix(" + pk + ",0)"
					ok = sh == want
				case c12isString(lt) && c12isInteger(pt):
					want = "strconv.FormatInt(" + pk + ",10)"
					ok = sh == want
				case c12isMap(lt) && c12isMap(pt) && !types.Identical(lt, pt):
					want = "map{next(range(" + pk + "))#1:next(range(" + pk + "))#2}"
					ok = sh == want
				default:
					ok = sh == pk
				}
				if !ok {
					o.Fail(where, "%s: %s of the command is %s, expected %s (p%d = parameter %q)", x.name, lf.label, sh, want, ps[0], x.fn.Params[ps[0]].Name())
				}
			}
		}
	})

	// ---- D4: error / redis.Nil handling ----
	isRedisNil := func(v ssa.Value) bool {
		c, ok := core.Strip(v).(*ssa.Const)
		if !ok || c.Value == nil {
			return false
		}
		s, isS := core.ConstString(c)
		return isS && s == "redis: nil" && strings.HasPrefix(c.Type().String(), c12goRedis)
	}
	r.Check("D4/K2/error-and-nil", "after the command, the closure returns nil only on an edge establishing the command's error == nil and otherwise returns that very error (so the breaker and the caller see it) – in every wrapper, PingCtx included: what the caller is not shown the breaker still has to see, or a failed command is booked as a success of the address; redis.Nil is turned into nil exactly in GetCtx and GetSetCtx, which must do so; no path skips the command except the getRedis failure, which returns getRedis' error (and size ≤ 0 in the two paging wrappers)", func(o *core.O) {
		for _, x := range wraps {
			cmd := x.cmd()
			if cmd == nil {
				continue
			}
			o.Site(1)
			f := x.cmdFn
			errVals, _ := x.cmdResults()
			if len(errVals) == 0 {
				o.Fail(p.InstrPos(cmd), "%s: the command's error is never read (.Result()/.Err() not called on the command)", x.name)
				continue
			}
			isErr := func(v ssa.Value) bool { return errVals[x.w.capturedLoad(core.Forward(v))] }
			errNil := core.Cmp(token.EQL, isErr, core.IsNil)
			errIsNil := core.Cmp(token.EQL, isErr, isRedisNil)
			last := func(ret *ssa.Return) ssa.Value {
				if len(ret.Results) == 0 {
					return nil
				}
				return x.w.capturedLoad(core.Result(ret, len(ret.Results)-1))
			}
			isNilRet := func(in ssa.Instruction) bool {
				ret, ok := in.(*ssa.Return)
				return ok && last(ret) != nil && core.IsNil(last(ret))
			}
			isNonNilRet := func(in ssa.Instruction) bool {
				_, ok := in.(*ssa.Return)
				return ok && !isNilRet(in)
			}
			holdsNil, _ := core.EdgesOf(f, errNil)
			holdsRNil, _ := core.EdgesOf(f, errIsNil)
			cut := holdsNil
			if x.exc.swallow == "nil" {
				cut = append(append([]core.Edge{}, holdsNil...), holdsRNil...)
				if len(holdsRNil) == 0 {
					o.Fail(p.InstrPos(cmd), "%s no longer tests the command's error against redis.Nil: an absent key surfaces as an error instead of the documented zero value", x.name)
				} else if wv := core.ReachableFromEdges(holdsRNil, isNonNilRet, nil); wv != nil {
					o.Fail(p.InstrPos(wv), "%s: an error is returned although the command answered redis.Nil (documented: zero value, no error)", x.name)
				}
			} else if len(holdsRNil) > 0 {
				if wv := core.ReachableFromEdges(holdsRNil, isNilRet, nil); wv != nil {
					o.Fail(p.InstrPos(wv), "%s swallows redis.Nil, which only GetCtx and GetSetCtx are documented to do: an absent key is reported as success", x.name)
				}
			}
			// what a return hands to the breaker: the value itself, or – when the value is a φ of the return's
			// own block (one shared `return err`, an inlined helper's result) – each incoming value with its edge
			type retItem struct {
				ret  *ssa.Return
				leaf ssa.Value
				edge *core.Edge
			}
			var items []retItem
			for _, ret := range core.Returns(f) {
				lv := last(ret)
				if ph, isPhi := lv.(*ssa.Phi); !isPhi || ph.Block() != ret.Block() {
					items = append(items, retItem{ret, lv, nil})
					continue
				}
				gxLeavesWithEdges(lv, func(leaf ssa.Value, e *core.Edge) {
					items = append(items, retItem{ret, x.w.capturedLoad(core.Forward(leaf)), e})
				})
			}
			// can the item be what is returned on a path that ran the command and uses no edge of cutE?
			afterCmd := func(it retItem, cutE []core.Edge) bool {
				cs := core.CutSet(cutE)
				if it.edge == nil {
					_, ok := core.Reach(core.Q{From: []core.At{core.After(cmd)}, Target: core.Is(it.ret), Cut: cs})
					return ok
				}
				if cs(*it.edge) {
					return false
				}
				_, ok := core.Reach(core.Q{From: []core.At{core.After(cmd)}, Target: core.Is(gxLast(it.edge.From)), Cut: cs})
				return ok
			}
			for _, it := range items {
				if it.leaf != nil && core.IsNil(it.leaf) && afterCmd(it, cut) {
					o.Fail(p.InstrPos(it.ret), "%s: nil is returned after the command on a path where its error may be non-nil: the failure is hidden from the breaker and from the caller", x.name)
					break
				}
			}
			for _, it := range items {
				if !afterCmd(it, nil) {
					continue
				}
				if lv := it.leaf; lv == nil || (!core.IsNil(lv) && !errVals[lv] && !c12freshError(lv)) {
					o.Fail(p.InstrPos(it.ret), "%s: the error returned after the command is %s, not the command's own error", x.name, core.Describe(lv))
				}
			}
			// no path around the command
			if f != x.fn {
				var gerr func(ssa.Instruction) bool = func(in ssa.Instruction) bool {
					ret, ok := in.(*ssa.Return)
					return ok && last(ret) != nil && core.IsResult(last(ret), 1, core.CallTo(c12redisPkg+".getRedis"))
				}
				blocked := core.Or(core.Is(cmd), gerr)
				var cutE []core.Edge
				for _, it := range items {
					// an edge that carries getRedis' error into the φ the return hands on is such a return
					if it.edge != nil && it.leaf != nil && core.IsResult(it.leaf, 1, core.CallTo(c12redisPkg+".getRedis")) {
						cutE = append(cutE, *it.edge)
					}
				}
				if x.exc.earlyNil {
					sz := len(x.fn.Params) - 1
					h, _ := core.EdgesOf(f, core.Cmp(token.LEQ, func(v ssa.Value) bool { return x.w.paramIndex(v) == sz }, core.IsConstInt(0)))
					cutE = append(cutE, h...)
					if len(h) == 0 {
						o.Fail(p.Pos(f.Pos()), "%s is tabled with an early return for size ≤ 0 but has no such test: update the table", x.name)
					}
				}
				if wv, found := core.Reach(core.Q{From: []core.At{core.Entry(f)}, Target: core.IsReturn, Blocked: blocked, Cut: core.CutSet(cutE)}); found {
					o.Fail(p.InstrPos(wv), "%s: a return is reachable that neither follows the command nor hands on the error of a failed getRedis (answering nil there books a call that never reached the server as a success of the address)", x.name)
				}
				// the command closure applied by another closure (a higher-order helper inlined): that closure
				// applies it on every path but the getRedis failure and returns what it returned
				hops, _ := x.hops()
				for _, h := range hops {
					hf := h.Parent()
					if wv, found := core.Reach(core.Q{From: []core.At{core.Entry(hf)}, Target: core.IsReturn, Blocked: core.Or(core.Is(h), gerr)}); found {
						o.Fail(p.InstrPos(wv), "%s: the closure handed to the breaker can return without running the command and without a getRedis failure", x.name)
					}
					nres := 1
					if tup, ok := h.Type().(*types.Tuple); ok {
						nres = tup.Len()
					}
					for _, ret := range core.Returns(hf) {
						if _, after := core.Reach(core.Q{From: []core.At{core.After(h)}, Target: core.Is(ret)}); !after {
							continue
						}
						lv := last(ret)
						if c, idx := core.ResultOf(lv); lv == nil || c != h || idx != nres-1 {
							o.Fail(p.InstrPos(ret), "%s: after the command ran, the closure handed to the breaker returns %s, not the command closure's error: the failure is hidden from the breaker and from the caller", x.name, core.Describe(lv))
						}
					}
				}
			}
		}
	})

	// ---- D4: result conversion ----
	r.Check("D4/K6/result-conversion", "the command's reply reaches the wrapper's results in order through exactly the conversion the types dictate: identity / numeric conversion, int64→bool as ==1 or >=1 (>=1 required when a variadic member list is forwarded), []any→[]string via toStrings, []red.Z→[]Pair via toPairs, Duration→int seconds by evaluation on sample replies (a non-negative reply divided by time.Second, go-redis' negative sentinels -1ns = no expiry / -2ns = no such key passed through unchanged), Ping via ==\"PONG\", BLPop via element [1]", func(o *core.O) {
		for _, x := range wraps {
			cmd := x.cmd()
			if cmd == nil {
				continue
			}
			_, res := x.cmdResults()
			f := x.cmdFn
			where := p.InstrPos(cmd)
			variadic := x.fn.Signature.Variadic()
			check := func(at string, v ssa.Value, resIdx int, dst types.Type) {
				o.Site(1)
				if c, ok := v.(*ssa.Const); ok {
					// zero value on error / absent paths carries no information
					if c.Value == nil || c.Value.ExactString() == "0" || c.Value.ExactString() == "false" || c.Value.ExactString() == `""` {
						return
					}
				}
				sh := x.w.shape(v, res)
				rv := fmt.Sprintf("res#%d", resIdx)
				var allowed []string
				src := c12resultType(cmd, resIdx)
				switch {
				case src == nil:
					allowed = nil
				case x.exc.elem1 && c12isString(dst):
					allowed = []string{rv + "[1]"}
				case types.Identical(src, dst) || (c12isNumeric(src) && c12isNumeric(dst)) && !(src.String() == "time.Duration" && dst.String() != "time.Duration"):
					allowed = []string{rv}
				case c12isBool(dst) && c12isInteger(src):
					allowed = []string{"(1<=" + rv + ")", "(0<" + rv + ")", "(0!=" + rv + ")"}
					if !variadic {
						allowed = append(allowed, "(1=="+rv+")")
					}
				case c12isBool(dst) && c12isString(src):
					allowed = []string{`("PONG"==` + rv + ")"}
				case c12isSecondsReply(src, dst):
					// decided once per result by evaluation (c12replySeconds), not per assignment
					return
				case strings.HasSuffix(dst.String(), "[]string") && src.String() == "[]interface{}":
					allowed = []string{c12redisPkg + ".toStrings(" + rv + ")"}
				case strings.HasSuffix(dst.String(), "redis.Pair") && strings.HasSuffix(src.String(), "redis/v8.Z"):
					allowed = []string{c12redisPkg + ".toPairs(" + rv + ")"}
				}
				for _, a := range allowed {
					if sh == a {
						return
					}
				}
				o.Fail(at, "%s: result #%d is %s, expected %s (res#i = reply value i of the command)", x.name, resIdx, sh, strings.Join(allowed, " or "))
			}
			if f == x.fn {
				// no closure: the reply is returned directly
				for _, ret := range core.Returns(f) {
					if _, after := core.Reach(core.Q{From: []core.At{core.After(cmd)}, Target: core.Is(ret)}); !after {
						continue
					}
					// value results: all but the last (error); a bool "ok" flag is skipped
					for i := 0; i < len(ret.Results)-1; i++ {
						if c12isBool(ret.Results[i].Type()) && !c12isBool(c12orNil(c12resultType(cmd, 0))) {
							o.Site(1)
							continue
						}
						check(p.InstrPos(ret), core.Result(ret, i), 0, ret.Results[i].Type())
					}
				}
				for i, rs := 0, f.Signature.Results(); i < rs.Len()-1; i++ {
					if src := c12resultType(cmd, 0); src != nil && c12isSecondsReply(src, rs.At(i).Type()) {
						c12replySeconds(o, p, x, f, cmd, 0, i, nil)
					}
				}
				continue
			}
			// closure form: stores into the wrapper's named results
			resIdxOf := map[*ssa.Alloc]int{}
			nres := x.fn.Signature.Results().Len()
			for _, ret := range core.Returns(x.fn) {
				for i := 0; i < len(ret.Results)-1; i++ {
					if u, ok := ret.Results[i].(*ssa.UnOp); ok && u.Op == token.MUL {
						if cell := x.w.resultCell(u.X); cell != nil {
							resIdxOf[cell] = i
							continue
						}
					}
					o.Fail(p.InstrPos(ret), "%s: result #%d is %s, not a value the command closure filled in", x.name, i, core.Describe(ret.Results[i]))
				}
			}
			filled := map[int]bool{}
			for _, in := range core.Instrs(f, func(in ssa.Instruction) bool { _, ok := in.(*ssa.Store); return ok }) {
				st := in.(*ssa.Store)
				cell := x.w.resultCell(st.Addr)
				if cell == nil {
					continue
				}
				i, ok := resIdxOf[cell]
				if !ok {
					continue
				}
				if _, isC := st.Val.(*ssa.Const); !isC {
					filled[i] = true
				}
				check(p.InstrPos(st), st.Val, i, x.fn.Signature.Results().At(i).Type())
			}
			for i := 0; i < nres-1; i++ {
				if !filled[i] {
					o.Fail(where, "%s: result #%d is never filled from the command's reply", x.name, i)
				}
			}
			for cell, i := range resIdxOf {
				if src := c12resultType(cmd, i); src != nil && c12isSecondsReply(src, x.fn.Signature.Results().At(i).Type()) {
					c12replySeconds(o, p, x, f, cmd, i, i, cell)
				}
			}
		}
	})

	// ---- D2: acceptable ----
	r.Check("D2/K6/acceptable-set", "redis.acceptable(err) is true exactly when err is nil, redis.Nil or context.Canceled", func(o *core.O) {
		f := p.Func(c12redisPkg, "", "acceptable")
		if !o.Need(f != nil && len(f.Params) == 1, "redis.acceptable(err)") {
			return
		}
		r.Fn(core.FuncName(f))
		c12checkErrorSet(o, p, f, map[string]bool{"nil": true, "redis.Nil": true, "context.Canceled": true}, func(v ssa.Value) string {
			switch {
			case core.IsNil(v):
				return "nil"
			case isRedisNil(v):
				return "redis.Nil"
			case core.IsGlobal("context", "Canceled")(v):
				return "context.Canceled"
			}
			return ""
		})
	})

	// ---- D5: kv store ----
	type kvInfo struct {
		f     *ssa.Function
		w     *c12fn
		route []*ssa.Call // s.getRedis calls
		fwd   []*ssa.Call // calls on *redis.Redis
		sib   []*ssa.Call // tabled delegation to a sibling kv method
	}
	var kvs []kvInfo
	var kvDel *ssa.Function
	for _, f := range kvCtx {
		if f.Name() == "DelCtx" {
			kvDel = f
			continue
		}
		ki := kvInfo{f: f, w: newC12fn(f)}
		for _, g := range c12closures(f) {
			if d := c12kvDelegates[f.Name()]; d != "" {
				for _, c := range c12methodCalls(g, "("+c12kvPkg+".kvStore).") {
					if c.Call.StaticCallee() == kvByName[d] {
						ki.sib = append(ki.sib, c)
					}
				}
			}
			ki.route = append(ki.route, c12methodCalls(g, "("+c12kvPkg+".kvStore).getRedis")...)
			ki.fwd = append(ki.fwd, c12methodCalls(g, "(*"+c12redisPkg+".Redis).")...)
		}
		kvs = append(kvs, ki)
	}
	r.Check("D5/K8/kv-routing-key", "every single-key kv.Store method picks its node with exactly one s.getRedis(k), k being the parameter it forwards as the Redis method's first argument after ctx (its key; for EvalCtx the sole element of keys), and calls the Redis method on that node", func(o *core.O) {
		if !o.Need(len(kvs) >= 65, fmt.Sprintf(">= 65 single-key XxxCtx methods on kv.kvStore (found %d)", len(kvs))) {
			return
		}
		for _, ki := range kvs {
			r.Fn(core.FuncName(ki.f))
			where := p.Pos(ki.f.Pos())
			if d := c12kvDelegates[ki.f.Name()]; d != "" {
				o.Site(len(ki.sib))
				if len(ki.sib) != 1 || len(ki.route) != 0 || len(ki.fwd) != 0 {
					o.Fail(where, "%s is tabled as delegating to its sibling %s but makes %d such calls, %d getRedis calls and %d Redis calls", core.FuncName(ki.f), d, len(ki.sib), len(ki.route), len(ki.fwd))
				} else if core.Forward(ki.sib[0].Call.Args[0]) != ssa.Value(ki.f.Params[0]) {
					o.Fail(p.InstrPos(ki.sib[0]), "%s delegates to %s on another store", core.FuncName(ki.f), d)
				}
				continue
			}
			o.Site(len(ki.route))
			if len(ki.route) != 1 || len(ki.fwd) != 1 {
				o.Fail(where, "%s: %d getRedis calls and %d Redis method calls, expected one of each", core.FuncName(ki.f), len(ki.route), len(ki.fwd))
				continue
			}
			rt, fw := ki.route[0], ki.fwd[0]
			k := ki.w.paramIndex(rt.Call.Args[1])
			if k < 2 {
				o.Fail(p.InstrPos(rt), "%s routes by %s, which is not one of its key parameters: all keys land on one node / on the wrong node", core.FuncName(ki.f), ki.w.shape(rt.Call.Args[1], nil))
				continue
			}
			if c, idx := core.ResultOf(core.Forward(fw.Call.Args[0])); c != rt || idx != 0 {
				o.Fail(p.InstrPos(fw), "%s: the Redis method is not called on the node chosen by getRedis", core.FuncName(ki.f))
			}
			// the key position of the Redis method: first argument after ctx, or a []string holding exactly the key
			keyArg := -1
			for i := 2; i < len(fw.Call.Args); i++ {
				lv := ki.w.flatten(fw.Call.Args[i], "", 0)
				if len(lv) == 1 && ki.w.paramIndex(lv[0].v) == k {
					keyArg = i
					break
				}
			}
			wantArg := 2
			if sig := fw.Call.StaticCallee().Signature; sig != nil {
				for i := 1; i < sig.Params().Len(); i++ {
					if c12isStringSlice(sig.Params().At(i).Type()) && !(sig.Variadic() && i == sig.Params().Len()-1) {
						wantArg = i + 1 // the Redis method's keys []string
						break
					}
				}
			}
			if keyArg != wantArg {
				o.Fail(p.InstrPos(rt), "%s routes by parameter %q but that parameter is not what it forwards as the Redis method's key (argument #%d): the command runs on a node that does not own the key",
					core.FuncName(ki.f), ki.f.Params[k].Name(), wantArg-1)
			}
		}
	})
	r.Check("D5/K9/kv-forwarding", "every single-key kv.Store method forwards to the Redis method of its own name (HSetNx→HSetNX) with its ctx first and its parameters in declaration order, unaltered, none dropped, and returns that call's results", func(o *core.O) {
		for _, ki := range kvs {
			var fw *ssa.Call
			want := ki.f.Name()
			if d := c12kvDelegates[ki.f.Name()]; d != "" && len(ki.sib) == 1 {
				fw, want = ki.sib[0], d
			} else if len(ki.fwd) == 1 {
				fw = ki.fwd[0]
			} else {
				continue
			}
			o.Site(1)
			r.Calls++
			if n, ok := c12kvNames[want]; ok {
				want = n
			}
			if got := c12methodName(fw); got != want {
				o.Fail(p.InstrPos(fw), "%s forwards to Redis.%s, expected Redis.%s: a different command reaches the server", core.FuncName(ki.f), got, want)
			}
			args := fw.Call.Args
			if len(args) < 2 || ki.w.paramIndex(args[1]) != 1 {
				o.Fail(p.InstrPos(fw), "%s does not pass its ctx as the Redis method's context", core.FuncName(ki.f))
			}
			var seq []int
			used := map[int]bool{}
			for i := 2; i < len(args); i++ {
				for _, lf := range ki.w.flatten(args[i], fmt.Sprintf("arg%d", i-1), 0) {
					k := ki.w.paramIndex(lf.v)
					if cv, ok := lf.v.(*ssa.Convert); ok && k < 0 && c12isNumeric(cv.Type()) && c12isNumeric(cv.X.Type()) && c12kvDelegates[ki.f.Name()] != "" {
						k = ki.w.paramIndex(cv.X)
					}
					if k < 2 {
						o.Fail(p.InstrPos(fw), "%s: %s of Redis.%s is %s, not one of its own parameters unaltered", core.FuncName(ki.f), lf.label, want, ki.w.shape(lf.v, nil))
						continue
					}
					seq = append(seq, k)
					used[k] = true
				}
			}
			if !sort.IntsAreSorted(seq) {
				o.Fail(p.InstrPos(fw), "%s forwards its parameters in the order %s: not declaration order (swapped?)", core.FuncName(ki.f), c12ints(seq))
			}
			for k := 2; k < len(ki.f.Params); k++ {
				if !used[k] {
					o.Fail(p.InstrPos(fw), "%s: parameter %q is not forwarded", core.FuncName(ki.f), ki.f.Params[k].Name())
				}
			}
			if m := c12returnsResultsOf(p, ki.f, fw); m != "" {
				o.Fail(p.InstrPos(fw), "%s does not return the results of Redis.%s: %s", core.FuncName(ki.f), want, m)
			}
		}
	})
	r.Check("D5/K1/kv-del-every-key", "kv.Store DelCtx ranges over all of keys, routes each key with getRedis(key) and deletes exactly that key on that node; it returns only after the range is exhausted", func(o *core.O) {
		if !o.Need(kvDel != nil, "kvStore.DelCtx") {
			return
		}
		f := kvDel
		r.Fn(core.FuncName(f))
		w := newC12fn(f)
		route := c12methodCalls(f, "("+c12kvPkg+".kvStore).getRedis")
		del := c12methodCalls(f, "(*"+c12redisPkg+".Redis).")
		o.Site(len(route) + len(del))
		if len(route) != 1 || len(del) != 1 || c12methodName(del[0]) != "DelCtx" {
			o.Fail(p.Pos(f.Pos()), "DelCtx: expected one getRedis and one Redis.DelCtx call in the loop, found %d and %d", len(route), len(del))
			return
		}
		// the routed key: element of the keys parameter at the range index
		keysIdx := len(f.Params) - 1
		elem := core.Forward(route[0].Call.Args[1])
		var ia *ssa.IndexAddr
		if u, ok := elem.(*ssa.UnOp); ok && u.Op == token.MUL {
			ia, _ = u.X.(*ssa.IndexAddr)
		}
		if ia == nil || w.paramIndex(ia.X) != keysIdx {
			o.Fail(p.InstrPos(route[0]), "DelCtx routes by %s, not by an element of keys", w.shape(elem, nil))
			return
		}
		// the index visits 0..len(keys)-1: either the range form φ(-1, φ+1) with the incremented value as
		// index and loop test, or the index-loop form φ(0, φ+1) with the φ itself as index and loop test
		full := false
		var cond *ssa.BinOp
		isKeysLen := core.IsLenOf(func(v ssa.Value) bool { return w.paramIndex(v) == keysIdx })
		loopOver := func(phi *ssa.Phi, start int64, tested ssa.Value) {
			if phi == nil || len(phi.Edges) < 2 {
				return
			}
			starts, backs := 0, 0
			for _, e := range phi.Edges {
				if c0, isC := core.ConstInt(e); isC && c0 == start {
					starts++
				} else if b, ok := e.(*ssa.BinOp); ok && b.Op == token.ADD && b.X == ssa.Value(phi) {
					if one, isOne := core.ConstInt(b.Y); isOne && one == 1 {
						backs++
					}
				}
			}
			if starts != 1 || backs != len(phi.Edges)-1 {
				return
			}
			for _, ref := range *tested.Referrers() {
				if b, ok := ref.(*ssa.BinOp); ok && b.Op == token.LSS && b.X == tested && isKeysLen(b.Y) {
					full, cond = true, b
				}
				if b, ok := ref.(*ssa.BinOp); ok && b.Op == token.GTR && b.Y == tested && isKeysLen(b.X) {
					full, cond = true, b
				}
			}
		}
		if inc, ok := ia.Index.(*ssa.BinOp); ok && inc.Op == token.ADD {
			if one, isOne := core.ConstInt(inc.Y); isOne && one == 1 {
				phi, _ := inc.X.(*ssa.Phi)
				loopOver(phi, -1, inc)
			}
		} else if phi, ok := ia.Index.(*ssa.Phi); ok {
			loopOver(phi, 0, phi)
		}
		if !full {
			o.Fail(p.InstrPos(route[0]), "DelCtx: the routed key is keys[%s], not the element of a full range over keys", w.shape(ia.Index, nil))
			return
		}
		// the deleted key is exactly that element, on the routed node
		if c, idx := core.ResultOf(core.Forward(del[0].Call.Args[0])); c != route[0] || idx != 0 {
			o.Fail(p.InstrPos(del[0]), "DelCtx deletes on a node other than the one the key hashes to")
		}
		if w.paramIndex(del[0].Call.Args[1]) != 1 {
			o.Fail(p.InstrPos(del[0]), "DelCtx does not pass its ctx on")
		}
		lv := w.flatten(del[0].Call.Args[2], "keys", 0)
		sameElem := func(v ssa.Value) bool {
			if v == elem {
				return true
			}
			u, ok := v.(*ssa.UnOp)
			if !ok || u.Op != token.MUL {
				return false
			}
			ib, ok := u.X.(*ssa.IndexAddr)
			return ok && w.paramIndex(ib.X) == keysIdx && ib.Index == ia.Index
		}
		if len(lv) != 1 || !sameElem(core.Forward(lv[0].v)) {
			var sh []string
			for _, l := range lv {
				sh = append(sh, w.shape(l.v, nil))
			}
			o.Fail(p.InstrPos(del[0]), "DelCtx deletes %v on the routed node, expected exactly the routed key", sh)
		}
		// every return only after the loop is exhausted
		_, exhausted := core.EdgesOf(f, func(v ssa.Value) (bool, bool) { return v == ssa.Value(cond), true })
		if wv, found := core.Reach(core.Q{From: []core.At{core.Entry(f)}, Target: core.IsReturn, Cut: core.CutSet(exhausted)}); found {
			o.Fail(p.InstrPos(wv), "DelCtx can return before every key was visited: the remaining keys are not deleted")
		}
	})
}

// c12freshError matches an error that is certainly not a stale nil: the result
// of an error constructor or a package-level sentinel.
func c12freshError(v ssa.Value) bool {
	switch x := core.Strip(v).(type) {
	case *ssa.Call:
		n := core.CalleeName(x)
		return n == "fmt.Errorf" || n == "errors.New"
	case *ssa.UnOp:
		_, ok := x.X.(*ssa.Global)
		return ok && x.Op == token.MUL
	}
	return false
}

// c12isSecondsReply: a time.Duration reply handed to the caller as an integer number of seconds.
func c12isSecondsReply(src, dst types.Type) bool {
	return src.String() == "time.Duration" && dst.String() != "time.Duration" && c12isInteger(dst)
}

func c12orNil(t types.Type) types.Type {
	if t == nil {
		return types.Typ[types.Invalid]
	}
	return t
}

// c12resultType is the type of reply value i of the command (result i of .Result(), or of the call itself).
func c12resultType(cmd ssa.CallInstruction, i int) types.Type {
	cv, ok := cmd.(*ssa.Call)
	if !ok {
		return nil
	}
	if tup, ok := cv.Type().(*types.Tuple); ok {
		if i < tup.Len()-1 {
			return tup.At(i).Type()
		}
		return nil
	}
	ms := types.NewMethodSet(cv.Type())
	for j := 0; j < ms.Len(); j++ {
		if ms.At(j).Obj().Name() == "Result" {
			sig := ms.At(j).Type().(*types.Signature)
			if i < sig.Results().Len()-1 {
				return sig.Results().At(i).Type()
			}
		}
	}
	return nil
}

func c12basic(t types.Type, info types.BasicInfo) bool {
	b, ok := t.Underlying().(*types.Basic)
	return ok && b.Info()&info != 0
}
func c12isString(t types.Type) bool  { return c12basic(t, types.IsString) }
func c12isInteger(t types.Type) bool { return c12basic(t, types.IsInteger) }
func c12isNumeric(t types.Type) bool { return c12basic(t, types.IsNumeric) }
func c12isBool(t types.Type) bool    { return c12basic(t, types.IsBoolean) }
func c12isMap(t types.Type) bool     { _, ok := t.Underlying().(*types.Map); return ok }
func c12isStringSlice(t types.Type) bool {
	s, ok := t.Underlying().(*types.Slice)
	return ok && c12isString(s.Elem())
}
