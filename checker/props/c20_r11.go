package props

import (
	"fmt"
	"go/constant"
	"go/token"
	"go/types"
	"math"
	"sort"

	"godcheck/core"

	"golang.org/x/tools/go/ssa"
)

// Round 11 (missed change C20-xm1): ToSnake pre-sized a strings.Builder with
// Grow(len(source)+len(words)-1), which is -1 for the empty identifier and panics.
//
// D4/K6/size-arguments-non-negative is the panic-freedom clause restricted to library
// calls that panic on a negative size: every such argument in util/stringx and
// util/format must be non-negative by a small lower-bound analysis (below).

const (
	c20NegInf = math.MinInt64 / 4
	c20PosInf = math.MaxInt64 / 4
)

func c20Sat(a, b int64) int64 {
	if a <= c20NegInf || b <= c20NegInf {
		return c20NegInf
	}
	if a >= c20PosInf || b >= c20PosInf {
		return c20PosInf
	}
	s := a + b
	if s <= c20NegInf {
		return c20NegInf
	}
	if s >= c20PosInf {
		return c20PosInf
	}
	return s
}

// c20NonNegCalls: library results that are never negative.
var c20NonNegCalls = map[string]bool{
	"(*strings.Builder).Len": true, "(*strings.Builder).Cap": true,
	"(*bytes.Buffer).Len": true, "(*bytes.Buffer).Cap": true, "(*bytes.Buffer).Available": true,
	"strings.Count": true, "bytes.Count": true,
	"unicode/utf8.RuneCountInString": true, "unicode/utf8.RuneCount": true,
}

// c20LB computes lower bounds of integer SSA values (overflow is not modelled).
type c20LB struct {
	hyp   map[*ssa.Phi]int64
	inMod map[*ssa.Function]bool
}

func (b *c20LB) of(v ssa.Value, depth int) int64 {
	if v == nil || depth > 14 {
		return c20NegInf
	}
	v = core.Forward(v)
	switch x := v.(type) {
	case *ssa.Const:
		if x.Value != nil && x.Value.Kind() == constant.Int {
			if i, ok := constant.Int64Val(x.Value); ok {
				return i
			}
		}
		return c20NegInf
	case *ssa.Call:
		name := core.CalleeName(x)
		switch name {
		case "builtin:len", "builtin:cap":
			return 0
		case "builtin:max", "builtin:min":
			var out int64
			for i, a := range x.Call.Args {
				l := b.of(a, depth+1)
				if i == 0 || (name == "builtin:max" && l > out) || (name == "builtin:min" && l < out) {
					out = l
				}
			}
			return out
		}
		if c20NonNegCalls[name] {
			return 0
		}
		if f := x.Call.StaticCallee(); f != nil && b.inMod[f] && len(f.Blocks) > 0 && f.Signature.Results().Len() == 1 {
			out := int64(c20PosInf)
			n := 0
			for _, bl := range f.Blocks {
				if ret, ok := bl.Instrs[len(bl.Instrs)-1].(*ssa.Return); ok && len(ret.Results) == 1 {
					n++
					if l := b.of(ret.Results[0], depth+4); l < out {
						out = l
					}
				}
			}
			if n > 0 {
				return out
			}
		}
		return c20NegInf
	case *ssa.BinOp:
		if !isIntegerType(x.Type()) {
			return c20NegInf
		}
		lx, ly := b.of(x.X, depth+1), b.of(x.Y, depth+1)
		switch x.Op {
		case token.ADD:
			return c20Sat(lx, ly)
		case token.SUB:
			if c, ok := core.Forward(x.Y).(*ssa.Const); ok && c.Value != nil && c.Value.Kind() == constant.Int {
				return c20Sat(lx, -c.Int64())
			}
		case token.MUL:
			if lx >= 0 && ly >= 0 {
				if lx < 1<<20 && ly < 1<<20 {
					return lx * ly
				}
				return 0
			}
		case token.QUO:
			if lx >= 0 && ly > 0 {
				return 0
			}
		case token.REM, token.SHR:
			if lx >= 0 {
				return 0
			}
		case token.AND:
			if lx >= 0 || ly >= 0 {
				return 0
			}
		}
		return c20NegInf
	case *ssa.Phi:
		if h, ok := b.hyp[x]; ok {
			return h
		}
		round := func(h int64) int64 {
			b.hyp[x] = h
			defer delete(b.hyp, x)
			out := int64(c20PosInf)
			for _, e := range x.Edges {
				if l := b.of(e, depth+1); l < out {
					out = l
				}
			}
			return out
		}
		l0 := round(c20PosInf) // bound of the entries that do not come round the loop
		if l0 >= c20PosInf || l0 <= c20NegInf {
			return c20NegInf
		}
		if round(l0) >= l0 { // inductive: the loop-carried entries keep the bound
			return l0
		}
		return c20NegInf
	case *ssa.Convert:
		from, ok1 := x.X.Type().Underlying().(*types.Basic)
		to, ok2 := x.Type().Underlying().(*types.Basic)
		if !ok1 || !ok2 || from.Info()&types.IsInteger == 0 || to.Info()&types.IsInteger == 0 {
			return c20NegInf
		}
		wide := to.Kind() == types.Int || to.Kind() == types.Int64
		if from.Info()&types.IsUnsigned != 0 {
			switch from.Kind() {
			case types.Uint8, types.Uint16, types.Uint32:
				if wide {
					return 0
				}
			}
			return c20NegInf
		}
		if wide || from.Kind() == to.Kind() {
			return b.of(x.X, depth+1)
		}
		return c20NegInf
	case *ssa.ChangeType:
		return b.of(x.X, depth+1)
	case *ssa.Extract:
		if nx, ok := x.Tuple.(*ssa.Next); ok && nx.IsString && x.Index == 1 {
			return 0 // byte offset of a range over a string
		}
	}
	return c20NegInf
}

// c20Flat: Σ coef·atom + k with atoms named canonically, so that two len(s.source) of an
// immutable value are the same atom. φ values stay atoms (bounded by c20LB).
type c20FlatTerm struct {
	coef int64
	v    ssa.Value // nil: a synthesized len(...) atom, bound 0
}
type c20Flat struct {
	terms map[string]c20FlatTerm
	k     int64
}

func c20Canon(v ssa.Value, depth int) string {
	v = core.Forward(v)
	if depth < 6 {
		switch x := v.(type) {
		case *ssa.Call:
			if n := core.CalleeName(x); (n == "builtin:len" || n == "builtin:cap") && len(x.Call.Args) == 1 {
				return n[8:] + "(" + c20Canon(x.Call.Args[0], depth+1) + ")"
			}
		case *ssa.Field: // field of a struct VALUE: immutable
			return fmt.Sprintf("%s.#%d", c20Canon(x.X, depth+1), x.Field)
		case *ssa.ChangeType:
			return c20Canon(x.X, depth+1)
		}
	}
	return fmt.Sprintf("%p", v)
}

func (l c20Flat) plus(o c20Flat, sign int64) c20Flat {
	out := c20Flat{terms: map[string]c20FlatTerm{}, k: l.k + sign*o.k}
	for a, t := range l.terms {
		out.terms[a] = t
	}
	for a, t := range o.terms {
		cur := out.terms[a]
		if cur.v == nil {
			cur.v = t.v
		}
		cur.coef += sign * t.coef
		if cur.coef == 0 {
			delete(out.terms, a)
		} else {
			out.terms[a] = cur
		}
	}
	return out
}

func c20FlatOf(v ssa.Value, depth int) c20Flat {
	fv := core.Forward(v)
	if c, ok := fv.(*ssa.Const); ok && c.Value != nil && c.Value.Kind() == constant.Int {
		if i, ok := constant.Int64Val(c.Value); ok {
			return c20Flat{terms: map[string]c20FlatTerm{}, k: i}
		}
	}
	if depth < 12 {
		switch x := fv.(type) {
		case *ssa.BinOp:
			if (x.Op == token.ADD || x.Op == token.SUB) && isIntegerType(x.Type()) {
				sign := int64(1)
				if x.Op == token.SUB {
					sign = -1
				}
				return c20FlatOf(x.X, depth+1).plus(c20FlatOf(x.Y, depth+1), sign)
			}
		case *ssa.ChangeType:
			return c20FlatOf(x.X, depth+1)
		}
	}
	return c20Flat{terms: map[string]c20FlatTerm{c20Canon(fv, 0): {coef: 1, v: fv}}}
}

func (b *c20LB) ofFlat(l c20Flat) int64 {
	out := l.k
	for _, t := range l.terms {
		if t.coef < 0 {
			return c20NegInf // no upper bounds
		}
		lb := int64(0)
		if t.v != nil {
			lb = b.of(t.v, 0)
		}
		if lb <= c20NegInf {
			return c20NegInf
		}
		if lb > 1<<20 {
			lb = 1 << 20
		}
		out = c20Sat(out, t.coef*lb)
	}
	return out
}

// c20GuardFacts: linear forms that are ≥ 0 whenever control is at `at`, read off the
// branch conditions whose taken edge dominates `at`.
func (b *c20LB) guardFacts(at ssa.Instruction) []c20Flat {
	blk := at.Block()
	var facts []c20Flat
	for d := blk.Idom(); d != nil; d = d.Idom() {
		iff, ok := d.Instrs[len(d.Instrs)-1].(*ssa.If)
		if !ok || len(d.Succs) != 2 || d.Succs[0] == d.Succs[1] {
			continue
		}
		for i, s := range d.Succs {
			if !s.Dominates(blk) {
				continue
			}
			only := true
			for _, p := range s.Preds {
				if p != d && !s.Dominates(p) {
					only = false
				}
			}
			if only {
				facts = append(facts, b.condFacts(iff.Cond, i == 0, 0)...)
			}
		}
	}
	return facts
}

func (b *c20LB) condFacts(cond ssa.Value, truth bool, depth int) []c20Flat {
	cond = core.Forward(cond)
	if u, ok := cond.(*ssa.UnOp); ok && u.Op == token.NOT && depth < 4 {
		return b.condFacts(u.X, !truth, depth+1)
	}
	bo, ok := cond.(*ssa.BinOp)
	if !ok {
		return nil
	}
	op := bo.Op
	if !truth {
		switch op {
		case token.LSS:
			op = token.GEQ
		case token.LEQ:
			op = token.GTR
		case token.GTR:
			op = token.LEQ
		case token.GEQ:
			op = token.LSS
		case token.EQL:
			op = token.NEQ
		case token.NEQ:
			op = token.EQL
		default:
			return nil
		}
	}
	var x, y c20Flat
	if isIntegerType(bo.X.Type()) && isIntegerType(bo.Y.Type()) {
		x, y = c20FlatOf(bo.X, 0), c20FlatOf(bo.Y, 0)
	} else if bt, ok := bo.X.Type().Underlying().(*types.Basic); ok && bt.Info()&types.IsString != 0 && (op == token.EQL || op == token.NEQ) {
		// s == "" / s != "" speaks about len(s)
		side := func(v ssa.Value) (c20Flat, bool) {
			if s, ok := core.ConstString(v); ok {
				return c20Flat{terms: map[string]c20FlatTerm{}, k: int64(len(s))}, s == ""
			}
			return c20Flat{terms: map[string]c20FlatTerm{"len(" + c20Canon(v, 1) + ")": {coef: 1}}}, false
		}
		var ex, ey bool
		x, ex = side(bo.X)
		y, ey = side(bo.Y)
		if !ex && !ey {
			return nil
		}
		if op == token.EQL { // equal strings have equal lengths
			return []c20Flat{x.plus(y, -1), y.plus(x, -1)}
		}
	} else {
		return nil
	}
	one := c20Flat{terms: map[string]c20FlatTerm{}, k: 1}
	switch op {
	case token.LSS:
		return []c20Flat{y.plus(x, -1).plus(one, -1)}
	case token.LEQ:
		return []c20Flat{y.plus(x, -1)}
	case token.GTR:
		return []c20Flat{x.plus(y, -1).plus(one, -1)}
	case token.GEQ:
		return []c20Flat{x.plus(y, -1)}
	case token.EQL:
		return []c20Flat{x.plus(y, -1), y.plus(x, -1)}
	case token.NEQ:
		if d := x.plus(y, -1); b.ofFlat(d) >= 0 {
			return []c20Flat{d.plus(one, -1)}
		}
		if d := y.plus(x, -1); b.ofFlat(d) >= 0 {
			return []c20Flat{d.plus(one, -1)}
		}
	}
	return nil
}

// nonNegAt: lower bound of v at instruction `at`, using up to two guard facts.
func (b *c20LB) nonNegAt(v ssa.Value, at ssa.Instruction) int64 {
	l := c20FlatOf(v, 0)
	best := b.ofFlat(l)
	if direct := b.of(v, 0); direct > best {
		best = direct
	}
	if best >= 0 {
		return best
	}
	facts := b.guardFacts(at)
	for _, f := range facts {
		l1 := l.plus(f, -1)
		if got := b.ofFlat(l1); got >= 0 {
			return got
		}
		for _, g := range facts {
			if got := b.ofFlat(l1.plus(g, -1)); got >= 0 {
				return got
			}
		}
	}
	return best
}

// c20SizeArgs lists the operands of in that must not be negative (the library panics).
func c20SizeArgs(in ssa.Instruction) (what string, args []ssa.Value) {
	switch x := in.(type) {
	case *ssa.Call:
		switch n := core.CalleeName(x); n {
		case "(*strings.Builder).Grow", "(*bytes.Buffer).Grow", "strings.Repeat", "bytes.Repeat":
			if len(x.Call.Args) == 2 {
				return n, []ssa.Value{x.Call.Args[1]}
			}
		}
	case *ssa.MakeSlice:
		return "make of a slice", []ssa.Value{x.Len, x.Cap}
	case *ssa.MakeChan:
		return "make of a channel", []ssa.Value{x.Size}
	}
	return "", nil
}

func c20R11(r *core.Run, ext *core.Ext) {
	p := r.P
	r.Check("D4/K6/size-arguments-non-negative", "in util/stringx and util/format (the packages of ToCamel, ToSnake and FileNamingFormat) every size handed to a library operation that panics on a negative size – (*strings.Builder).Grow, (*bytes.Buffer).Grow, strings/bytes.Repeat, make of a slice or channel – is non-negative on every input: lengths, counts and non-negative constants, their sums/products/maxima, loop counters that start non-negative and only grow, and differences only under a dominating branch condition that implies them [the clause 'these conversions never fail or panic on any string' – the quantifier names the empty identifier, for which every length is 0 and a size of the form len(..)+len(..)-1 is -1]", func(o *core.O) {
		inMod := map[*ssa.Function]bool{}
		for _, f := range ext.AllFuncs() {
			inMod[f] = true
		}
		entries := []*ssa.Function{ext.Func(strxRel, "String", "ToSnake"), ext.Func(strxRel, "String", "ToCamel"), ext.Func(fmtRel, "", "FileNamingFormat")}
		for _, e := range entries {
			if !o.Need(e != nil, "stringx.String.ToSnake, ToCamel and format.FileNamingFormat") {
				return
			}
		}
		var fs []*ssa.Function
		fs = append(fs, ext.Funcs(strxRel)...)
		fs = append(fs, ext.Funcs(fmtRel)...)
		sort.SliceStable(fs, func(i, j int) bool { return core.FuncName(fs[i]) < core.FuncName(fs[j]) })
		found := 0
		for _, e := range entries {
			for _, f := range fs {
				if f == e {
					found++
				}
			}
		}
		if !o.Need(found == len(entries), "the conversion entry points among the functions of util/stringx and util/format") {
			return
		}
		lb := &c20LB{hyp: map[*ssa.Phi]int64{}, inMod: inMod}
		sized := 0
		for _, f := range fs {
			for _, bl := range f.Blocks {
				for _, in := range bl.Instrs {
					what, args := c20SizeArgs(in)
					for _, a := range args {
						if a == nil {
							continue
						}
						sized++
						r.Fn(core.FuncName(f))
						got := lb.nonNegAt(a, in)
						switch {
						case got >= 0:
						case got <= c20NegInf:
							o.Unres("%s: %s: the size %s of %s has no lower bound this rule can derive (a value that is neither a length, a count, a constant nor a guarded difference)", p.InstrPos(in), core.FuncName(f), core.Describe(a), what)
						default:
							o.Fail(p.InstrPos(in), "%s: the size %s handed to %s can be %d (all lengths and counts 0: the empty identifier / no words) and no dominating condition excludes it; %s panics on a negative size, so the conversion panics instead of returning a string", core.FuncName(f), core.Describe(a), what, got, what)
						}
					}
				}
			}
		}
		r.Extra["c20_sized_calls"] = sized
		o.Site(len(fs), godMod+"/"+strxRel, godMod+"/"+fmtRel)
	})
}
