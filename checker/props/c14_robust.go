package props

import (
	"go/constant"
	"go/token"
	"go/types"
	"strings"

	"godcheck/core"

	"golang.org/x/tools/go/ssa"
)

// Robustness helpers of the C14 table (fourth refactoring round):
//
//   - c14Tables: provably constant unexported package-level tables (array, slice,
//     map literal, or a single value) — of constants (evaluated by c14Evaluator) or
//     of FUNCTION values (method expressions, functions): the members and every
//     place a member can be called from;
//   - callees: the functions an indirect call may invoke (φ, conversions, method
//     expression thunks, elements of such a table);
//   - c14HeldThroughTables: a function that is reachable only through such a table
//     (or direct calls) runs with the locks held at all those call sites;
//   - c14Evaluator: concrete evaluation of codes.Acceptable for one status code.

// ---------------------------------------------------------------------------
// constant package-level tables

type c14Table struct {
	g      *ssa.Global
	isMap  bool
	scalar bool             // a single value (function variable / constant variable)
	keys   []constant.Value // map tables: key of elems[i]
	elems  []ssa.Value      // the values stored by the package initialiser; nil = left at its zero value
	fill   map[ssa.Instruction]bool
	loads  []ssa.Value // element values read outside the initialiser (loads, lookups; the tuple for comma-ok)
	ranged bool        // iterated with range: the element values are not tracked
	elemT  types.Type
}

type c14Tables struct {
	memo map[*ssa.Global]*c14Table
	done map[*ssa.Global]bool
}

func newC14Tables() *c14Tables {
	return &c14Tables{memo: map[*ssa.Global]*c14Table{}, done: map[*ssa.Global]bool{}}
}

// of returns the table held by g when g is provably constant: unexported, built
// once by the package initialiser from a literal, and only read elsewhere in its
// package (element loads, lookups, len, range); nil otherwise.
func (tb *c14Tables) of(g *ssa.Global) *c14Table {
	if tb.done[g] {
		return tb.memo[g]
	}
	tb.done[g] = true
	tb.memo[g] = c14ReadTable(g)
	return tb.memo[g]
}

func c14ReadTable(g *ssa.Global) *c14Table {
	if g == nil || g.Pkg == nil || g.Object() == nil || g.Object().Exported() {
		return nil
	}
	initFn := g.Pkg.Func("init")
	if initFn == nil {
		return nil
	}
	tab := &c14Table{g: g, fill: map[ssa.Instruction]bool{}}
	vt := g.Type().Underlying().(*types.Pointer).Elem()
	arrLen := int64(-1)
	switch u := vt.Underlying().(type) {
	case *types.Array:
		arrLen = u.Len()
		tab.elems = make([]ssa.Value, arrLen)
		tab.elemT = u.Elem()
	case *types.Slice:
		tab.elemT = u.Elem()
	case *types.Map:
		tab.elemT = u.Elem()
	default:
		tab.elemT = vt
	}
	var initRefs, otherRefs []ssa.Instruction
	for _, f := range core.SSAPkgFuncs(g.Pkg.Prog, g.Pkg) {
		for _, b := range f.Blocks {
			for _, in := range b.Instrs {
				if _, ok := in.(*ssa.DebugRef); ok {
					continue
				}
				for _, op := range in.Operands(nil) {
					if *op == ssa.Value(g) {
						if f == initFn {
							initRefs = append(initRefs, in)
						} else {
							otherRefs = append(otherRefs, in)
						}
						break
					}
				}
			}
		}
	}
	stores, inPlace := 0, false
	for _, in := range initRefs {
		switch x := in.(type) {
		case *ssa.Store:
			if x.Addr != ssa.Value(g) || stores > 0 || inPlace {
				return nil
			}
			stores++
			if !tab.readLiteral(x, arrLen) {
				return nil
			}
		case *ssa.IndexAddr: // array variable initialised in place
			if x.X != ssa.Value(g) || stores > 0 || arrLen < 0 {
				return nil
			}
			inPlace = true
			if !tab.elemStore(x, nil) {
				return nil
			}
		default:
			return nil
		}
	}
	if stores == 0 && !inPlace {
		return nil
	}
	for _, in := range otherRefs {
		switch x := in.(type) {
		case *ssa.UnOp:
			if x.Op != token.MUL {
				return nil
			}
			if tab.scalar {
				tab.loads = append(tab.loads, x)
			} else if !tab.readOnly(x) {
				return nil
			}
		case *ssa.IndexAddr:
			if x.X != ssa.Value(g) || !tab.elemLoads(x) {
				return nil
			}
		default:
			return nil
		}
	}
	return tab
}

func c14Before(a, b ssa.Instruction) bool {
	if a.Block() != b.Block() {
		return false
	}
	ia, ib := -1, -1
	for i, in := range a.Block().Instrs {
		if in == a {
			ia = i
		}
		if in == b {
			ib = i
		}
	}
	return ia >= 0 && ia < ib
}

// elemStore records `&x[i]` with a constant index that is stored to exactly once
// (before limit, when given).
func (t *c14Table) elemStore(ia *ssa.IndexAddr, limit ssa.Instruction) bool {
	i, ok := core.ConstInt(ia.Index)
	if !ok || i < 0 || int(i) >= len(t.elems) || t.elems[i] != nil || ia.Referrers() == nil {
		return false
	}
	n := 0
	for _, r := range *ia.Referrers() {
		switch x := r.(type) {
		case *ssa.Store:
			if x.Addr != ssa.Value(ia) || (limit != nil && !c14Before(x, limit)) {
				return false
			}
			t.elems[i] = x.Val
			t.fill[x] = true
			n++
		case *ssa.DebugRef:
		default:
			return false
		}
	}
	return n == 1
}

func c14OnlyRef(v ssa.Value, only ssa.Instruction) bool {
	if v.Referrers() == nil {
		return false
	}
	for _, r := range *v.Referrers() {
		if _, ok := r.(*ssa.DebugRef); ok || r == only {
			continue
		}
		return false
	}
	return true
}

// readLiteral reads the composite literal (or single value) stored into the variable by st.
func (t *c14Table) readLiteral(st *ssa.Store, arrLen int64) bool {
	switch v := st.Val.(type) {
	case *ssa.MakeMap:
		t.isMap = true
		if v.Referrers() == nil {
			return false
		}
		for _, r := range *v.Referrers() {
			switch x := r.(type) {
			case *ssa.MapUpdate:
				k, isC := x.Key.(*ssa.Const)
				if x.Map != ssa.Value(v) || !isC || k.Value == nil || !c14Before(x, st) {
					return false
				}
				for _, old := range t.keys {
					if constant.Compare(old, token.EQL, k.Value) {
						return false
					}
				}
				t.keys = append(t.keys, k.Value)
				t.elems = append(t.elems, x.Value)
				t.fill[x] = true
			case *ssa.Store:
				if x != st {
					return false
				}
			case *ssa.DebugRef:
			default:
				return false
			}
		}
		return true
	case *ssa.Slice:
		al, ok := v.X.(*ssa.Alloc)
		if !ok || v.Low != nil || v.High != nil || v.Max != nil || !c14OnlyRef(v, st) {
			return false
		}
		arr, ok := al.Type().Underlying().(*types.Pointer).Elem().Underlying().(*types.Array)
		if !ok {
			return false
		}
		t.elems = make([]ssa.Value, arr.Len())
		for _, r := range *al.Referrers() {
			switch x := r.(type) {
			case *ssa.IndexAddr:
				if !t.elemStore(x, v) {
					return false
				}
			case *ssa.Slice:
				if x != v {
					return false
				}
			case *ssa.DebugRef:
			default:
				return false
			}
		}
		return true
	case *ssa.UnOp: // an array literal built in a temporary and stored as a whole
		al, ok := v.X.(*ssa.Alloc)
		if !ok || v.Op != token.MUL || arrLen < 0 || !c14OnlyRef(v, st) {
			return false
		}
		for _, r := range *al.Referrers() {
			switch x := r.(type) {
			case *ssa.IndexAddr:
				if !t.elemStore(x, v) {
					return false
				}
			case *ssa.UnOp:
				if x != v {
					return false
				}
			case *ssa.DebugRef:
			default:
				return false
			}
		}
		return true
	}
	if arrLen >= 0 {
		return false
	}
	if _, isC := st.Val.(*ssa.Const); isC || c14FuncOf(st.Val) != nil {
		t.scalar = true
		t.elems = []ssa.Value{st.Val}
		t.fill[st] = true
		return true
	}
	return false
}

// readOnly: the loaded table value lv is only indexed, looked up, measured or ranged over.
func (t *c14Table) readOnly(lv *ssa.UnOp) bool {
	if lv.Referrers() == nil {
		return false
	}
	for _, r := range *lv.Referrers() {
		switch x := r.(type) {
		case *ssa.DebugRef:
		case *ssa.Lookup:
			if x.X != ssa.Value(lv) || x.Index == ssa.Value(lv) {
				return false
			}
			t.loads = append(t.loads, x)
		case *ssa.Index:
			if x.X != ssa.Value(lv) {
				return false
			}
			t.loads = append(t.loads, x)
		case *ssa.IndexAddr:
			if x.X != ssa.Value(lv) || !t.elemLoads(x) {
				return false
			}
		case *ssa.Range:
			t.ranged = true
		case *ssa.Call:
			bi, ok := x.Call.Value.(*ssa.Builtin)
			if !ok || (bi.Name() != "len" && bi.Name() != "cap") {
				return false
			}
		default:
			return false
		}
	}
	return true
}

func (t *c14Table) elemLoads(ia *ssa.IndexAddr) bool {
	if ia.Referrers() == nil {
		return false
	}
	for _, r := range *ia.Referrers() {
		if u, ok := r.(*ssa.UnOp); ok && u.Op == token.MUL {
			t.loads = append(t.loads, u)
			continue
		}
		if _, ok := r.(*ssa.DebugRef); ok {
			continue
		}
		return false
	}
	return true
}

// ---------------------------------------------------------------------------
// tables of function values

// c14Unthunk maps the thunk of a method expression `T.m` / `(*T).m` to the method
// (the thunk's parameters are the receiver followed by the method's parameters).
func c14Unthunk(f *ssa.Function) *ssa.Function {
	if strings.HasPrefix(f.Synthetic, "thunk for") && f.Object() != nil {
		if tf, ok := f.Object().(*types.Func); ok {
			if t := f.Prog.FuncValue(tf); t != nil && len(t.Params) == len(f.Params) {
				return t
			}
		}
	}
	return f
}

// c14FuncOf: the function a function-valued operand denotes (nil when it is not a function constant).
func c14FuncOf(v ssa.Value) *ssa.Function {
	for {
		ct, ok := v.(*ssa.ChangeType)
		if !ok {
			break
		}
		v = ct.X
	}
	f, ok := v.(*ssa.Function)
	if !ok || len(f.FreeVars) > 0 {
		return nil
	}
	return c14Unthunk(f)
}

// funcs is the view of a table of function values: its members (nil entries are
// skipped: calling one panics) and every call that may invoke a member; ok=false
// when an entry is not a function constant or an element read from the table is
// used for anything but being called.
func (t *c14Table) funcs() (fns []*ssa.Function, sites []ssa.CallInstruction, ok bool) {
	if t == nil || t.ranged {
		return nil, nil, false
	}
	for _, e := range t.elems {
		if e == nil {
			continue
		}
		if c, isC := e.(*ssa.Const); isC {
			if c.Value != nil {
				return nil, nil, false
			}
			continue
		}
		f := c14FuncOf(e)
		if f == nil {
			return nil, nil, false
		}
		fns = append(fns, f)
	}
	seen := map[ssa.Value]bool{}
	for _, l := range t.loads {
		if !c14CallOnly(l, &sites, seen) {
			return nil, nil, false
		}
	}
	return fns, sites, len(fns) > 0
}

// c14CallOnly: the function value v is used only as the callee of plain calls
// (possibly after φ-nodes, conversions, the extraction from a comma-ok lookup, or a
// comparison with nil); the calls are appended to sites.
func c14CallOnly(v ssa.Value, sites *[]ssa.CallInstruction, seen map[ssa.Value]bool) bool {
	if seen[v] {
		return true
	}
	seen[v] = true
	if v.Referrers() == nil {
		return false
	}
	for _, r := range *v.Referrers() {
		switch x := r.(type) {
		case *ssa.DebugRef:
		case *ssa.Call:
			if x.Call.Value != v || x.Call.IsInvoke() {
				return false
			}
			for _, a := range x.Call.Args {
				if a == v {
					return false
				}
			}
			*sites = append(*sites, x)
		case *ssa.Phi:
			if !c14CallOnly(x, sites, seen) {
				return false
			}
		case *ssa.ChangeType:
			if !c14CallOnly(x, sites, seen) {
				return false
			}
		case *ssa.Extract:
			if _, isFn := x.Type().Underlying().(*types.Signature); isFn {
				if !c14CallOnly(x, sites, seen) {
					return false
				}
			}
		case *ssa.BinOp:
			if x.Op != token.EQL && x.Op != token.NEQ {
				return false
			}
		default:
			return false
		}
	}
	return true
}

// tableRoot resolves the table a value is read from: the variable itself
// (indexed in place) or a load of it.
func (tb *c14Tables) tableRoot(v ssa.Value) *c14Table {
	if u, ok := v.(*ssa.UnOp); ok && u.Op == token.MUL {
		v = u.X
	}
	if g, ok := v.(*ssa.Global); ok {
		return tb.of(g)
	}
	return nil
}

// callees lists the functions call c may invoke: its static callee, or — for a call
// of a function VALUE — every function constant that can flow into the value through
// φ-nodes, conversions, single-assignment locals and elements of constant tables of
// function values (method-expression thunks are replaced by the method). ok=false
// when some source of the value is not understood.
func (tb *c14Tables) callees(c ssa.CallInstruction) (fns []*ssa.Function, ok bool) {
	cc := c.Common()
	if cc.IsInvoke() {
		return nil, false
	}
	if _, isB := cc.Value.(*ssa.Builtin); isB {
		return nil, false
	}
	set := map[*ssa.Function]bool{}
	add := func(f *ssa.Function) {
		if f != nil && !set[f] {
			set[f] = true
			fns = append(fns, f)
		}
	}
	seen := map[ssa.Value]bool{}
	var walk func(v ssa.Value, d int) bool
	fromTable := func(root ssa.Value) bool {
		fs, _, ok := tb.tableRoot(root).funcs()
		for _, f := range fs {
			add(f)
		}
		return ok
	}
	walk = func(v ssa.Value, d int) bool {
		if d > 10 {
			return false
		}
		if seen[v] {
			return true
		}
		seen[v] = true
		switch x := v.(type) {
		case *ssa.Function:
			add(c14Unthunk(x))
			return true
		case *ssa.MakeClosure:
			f, isF := x.Fn.(*ssa.Function)
			if !isF || f.Synthetic != "" {
				return false
			}
			add(f)
			return true
		case *ssa.ChangeType:
			return walk(x.X, d+1)
		case *ssa.Phi:
			for _, e := range x.Edges {
				if !walk(e, d+1) {
					return false
				}
			}
			return len(x.Edges) > 0
		case *ssa.Const:
			return x.Value == nil // calling nil panics: no callee
		case *ssa.Extract:
			if lk, isL := x.Tuple.(*ssa.Lookup); isL && x.Index == 0 {
				return fromTable(lk.X)
			}
		case *ssa.Lookup:
			return fromTable(x.X)
		case *ssa.Index:
			return fromTable(x.X)
		case *ssa.UnOp:
			if x.Op != token.MUL {
				return false
			}
			switch a := x.X.(type) {
			case *ssa.Global:
				if t := tb.of(a); t != nil && t.scalar {
					return fromTable(a)
				}
			case *ssa.IndexAddr:
				return fromTable(a.X)
			case *ssa.Alloc:
				if fw := core.Forward(x); fw != ssa.Value(x) {
					return walk(fw, d+1)
				}
			}
		}
		return false
	}
	if !walk(cc.Value, 0) {
		return nil, false
	}
	return fns, len(fns) > 0
}

// c14HeldThroughTables decides a guarded access the lock analysis could not
// justify because its function f is used as a VALUE (the analysis then assumes
// unknown callers): when every use of f is a plain call or the filling of a
// constant table of function values whose elements are only ever called, f runs
// only from those call sites; the access is justified if the needed lock (a path
// from one of f's parameters) is held, through the corresponding argument, at
// every one of them.
func c14HeldThroughTables(tb *c14Tables, p *core.Prog, la *core.LockAnalysis, rel string, a core.Access) bool {
	f := a.Fn
	if f == nil || f.Parent() != nil || f.Object() == nil || f.Object().Exported() {
		return false
	}
	head, rest := a.Need, ""
	if i := strings.IndexAny(a.Need, ".["); i >= 0 {
		head, rest = a.Need[:i], a.Need[i:]
	}
	pi := -1
	for i, prm := range f.Params {
		if prm.Name() == head {
			pi = i
		}
	}
	if pi < 0 || rest == "" {
		return false
	}
	var sites []ssa.CallInstruction
	usedInTable := false
	// the constant tables of function values of f's package
	type ftab struct {
		t     *c14Table
		fns   []*ssa.Function
		sites []ssa.CallInstruction
	}
	var ftabs []ftab
	for _, m := range f.Pkg.Members {
		if g, isG := m.(*ssa.Global); isG {
			if fns, ts, ok := tb.of(g).funcs(); ok {
				ftabs = append(ftabs, ftab{tb.of(g), fns, ts})
			}
		}
	}
	fills := func(in ssa.Instruction) bool {
		for _, ft := range ftabs {
			if ft.t.fill[in] {
				return true
			}
		}
		return false
	}
	seen := map[ssa.Value]bool{}
	var track func(v ssa.Value) bool // every use of the function value v is accounted for
	track = func(v ssa.Value) bool {
		if seen[v] {
			return true
		}
		seen[v] = true
		if v.Referrers() == nil {
			return false
		}
		for _, r := range *v.Referrers() {
			if !useOK(r, v, &sites, &usedInTable, fills, track) {
				return false
			}
		}
		return true
	}
	// the uses of f and of its method-expression thunks (functions have no referrer lists)
	for _, fn := range p.PkgFuncs(rel) {
		for _, b := range fn.Blocks {
			for _, in := range b.Instrs {
				for _, op := range in.Operands(nil) {
					w, isF := (*op).(*ssa.Function)
					if !isF || c14Unthunk(w) != f {
						continue
					}
					if !useOK(in, w, &sites, &usedInTable, fills, track) {
						return false
					}
				}
			}
		}
	}
	if usedInTable {
		found := false
		for _, ft := range ftabs {
			for _, tf := range ft.fns {
				if tf == f {
					found = true
					sites = append(sites, ft.sites...)
					break
				}
			}
		}
		if !found {
			return false
		}
	}
	if len(sites) == 0 {
		return false
	}
	for _, s := range sites {
		args := s.Common().Args
		if pi >= len(args) {
			return false
		}
		ap := core.LockPath(args[pi])
		if ap == "" {
			return false
		}
		k, has := la.Held(s)[ap+rest]
		if !has || (a.Write && k != 'W') {
			return false
		}
	}
	return true
}

// useOK: instruction r uses the function value v in an accounted-for way: calls it,
// converts/merges it (tracked on), or stores it as an element of the literal that
// fills a constant package-level table of function values.
func useOK(r ssa.Instruction, v ssa.Value, sites *[]ssa.CallInstruction, usedInTable *bool, fills func(ssa.Instruction) bool, track func(ssa.Value) bool) bool {
	switch x := r.(type) {
	case *ssa.DebugRef:
		return true
	case *ssa.Call:
		if x.Call.Value != v || x.Call.IsInvoke() {
			return false
		}
		for _, a := range x.Call.Args {
			if a == v {
				return false
			}
		}
		*sites = append(*sites, x)
		return true
	case *ssa.ChangeType:
		return track(x)
	case *ssa.Phi:
		return track(x)
	case *ssa.Store:
		if x.Val != v {
			return false
		}
		*usedInTable = true
		return fills(x)
	case *ssa.MapUpdate:
		if x.Value != v || x.Key == v {
			return false
		}
		*usedInTable = true
		return fills(x)
	}
	return false
}

// ---------------------------------------------------------------------------
// concrete evaluation of the acceptability classifier

type c14ErrVal struct{ isNil bool }

type c14ConstTab struct {
	t    *c14Table
	vals []any // constant.Value; nil = present without a scalar value (struct{}{})
}

type c14ElemPtr struct {
	tab *c14ConstTab
	idx int
}

type c14Evaluator struct {
	tb    *c14Tables
	code  int64 // the value of status.Code(err) for a non-nil err
	steps int
}

type c14EvalFail struct{}

func (e *c14Evaluator) fail() { panic(c14EvalFail{}) }

func c14Zero(t types.Type) any {
	bt, ok := t.Underlying().(*types.Basic)
	if !ok {
		return nil
	}
	switch {
	case bt.Info()&types.IsBoolean != 0:
		return constant.MakeBool(false)
	case bt.Info()&types.IsInteger != 0:
		return constant.MakeInt64(0)
	case bt.Info()&types.IsString != 0:
		return constant.MakeString("")
	case bt.Info()&types.IsFloat != 0:
		return constant.MakeFloat64(0)
	}
	return nil
}

// consts is the view of a table of constants.
func (t *c14Table) consts() *c14ConstTab {
	if t == nil {
		return nil
	}
	out := &c14ConstTab{t: t}
	for _, e := range t.elems {
		switch c := e.(type) {
		case nil:
			z := c14Zero(t.elemT)
			if z == nil {
				return nil
			}
			out.vals = append(out.vals, z)
		case *ssa.Const:
			if c.Value == nil {
				if _, isStruct := c.Type().Underlying().(*types.Struct); !isStruct {
					return nil
				}
				out.vals = append(out.vals, nil)
			} else {
				out.vals = append(out.vals, c.Value)
			}
		default:
			return nil
		}
	}
	return out
}

// EvalAcceptable evaluates the one-parameter classifier fn on an error whose gRPC
// status code is `code` (errNil: on the nil error, whose code is OK).
func c14EvalAcceptable(tb *c14Tables, fn *ssa.Function, code int64, errNil bool) (res bool, ok bool) {
	if fn == nil || len(fn.Params) != 1 {
		return false, false
	}
	e := &c14Evaluator{tb: tb, code: code, steps: 5000}
	defer func() {
		if r := recover(); r != nil {
			if _, mine := r.(c14EvalFail); !mine {
				panic(r)
			}
			res, ok = false, false
		}
	}()
	out := e.call(fn, []any{c14ErrVal{errNil}}, 0)
	if len(out) != 1 {
		return false, false
	}
	c, isC := out[0].(constant.Value)
	if !isC || c.Kind() != constant.Bool {
		return false, false
	}
	return constant.BoolVal(c), true
}

func (e *c14Evaluator) call(fn *ssa.Function, args []any, depth int) []any {
	if fn == nil || len(fn.Blocks) == 0 || len(args) != len(fn.Params) || depth > 4 || fn.Recover != nil {
		e.fail()
	}
	env := map[ssa.Value]any{}
	for i, prm := range fn.Params {
		env[prm] = args[i]
	}
	var prev *ssa.BasicBlock
	b := fn.Blocks[0]
	for {
		phis := map[ssa.Value]any{}
		for _, in := range b.Instrs {
			phi, ok := in.(*ssa.Phi)
			if !ok {
				break
			}
			idx := -1
			for i, pr := range b.Preds {
				if pr == prev {
					idx = i
				}
			}
			if idx < 0 {
				e.fail()
			}
			phis[phi] = e.val(env, phi.Edges[idx])
		}
		for k, v := range phis {
			env[k] = v
		}
		next := (*ssa.BasicBlock)(nil)
		for _, in := range b.Instrs {
			if e.steps--; e.steps <= 0 {
				e.fail()
			}
			switch x := in.(type) {
			case *ssa.Phi, *ssa.DebugRef:
			case *ssa.Return:
				var out []any
				for _, r := range x.Results {
					out = append(out, e.val(env, r))
				}
				return out
			case *ssa.Jump:
				next = b.Succs[0]
			case *ssa.If:
				c, ok := e.val(env, x.Cond).(constant.Value)
				if !ok || c.Kind() != constant.Bool {
					e.fail()
				}
				if constant.BoolVal(c) {
					next = b.Succs[0]
				} else {
					next = b.Succs[1]
				}
			case ssa.Value:
				env[x] = e.instr(env, x, depth)
			default:
				e.fail() // stores, defers, sends …: not a pure classifier
			}
		}
		if next == nil {
			e.fail()
		}
		prev, b = b, next
	}
}

func (e *c14Evaluator) val(env map[ssa.Value]any, v ssa.Value) any {
	switch x := v.(type) {
	case *ssa.Const:
		if x.Value == nil {
			if types.IsInterface(x.Type()) {
				return c14ErrVal{true} // the nil interface
			}
			e.fail()
		}
		return x.Value
	case *ssa.Global:
		if ct := e.tb.of(x).consts(); ct != nil {
			return ct
		}
		e.fail()
	}
	r, ok := env[v]
	if !ok {
		e.fail()
	}
	return r
}

func (e *c14Evaluator) lookup(ct *c14ConstTab, k constant.Value) (any, bool) {
	for i, key := range ct.t.keys {
		if key.Kind() == k.Kind() && constant.Compare(key, token.EQL, k) {
			return ct.vals[i], true
		}
	}
	return nil, false
}

func (e *c14Evaluator) instr(env map[ssa.Value]any, v ssa.Value, depth int) any {
	switch x := v.(type) {
	case *ssa.BinOp:
		a, b := e.val(env, x.X), e.val(env, x.Y)
		if ea, ok := a.(c14ErrVal); ok {
			eb, ok2 := b.(c14ErrVal)
			if !ok2 || (!ea.isNil && !eb.isNil) || (x.Op != token.EQL && x.Op != token.NEQ) {
				e.fail() // two non-nil errors: not comparable here
			}
			return constant.MakeBool((ea.isNil == eb.isNil) == (x.Op == token.EQL))
		}
		ca, aok := a.(constant.Value)
		cb, bok := b.(constant.Value)
		if !aok || !bok {
			e.fail()
		}
		switch x.Op {
		case token.EQL, token.NEQ, token.LSS, token.LEQ, token.GTR, token.GEQ:
			return constant.MakeBool(constant.Compare(ca, x.Op, cb))
		case token.ADD, token.SUB, token.MUL, token.AND, token.OR, token.XOR, token.AND_NOT:
			r := constant.BinaryOp(ca, x.Op, cb)
			if r.Kind() == constant.Int && (constant.Sign(r) < 0 || constant.Compare(r, token.GTR, constant.MakeInt64(1<<31))) {
				e.fail() // no wrap-around modelled
			}
			return r
		case token.SHL, token.SHR:
			n, ok := constant.Uint64Val(cb)
			if !ok || n > 40 {
				e.fail()
			}
			return constant.Shift(ca, x.Op, uint(n))
		}
	case *ssa.UnOp:
		switch x.Op {
		case token.NOT:
			c, ok := e.val(env, x.X).(constant.Value)
			if !ok || c.Kind() != constant.Bool {
				e.fail()
			}
			return constant.MakeBool(!constant.BoolVal(c))
		case token.MUL:
			switch pt := e.val(env, x.X).(type) {
			case c14ElemPtr:
				if pt.idx < 0 || pt.idx >= len(pt.tab.vals) || pt.tab.vals[pt.idx] == nil {
					e.fail()
				}
				return pt.tab.vals[pt.idx]
			case *c14ConstTab:
				if pt.t.scalar {
					if len(pt.vals) != 1 || pt.vals[0] == nil {
						e.fail()
					}
					return pt.vals[0]
				}
				return pt
			}
		}
	case *ssa.IndexAddr:
		ct, ok := e.val(env, x.X).(*c14ConstTab)
		i, iok := e.val(env, x.Index).(constant.Value)
		if !ok || !iok || ct.t.isMap || ct.t.scalar {
			e.fail()
		}
		n, exact := constant.Int64Val(i)
		if !exact || n < 0 || int(n) >= len(ct.vals) {
			e.fail()
		}
		return c14ElemPtr{ct, int(n)}
	case *ssa.Index:
		ct, ok := e.val(env, x.X).(*c14ConstTab)
		i, iok := e.val(env, x.Index).(constant.Value)
		if !ok || !iok || ct.t.isMap || ct.t.scalar {
			e.fail()
		}
		n, exact := constant.Int64Val(i)
		if !exact || n < 0 || int(n) >= len(ct.vals) || ct.vals[n] == nil {
			e.fail()
		}
		return ct.vals[n]
	case *ssa.Lookup:
		ct, ok := e.val(env, x.X).(*c14ConstTab)
		k, kok := e.val(env, x.Index).(constant.Value)
		if !ok || !kok || !ct.t.isMap {
			e.fail()
		}
		val, found := e.lookup(ct, k)
		if x.CommaOk {
			return []any{val, constant.MakeBool(found)}
		}
		if !found {
			val = c14Zero(ct.t.elemT)
		}
		if val == nil {
			e.fail()
		}
		return val
	case *ssa.Extract:
		t, ok := e.val(env, x.Tuple).([]any)
		if !ok || x.Index >= len(t) {
			e.fail()
		}
		return t[x.Index] // may be nil (the struct{}{} of a set): only usable if never inspected
	case *ssa.ChangeType:
		return e.val(env, x.X)
	case *ssa.Convert:
		c, ok := e.val(env, x.X).(constant.Value)
		bt, isB := x.Type().Underlying().(*types.Basic)
		if !ok || !isB || c.Kind() != constant.Int || bt.Info()&types.IsInteger == 0 || constant.Sign(c) < 0 ||
			constant.Compare(c, token.GTR, constant.MakeInt64(1<<31-1)) {
			e.fail()
		}
		return c
	case *ssa.Call:
		if bi, ok := x.Call.Value.(*ssa.Builtin); ok {
			if bi.Name() == "len" && len(x.Call.Args) == 1 {
				if ct, ok := e.val(env, x.Call.Args[0]).(*c14ConstTab); ok && !ct.t.scalar {
					return constant.MakeInt64(int64(len(ct.vals)))
				}
			}
			e.fail()
		}
		if x.Call.IsInvoke() {
			e.fail()
		}
		if core.CalleeName(x) == "google.golang.org/grpc/status.Code" && len(x.Call.Args) == 1 {
			ev, ok := e.val(env, x.Call.Args[0]).(c14ErrVal)
			if !ok {
				e.fail()
			}
			if ev.isNil {
				return constant.MakeInt64(0) // codes.OK
			}
			return constant.MakeInt64(e.code)
		}
		callee := x.Call.StaticCallee()
		if callee == nil || callee.Pkg == nil || callee.Pkg != x.Parent().Pkg {
			e.fail()
		}
		var args []any
		for _, a := range x.Call.Args {
			args = append(args, e.val(env, a))
		}
		res := e.call(callee, args, depth+1)
		if len(res) == 1 {
			return res[0]
		}
		return res
	}
	e.fail()
	return nil
}

type c14AccRow struct {
	code   int64
	errNil bool
	res    bool
}

// c14AcceptableTable evaluates the classifier on the nil error, on every gRPC
// status code and on two codes outside the defined range; ok=false when any of
// the evaluations leaves the evaluable fragment.
func c14AcceptableTable(tb *c14Tables, f *ssa.Function) (rows []c14AccRow, ok bool) {
	r, ok := c14EvalAcceptable(tb, f, 0, true)
	if !ok {
		return nil, false
	}
	rows = append(rows, c14AccRow{0, true, r})
	codes := []int64{}
	for k := int64(0); k <= 16; k++ {
		codes = append(codes, k)
	}
	codes = append(codes, 17, 1000)
	for _, k := range codes {
		r, ok := c14EvalAcceptable(tb, f, k, false)
		if !ok {
			return nil, false
		}
		rows = append(rows, c14AccRow{k, false, r})
	}
	return rows, true
}

// ---------------------------------------------------------------------------
// results held in a variable, or merged by φ-nodes

// c14Cell describes where the error result of a return is decided: the points at
// which a non-nil value is assigned (failing: whole stores, or — for a stored /
// returned φ — the CFG edges through which a non-nil value enters the φ) and the
// ones that assign nil (clearing).
type c14Cell struct {
	al                *ssa.Alloc
	failing, clearing []ssa.Instruction
	failE, clearE     []core.Edge
}

// isFail matches the failing instructions; cut removes the failing edges.
func (c *c14Cell) isFail(in ssa.Instruction) bool {
	for _, st := range c.failing {
		if in == st {
			return true
		}
	}
	return false
}

// afterFail lists the program points just after a failure was decided.
func (c *c14Cell) afterFail() []core.At {
	out := afterAll(c.failing)
	for _, e := range c.failE {
		out = append(out, core.Head(e.To))
	}
	return out
}

// failPoints / clearPoints: instructions whose execution means (CFG-wise) that the
// failure / the reset can happen next: the instruction itself, or the terminator of
// the block an edge leaves (once it is reached every successor edge can be taken).
func (c *c14Cell) failPoints() func(ssa.Instruction) bool {
	ins := append([]ssa.Instruction{}, c.failing...)
	for _, e := range c.failE {
		ins = append(ins, gxLast(e.From))
	}
	return core.Is(ins...)
}

func (c *c14Cell) clearPoints() func(ssa.Instruction) bool {
	ins := append([]ssa.Instruction{}, c.clearing...)
	for _, e := range c.clearE {
		ins = append(ins, gxLast(e.From))
	}
	return core.Is(ins...)
}

// classify records the assignment of val at instruction at (a store into the result
// variable, or the return itself). A φ whose block is passed at most once per call and
// from which every path goes on to `at` is decided edge by edge: the value that enters
// through an edge is the one assigned (what `res, err = helper()` becomes once the
// helper with several returns is inlined). Anything else non-nil counts as failing.
func (c *c14Cell) classify(val ssa.Value, at ssa.Instruction) {
	if core.IsNil(val) {
		c.clearing = append(c.clearing, at)
		return
	}
	if ph, ok := val.(*ssa.Phi); ok && c.phiEdges(ph, at, 0) {
		return
	}
	c.failing = append(c.failing, at)
}

func (c *c14Cell) phiEdges(ph *ssa.Phi, at ssa.Instruction, depth int) bool {
	b := ph.Block()
	if depth > 3 || len(b.Preds) != len(ph.Edges) {
		return false
	}
	// the block is not on a cycle, and `at` is executed after it on every path to an exit
	for _, s := range b.Succs {
		if _, again := core.Reach(core.Q{From: []core.At{core.Head(s)}, Target: core.Is(gxLast(b))}); again {
			return false
		}
	}
	if at.Block() != b {
		if w := core.MustPass(core.Head(b), core.Is(at), core.IsExit); w != nil {
			return false
		}
	}
	var failE, clearE []core.Edge
	for i, e := range ph.Edges {
		edge := core.Edge{From: b.Preds[i], To: b}
		for j, pr := range b.Preds {
			if j != i && pr == b.Preds[i] {
				return false // two edges from one block: not told apart by core.Edge
			}
		}
		switch {
		case core.IsNil(e):
			clearE = append(clearE, edge)
		default:
			if inner, isPhi := e.(*ssa.Phi); isPhi {
				// a φ merged one block earlier, from which this edge is the only way on
				if inner.Block() == edge.From && len(edge.From.Succs) == 1 {
					sub := &c14Cell{}
					if sub.phiEdges(inner, gxLast(edge.From), depth+1) {
						failE = append(failE, sub.failE...)
						clearE = append(clearE, sub.clearE...)
						continue
					}
				}
			}
			failE = append(failE, edge)
		}
	}
	c.failE = append(c.failE, failE...)
	c.clearE = append(c.clearE, clearE...)
	return true
}

// c14ErrCell: result i of ret is read from a local result variable that is assigned
// at several places (so that core.Result cannot name one value) and that no closure
// captures, or is a φ merging nil and non-nil values; nil otherwise. Copies of the
// variable onto itself are ignored.
func c14ErrCell(ret *ssa.Return, i int) *c14Cell {
	if i >= len(ret.Results) {
		return nil
	}
	res := core.Result(ret, i)
	if ph, isPhi := res.(*ssa.Phi); isPhi {
		cell := &c14Cell{}
		if cell.phiEdges(ph, ret, 0) && len(cell.clearE) > 0 {
			return cell
		}
		return nil
	}
	u, ok := res.(*ssa.UnOp)
	if !ok || u.Op != token.MUL {
		return nil
	}
	al, ok := u.X.(*ssa.Alloc)
	if !ok || al.Referrers() == nil {
		return nil
	}
	cell := &c14Cell{al: al}
	for _, r := range *al.Referrers() {
		switch x := r.(type) {
		case *ssa.DebugRef:
		case *ssa.UnOp:
			if x.Op != token.MUL {
				return nil
			}
		case *ssa.Store:
			if x.Addr != ssa.Value(al) {
				return nil
			}
			if l, isLoad := x.Val.(*ssa.UnOp); isLoad && l.Op == token.MUL && l.X == ssa.Value(al) {
				continue
			}
			cell.classify(x.Val, x)
		default:
			return nil // captured by a closure, or its address passed on: unknown writers
		}
	}
	return cell
}
