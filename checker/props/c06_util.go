package props

import (
	"go/token"

	"godcheck/core"

	"golang.org/x/tools/go/ssa"
)

// ---- helpers of the C06 rule table: closures and captured values by creation site ----
//
// "The take body" of node.doTake is the function value that runs the query
// callback; "the closures of QueryRowIndexCtx" are the function values it hands
// to the cache. Either may be a function literal or a bound method value whose
// receiver state was a group of locals (variant 2 of the loader splits such a
// struct into one cell per field and inlines the method into the synthetic
// wrapper, which has no lexical parent and is not listed in AnonFuncs). c06Env
// therefore enumerates closures by the MakeClosure instructions reachable from
// the root function and resolves what a captured cell holds by its creation
// site — never by the names of variables or by Parent().

type c06Env struct {
	root *ssa.Function
	fns  []*ssa.Function                      // root and every function it (transitively) makes a closure of
	site map[*ssa.Function][]*ssa.MakeClosure // creation sites inside fns
}

func newC06Env(root *ssa.Function) *c06Env {
	e := &c06Env{root: root, site: map[*ssa.Function][]*ssa.MakeClosure{}}
	if root == nil {
		return e
	}
	seen := map[*ssa.Function]bool{root: true}
	e.fns = []*ssa.Function{root}
	for i := 0; i < len(e.fns); i++ {
		for _, b := range e.fns[i].Blocks {
			for _, in := range b.Instrs {
				mc, ok := in.(*ssa.MakeClosure)
				if !ok {
					continue
				}
				fn, ok := mc.Fn.(*ssa.Function)
				if !ok {
					continue
				}
				e.site[fn] = append(e.site[fn], mc)
				if !seen[fn] && fn.Blocks != nil {
					seen[fn] = true
					e.fns = append(e.fns, fn)
				}
			}
		}
	}
	return e
}

// closures lists the functions the root (transitively) creates closures of.
func (e *c06Env) closures() []*ssa.Function {
	if len(e.fns) == 0 {
		return nil
	}
	return e.fns[1:]
}

// within lists the functions that run as part of f: f, every function f (transitively)
// creates a closure of, and every closure of the environment that one of these calls
// directly (a sibling literal held in a local and applied inside f).
func (e *c06Env) within(f *ssa.Function) map[*ssa.Function]bool {
	in := map[*ssa.Function]bool{f: true}
	for changed := true; changed; {
		changed = false
		for fn, ms := range e.site {
			if in[fn] {
				continue
			}
			for _, mc := range ms {
				if in[mc.Parent()] {
					in[fn] = true
					changed = true
				}
			}
		}
		for _, g := range e.fns {
			if !in[g] {
				continue
			}
			for _, b := range g.Blocks {
				for _, instr := range b.Instrs {
					c := core.AsCall(instr)
					if c == nil || c.Common().IsInvoke() {
						continue
					}
					if h := e.funcOf(c.Common().Value); h != nil && !in[h] && len(e.site[h]) > 0 {
						in[h] = true
						changed = true
					}
				}
			}
		}
	}
	return in
}

// binding returns what free variable fv is bound to (unique creation site only).
func (e *c06Env) binding(fv *ssa.FreeVar) ssa.Value {
	fn := fv.Parent()
	ms := e.site[fn]
	if len(ms) != 1 {
		return nil
	}
	for i, x := range fn.FreeVars {
		if x == fv && i < len(ms[0].Bindings) {
			return ms[0].Bindings[i]
		}
	}
	return nil
}

// home resolves the address of a variable (its Alloc, or a FreeVar capturing it
// at any depth) to the Alloc that declares it; nil for anything else.
func (e *c06Env) home(addr ssa.Value) *ssa.Alloc {
	for i := 0; i < 8; i++ {
		switch x := addr.(type) {
		case *ssa.Alloc:
			return x
		case *ssa.FreeVar:
			addr = e.binding(x)
		default:
			return nil
		}
	}
	return nil
}

// cellStores lists every store into the variable al, in its function and in the
// closures that capture it. ok is false when the address is used in any way
// other than load, store-to and capture (the variable may then be written
// behind the analysis' back).
func (e *c06Env) cellStores(al *ssa.Alloc) (stores []*ssa.Store, ok bool) {
	ok = true
	seen := map[ssa.Value]bool{}
	var visit func(addr ssa.Value)
	visit = func(addr ssa.Value) {
		if seen[addr] || addr.Referrers() == nil {
			return
		}
		seen[addr] = true
		for _, r := range *addr.Referrers() {
			switch x := r.(type) {
			case *ssa.Store:
				if x.Addr == addr {
					stores = append(stores, x)
				} else {
					ok = false // the address itself is stored somewhere
				}
			case *ssa.UnOp:
				if x.Op != token.MUL {
					ok = false
				}
			case *ssa.MakeClosure:
				fn, isFn := x.Fn.(*ssa.Function)
				if !isFn {
					ok = false
					continue
				}
				for i, b := range x.Bindings {
					if b == addr && i < len(fn.FreeVars) {
						visit(fn.FreeVars[i])
					}
				}
			case *ssa.DebugRef:
			default:
				ok = false
			}
		}
	}
	visit(al)
	return stores, ok
}

// value resolves v to the value it denotes: conversions are stripped, a load of
// a local or captured variable that is assigned exactly once, in the function
// that declares it and before any closure capturing it is created, is replaced
// by the assigned value (parameter spill slots, `x := p`, the cells of a
// field-split struct), and a free variable bound by value is replaced by its
// binding. Anything else is returned as it is.
func (e *c06Env) value(v ssa.Value) ssa.Value {
	for i := 0; i < 12; i++ {
		v = core.Strip(v)
		switch x := v.(type) {
		case *ssa.FreeVar:
			b := e.binding(x)
			if b == nil {
				return v
			}
			v = b
		case *ssa.UnOp:
			if x.Op != token.MUL {
				return v
			}
			al := e.home(x.X)
			if al == nil || al.Referrers() == nil {
				return v
			}
			st, ok := e.cellStores(al)
			if !ok || len(st) != 1 || st[0].Parent() != al.Parent() {
				return v
			}
			// the assignment precedes every capture of the variable and this load (when in the same function)
			for _, r := range *al.Referrers() {
				if mc, isMC := r.(*ssa.MakeClosure); isMC && !core.Dominates(st[0], mc) {
					return v
				}
			}
			if x.Parent() == al.Parent() && !core.Dominates(st[0], x) {
				return v
			}
			v = st[0].Val
		default:
			return v
		}
	}
	return v
}

// isParam matches values that denote the i-th parameter of the root function
// (receiver = 0), read directly or through captured single-assignment variables.
func (e *c06Env) isParam(i int) func(ssa.Value) bool {
	return func(v ssa.Value) bool {
		return e.root != nil && i < len(e.root.Params) && e.value(v) == ssa.Value(e.root.Params[i])
	}
}

// funcOf resolves a function value to the function whose body runs when it is
// called: a function literal / bound method closure (possibly held in a
// single-assignment local), or a plain function.
func (e *c06Env) funcOf(v ssa.Value) *ssa.Function {
	switch x := e.value(v).(type) {
	case *ssa.MakeClosure:
		fn, _ := x.Fn.(*ssa.Function)
		return fn
	case *ssa.Function:
		return x
	}
	return nil
}

// calledIn reports whether some function of the environment calls the function
// value fn directly (a closure applied by the code that created it, at one or
// several places), as opposed to merely creating it or handing it on.
func (e *c06Env) calledIn(fn *ssa.Function) bool {
	for _, g := range e.fns {
		for _, b := range g.Blocks {
			for _, in := range b.Instrs {
				c := core.AsCall(in)
				if c == nil || c.Common().IsInvoke() {
					continue
				}
				if _, isGo := in.(*ssa.Go); isGo {
					continue
				}
				if e.funcOf(c.Common().Value) == fn {
					return true
				}
			}
		}
	}
	return false
}

// c06Root resolves v through conversions and loads of single-store local slots
// (a parameter spilled to a cell because a function literal captured it) to the
// value that was stored.
func c06Root(v ssa.Value) ssa.Value {
	for i := 0; i < 8; i++ {
		w := core.Strip(core.Forward(core.Strip(v)))
		if w == v {
			return v
		}
		v = w
	}
	return v
}

// c06Union returns a ∪ b without duplicates, in order.
func c06Union(a, b []*ssa.Function) []*ssa.Function {
	seen := map[*ssa.Function]bool{}
	var out []*ssa.Function
	for _, f := range append(append([]*ssa.Function{}, a...), b...) {
		if f != nil && !seen[f] {
			seen[f] = true
			out = append(out, f)
		}
	}
	return out
}
