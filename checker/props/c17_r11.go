package props

import (
	"strings"

	"godcheck/core"

	"golang.org/x/tools/go/ssa"
)

// ---- round 11: Take removes nothing ----
//
// The property gives Take exactly two effects on the cache: a hit is a read (it
// touches the recency order) and a successful fetch is cached. An entry leaves
// the cache only by Del, by eviction (through the lru interface, when an add
// overflows the limit) or by expiry (the wheel callback). So no path of Take —
// hit, failed fetch, successful fetch, barrier error — may take an entry out of
// data, of the LRU or of the timing wheel: a Set(k, v) that landed while the
// fetch was in flight would lose its value although nobody deleted it, nothing
// expired and nothing was evicted ("Get returns the value most recently set …",
// "caching it only on success").

// c17Removal is the instruction that takes an entry out of the cache's state:
// delete(<cache>.data, …), <lru>.remove(…) through the lru interface, or
// TimingWheel.RemoveTimer(…).
func c17Removal(in ssa.Instruction) string {
	if c, ok := in.(*ssa.Call); ok {
		if b, ok := c.Call.Value.(*ssa.Builtin); ok && b.Name() == "delete" && core.IsFieldLoad(c.Call.Args[0], "Cache.data") {
			return "delete(data, …)"
		}
	}
	if core.CallTo("(lib/collection.lru).remove")(in) {
		return "lruCache.remove(…)"
	}
	if core.CallMethod("collection.TimingWheel", "RemoveTimer")(in) {
		return "timingWheel.RemoveTimer(…)"
	}
	return ""
}

// c17InColl: a function of lib/collection with a body that is not part of the
// timing wheel or of the keyLru (their internals are other state; the cache
// reaches them only through the calls matched by c17Removal), or a synthetic
// wrapper (bound method value / thunk) with a body.
func c17InColl(f *ssa.Function) bool {
	if f == nil || f.Blocks == nil {
		return false
	}
	if recvIs(f, "TimingWheel") || recvIs(f, "keyLru") {
		return false
	}
	g := outermost(f)
	if g.Pkg == nil {
		return true
	}
	return strings.HasSuffix(g.Pkg.Pkg.Path(), f10CollPkg)
}

// c17Removes reports a removal executed by f, by a function it statically calls
// (call, defer or go; transitively, inside lib/collection) or by a function
// value it makes; "" when there is none. via is the chain of functions.
func c17Removes(f *ssa.Function, seen map[*ssa.Function]bool) (what string, at ssa.Instruction, via []string) {
	if seen[f] || !c17InColl(f) {
		return "", nil, nil
	}
	seen[f] = true
	for _, b := range f.Blocks {
		for _, in := range b.Instrs {
			if w := c17Removal(in); w != "" {
				return w, in, []string{core.FuncName(f)}
			}
			var next *ssa.Function
			if mc, ok := in.(*ssa.MakeClosure); ok {
				next, _ = mc.Fn.(*ssa.Function)
			} else if c := core.AsCall(in); c != nil {
				next = c.Common().StaticCallee()
			}
			if next != nil {
				if w, a, v := c17Removes(next, seen); w != "" {
					return w, a, append([]string{core.FuncName(f)}, v...)
				}
			}
		}
	}
	return "", nil, nil
}

func c17R11(r *core.Run) {
	p := r.P
	r.Check("D4/K2/take-removes-nothing", "no path of Take — nor of a function value it makes (the single-flight body) — takes an entry out of data, of the LRU or of the timing wheel, directly or through a function of the package it calls: Take only reads (hit) and caches (fetch succeeded); a failed or finished fetch that removes the key drops a value a concurrent Set stored meanwhile, which Get then misses although it was not deleted, evicted or expired [clauses: Get returns the value most recently set unless deleted/evicted/expired; Take caches only on success]", func(o *core.O) {
		take := p.Func(f10CollPkg, "Cache", "Take")
		del := p.Func(f10CollPkg, "Cache", "Del")
		if !o.Need(take != nil && del != nil, "Cache.Take / Cache.Del") {
			return
		}
		r.Fn(core.FuncName(take))
		// the recogniser must see what a removal looks like in this tree: Del removes
		if w, _, _ := c17Removes(del, map[*ssa.Function]bool{}); w == "" {
			o.Unres("no removal from data / LRU / timing wheel recognised in Cache.Del: removals are not spelled as this rule expects")
			return
		}
		env := newC17Env(take)
		n := 0
		for _, f := range env.fns {
			for _, b := range f.Blocks {
				for _, in := range b.Instrs {
					if w := c17Removal(in); w != "" {
						n++
						o.Fail(p.InstrPos(in), "%s executes %s: Take removes an entry (a value stored by a concurrent Set is lost without delete, eviction or expiry)", core.FuncName(f), w)
						continue
					}
					c := core.AsCall(in)
					if c == nil {
						continue
					}
					n++
					callee := c.Common().StaticCallee()
					if callee == nil {
						continue
					}
					if w, _, via := c17Removes(callee, map[*ssa.Function]bool{}); w != "" {
						o.Fail(p.InstrPos(in), "%s calls %s, which executes %s: Take removes an entry (a value stored by a concurrent Set while the fetch ran is lost although it was not deleted, evicted or expired; a failed fetch must leave the cache as it is)", core.FuncName(f), strings.Join(via, " → "), w)
					}
				}
			}
		}
		o.Site(n, core.FuncName(take))
	})
}
