package props

import (
	"go/token"
	"strings"

	"godcheck/core"

	"golang.org/x/tools/go/ssa"
)

// c15Extra: rules added after the third independent seeding round.
func c15Extra(r *core.Run, pkg string) {
	p := r.P
	defer c15SnapshotRevision(r, pkg)
	defer c15PutAlwaysDelivered(r, pkg)
	r.Check("D4/K1/retry-deadline-armed-per-attempt", "a request to etcd that is retried in a loop gets its deadline per attempt: where a call of an EtcdClient method sits in a loop and its context comes from context.WithTimeout/WithDeadline, that context is created inside the same loop (a deadline armed once before the loop expires during the first failed attempts; every later retry then fails at once and the snapshot is never loaded)", func(o *core.O) {
		n := 0
		for _, f := range p.PkgFuncs(pkg) {
			for _, c := range core.Calls(f, func(in ssa.Instruction) bool {
				c := core.AsCall(in)
				return c != nil && c.Common().IsInvoke() && strings.HasSuffix(c.Common().Value.Type().String(), "EtcdClient") && len(c.Common().Args) > 0
			}) {
				call, ok := c.(*ssa.Call)
				if !ok {
					continue
				}
				if _, inLoop := core.Reach(core.Q{From: []core.At{core.After(call)}, Target: core.Is(call)}); !inLoop {
					continue
				}
				for _, leaf := range gxPhiLeaves(core.Forward(call.Call.Args[0])) {
					mk, idx := core.ResultOf(core.Forward(leaf))
					if mk == nil || idx != 0 {
						continue
					}
					switch core.CalleeName(mk) {
					case "context.WithTimeout", "context.WithDeadline":
					default:
						continue
					}
					n++
					r.Fn(core.FuncName(f))
					if _, again := core.Reach(core.Q{From: []core.At{core.After(call)}, Target: core.Is(mk)}); !again {
						o.Fail(p.InstrPos(call), "%s retries %s in a loop with a context whose deadline was armed once, before the loop (%s): after the first failures the deadline has passed, every further attempt fails immediately and the loop never ends - the subscriber never gets the snapshot", core.FuncName(f), call.Call.Method.Name(), p.InstrPos(mk))
					}
				}
			}
		}
		o.Site(n, pkg+": retried etcd requests with a deadline")
		if n == 0 {
			o.Unres("no retried EtcdClient request with a context.WithTimeout deadline found in %s", pkg)
		}
	})

	r.Check("D4/K2/watch-stops-only-on-done", "the watcher of a key gives up for good only after it saw cluster.done closed; a closed, cancelled or failed watch channel leads to a new watch", func(o *core.O) {
		// role: the stream function selects on the channel returned by EtcdClient.Watch and on cluster.done
		isWatchCh := func(v ssa.Value) bool {
			ls := gxPhiLeaves(core.Forward(v))
			for _, l := range ls {
				if !core.IsResult(core.Forward(l), 0, core.CallMethod("EtcdClient", "Watch")) {
					return false
				}
			}
			return len(ls) > 0
		}
		n := 0
		for _, f := range p.PkgFuncs(pkg) {
			for _, in := range core.Instrs(f, func(in ssa.Instruction) bool { _, ok := in.(*ssa.Select); return ok }) {
				sel := in.(*ssa.Select)
				watchIdx, doneIdx := -1, -1
				for i, st := range sel.States {
					if st.Dir != 2 { // types.RecvOnly
						continue
					}
					if isWatchCh(st.Chan) {
						watchIdx = i
					}
					if core.IsFieldLoad(core.Forward(st.Chan), "cluster.done") {
						doneIdx = i
					}
				}
				if watchIdx < 0 {
					continue
				}
				n++
				r.Fn(core.FuncName(f))
				if doneIdx < 0 {
					o.Fail(p.InstrPos(sel), "%s waits for watch responses without also waiting for cluster.done: reload can never stop this watcher", core.FuncName(f))
					continue
				}
				isIdx := func(v ssa.Value) bool {
					e, ok := v.(*ssa.Extract)
					return ok && e.Tuple == ssa.Value(sel) && e.Index == 0
				}
				onDone := core.Cmp(token.EQL, isIdx, core.IsConstInt(int64(doneIdx)))
				hasBool := f.Signature.Results().Len() == 1 && f.Signature.Results().At(0).Type().String() == "bool"
				isStop := func(ret *ssa.Return) bool {
					if !hasBool {
						return true
					}
					c, ok := core.Result(ret, 0).(*ssa.Const)
					return !(ok && c.Value != nil && c.Value.String() == "false")
				}
				dh, _ := core.EdgesOf(f, onDone)
				if len(dh) == 0 {
					o.Unres(p.InstrPos(sel) + ": cannot identify the select branch of cluster.done")
					continue
				}
				for _, ret := range core.Returns(f) {
					if isStop(ret) {
						if w := core.Requires(f, core.Is(ret), onDone); w != nil {
							o.Fail(p.InstrPos(ret), "%s gives up watching for good on a path that did not see cluster.done closed: after a closed, cancelled or failed watch channel no new watch is started and later changes never reach the listeners", core.FuncName(f))
						}
					} else if w := core.ReachableFromEdges(dh, core.Is(ret), nil); w != nil {
						o.Fail(p.InstrPos(ret), "%s asks for a new watch although cluster.done was closed: the watcher never ends and reload waits for it for ever", core.FuncName(f))
					}
				}
				if !hasBool {
					continue
				}
				// the callers loop until the stream function reports stop
				callers := 0
				for _, g := range p.PkgFuncs(pkg) {
					for _, c := range core.Calls(g, func(in ssa.Instruction) bool {
						cc := core.AsCall(in)
						return cc != nil && cc.Common().StaticCallee() == f
					}) {
						callers++
						cv := c.Value()
						if cv == nil {
							o.Fail(p.InstrPos(c), "%s ignores whether the watch has to be re-established", core.FuncName(g))
							continue
						}
						stop := core.BoolVal(func(v ssa.Value) bool { return v == ssa.Value(cv) })
						_, again := core.EdgesOf(g, stop)
						if w := core.Requires(g, core.IsReturn, stop); w != nil {
							o.Fail(p.InstrPos(w), "%s can end although the stream function did not report stop", core.FuncName(g))
						}
						if len(again) == 0 || core.ReachableFromEdges(again, core.Is(c), nil) == nil {
							o.Fail(p.InstrPos(c), "%s does not start a new watch when the stream function asks for one", core.FuncName(g))
						}
					}
				}
				if callers == 0 {
					o.Fail(p.Pos(f.Pos()), "%s is never called", core.FuncName(f))
				}
			}
		}
		o.Site(n, pkg)
	})

	r.Check("D4/K3/disconnect-forgotten-only-with-reload", "a connection loss is forgotten only together with the reload it calls for: every store of false into stateWatcher.disconnected is followed, on every path to the function's end, by the notification of the listeners (which run cluster.reload)", func(o *core.O) {
		n := 0
		for _, f := range p.PkgFuncs(pkg) {
			for _, st := range core.StoresToField(f, "stateWatcher.disconnected") {
				c, ok := core.Strip(core.Forward(st.Val)).(*ssa.Const)
				if !ok || c.Value == nil || c.Value.String() != "false" {
					continue
				}
				n++
				r.Fn(core.FuncName(f))
				notify := func(in ssa.Instruction) bool {
					cc := core.AsCall(in)
					if cc == nil {
						return false
					}
					callee := cc.Common().StaticCallee()
					if callee == nil || callee.Pkg != f.Pkg {
						return false
					}
					// the helper that calls every registered listener
					return len(core.Instrs(callee, core.CallOfValue(func(v ssa.Value) bool { return core.DependsOn(v, core.FieldLoad("stateWatcher.listeners")) }))) > 0
				}
				if w := core.MustPass(core.After(st), notify, core.IsReturn); w != nil {
					o.Fail(p.InstrPos(st), "%s clears the disconnected flag on a path that does not notify the listeners: the reload after this connection loss never runs, keys that expired or registered during the outage are never removed or added", core.FuncName(f))
				}
			}
		}
		o.Site(n, pkg)
	})

	r.Check("D4/K8/watch-and-load-use-one-prefix", "the snapshot and both forms of the watch ask etcd for the same key range: every EtcdClient.Get and Watch in lib/discov/internal is given result #0 of one and the same in-package function applied to the function's key argument (a watch on the bare key with WithPrefix also matches sibling services whose name starts with the key)", func(o *core.O) {
		n := 0
		var first *ssa.Function
		for _, f := range p.PkgFuncs(pkg) {
			for _, c := range core.Calls(f, core.Or(core.CallMethod("EtcdClient", "Get"), core.CallMethod("EtcdClient", "Watch"))) {
				a := core.Args(c)
				if len(a) < 3 {
					continue
				}
				n++
				r.Fn(core.FuncName(f))
				key := core.Strip(core.Forward(a[2]))
				mk, idx := core.ResultOf(key)
				if mk == nil || idx != 0 || mk.Call.StaticCallee() == nil || mk.Call.StaticCallee().Pkg != f.Pkg {
					o.Fail(p.InstrPos(c), "%s asks etcd for %s, not for the delimited prefix the other requests use", core.FuncName(f), core.Describe(key))
					continue
				}
				if first == nil {
					first = mk.Call.StaticCallee()
				} else if mk.Call.StaticCallee() != first {
					o.Fail(p.InstrPos(c), "%s builds its key range with %s, the other requests with %s", core.FuncName(f), core.FuncName(mk.Call.StaticCallee()), core.FuncName(first))
				}
			}
		}
		o.Site(n, pkg)
	})
}

// c15ExtraSub: rules about lib/discov itself (subscriber construction).
func c15ExtraSub(r *core.Run, pkg string) {
	p := r.P
	defer c15RemovedKeyLeavesList(r, pkg)
	defer c15RemovalVisitsWholeList(r, pkg)
	defer c15DirtyInHold(r, pkg)
	r.Check("D4/K3/options-before-container", "the subscriber's container is created after the options were applied: no option runs after newContainer read the exclusive flag (else Exclusive() is silently ignored)", func(o *core.O) {
		n := 0
		for _, f := range p.PkgFuncs(pkg) {
			mk := core.Instrs(f, func(in ssa.Instruction) bool {
				c, ok := in.(*ssa.Call)
				return ok && c.Call.StaticCallee() != nil && c.Call.StaticCallee().Pkg == f.Pkg && len(c.Call.Args) == 1 && core.IsFieldLoad(core.Forward(c.Call.Args[0]), "Subscriber.exclusive")
			})
			if len(mk) == 0 {
				continue
			}
			n += len(mk)
			r.Fn(core.FuncName(f))
			isOpt := core.CallOfValue(func(v ssa.Value) bool { return strings.HasSuffix(v.Type().String(), "lib/discov.SubOption") })
			if w, ok := core.Reach(core.Q{From: afterAll(mk), Target: isOpt}); ok {
				o.Fail(p.InstrPos(w), "%s applies options after the container was built from Subscriber.exclusive: the Exclusive() option has no effect", core.FuncName(f))
			}
		}
		o.Site(n, pkg)
	})
}
