package props

// Round 12 (after seeded-open/C19-xm1): the strictness of the retention comparison.
//
//  D4/K7 boundary-name-not-outdated
//        per rotate rule, on the outcome the comparison of a listed backup name with the retention
//        boundary takes when the two are EQUAL, the name is not recorded as outdated before the
//        next name is looked at. The boundary is the name a backup made exactly `days` days ago
//        carries: that backup is at the limit, not older than it, and the clean-up "removes only
//        backups older than the retention days". The comparison is found as in
//        D4/K9/boundary-in-listed-form (one operand derives from filepath.Glob, the other from the
//        clock); "recorded" is a store of the listed name (the element of an append) or its use
//        as the key of a map update; the walk stops where the listed name is produced again (the
//        next iteration). Not decided: a recording made through a helper that receives the name.

import (
	"go/token"
	"go/types"

	"godcheck/core"

	"golang.org/x/tools/go/ssa"
)

func c19R12(r *core.Run, pkg string) {
	p := r.P
	r.Check("D4/K7/boundary-name-not-outdated", "per rotate rule, on the outcome the comparison of a name listed by filepath.Glob with the retention boundary (derived from the clock) takes when both are equal, the listed name is not recorded as outdated (stored as an append element / used as a map key) before the next name is examined [clean-up clause – removes only backups OLDER than the retention days: the boundary is the name of a backup made exactly days days ago; with a non-strict comparison that backup, which is at the limit and not beyond it, is unlinked after the next rotation]", func(o *core.O) {
		rules := c19RuleTypes(p, pkg)
		if !o.Need(len(rules) > 0, "a struct type of "+pkg+" implementing RotateRule") {
			return
		}
		w := c19NewIngWalker(p, pkg)
		isOrder := func(op token.Token) bool {
			return op == token.LSS || op == token.GTR || op == token.LEQ || op == token.GEQ
		}
		isString := func(v ssa.Value) bool {
			b, ok := v.Type().Underlying().(*types.Basic)
			return ok && b.Info()&types.IsString != 0
		}
		for _, rt := range rules {
			n := 0
			for _, g := range w.reachable(rt.outdated, 3) {
				for _, in := range core.Instrs(g, func(in ssa.Instruction) bool {
					b, ok := in.(*ssa.BinOp)
					return ok && isOrder(b.Op) && isString(b.X) && isString(b.Y)
				}) {
					b := in.(*ssa.BinOp)
					x, y := w.of(b.X), w.of(b.Y)
					var listed ssa.Value
					switch {
					case x.glob && !x.clock && y.clock && !y.glob:
						listed = b.X
					case y.glob && !y.clock && x.clock && !x.glob:
						listed = b.Y
					default:
						continue
					}
					n++
					r.Fn(core.FuncName(g))
					atom := func(v ssa.Value) (bool, bool) { return v == ssa.Value(b), true }
					holds, fails := core.EdgesOf(g, atom)
					eq := fails // <, >: false when equal
					if b.Op == token.LEQ || b.Op == token.GEQ {
						eq = holds
					}
					if len(holds)+len(fails) == 0 {
						o.Unres("%s: the outcome of the retention comparison is not branched on directly", p.InstrPos(b))
						continue
					}
					name := core.Strip(core.Forward(listed))
					same := func(v ssa.Value) bool { return v != nil && core.Strip(core.Forward(v)) == name }
					record := func(in ssa.Instruction) bool {
						switch x := in.(type) {
						case *ssa.Store:
							return same(x.Val)
						case *ssa.MapUpdate:
							return same(x.Key)
						}
						return false
					}
					def, _ := name.(ssa.Instruction)
					again := func(in ssa.Instruction) bool { return def != nil && in == def }
					if bad := core.ReachableFromEdges(eq, record, again); bad != nil {
						o.Fail(p.InstrPos(bad), "%s: %s records a listed backup name as outdated on the outcome of the retention comparison (%s) that is taken when the name EQUALS the boundary: the backup made exactly the retention days ago, which is not older than the retention, is removed by the clean-up after the next rotation", rt.name, core.FuncName(g), p.InstrPos(b))
					}
				}
			}
			o.Site(n, rt.name)
			if n == 0 {
				o.Unres("%s: no comparison of a listed backup name with a retention boundary derived from the clock was found in OutdatedFiles", rt.name)
			}
		}
	})
}
