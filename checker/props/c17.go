package props

import (
	"go/token"
	"go/types"
	"strings"

	"godcheck/core"

	"golang.org/x/tools/go/ssa"
)

func init() { register("C17", c17) }

// isDataFound matches the comma-ok flag of a lookup in Cache.data.
func isDataFound(v ssa.Value) bool {
	e, ok := core.Forward(v).(*ssa.Extract)
	if !ok || e.Index != 1 {
		return false
	}
	l, ok := e.Tuple.(*ssa.Lookup)
	return ok && l.CommaOk && core.IsFieldLoad(l.X, "Cache.data")
}

func recvIs(f *ssa.Function, typ string) bool {
	if f == nil {
		return false
	}
	f = outermost(f)
	rv := f.Signature.Recv()
	if rv == nil {
		return false
	}
	t := rv.Type()
	if p, ok := t.(*types.Pointer); ok {
		t = p.Elem()
	}
	n, ok := t.(*types.Named)
	return ok && n.Obj().Name() == typ
}

// everyReturnPasses reports a return reachable from `from` that does not pass site.
func everyReturnPasses(from []core.At, site func(ssa.Instruction) bool) ssa.Instruction {
	w, _ := core.Reach(core.Q{From: from, Target: core.IsReturn, Blocked: site})
	return w
}

func c17(r *core.Run) {
	p := r.P
	r.Explanation = "Decides on every path: Cache.data is read and written, and the LRU is operated, only with Cache.lock held; the eviction callback is reachable only from keyLru operations (which run under that lock) and keyLru's fields are touched only by keyLru's methods; a hit touches the LRU, a set stores the value and touches the LRU; the LRU moves a known key to the front, pushes a new key to the front and evicts exactly when Len() > limit, taking Back(); Del and eviction remove the key from data, LRU and timer; Take runs fetch only inside barrier.Do(key, …) after a second lookup missed, caches only when fetch returned no error and returns fetch's error otherwise; no path of Take or of the function values it makes removes an entry from data, the LRU or the timing wheel (directly or through a package function it calls); expiry = Unstable(0.05).AroundDuration(expire) (factor in [0.95, 1.05]) on a one-second wheel whose callback deletes the key; the timer is moved iff the key was present before the store, else set."
	r.NotDecided = "the size bound, LRU order and freshness over access histories; at-most-once fetch among concurrent callers as a schedule property (relies on syncx.SingleFlight, C18); the expiry tick (inherits C10's not-decided part); ordering between concurrent Set/Del and their timer operations, which run after the lock is released."

	fns := p.PkgFuncs(f10CollPkg)
	isLruAdd := core.CallTo("(lib/collection.lru).add")
	isLruRemove := core.CallTo("(lib/collection.lru).remove")
	isLruCall := core.Or(isLruAdd, isLruRemove)
	onEvict := p.Func(f10CollPkg, "Cache", "onEvict")
	isOnEvictCall := func(in ssa.Instruction) bool {
		c := core.AsCall(in)
		return c != nil && onEvict != nil && c.Common().StaticCallee() == onEvict
	}

	// ---------------- D1 lock discipline ----------------
	var la *core.LockAnalysis
	lock := func() *core.LockAnalysis {
		if la == nil {
			la = core.NewLockAnalysis(p, f10CollPkg)
		}
		return la
	}
	r.Check("D1/K4/data-guarded", "Cache.data is read and written only with Cache.lock held (the eviction callback is covered by D1/K5); Cache methods return with the lock balance they entered with", func(o *core.O) {
		acc := lock().CheckGuards([]core.Guard{{Type: "Cache", Field: "data", Lock: "lock"}}, nil,
			map[string]string{"(*lib/collection.Cache).onEvict": "runs inside keyLru operations, which are invoked with the lock held (D1/K5/evict-callback-confined, D1/K4/lru-calls-guarded)"})
		core.ReportAccesses(o, p, acc)
		for f, m := range lock().Imbalance {
			if recvIs(f, "Cache") {
				o.Fail(p.Pos(f.Pos()), "%s: %s", core.FuncName(f), m)
			}
		}
	})
	r.Check("D1/K4/lru-calls-guarded", "every add/remove on the LRU is an invoke on <cache>.lruCache with <cache>.lock held; direct calls of the eviction callback hold it too", func(o *core.O) {
		acc := lock().CheckCallGuards([]core.CallGuard{
			{Callee: isLruCall, RecvField: "lruCache", Lock: "lock"},
			{Callee: isOnEvictCall, Lock: "lock"},
		}, nil)
		core.ReportAccesses(o, p, acc)
		n := 0
		for _, f := range fns {
			for _, in := range core.Instrs(f, isLruCall) {
				n++
				found := false
				for _, a := range acc {
					if a.In == in {
						found = true
					}
				}
				if !found {
					o.Fail(p.InstrPos(in), "LRU operation in %s on %s, which is not the lruCache field of a cache (lock cannot be related)", core.FuncName(f), core.Describe(core.Args(in.(ssa.CallInstruction))[0]))
				}
			}
		}
		if n < 3 {
			o.Unres("only %d LRU invocations found (expected ≥ 3)", n)
		}
	})
	r.Check("D1/K5/evict-callback-confined", "Cache.onEvict is only handed to the keyLru constructor; keyLru's fields (incl. the callback) are used only by keyLru's methods, which are called only from each other or through the lru interface", func(o *core.O) {
		if !o.Need(onEvict != nil, "Cache.onEvict") {
			return
		}
		g := newPkgGraph(p, f10CollPkg)
		// the keyLru constructor: stores a parameter into keyLru.onEvict of a fresh object
		var ctor *ssa.Function
		for _, f := range fns {
			for _, st := range core.StoresToField(f, "keyLru.onEvict") {
				o.Site(1, core.FuncName(f))
				if _, isP := core.Forward(st.Val).(*ssa.Parameter); isP && freshRoot(st.Addr) {
					ctor = f
				} else {
					o.Fail(p.InstrPos(st), "keyLru.onEvict is rewritten in %s", core.FuncName(f))
				}
			}
		}
		if !o.Need(ctor != nil, "the keyLru constructor") {
			return
		}
		// uses of onEvict as a value
		for _, f := range fns {
			for _, b := range f.Blocks {
				for _, in := range b.Instrs {
					mc, ok := in.(*ssa.MakeClosure)
					if !ok {
						continue
					}
					fn := mc.Fn.(*ssa.Function)
					if fn.Synthetic == "" {
						continue
					}
					bound := false
					for _, bb := range fn.Blocks {
						for _, i2 := range bb.Instrs {
							if c, ok := i2.(ssa.CallInstruction); ok && c.Common().StaticCallee() == onEvict {
								bound = true
							}
						}
					}
					if !bound {
						continue
					}
					o.Site(1, core.FuncName(f))
					for _, ref := range *mc.Referrers() {
						c, ok := ref.(*ssa.Call)
						if !ok || c.Call.StaticCallee() != ctor {
							o.Fail(p.InstrPos(ref), "Cache.onEvict escapes as a value other than to the keyLru constructor (it would run without the cache lock)")
						}
					}
				}
			}
		}
		if why, esc := g.escaped[onEvict]; esc && !strings.HasPrefix(why, "bound as a value") && !strings.HasPrefix(why, "passed as a value") {
			o.Fail(p.Pos(onEvict.Pos()), "Cache.onEvict is %s", why)
		}
		// keyLru fields only in keyLru methods / constructor
		for _, f := range fns {
			for _, b := range f.Blocks {
				for _, in := range b.Instrs {
					var name string
					var base ssa.Value
					switch x := in.(type) {
					case *ssa.FieldAddr:
						name, base = core.FieldAddrName(x), x.X
					case *ssa.Field:
						name, base = core.FieldAddrName(x), x.X
					default:
						continue
					}
					if !strings.HasPrefix(name, "keyLru.") {
						continue
					}
					o.Site(1)
					if recvIs(f, "keyLru") || (f == ctor && freshRoot(base)) {
						continue
					}
					o.Fail(p.InstrPos(in), "%s is used in %s, outside keyLru's methods (not covered by the cache lock rule)", name, core.FuncName(f))
				}
			}
			// static calls of keyLru methods
			for _, c := range core.Calls(f, func(in ssa.Instruction) bool {
				c := core.AsCall(in)
				return c != nil && recvIs(c.Common().StaticCallee(), "keyLru")
			}) {
				o.Site(1)
				if !recvIs(f, "keyLru") {
					o.Fail(p.InstrPos(c), "%s calls %s directly, bypassing the lruCache field the lock rule covers", core.FuncName(f), core.Short(core.CalleeName(c)))
				}
			}
		}
		r.Fn(core.FuncName(onEvict), core.FuncName(ctor))
	})

	// ---------------- D2 recency ----------------
	r.Check("D2/K1/hit-touches-lru", "a lookup in data that hands the value or its comma-ok flag to the caller touches the LRU with the same key on the found arm before returning", func(o *core.O) {
		n := 0
		for _, f := range fns {
			if !recvIs(f, "Cache") {
				continue
			}
			reports := false
			for _, ret := range core.Returns(f) {
				for i := range ret.Results {
					res := core.Result(ret, i)
					if l, k := lookupOf(res); isDataFound(res) || (l != nil && k == 0 && core.IsFieldLoad(l.X, "Cache.data")) {
						reports = true // the flag or the looked-up value is handed to the caller
					}
				}
			}
			if !reports {
				continue
			}
			n++
			r.Fn(core.FuncName(f))
			o.Site(1, core.FuncName(f))
			hit, _ := core.EdgesOf(f, core.BoolVal(isDataFound))
			if len(hit) == 0 {
				o.Fail(p.Pos(f.Pos()), "%s never branches on the found flag: a hit does not refresh the key's recency", core.FuncName(f))
				continue
			}
			if w := everyReturnPasses(f10Heads(hit), isLruAdd); w != nil {
				o.Fail(p.InstrPos(w), "%s returns a hit without touching the LRU: a read key can be evicted as least recently used", core.FuncName(f))
			}
			for _, c := range core.Calls(f, isLruAdd) {
				lk := lookupKeyOf(f)
				if lk == nil || core.Describe(core.Forward(core.Args(c)[1])) != core.Describe(core.Forward(lk)) {
					o.Fail(p.InstrPos(c), "the key touched in the LRU is not the key looked up")
				}
			}
		}
		if n == 0 {
			o.Unres("no Cache method reporting a lookup's found flag (doGet) found")
		}
	})
	swe := p.Func(f10CollPkg, "Cache", "SetWithExpire")
	r.Check("D2/K1/set-stores-and-touches", "SetWithExpire stores (key, value) in data and touches the LRU with key on every path", func(o *core.O) {
		if !o.Need(swe != nil, "Cache.SetWithExpire") {
			return
		}
		r.Fn(core.FuncName(swe))
		keyP, valP := swe.Params[1], swe.Params[2]
		isStore := func(in ssa.Instruction) bool {
			mu, ok := in.(*ssa.MapUpdate)
			return ok && core.IsFieldLoad(mu.Map, "Cache.data") && paramIs(keyP)(mu.Key) && paramIs(valP)(mu.Value)
		}
		isTouch := func(in ssa.Instruction) bool {
			return isLruAdd(in) && paramIs(keyP)(core.Args(in.(ssa.CallInstruction))[1])
		}
		o.Site(len(core.Instrs(swe, isStore))+len(core.Instrs(swe, isTouch)), core.FuncName(swe))
		if w := core.MustPass(core.Entry(swe), isStore, core.IsReturn); w != nil {
			o.Fail(p.InstrPos(w), "SetWithExpire can return without data[key] = value")
		}
		if w := core.MustPass(core.Entry(swe), isTouch, core.IsReturn); w != nil {
			o.Fail(p.InstrPos(w), "SetWithExpire can return without touching the LRU for key: a re-set key keeps its old recency / a new key is not bounded")
		}
		for _, in := range core.Instrs(swe, core.IsMapUpdateOn("Cache.data")) {
			if !isStore(in) {
				o.Fail(p.InstrPos(in), "data is updated with something else than (key, value)")
			}
		}
		set := p.Func(f10CollPkg, "Cache", "Set")
		if o.Need(set != nil, "Cache.Set") {
			cs := core.Calls(set, func(in ssa.Instruction) bool {
				c := core.AsCall(in)
				return c != nil && c.Common().StaticCallee() == swe
			})
			o.Site(len(cs), core.FuncName(set))
			if len(cs) == 0 {
				o.Fail(p.Pos(set.Pos()), "Set does not delegate to SetWithExpire")
			}
			for _, c := range cs {
				a := core.Args(c)
				if !paramIs(set.Params[1])(a[1]) || !paramIs(set.Params[2])(a[2]) || !core.IsFieldLoad(a[3], "Cache.expire") {
					o.Fail(p.InstrPos(c), "Set does not pass (key, value, c.expire)")
				}
			}
		}
	})
	r.Check("D2/K6/lru-order", "keyLru.add: known key → MoveToFront of its element; new key → PushFront, indexed; eviction exactly when Len() > limit, after the push, of Back()", func(o *core.O) {
		add := p.Func(f10CollPkg, "keyLru", "add")
		if !o.Need(add != nil, "keyLru.add") {
			return
		}
		r.Fn(core.FuncName(add))
		known := core.BoolVal(func(v ssa.Value) bool {
			e, ok := core.Forward(v).(*ssa.Extract)
			if !ok || e.Index != 1 {
				return false
			}
			l, ok := e.Tuple.(*ssa.Lookup)
			return ok && l.CommaOk && core.IsFieldLoad(l.X, "keyLru.elements")
		})
		hit, miss := core.EdgesOf(add, known)
		isMTF := core.CallTo("(*container/list.List).MoveToFront")
		isPF := core.CallTo("(*container/list.List).PushFront")
		isPB := core.CallTo("(*container/list.List).PushBack", "(*container/list.List).MoveToBack")
		o.Site(len(hit)+len(miss), core.FuncName(add))
		if len(hit) == 0 {
			o.Fail(p.Pos(add.Pos()), "add never tests whether the key is already tracked")
			return
		}
		if w := everyReturnPasses(f10Heads(hit), isMTF); w != nil {
			o.Fail(p.InstrPos(w), "a tracked key is not moved to the front when touched")
		}
		if w := core.ReachableFromEdges(hit, isPF, nil); w != nil {
			o.Fail(p.InstrPos(w), "a tracked key is pushed again (duplicate LRU element)")
		}
		if w := everyReturnPasses(f10Heads(miss), isPF); w != nil {
			o.Fail(p.InstrPos(w), "a new key is not pushed to the front")
		}
		for _, c := range core.Calls(add, isPB) {
			o.Fail(p.InstrPos(c), "add places a key at the back of the recency list")
		}
		for _, c := range core.Calls(add, isMTF) {
			l, i := lookupOf(core.Args(c)[1])
			if l == nil || i != 0 || !core.IsFieldLoad(l.X, "keyLru.elements") || !paramIs(add.Params[1])(l.Index) {
				o.Fail(p.InstrPos(c), "the element moved to the front is not elements[key]")
			}
		}
		isIndex := func(in ssa.Instruction) bool {
			mu, ok := in.(*ssa.MapUpdate)
			return ok && core.IsFieldLoad(mu.Map, "keyLru.elements") && paramIs(add.Params[1])(mu.Key) && core.IsResult(mu.Value, 0, isPF)
		}
		if w := everyReturnPasses(f10Heads(miss), isIndex); w != nil {
			o.Fail(p.InstrPos(w), "a new key's element is not recorded in elements[key]")
		}
		for _, c := range core.Calls(add, isPF) {
			if !paramIs(add.Params[1])(core.Strip(core.Args(c)[1])) {
				o.Fail(p.InstrPos(c), "the value pushed is not the key")
			}
		}
		// eviction
		isLen := func(v ssa.Value) bool {
			c, ok := core.Forward(v).(*ssa.Call)
			return ok && core.Short(core.CalleeName(c)) == "(*container/list.List).Len" && core.IsFieldLoad(core.Args(c)[0], "keyLru.evicts")
		}
		over := core.Cmp(token.GTR, isLen, core.FieldLoad("keyLru.limit"))
		isBack := func(in ssa.Instruction) bool {
			c, ok := in.(*ssa.Call)
			return ok && core.Short(core.CalleeName(c)) == "(*container/list.List).Back" && core.IsFieldLoad(core.Args(c)[0], "keyLru.evicts")
		}
		isFront := core.CallTo("(*container/list.List).Front")
		// E: add and the keyLru methods it reaches through static calls (the eviction may sit in a helper)
		E := []*ssa.Function{add}
		inE := map[*ssa.Function]bool{add: true}
		for i := 0; i < len(E); i++ {
			for _, c := range core.Calls(E[i], func(in ssa.Instruction) bool { _, ok := in.(*ssa.Call); return ok }) {
				if g := c.Common().StaticCallee(); g != nil && recvIs(g, "keyLru") && g.Parent() == nil && !inE[g] {
					inE[g] = true
					E = append(E, g)
				}
			}
		}
		// removal of the least recently used element: a call whose last argument is evicts.Back()
		removesBack := func(in ssa.Instruction) bool {
			c, ok := in.(*ssa.Call)
			if !ok || len(core.Args(c)) == 0 {
				return false
			}
			if !(recvIs(c.Call.StaticCallee(), "keyLru") || core.CallTo("(*container/list.List).Remove")(in)) {
				return false
			}
			a := core.Args(c)
			return core.IsResult(a[len(a)-1], 0, isBack)
		}
		var mayEvict func(g *ssa.Function, d int) bool
		evictsIn := func(d int) func(in ssa.Instruction) bool {
			return func(in ssa.Instruction) bool {
				if removesBack(in) {
					return true
				}
				c, ok := in.(*ssa.Call)
				if !ok {
					return false
				}
				g := c.Call.StaticCallee()
				return g != nil && inE[g] && g != add && g != in.Parent() && mayEvict(g, d+1)
			}
		}
		mayEvict = func(g *ssa.Function, d int) bool {
			return d < 4 && len(core.Instrs(g, evictsIn(d))) > 0
		}
		isEvict := evictsIn(0)
		nEv, nFront := 0, 0
		var guardFn *ssa.Function
		for _, g := range E {
			r.Fn(core.FuncName(g))
			nEv += len(core.Instrs(g, removesBack))
			for _, fr := range core.Calls(g, isFront) {
				nFront++
				o.Fail(p.InstrPos(fr), "%s takes Front(): the most recently used entry is evicted", core.FuncName(g))
			}
			if core.EdgeCount(g, over) > 0 && len(core.Instrs(g, isEvict)) > 0 {
				if guardFn != nil {
					o.Fail(p.Pos(g.Pos()), "Len() > limit is tested in more than one place")
				}
				guardFn = g
			}
		}
		o.Site(nEv)
		if nEv == 0 {
			o.Fail(p.Pos(add.Pos()), "add (with the keyLru methods it calls) never removes evicts.Back(): the least recently used element is not the one evicted")
			return
		}
		if guardFn == nil {
			o.Fail(p.Pos(add.Pos()), "add (with the keyLru methods it calls) never tests Len() > limit before evicting")
			return
		}
		ovE, _ := core.EdgesOf(guardFn, over)
		o.Site(len(ovE), core.FuncName(guardFn))
		if w := core.Requires(guardFn, isEvict, over); w != nil {
			o.Fail(p.InstrPos(w), "eviction is reachable without Len() > limit")
		}
		// every removal of Back() anywhere in E is under the guard: either inside guardFn (checked above) or in a callee reached only through it
		for _, g := range E {
			if g == guardFn {
				continue
			}
			for _, in := range core.Instrs(g, removesBack) {
				if !mayEvict(guardFn, 0) || g == add {
					o.Fail(p.InstrPos(in), "Back() is removed outside the Len() > limit test")
				}
			}
		}
		emptyList, _ := core.EdgesOf(guardFn, core.Cmp(token.EQL, func(v ssa.Value) bool { return core.IsResult(v, 0, isBack) }, core.IsNil))
		if w, ok := core.Reach(core.Q{From: f10Heads(ovE), Target: core.IsReturn, Blocked: isEvict, Cut: core.CutSet(emptyList)}); ok {
			o.Fail(p.InstrPos(w), "Len() > limit but %s returns without evicting: the cache exceeds its limit", core.FuncName(guardFn))
		}
		// the size test happens on the miss path, after the push
		sizeTest := func(in ssa.Instruction) bool {
			c, ok := in.(*ssa.Call)
			if !ok {
				return false
			}
			if guardFn == add {
				return isLen(c)
			}
			return c.Call.StaticCallee() == guardFn
		}
		tests := core.Instrs(add, sizeTest)
		o.Site(len(tests))
		if len(tests) == 0 {
			o.Fail(p.Pos(add.Pos()), "add does not reach the Len() > limit test")
		}
		if w := everyReturnPasses(f10Heads(miss), sizeTest); w != nil {
			o.Fail(p.InstrPos(w), "a new key is added without testing Len() > limit: the cache exceeds its limit")
		}
		for _, c := range tests {
			for _, pf := range core.Instrs(add, isPF) {
				if !core.Dominates(pf, c) {
					o.Fail(p.InstrPos(c), "the size is tested before the new key is pushed (limit+1 entries)")
				}
			}
		}
	})

	// ---------------- D3 removal completeness ----------------
	isRemoveTimer := core.CallMethod("collection.TimingWheel", "RemoveTimer")
	isDataDelete := func(in ssa.Instruction) bool {
		c, ok := in.(*ssa.Call)
		if !ok {
			return false
		}
		b, ok := c.Call.Value.(*ssa.Builtin)
		return ok && b.Name() == "delete" && core.IsFieldLoad(c.Call.Args[0], "Cache.data")
	}
	r.Check("D3/K1/del-complete", "Del removes the key from data, from the LRU and from the timing wheel on every path; the eviction callback removes it from data and from the timing wheel", func(o *core.O) {
		del := p.Func(f10CollPkg, "Cache", "Del")
		if !o.Need(del != nil && onEvict != nil, "Cache.Del / Cache.onEvict") {
			return
		}
		for _, f := range []*ssa.Function{del, onEvict} {
			r.Fn(core.FuncName(f))
			keyP := f.Params[1]
			sites := []struct {
				m   func(ssa.Instruction) bool
				arg int
				txt string
			}{{isDataDelete, 1, "delete(data, key)"}, {isRemoveTimer, 1, "timingWheel.RemoveTimer(key)"}}
			if f == del {
				sites = append(sites, struct {
					m   func(ssa.Instruction) bool
					arg int
					txt string
				}{isLruRemove, 1, "lruCache.remove(key)"})
			}
			for _, s := range sites {
				s := s
				// the site itself, or a closure called/deferred on the spot that passes the site on all its paths
				viaClosure := func(in ssa.Instruction) bool {
					c, ok := in.(ssa.CallInstruction)
					if _, isGo := in.(*ssa.Go); !ok || isGo {
						return false
					}
					mc, ok := c.Common().Value.(*ssa.MakeClosure)
					if !ok {
						return false
					}
					g := mc.Fn.(*ssa.Function)
					return len(core.Instrs(g, s.m)) > 0 && core.MustPass(core.Entry(g), s.m, core.IsReturn) == nil
				}
				var cs []ssa.Instruction
				for _, g := range core.WithAnon(f) {
					cs = append(cs, core.Instrs(g, s.m)...)
				}
				o.Site(len(cs), core.FuncName(f))
				if w := core.MustPass(core.Entry(f), core.Or(s.m, viaClosure), core.IsReturn); w != nil {
					o.Fail(p.InstrPos(w), "%s can return without %s", core.FuncName(f), s.txt)
				}
				for _, c := range cs {
					a := core.Args(c.(ssa.CallInstruction))
					if v := core.Strip(a[s.arg]); !paramIs(keyP)(v) && !(c.Parent() != f && core.IsFreeVar(keyP.Name())(v)) {
						o.Fail(p.InstrPos(c), "%s is applied to %s, not to the key", s.txt, core.Describe(a[s.arg]))
					}
				}
			}
		}
	})
	r.Check("D3/K1/lru-remove-complete", "keyLru removes an element from the recency list and from the index and then reports the key to the eviction callback; remove(key) removes elements[key]", func(o *core.O) {
		var re *ssa.Function
		for _, f := range p.Methods(f10CollPkg, "keyLru") {
			if len(core.Calls(f, core.CallOfValue(core.FieldLoad("keyLru.onEvict")))) > 0 {
				re = f
			}
		}
		if !o.Need(re != nil, "the keyLru method invoking the eviction callback") {
			return
		}
		r.Fn(core.FuncName(re))
		isListRm := core.CallTo("(*container/list.List).Remove")
		isIdxDel := func(in ssa.Instruction) bool {
			c, ok := in.(*ssa.Call)
			if !ok {
				return false
			}
			b, ok := c.Call.Value.(*ssa.Builtin)
			return ok && b.Name() == "delete" && core.IsFieldLoad(c.Call.Args[0], "keyLru.elements")
		}
		isCbAny := core.CallOfValue(core.FieldLoad("keyLru.onEvict"))
		isCb := func(in ssa.Instruction) bool { _, plain := in.(*ssa.Call); return plain && isCbAny(in) } // `go`/`defer` would run it outside the caller's critical section
		for _, s := range []struct {
			m   func(ssa.Instruction) bool
			txt string
		}{{isListRm, "evicts.Remove(elem)"}, {isIdxDel, "delete(elements, key)"}, {isCb, "onEvict(key)"}} {
			o.Site(len(core.Instrs(re, s.m)), core.FuncName(re))
			if w := core.MustPass(core.Entry(re), s.m, core.IsReturn); w != nil {
				o.Fail(p.InstrPos(w), "%s can return without %s", core.FuncName(re), s.txt)
			}
		}
		elemP := re.Params[1]
		keyOf := func(v ssa.Value) bool {
			ta, ok := core.Forward(v).(*ssa.TypeAssert)
			if !ok {
				return false
			}
			if core.FieldAddrNameOfLoad(ta.X) == "Element.Value" && core.DependsOn(ta.X, paramIs(elemP)) {
				return true
			}
			// list.Remove(elem) returns elem.Value
			c, i := core.ResultOf(ta.X)
			return c != nil && i == 0 && isListRm(c) && paramIs(elemP)(core.Args(c)[1])
		}
		for _, c := range core.Calls(re, isListRm) {
			if !paramIs(elemP)(core.Args(c)[1]) {
				o.Fail(p.InstrPos(c), "the element unlinked is not the one passed in")
			}
			if !core.IsFieldLoad(core.Args(c)[0], "keyLru.evicts") {
				o.Fail(p.InstrPos(c), "Remove on something else than evicts")
			}
		}
		for _, c := range core.Calls(re, isIdxDel) {
			if !keyOf(core.Args(c)[1]) {
				o.Fail(p.InstrPos(c), "the index entry deleted is not the element's key")
			}
		}
		for _, c := range core.Calls(re, isCb) {
			if !keyOf(c.Common().Args[0]) {
				o.Fail(p.InstrPos(c), "the key reported to the eviction callback is not the element's key")
			}
		}
		rem := p.Func(f10CollPkg, "keyLru", "remove")
		if o.Need(rem != nil, "keyLru.remove") {
			r.Fn(core.FuncName(rem))
			cs := core.Calls(rem, func(in ssa.Instruction) bool {
				c, ok := in.(*ssa.Call)
				return ok && c.Call.StaticCallee() == re
			})
			o.Site(len(cs), core.FuncName(rem))
			known := core.BoolVal(func(v ssa.Value) bool {
				l, i := lookupOf(v)
				return l != nil && i == 1 && core.IsFieldLoad(l.X, "keyLru.elements")
			})
			hit, _ := core.EdgesOf(rem, known)
			if len(hit) == 0 || everyReturnPasses(f10Heads(hit), core.Is(instrsOf(cs)...)) != nil {
				o.Fail(p.Pos(rem.Pos()), "remove(key) can return for a tracked key without removing its element")
			}
			for _, c := range cs {
				l, i := lookupOf(core.Args(c)[1])
				if l == nil || i != 0 || !paramIs(rem.Params[1])(l.Index) || !core.IsFieldLoad(l.X, "keyLru.elements") {
					o.Fail(p.InstrPos(c), "the element removed is not elements[key]")
				}
			}
		}
	})

	// ---------------- D4 Take / expiry ----------------
	take := p.Func(f10CollPkg, "Cache", "Take")
	r.Check("D4/K2/take-single-flight", "Take calls fetch only inside the closure handed to barrier.Do(key, …); there fetch runs only after a second lookup missed; the value is cached only when fetch returned no error, under the same key, and fetch's error is returned", func(o *core.O) {
		if !o.Need(take != nil, "Cache.Take") {
			return
		}
		r.Fn(core.FuncName(take))
		// Values are resolved through the closure captures reachable from Take (parameter spill
		// slots, single-assignment locals, by-value bindings, the receiver of a bound method
		// value), never by the names of variables.
		env := newC17Env(take)
		isKey, fetchVal := env.isParam(1), env.isParam(2)
		isFetch := core.CallOfValue(fetchVal)
		isBarrier := core.Or(core.CallMethod("syncx.SingleFlight", "Do"), core.CallMethod("syncx.SingleFlight", "DoEx"))
		barErr := func(b ssa.CallInstruction) int { return b.Common().Signature().Results().Len() - 1 } // the error is the last result of Do / DoEx
		bar := core.Calls(take, isBarrier)
		o.Site(len(bar), core.FuncName(take))
		// the single-flight body: the function value handed to c.barrier.Do(key, …)
		var body *ssa.Function
		var bodyMC *ssa.MakeClosure
		for _, b := range bar {
			a := core.Args(b)
			if !core.IsFieldLoad(a[0], "Cache.barrier") {
				continue
			}
			fn, mc := env.funcOf(a[2])
			if fn == nil || fn.Blocks == nil || len(core.Instrs(fn, isFetch)) == 0 {
				continue
			}
			if body != nil && body != fn {
				o.Fail(p.InstrPos(b), "fetch is called from more than one single-flight body")
			}
			body, bodyMC = fn, mc
			if !isKey(a[1]) {
				o.Fail(p.InstrPos(b), "the flight is keyed by %s, not by key: callers of different keys share a fetch / callers of one key do not", core.Describe(a[1]))
			}
		}
		// fetch runs nowhere else: not in Take itself, not in another function value made by Take
		for _, f := range env.fns {
			if f == body {
				continue
			}
			for _, c := range core.Instrs(f, isFetch) {
				o.Fail(p.InstrPos(c), "%s calls fetch outside the single-flight barrier", core.FuncName(f))
			}
		}
		if body == nil {
			o.Fail(p.Pos(take.Pos()), "the fetching closure is not run through c.barrier.Do(key, …)")
			return
		}
		r.Fn(core.FuncName(body))
		if bodyMC != nil {
			for _, ref := range *bodyMC.Referrers() {
				if c, ok := ref.(*ssa.Call); !ok || !isBarrier(c) {
					o.Fail(p.InstrPos(ref), "the fetching closure is also used outside barrier.Do")
				}
			}
		}
		// Take returns the barrier's error
		for _, b := range bar {
			_, errArm := core.EdgesOf(take, core.ErrNil(barErr(b), core.Is(b)))
			if len(errArm) == 0 {
				o.Fail(p.InstrPos(b), "Take never tests the barrier's error")
			}
			core.Reach(core.Q{From: f10Heads(errArm), Target: func(in ssa.Instruction) bool {
				if ret, ok := in.(*ssa.Return); ok && !core.IsResult(core.Result(ret, 1), barErr(b), core.Is(b)) {
					o.Fail(p.InstrPos(in), "Take does not return the error of the shared fetch")
				}
				return false
			}})
		}
		// inside the closure
		lookups := core.Calls(body, func(in ssa.Instruction) bool {
			c, ok := in.(*ssa.Call)
			if !ok || !recvIs(c.Call.StaticCallee(), "Cache") {
				return false
			}
			res := c.Call.StaticCallee().Signature.Results()
			return res.Len() == 2 && res.At(1).Type().String() == "bool"
		})
		fetches := core.Instrs(body, isFetch)
		o.Site(len(lookups)+len(fetches), core.FuncName(body))
		if len(lookups) == 0 {
			o.Fail(p.Pos(body.Pos()), "no second lookup inside the barrier: callers that queued behind a finished fetch fetch again")
			return
		}
		hitAtom := core.BoolVal(func(v ssa.Value) bool { return core.IsResult(v, 1, core.Is(instrsOfCalls(lookups)...)) })
		for _, l := range lookups {
			if !isKey(core.Args(l)[1]) {
				o.Fail(p.InstrPos(l), "the second lookup uses another key")
			}
		}
		if w := core.Requires(body, isFetch, core.Not(hitAtom)); w != nil {
			o.Fail(p.InstrPos(w), "fetch is reachable without the second lookup having missed")
		}
		hit, _ := core.EdgesOf(body, hitAtom)
		if w := core.ReachableFromEdges(hit, isFetch, nil); w != nil {
			o.Fail(p.InstrPos(w), "fetch runs although the second lookup hit")
		}
		if w := core.AtMostOnce(body, isFetch); w != nil {
			o.Fail(p.InstrPos(w), "fetch can run twice in one flight")
		}
		isCacheSet := func(in ssa.Instruction) bool {
			c, ok := in.(*ssa.Call)
			if !ok || !recvIs(c.Call.StaticCallee(), "Cache") {
				return false
			}
			n := c.Call.StaticCallee().Name()
			return n == "Set" || n == "SetWithExpire"
		}
		sets := core.Instrs(body, isCacheSet)
		o.Site(len(sets))
		if len(sets) == 0 {
			o.Fail(p.Pos(body.Pos()), "a fetched value is never cached")
		}
		fetchOK := core.ErrNil(1, core.Is(fetches...))
		if w := core.Requires(body, isCacheSet, fetchOK); w != nil {
			o.Fail(p.InstrPos(w), "the cache is written although fetch failed (or its error is not tested)")
		}
		ok, failArm := core.EdgesOf(body, fetchOK)
		if w := everyReturnPasses(f10Heads(ok), isCacheSet); w != nil {
			o.Fail(p.InstrPos(w), "a successful fetch is not cached")
		}
		for _, s := range sets {
			a := core.Args(s.(ssa.CallInstruction))
			if !isKey(a[1]) {
				o.Fail(p.InstrPos(s), "the fetched value is cached under another key")
			}
			if !core.IsResult(a[2], 0, core.Is(fetches...)) {
				o.Fail(p.InstrPos(s), "the value cached is not fetch's result")
			}
		}
		core.Reach(core.Q{From: f10Heads(failArm), Target: func(in ssa.Instruction) bool {
			if ret, ok := in.(*ssa.Return); ok && !core.IsResult(core.Result(ret, 1), 1, core.Is(fetches...)) {
				o.Fail(p.InstrPos(in), "a failed fetch does not return its error to the callers")
			}
			return false
		}})
		for _, ret := range core.Returns(body) {
			if _, reach := core.Reach(core.Q{From: f10Heads(ok), Target: core.Is(ret)}); reach && !core.IsResult(core.Result(ret, 0), 0, core.Is(fetches...)) {
				o.Fail(p.InstrPos(ret), "after a successful fetch the closure returns something else than the fetched value")
			}
		}
	})
	r.Check("D4/K7/expiry-jitter", "expiry handed to the wheel = Unstable(0.05).AroundDuration(expire) ≡ int((1 + d − 2·d·r)·expire), factor ∈ [0.95, 1.05]; the wheel ticks every second and its callback deletes the expired key", func(o *core.O) {
		checkJitterFormula(r, o)
		nc := p.Func(f10CollPkg, "", "NewCache")
		if !o.Need(nc != nil && swe != nil, "NewCache / SetWithExpire") {
			return
		}
		r.Fn(core.FuncName(nc))
		nu := core.Calls(nc, core.CallTo("lib/mathx.NewUnstable"))
		o.Site(len(nu), core.FuncName(nc))
		if len(nu) != 1 {
			o.Fail(p.Pos(nc.Pos()), "expected one mathx.NewUnstable call in NewCache, found %d", len(nu))
		}
		for _, c := range nu {
			if d, ok := core.ConstFloat(core.Args(c)[0]); !ok || d != 0.05 {
				o.Fail(p.InstrPos(c), "expiry deviation is %s, expected the constant 0.05", core.Describe(core.Args(c)[0]))
			}
			okStore := false
			for _, st := range core.StoresToField(nc, "Cache.unstableExpiry") {
				if core.Forward(st.Val) == ssa.Value(c.(*ssa.Call)) {
					okStore = true
				}
			}
			if !okStore {
				o.Fail(p.InstrPos(c), "the Unstable(0.05) is not what Cache.unstableExpiry holds")
			}
		}
		// the wheel
		tw := core.Calls(nc, core.CallTo("lib/collection.NewTimingWheel"))
		o.Site(len(tw))
		if len(tw) != 1 {
			o.Fail(p.Pos(nc.Pos()), "expected one NewTimingWheel call in NewCache, found %d", len(tw))
		}
		for _, c := range tw {
			a := core.Args(c)
			if iv, ok := core.ConstInt(a[0]); !ok || iv != 1e9 {
				o.Fail(p.InstrPos(c), "wheel interval is %s, expected one second", core.Describe(a[0]))
			}
			if n, ok := core.ConstInt(a[1]); !ok || n < 2 {
				o.Fail(p.InstrPos(c), "wheel slot count is %s", core.Describe(a[1]))
			}
			cb, keyIdx := f17Callback(core.Strip(a[2]))
			if cb == nil {
				o.Fail(p.InstrPos(c), "the wheel callback %s is not a function of this package", core.Describe(a[2]))
				continue
			}
			r.Fn(core.FuncName(cb))
			dels := core.Calls(cb, core.CallMethod("collection.Cache", "Del"))
			o.Site(len(dels), core.FuncName(cb))
			if len(dels) == 0 {
				o.Fail(p.Pos(cb.Pos()), "the wheel callback does not delete the expired key")
			}
			for _, d := range dels {
				if !core.DependsOn(core.Args(d)[1], paramIs(cb.Params[keyIdx])) {
					o.Fail(p.InstrPos(d), "the key deleted on expiry is not the key the wheel fired")
				}
			}
			// every path of the callback on which the key is a string deletes it
			isStr := core.BoolVal(func(v ssa.Value) bool {
				e, ok := v.(*ssa.Extract)
				if !ok || e.Index != 1 {
					return false
				}
				ta, ok := e.Tuple.(*ssa.TypeAssert)
				return ok && ta.CommaOk && paramIs(cb.Params[keyIdx])(ta.X)
			})
			okE, _ := core.EdgesOf(cb, isStr)
			from := f10Heads(okE)
			if len(okE) == 0 {
				from = []core.At{core.Entry(cb)}
			}
			if w := everyReturnPasses(from, core.CallMethod("collection.Cache", "Del")); w != nil {
				o.Fail(p.InstrPos(w), "the wheel callback can return without deleting the expired key")
			}
			okStore := false
			for _, st := range core.StoresToField(nc, "Cache.timingWheel") {
				if core.IsResult(st.Val, 0, core.Is(c)) {
					okStore = true
				}
			}
			if !okStore {
				o.Fail(p.InstrPos(c), "the wheel created is not the one stored in Cache.timingWheel")
			}
		}
		// SetWithExpire hands the jittered expiry to the wheel
		r.Fn(core.FuncName(swe))
		isAround := func(in ssa.Instruction) bool {
			c, ok := in.(*ssa.Call)
			return ok && core.Short(core.CalleeName(c)) == "(lib/mathx.Unstable).AroundDuration" && core.IsFieldLoad(core.Args(c)[0], "Cache.unstableExpiry") && paramIs(swe.Params[3])(core.Args(c)[1])
		}
		timers := core.Calls(swe, core.Or(core.CallMethod("collection.TimingWheel", "SetTimer"), core.CallMethod("collection.TimingWheel", "MoveTimer")))
		o.Site(len(timers), core.FuncName(swe))
		for _, c := range timers {
			a := core.Args(c)
			if !core.IsResult(a[len(a)-1], 0, isAround) {
				o.Fail(p.InstrPos(c), "the delay handed to the wheel is %s, not c.unstableExpiry.AroundDuration(expire)", core.Describe(a[len(a)-1]))
			}
		}
	})
	r.Check("D4/K2/timer-move-iff-existed", "SetWithExpire looks the key up before storing it; it moves the key's timer iff the key was present, otherwise sets a new timer carrying (key, value); one of the two on every path", func(o *core.O) {
		if !o.Need(swe != nil, "Cache.SetWithExpire") {
			return
		}
		isMove := core.CallMethod("collection.TimingWheel", "MoveTimer")
		isSet := core.CallMethod("collection.TimingWheel", "SetTimer")
		existed := core.BoolVal(isDataFound)
		o.Site(len(core.Instrs(swe, isMove))+len(core.Instrs(swe, isSet)), core.FuncName(swe))
		if core.EdgeCount(swe, existed) == 0 {
			o.Fail(p.Pos(swe.Pos()), "SetWithExpire never branches on whether the key existed")
			return
		}
		if w := core.Requires(swe, isMove, existed); w != nil {
			o.Fail(p.InstrPos(w), "MoveTimer reachable for a key that did not exist (no timer to move: the entry never expires)")
		}
		if w := core.Requires(swe, isSet, core.Not(existed)); w != nil {
			o.Fail(p.InstrPos(w), "SetTimer reachable for a key that existed")
		}
		if w := core.MustPass(core.Entry(swe), core.Or(isMove, isSet), core.IsReturn); w != nil {
			o.Fail(p.InstrPos(w), "SetWithExpire can return without (re)scheduling the key's expiry")
		}
		// the existence test reads the map before the store
		for _, in := range core.Instrs(swe, func(in ssa.Instruction) bool {
			l, ok := in.(*ssa.Lookup)
			return ok && l.CommaOk && core.IsFieldLoad(l.X, "Cache.data")
		}) {
			if !paramIs(swe.Params[1])(in.(*ssa.Lookup).Index) {
				o.Fail(p.InstrPos(in), "the existence test looks up another key")
			}
			if w := core.Precedes(swe, core.Is(in), core.IsMapUpdateOn("Cache.data")); w != nil {
				o.Fail(p.InstrPos(in), "the existence test runs after data[key] was stored (always true: a new key's timer is never created)")
			}
		}
		for _, c := range core.Calls(swe, core.Or(isMove, isSet)) {
			a := core.Args(c)
			if !paramIs(swe.Params[1])(core.Strip(a[1])) {
				o.Fail(p.InstrPos(c), "the timer is keyed by %s, not by key", core.Describe(a[1]))
			}
			if isSet(c.(ssa.Instruction)) && !paramIs(swe.Params[2])(core.Strip(a[2])) {
				o.Fail(p.InstrPos(c), "the timer does not carry the value")
			}
		}
	})

	// ---------------- D5 the wheel's key→timer index behaves as a map (c17_safemap.go) ----------------
	c17SafeMap(r)

	// ---------------- round 11: Take removes nothing (c17_r11.go) ----------------
	c17R11(r)
}

// lookupKeyOf returns the key of the (single) comma-ok lookup in Cache.data of f.
func lookupKeyOf(f *ssa.Function) ssa.Value {
	var k ssa.Value
	for _, in := range core.Instrs(f, func(in ssa.Instruction) bool {
		l, ok := in.(*ssa.Lookup)
		return ok && l.CommaOk && core.IsFieldLoad(l.X, "Cache.data")
	}) {
		if k != nil {
			return nil
		}
		k = in.(*ssa.Lookup).Index
	}
	return k
}

// lookupOf decomposes v into (map lookup, tuple index) when v is a result of a comma-ok lookup.
func lookupOf(v ssa.Value) (*ssa.Lookup, int) {
	e, ok := core.Forward(v).(*ssa.Extract)
	if !ok {
		return nil, -1
	}
	l, ok := e.Tuple.(*ssa.Lookup)
	if !ok || !l.CommaOk {
		return nil, -1
	}
	return l, e.Index
}

func instrsOf(cs []ssa.CallInstruction) []ssa.Instruction {
	var out []ssa.Instruction
	for _, c := range cs {
		out = append(out, c.(ssa.Instruction))
	}
	return out
}

func instrsOfCalls(cs []ssa.CallInstruction) []ssa.Instruction { return instrsOf(cs) }

// f17Callback resolves a function value to the package function that does the
// work and the index of the parameter receiving the callback's first argument:
// a closure, a bound method value (synthetic wrapper: receiver first), or a
// thin wrapper that only forwards its first argument to one package function.
func f17Callback(v ssa.Value) (*ssa.Function, int) {
	var fn *ssa.Function
	idx := 0
	switch x := v.(type) {
	case *ssa.MakeClosure:
		fn = x.Fn.(*ssa.Function)
	case *ssa.Function:
		fn = x
	}
	for depth := 0; fn != nil && depth < 3; depth++ {
		if fn.Blocks == nil {
			return nil, 0
		}
		isDel := core.CallMethod("collection.Cache", "Del")
		// The function that deletes is the callback's body, whatever carries it: a source
		// function, or the wrapper of a bound method value into which the loader's variant 2
		// has inlined the method (parameters of a $bound wrapper are the method's, the
		// receiver is a free variable, so idx keeps its meaning).
		if len(core.Instrs(fn, isDel)) > 0 {
			return fn, idx
		}
		// forwarders: exactly one static call into the package that receives the argument
		var next *ssa.Function
		nextIdx, n := 0, 0
		for _, c := range core.Calls(fn, func(in ssa.Instruction) bool { _, ok := in.(*ssa.Call); return ok }) {
			callee := c.Common().StaticCallee()
			if callee == nil || callee.Blocks == nil || callee.Pkg == nil || !strings.HasSuffix(callee.Pkg.Pkg.Path(), f10CollPkg) {
				continue
			}
			for j, a := range c.Common().Args {
				if idx < len(fn.Params) && paramIs(fn.Params[idx])(core.Strip(a)) {
					next, nextIdx = callee, j
					n++
				}
			}
		}
		if n != 1 {
			if fn.Synthetic == "" {
				return fn, idx
			}
			return nil, 0
		}
		fn, idx = next, nextIdx
	}
	return fn, idx
}
