package props

import (
	"fmt"
	"go/constant"
	"go/token"
	"go/types"
	"strings"

	"godcheck/core"

	"golang.org/x/tools/go/ssa"
)

func init() { register("C08", c08) }

const c08pkg = "lib/limit"

// c08evalSite describes one EvalCtx call: the script constant and the shapes of
// the KEYS and ARGV vectors handed to it, position by position.
type c08evalSite struct {
	call   *ssa.Call
	script string
	keys   []string
	argv   []string
	argvV  []ssa.Value
}

// c08findEval locates, by role, the function of lib/limit that evaluates a
// script on a store held in a field of the named limiter type (the function
// may be the exported entry point or any helper it was moved to).
func c08findEval(p *core.Prog, typ string) (*ssa.Function, string) {
	var found []*ssa.Function
	for _, f := range p.PkgFuncs(c08pkg) {
		for _, c := range c12methodCalls(f, "(*"+c12redisPkg+".Redis).EvalCtx") {
			if strings.HasPrefix(core.FieldAddrNameOfLoad(core.Forward(c.Call.Args[0])), typ+".") {
				found = append(found, f)
			}
		}
	}
	if len(found) != 1 {
		return nil, fmt.Sprintf("%d EvalCtx calls on a store field of %s, expected one", len(found), typ)
	}
	return found[0], ""
}

func c08eval(fn *ssa.Function, w *c12fn) (*c08evalSite, string) {
	calls := c12methodCalls(fn, "(*"+c12redisPkg+".Redis).EvalCtx")
	if len(calls) != 1 {
		return nil, fmt.Sprintf("%d EvalCtx calls, expected one", len(calls))
	}
	c := calls[0]
	es := &c08evalSite{call: c}
	s, ok := core.ConstString(c.Call.Args[2])
	if !ok {
		return nil, "the script argument is not a constant"
	}
	es.script = s
	for _, lf := range w.flatten(c.Call.Args[3], "KEYS", 0) {
		if _, isSlice := lf.v.Type().Underlying().(*types.Slice); isSlice {
			return nil, "KEYS is not a fixed-size slice literal"
		}
		es.keys = append(es.keys, w.shape(lf.v, nil))
	}
	for _, lf := range w.flatten(c.Call.Args[4], "ARGV", 0) {
		if _, isSlice := lf.v.Type().Underlying().(*types.Slice); isSlice {
			return nil, "ARGV is not a fixed-size slice literal"
		}
		es.argv = append(es.argv, w.shape(lf.v, nil))
		es.argvV = append(es.argvV, lf.v)
	}
	return es, ""
}

// c08path is one way a value is produced: the value, the instruction that
// ends that way (a return of the helper computing it, or the jump into the φ
// merging it) and the function holding it.
type c08path struct {
	v    ssa.Value
	site ssa.Instruction
	fn   *ssa.Function
	edge *core.Edge // the φ edge this way comes in by (nil for returns / straight-line values)
}

// c08valuePaths looks through one in-package helper call and through φ-nodes
// (an inlined helper, or `x := a; if c { x = b }`).
func c08valuePaths(v ssa.Value, d int) []c08path {
	v = core.Strip(v)
	switch x := v.(type) {
	case *ssa.Call:
		if g := x.Call.StaticCallee(); g != nil && g.Blocks != nil && g.Pkg == x.Parent().Pkg && d < 2 {
			var out []c08path
			for _, ret := range core.Returns(g) {
				if len(ret.Results) == 1 {
					for _, pp := range c08valuePaths(core.Result(ret, 0), d+1) {
						if pp.fn != g || pp.site == nil {
							pp = c08path{v: pp.v, site: ret, fn: g}
						}
						out = append(out, pp)
					}
				}
			}
			if len(out) > 0 {
				return out
			}
		}
	case *ssa.Phi:
		if d < 4 {
			var out []c08path
			for i, e := range x.Edges {
				pred := x.Block().Preds[i]
				sub := c08valuePaths(e, d+1)
				if len(sub) == 1 && sub[0].site == nil {
					sub[0].site = pred.Instrs[len(pred.Instrs)-1]
					sub[0].edge = &core.Edge{From: pred, To: x.Block()}
					sub[0].fn = x.Parent()
				}
				out = append(out, sub...)
			}
			return out
		}
	}
	if in, ok := v.(ssa.Instruction); ok {
		return []c08path{{v: v, fn: in.Parent()}}
	}
	return []c08path{{v: v}}
}

// c08holdsAny lists the edges on which at least one of the atoms is
// established, including the true edge of `if φ` where φ merges the
// short-circuit evaluation of a disjunction of the atoms (tagless switch case
// `a || b`: φ(true from the edge where a held, b)).
func c08holdsAny(f *ssa.Function, atoms ...core.Atom) []core.Edge {
	var holds []core.Edge
	in := map[core.Edge]bool{}
	add := func(e core.Edge) {
		if !in[e] {
			in[e] = true
			holds = append(holds, e)
		}
	}
	for _, a := range atoms {
		h, _ := core.EdgesOf(f, a)
		for _, e := range h {
			add(e)
		}
	}
	for changed := true; changed; {
		changed = false
		for _, b := range f.Blocks {
			if len(b.Instrs) == 0 || len(b.Succs) != 2 {
				continue
			}
			iff, ok := b.Instrs[len(b.Instrs)-1].(*ssa.If)
			if !ok {
				continue
			}
			phi, ok := iff.Cond.(*ssa.Phi)
			if !ok || phi.Block() != b || in[core.Edge{From: b, To: b.Succs[0]}] {
				continue
			}
			all, any := true, false
			for i, e := range phi.Edges {
				if c, isC := e.(*ssa.Const); isC && c.Value != nil {
					switch c.Value.String() {
					case "false":
						continue
					case "true":
						if in[core.Edge{From: b.Preds[i], To: b}] {
							any = true
							continue
						}
					}
					all = false
					continue
				}
				m := false
				for _, a := range atoms {
					if mm, pos := a(e); mm && pos {
						m = true
					}
				}
				if !m {
					all = false
				}
				any = any || m
			}
			if all && any {
				add(core.Edge{From: b, To: b.Succs[0]})
				changed = true
			}
		}
	}
	return holds
}

func c08(r *core.Run) {
	p := r.P
	r.Explanation = "Decides on the current source: (Go side of the period limiter) TakeCtx evaluates the periodScript constant with KEYS = [keyPrefix+key] and ARGV positions that the script itself (parsed) reads as the limit and the window, fed with quota and calcExpireSeconds(); script replies 0/1/2 map to OverQuota/Allowed/HitQuota and nothing else yields a nil error; calcExpireSeconds ≡ period − (unix+zoneOffset) mod period under align, else period. (Lua, parsed from the constants) the period script increments KEYS[1] by 1, sets the expiry only when the counter is 1, and answers 1 below the limit, 2 at the limit, 0 above; the token script refills min(capacity, last + max(0, now − ts)·rate), grants iff filled ≥ requested, debits only when granted, re-sets both keys with the same ttl and stores max(now, ts) as the new refill time (never older than the one read); its ARGV roles are fed with rate, burst, now.Unix(), n and its KEYS with the token and timestamp keys. (Fallback) the in-process limiter answers iff redisAlive is 0 or Redis failed with an error other than redis.Nil / a context error of a caller whose own context is done (an error matching DeadlineExceeded/Canceled while ctx.Err() is nil - a dial/IO timeout - is an outage and falls back), in which case the monitor is started first; whether the caller's context is done is judged by a ctx.Err() read after the evaluation returned (a context that ends during the round trip is the caller's own error, not an outage); redisAlive goes to 0 only in startMonitor before the monitor goroutine is spawned, once (monitorStarted under rescueLock), and back to 1 only after Ping() succeeded; the rescue limiter is built from the same burst and exactly the same rate (Limit(rate), not an interval rounded to nanoseconds)."
	r.NotDecided = "admission counts over time and call histories, Redis' TTL behaviour, atomicity of script evaluation, outage patterns; Lua semantics beyond the parsed subset (numbers vs strings coercion by tonumber is trusted)."
	r.Trusted = append(r.Trusted, "a 300-line parser for the Lua subset used by the two scripts (local, assignment, if/elseif/else, calls, arithmetic, comparison, return); unknown syntax → unresolved")

	// anchors: exported API by name, unexported helpers by role
	take := p.Func(c08pkg, "PeriodLimit", "TakeCtx")
	takeEval, _ := c08findEval(p, "PeriodLimit") // the function that evaluates the period script
	reserve, _ := c08findEval(p, "TokenLimiter") // the function that evaluates the token script (reserveN)
	newTok := p.Func(c08pkg, "", "NewTokenLimiter")
	// the limiter's fallback state, anchored by field name wherever it is laid out
	// (in TokenLimiter itself or in a struct of the package nested in it)
	lim := newC08lim(p, "TokenLimiter")
	isAliveAddr0 := lim.isAddr("redisAlive")
	storesAlive := func(f *ssa.Function, val int64) []ssa.Instruction {
		return core.Instrs(f, func(in ssa.Instruction) bool {
			c := core.AsCall(in)
			if c == nil || core.CalleeName(c) != "sync/atomic.StoreUint32" || !isAliveAddr0(c.Common().Args[0]) {
				return false
			}
			k, ok := core.ConstInt(c.Common().Args[1])
			return ok && k == val
		})
	}
	var startMon *ssa.Function             // the function that marks Redis down (startMonitor)
	monitorFns := map[*ssa.Function]bool{} // the functions that mark Redis alive again (waitForRedis) and their parents
	for _, f := range p.PkgFuncs(c08pkg) {
		if len(storesAlive(f, 0)) > 0 && startMon == nil {
			startMon = f
		}
		if len(storesAlive(f, 1)) > 0 {
			for g := f; g != nil; g = g.Parent() {
				monitorFns[g] = true
			}
		}
	}

	// ---------------- D1: Go side of the period limiter ----------------
	r.Check("D1/K6/period-code-mapping", "TakeCtx maps the script's replies 0→OverQuota, 1→Allowed, 2→HitQuota (under err == nil and a successful int64 assertion of the reply); every other path returns Unknown with a non-nil error (decided by evaluating TakeCtx from the reply on: each of the replies 0, 1, 2, replies outside that set, a failed assertion, a failed evaluation)", func(o *core.O) {
		if !o.Need(take != nil, "PeriodLimit.TakeCtx") {
			return
		}
		f := take
		r.Fn(core.FuncName(f))
		isEval := core.CallTo("(*" + c12redisPkg + ".Redis).EvalCtx")
		evals := core.Calls(f, isEval)
		if !o.Need(len(evals) == 1, "one EvalCtx call in TakeCtx") {
			return
		}
		// the reply: comma-ok assertions of result 0 of the evaluation
		asserts := map[*ssa.TypeAssert]bool{}
		for _, in := range core.Instrs(f, func(in ssa.Instruction) bool {
			ta, ok := in.(*ssa.TypeAssert)
			return ok && ta.CommaOk && core.IsResult(ta.X, 0, isEval)
		}) {
			asserts[in.(*ssa.TypeAssert)] = true
		}
		if len(asserts) == 0 {
			o.Fail(p.Pos(f.Pos()), "TakeCtx does not read the script's reply through a checked (comma-ok) assertion")
			return
		}
		// public codes by constant value
		pub := map[string]int64{}
		for _, n := range []string{"Unknown", "Allowed", "HitQuota", "OverQuota"} {
			c, ok := p.Pkg(c08pkg).Members[n].(*ssa.NamedConst)
			if !o.Need(ok, "limit."+n) {
				return
			}
			pub[n], _ = constant.Int64Val(c.Value.Value)
		}
		// a scenario pins the error of the evaluation, the success of the assertion and the reply
		type scenario struct {
			what    string
			errNil  bool
			ok      int // 1 asserted, 0 assertion failed, -1 not pinned
			reply   int64
			public  int64
			success bool
		}
		scen := []scenario{
			{"the script replies 0", true, 1, 0, pub["OverQuota"], true},
			{"the script replies 1", true, 1, 1, pub["Allowed"], true},
			{"the script replies 2", true, 1, 2, pub["HitQuota"], true},
			{"the reply is not an int64", true, 0, 0, pub["Unknown"], false},
			{"the evaluation fails", false, -1, 0, pub["Unknown"], false},
		}
		for _, c := range []int64{-1, 3, 4, 255, 256, 1 << 32, -1 << 63, 1<<63 - 1} {
			scen = append(scen, scenario{fmt.Sprintf("the script replies %d", c), true, 1, c, pub["Unknown"], false})
		}
		for _, sc := range scen {
			sc := sc
			it := c08explore(f, func(v ssa.Value) (any, bool) {
				e, ok := v.(*ssa.Extract)
				if !ok {
					return nil, false
				}
				if c, i := core.ResultOf(e); c != nil && isEval(c) && i == 1 {
					if sc.errNil {
						return c08nilV{}, true
					}
					return c08nonNilV{}, true
				}
				if ta, isTA := e.Tuple.(*ssa.TypeAssert); isTA && asserts[ta] && sc.ok >= 0 {
					if e.Index == 1 {
						return constant.MakeBool(sc.ok == 1), true
					}
					return constant.MakeInt64(sc.reply), true // the zero value when the assertion failed
				}
				return nil, false
			})
			if it.failed != "" {
				o.Unres("TakeCtx when %s: %s", sc.what, it.failed)
				continue
			}
			o.Site(len(it.rets))
			for _, w := range it.panics {
				o.Fail(p.InstrPos(w), "when %s TakeCtx panics instead of answering", sc.what)
			}
			if len(it.rets) == 0 && len(it.panics) == 0 {
				o.Fail(p.Pos(f.Pos()), "when %s TakeCtx has no way to return", sc.what)
			}
			for _, rt := range it.rets {
				if len(rt.vals) != 2 {
					continue
				}
				code, isC := rt.vals[0].(constant.Value)
				_, errIsNil := rt.vals[1].(c08nilV)
				var got int64 = -1
				if isC && code.Kind() == constant.Int {
					got, _ = constant.Int64Val(code)
				}
				switch {
				case !isC && rt.vals[0] == nil:
					o.Unres("%s: when %s the returned code is not decided by constants", p.InstrPos(rt.ret), sc.what)
				case sc.success && (!isC || got != sc.public || !errIsNil):
					o.Fail(p.InstrPos(rt.ret), "when %s the answer is not public code %d with a nil error", sc.what, sc.public)
				case !sc.success && errIsNil:
					o.Fail(p.InstrPos(rt.ret), "when %s a nil error is returned", sc.what)
				case !sc.success && (!isC || got != sc.public):
					o.Fail(p.InstrPos(rt.ret), "when %s an error is returned together with a code other than Unknown", sc.what)
				}
			}
		}
	})

	var periodSite, tokenSite *c08evalSite
	// normal form of the expiry: P = period, U = time.Now().Unix(), Z = zone offset of the same instant
	isNow := func(v ssa.Value) bool {
		c, ok := core.Strip(v).(*ssa.Call)
		return ok && core.CalleeName(c) == "time.Now"
	}
	expAlg := &core.Alg{Name: func(v ssa.Value) string {
		if core.IsFieldLoad(v, "PeriodLimit.period") {
			return "P"
		}
		if c, ok := v.(*ssa.Call); ok && core.CalleeName(c) == "(time.Time).Unix" && isNow(core.Forward(c.Call.Args[0])) {
			return "U"
		}
		if e, ok := v.(*ssa.Extract); ok && e.Index == 1 {
			if c, ok := e.Tuple.(*ssa.Call); ok && core.CalleeName(c) == "(time.Time).Zone" && isNow(core.Forward(c.Call.Args[0])) {
				return "Z"
			}
		}
		return ""
	}}
	aligned, plain := core.ParsePoly("P - mod(U+Z, P)"), core.ParsePoly("P")
	itoaArg := func(v ssa.Value) ssa.Value {
		if c, ok := core.Strip(v).(*ssa.Call); ok && core.CalleeName(c) == "strconv.Itoa" {
			return c.Call.Args[0]
		}
		return nil
	}
	// the expiry expression, by role: the decimal ARGV element of the period evaluation that is not the quota
	expireExpr := func() (ssa.Value, string) {
		if takeEval == nil {
			return nil, "no function evaluates a script on a store field of PeriodLimit"
		}
		es, msg := c08eval(takeEval, newC12fn(takeEval))
		if es == nil {
			return nil, msg
		}
		var cands []ssa.Value
		for _, v := range es.argvV {
			if e := itoaArg(v); e != nil && !core.IsFieldLoad(e, "PeriodLimit.quota") {
				cands = append(cands, e)
			}
		}
		if len(cands) != 1 {
			return nil, fmt.Sprintf("%d ARGV elements of the form Itoa(x) with x other than the quota, expected exactly the expiry", len(cands))
		}
		return cands[0], ""
	}
	r.Check("D1/K8/period-eval-arguments", "the period script is evaluated with KEYS = [keyPrefix + key] on the limiter's store with the caller's ctx, and ARGV = two decimal strings: Itoa(quota) at the position the script reads as its limit and Itoa(expiry seconds) at the position it reads as its window", func(o *core.O) {
		if !o.Need(takeEval != nil, "the function evaluating a script on a store field of PeriodLimit") {
			return
		}
		r.Fn(core.FuncName(takeEval))
		w := newC12fn(takeEval)
		es, msg := c08eval(takeEval, w)
		if es == nil {
			o.Unres("%s: %s", core.FuncName(takeEval), msg)
			return
		}
		periodSite = es
		o.Site(1)
		where := p.InstrPos(es.call)
		if sh := w.shape(es.call.Call.Args[0], nil); sh != "p0.PeriodLimit.limitStore" {
			o.Fail(where, "the script runs on %s, not on the receiver's limitStore", sh)
		}
		if w.paramIndex(es.call.Call.Args[1]) != 1 {
			o.Fail(where, "the caller's ctx is not passed on")
		}
		if len(es.keys) != 1 || es.keys[0] != "(p0.PeriodLimit.keyPrefix+p2)" {
			o.Fail(where, "KEYS is %v, expected [keyPrefix + key]: counters of different limiters/keys would collide or split", es.keys)
		}
		roles, msg := c08periodRoles(es.script)
		if roles == nil {
			o.Unres("period script: %s", msg)
			return
		}
		if len(es.argv) != 2 {
			o.Fail(where, "ARGV has %d elements, the script reads 2", len(es.argv))
			return
		}
		li, wi := roles["limit"], roles["window"]
		if li < 1 || li > 2 || es.argv[li-1] != "strconv.Itoa(p0.PeriodLimit.quota)" {
			o.Fail(where, "the script's limit (ARGV[%d]) is not fed with Itoa(quota): quota and window swapped?", li)
		}
		if wi < 1 || wi > 2 || itoaArg(es.argvV[wi-1]) == nil {
			o.Fail(where, "the script's window (ARGV[%d]) is not fed with Itoa(expiry seconds)", wi)
			return
		}
		for _, pa := range c08valuePaths(itoaArg(es.argvV[wi-1]), 0) {
			if got := expAlg.Norm(pa.v); !got.Equal(aligned) && !got.Equal(plain) {
				o.Fail(where, "the script's window (ARGV[%d]) is fed with %s, expected the expiry P or P - mod(U+Z, P) (P = period)", wi, got)
			}
		}
	})

	r.Check("D1/K7/period-expire-seconds", "the expiry handed to the script is period − (now.Unix() + zoneOffset) mod period exactly on the paths where align holds, and period otherwise (whether computed in a helper or in line)", func(o *core.O) {
		e, msg := expireExpr()
		if e == nil {
			o.Unres("expiry expression: %s", msg)
			return
		}
		paths := c08valuePaths(e, 0)
		alignAtom := core.BoolVal(core.FieldLoad("PeriodLimit.align"))
		nAligned, nPlain := 0, 0
		for _, pa := range paths {
			if pa.fn == nil {
				o.Unres("expiry expression %s not understood", core.Describe(pa.v))
				return
			}
			r.Fn(core.FuncName(pa.fn))
			holds, fails := core.EdgesOf(pa.fn, alignAtom)
			o.Site(len(holds) + len(fails))
			got := expAlg.Norm(pa.v)
			where := p.Pos(pa.fn.Pos())
			from := func(es []core.Edge) bool {
				if pa.site == nil {
					return true // straight-line value: produced whatever align says
				}
				if pa.edge != nil {
					for _, ed := range es {
						if ed == *pa.edge {
							return true
						}
					}
				}
				return core.ReachableFromEdges(es, core.Is(pa.site), nil) != nil
			}
			if pa.site != nil {
				where = p.InstrPos(pa.site)
			}
			fromAlign, fromPlain := from(holds), from(fails)
			if len(holds) == 0 {
				fromAlign, fromPlain = true, true
			}
			if fromAlign {
				nAligned++
				if !got.Equal(aligned) {
					o.Fail(where, "with align the expiry is %s, expected P - mod(U+Z, P) (P = period, U = now.Unix(), Z = zone offset): windows would not end on period boundaries", got)
				}
			}
			if fromPlain {
				nPlain++
				if !got.Equal(plain) {
					o.Fail(where, "without align the expiry is %s, expected the period", got)
				}
			}
		}
		if nAligned == 0 || nPlain == 0 {
			o.Fail(p.Pos(takeEval.Pos()), "the expiry does not distinguish align (%d paths) from non-align (%d paths)", nAligned, nPlain)
		}
	})

	// ---------------- D2 / D3: the scripts themselves (K12) ----------------
	r.Check("D2/K12/period-script", "periodScript: the counter is redis.call(\"INCRBY\", KEYS[1], 1); expire(KEYS[1], window) runs only when the counter == 1 and does run then; the reply is 1 iff counter < limit, 2 iff counter == limit, else 0; limit and window are tonumber(ARGV[i]) of two different positions", func(o *core.O) {
		if !o.Need(takeEval != nil, "the function evaluating a script on a store field of PeriodLimit") {
			return
		}
		es, emsg := c08eval(takeEval, newC12fn(takeEval))
		if es == nil {
			o.Unres("%s: %s", core.FuncName(takeEval), emsg)
			return
		}
		roles, msg := c08periodRoles(es.script)
		o.Site(1)
		if roles == nil {
			if strings.HasPrefix(msg, "UNSUPPORTED") {
				o.Unres("periodScript: %s", msg)
			} else {
				o.Fail("lib/limit/periodlimit.go:periodScript", "%s", msg)
			}
		}
	})
	r.Check("D3/K12/token-script", "token script: filled = min(capacity, last + max(0, now − ts)·rate) with last defaulting to capacity and ts to 0 when the keys are absent; allowed = filled ≥ requested is the reply; the stored level is filled − requested when allowed, else filled; both keys are re-set with setex and the same ttl = floor(capacity/rate·2); the timestamp key stores max(now, ts): the stored refill time is never older than the one read (evaluated on concrete now/ts pairs, any spelling) [a script that stores plain now lets a caller with an older second rewind the refill clock, and the next caller is credited rate × the same span again: more than burst + rate × t admissions between s and s+t]", func(o *core.O) {
		if !o.Need(reserve != nil, "TokenLimiter.reserveN") {
			return
		}
		w := newC12fn(reserve)
		es, msg := c08eval(reserve, w)
		if es == nil {
			o.Unres("reserveN: %s", msg)
			return
		}
		o.Site(1)
		roles, msg := c08tokenRoles(es.script)
		if roles == nil {
			if strings.HasPrefix(msg, "UNSUPPORTED") {
				o.Unres("token script: %s", msg)
			} else {
				o.Fail(p.InstrPos(es.call), "token script: %s", msg)
			}
		}
	})
	r.Check("D3/K8/token-eval-arguments", "reserveN evaluates the token script on tl.store with its ctx; the positions the script reads as rate, capacity, now, requested are fed with Itoa(tl.rate), Itoa(tl.burst), FormatInt(now.Unix(), 10), Itoa(n); the key it uses for the level is tl.tokenKey and the one for the timestamp tl.timestampKey; NewTokenLimiter derives the two keys from distinct formats of the caller's key", func(o *core.O) {
		if !o.Need(reserve != nil && newTok != nil, "TokenLimiter.reserveN / NewTokenLimiter") {
			return
		}
		r.Fn(core.FuncName(reserve), core.FuncName(newTok))
		w := newC12fn(reserve)
		es, msg := c08eval(reserve, w)
		if es == nil {
			o.Unres("reserveN: %s", msg)
			return
		}
		tokenSite = es
		o.Site(1)
		where := p.InstrPos(es.call)
		if sh := w.shape(es.call.Call.Args[0], nil); sh != "p0.TokenLimiter.store" {
			o.Fail(where, "the script runs on %s, not on tl.store", sh)
		}
		if w.paramIndex(es.call.Call.Args[1]) != 1 {
			o.Fail(where, "the caller's ctx is not passed on")
		}
		roles, msg := c08tokenRoles(es.script)
		if roles == nil {
			o.Unres("token script roles: %s", msg)
			return
		}
		wantArg := map[string]string{
			"rate":      "strconv.Itoa(p0.TokenLimiter.rate)",
			"capacity":  "strconv.Itoa(p0.TokenLimiter.burst)",
			"now":       "strconv.FormatInt((time.Time).Unix(p2),10)",
			"requested": "strconv.Itoa(p3)",
		}
		if len(es.argv) != 4 || len(es.keys) != 2 {
			o.Fail(where, "KEYS/ARGV have %d/%d elements, the script reads 2/4", len(es.keys), len(es.argv))
			return
		}
		for role, want := range wantArg {
			idx := roles[role]
			if idx < 1 || idx > 4 || es.argv[idx-1] != want {
				got := "?"
				if idx >= 1 && idx <= 4 {
					got = es.argv[idx-1]
				}
				o.Fail(where, "the script's %s (ARGV[%d]) is fed with %s, expected %s", role, idx, got, want)
			}
		}
		for role, want := range map[string]string{"tokensKey": "p0.TokenLimiter.tokenKey", "tsKey": "p0.TokenLimiter.timestampKey"} {
			idx := roles[role]
			if idx < 1 || idx > 2 || es.keys[idx-1] != want {
				o.Fail(where, "the script's %s (KEYS[%d]) is not %s", role, idx, want)
			}
		}
		// constructor: keys derived from the caller's key through two different formats
		cw := newC12fn(newTok)
		seen := map[string]string{}
		for _, f := range []string{"tokenKey", "timestampKey"} {
			for _, st := range core.StoresToField(newTok, "TokenLimiter."+f) {
				c, ok := core.Forward(st.Val).(*ssa.Call)
				if !ok || core.CalleeName(c) != "fmt.Sprintf" {
					continue
				}
				format, isC := core.ConstString(c.Call.Args[0])
				lv := cw.flatten(c.Call.Args[1], "", 0)
				if isC && len(lv) == 1 && cw.paramIndex(lv[0].v) == 3 && strings.Count(format, "%") == 1 && (strings.Contains(format, "%s") || strings.Contains(format, "%v")) {
					seen[f] = format
				}
			}
		}
		o.Site(len(seen))
		if seen["tokenKey"] == "" || seen["timestampKey"] == "" || seen["tokenKey"] == seen["timestampKey"] {
			o.Fail(p.Pos(newTok.Pos()), "tokenKey/timestampKey formats are %q / %q: expected two different one-verb formats of the caller's key (level and timestamp must not share a key; different limiters must not share keys)", seen["tokenKey"], seen["timestampKey"])
		}
	})

	// ---------------- D4: fallback ----------------
	isAliveAddr := lim.isAddr("redisAlive")
	storeAlive := func(val int64) func(ssa.Instruction) bool {
		return func(in ssa.Instruction) bool {
			c := core.AsCall(in)
			if c == nil || core.CalleeName(c) != "sync/atomic.StoreUint32" {
				return false
			}
			k, ok := core.ConstInt(c.Common().Args[1])
			return isAliveAddr(c.Common().Args[0]) && (!ok || k == val || val < 0)
		}
	}
	r.Check("D3/K9/allow-wrappers-forward", "every public entry point of the token limiter hands its own arguments down to the function that evaluates the script: a wrapper that has a count / context / time parameter passes that very parameter in the position of the same type, and supplies the constant 1, context.Background() or time.Now() only for what it does not have (AllowNCtx(ctx, now, n) asks for n tokens, not for one)", func(o *core.O) {
		if !o.Need(reserve != nil, "TokenLimiter.reserveN") {
			return
		}
		recvT := reserve.Signature.Recv()
		if !o.Need(recvT != nil, "receiver of reserveN") {
			return
		}
		// the delegation chain: methods of the same receiver that call reserveN or another such method
		chain := map[*ssa.Function]bool{reserve: true}
		var wrappers []*ssa.Function
		for changed := true; changed; {
			changed = false
			for _, f := range p.PkgFuncs(c08pkg) {
				if chain[f] || f.Parent() != nil || f.Signature.Recv() == nil || !types.Identical(f.Signature.Recv().Type(), recvT.Type()) {
					continue
				}
				for _, c := range core.Calls(f, func(in ssa.Instruction) bool {
					c := core.AsCall(in)
					return c != nil && c.Common().StaticCallee() != nil && chain[c.Common().StaticCallee()]
				}) {
					_ = c
					chain[f] = true
					wrappers = append(wrappers, f)
					changed = true
					break
				}
			}
		}
		if !o.Need(len(wrappers) > 0, "public wrappers delegating to reserveN") {
			return
		}
		kind := func(t types.Type) string {
			switch t.String() {
			case "int":
				return "count"
			case "context.Context":
				return "context"
			case "time.Time":
				return "time"
			}
			return ""
		}
		n := 0
		for _, f := range wrappers {
			r.Fn(core.FuncName(f))
			own := map[string]*ssa.Parameter{}
			for _, pa := range f.Params[1:] {
				if k := kind(pa.Type()); k != "" {
					own[k] = pa
				}
			}
			for _, c := range core.Calls(f, func(in ssa.Instruction) bool {
				c := core.AsCall(in)
				return c != nil && c.Common().StaticCallee() != nil && chain[c.Common().StaticCallee()] && c.Common().StaticCallee() != f
			}) {
				g := c.Common().StaticCallee()
				args := c.Common().Args
				for j, a := range args {
					if j == 0 || j >= len(g.Params) {
						continue
					}
					k := kind(g.Params[j].Type())
					if k == "" {
						continue
					}
					n++
					av := core.Forward(a)
					if pa := own[k]; pa != nil {
						if av != ssa.Value(pa) {
							o.Fail(p.InstrPos(c), "%s has its own %s parameter %s but hands %s to %s: the caller's %s is ignored", core.FuncName(f), k, pa.Name(), core.Describe(av), core.FuncName(g), k)
						}
						continue
					}
					okDefault := false
					switch k {
					case "count":
						v, isC := core.ConstInt(av)
						okDefault = isC && v == 1
					case "context":
						cc, isCall := av.(*ssa.Call)
						okDefault = isCall && core.CalleeName(cc) == "context.Background"
					case "time":
						cc, isCall := av.(*ssa.Call)
						okDefault = isCall && core.CalleeName(cc) == "time.Now"
					}
					if !okDefault {
						o.Fail(p.InstrPos(c), "%s supplies %s as the %s of %s (expected 1 / context.Background() / time.Now() for an argument the wrapper does not have)", core.FuncName(f), core.Describe(av), k, core.FuncName(g))
					}
				}
			}
		}
		o.Site(n, "arguments handed down by the token limiter's wrappers")
	})

	r.Check("D4/K2/rescue-iff-redis-down", "reserveN: when atomic redisAlive == 0 the script is not evaluated and the answer is rescueLimiter.AllowN(now, n); after EvalCtx (decided by evaluating reserveN from the evaluation on in each scenario: the error is nil / redis.Nil / matches context.DeadlineExceeded / matches context.Canceled / is something else, the caller's ctx.Err() is nil / non-nil, the reply is / is not an int64), false is answered exactly for err == redis.Nil and for an error that matches a context error WHILE the caller's own context is done (ctx.Err() != nil), and then neither the monitor is started nor the in-process limiter asked [a caller's expired context is not an outage]; the state of the caller's context is a fact per reading: one taken after the evaluation has the scenario's state, one that can be taken before it is evaluated both as live and - when the context is done afterwards - as done already, and a return taken then without the script having been sent (an early exit for a caller that is gone) must answer false without monitor or in-process limiter [nothing was charged, nothing failed]; every other failure - including an error that matches DeadlineExceeded/Canceled while the caller's context is live: net's dial/IO timeout is such an error, and it means Redis is unreachable - and a reply that is not int64 first calls startMonitor and then answers rescueLimiter.AllowN(now, n) [otherwise the limiter refuses every request for the length of the outage instead of limiting in process]; the script's verdict code == 1 is used only when err == nil", func(o *core.O) {
		if !o.Need(reserve != nil, "TokenLimiter.reserveN") || !o.Need(lim.has("redisAlive", "rescueLimiter"), "the limiter's redisAlive / rescueLimiter fields") {
			return
		}
		f := reserve
		r.Fn(core.FuncName(f))
		w := newC12fn(f)
		isEval := core.CallTo("(*" + c12redisPkg + ".Redis).EvalCtx")
		evals := core.Calls(f, isEval)
		if !o.Need(len(evals) == 1, "one EvalCtx call in reserveN") {
			return
		}
		ev := evals[0].(*ssa.Call)
		isRescue := func(v ssa.Value) bool {
			c, ok := core.Strip(v).(*ssa.Call)
			if !ok || core.CalleeName(c) != "(*golang.org/x/time/rate.Limiter).AllowN" {
				return false
			}
			root, isLim := lim.stateField(c.Call.Args[0], "rescueLimiter")
			return isLim && w.paramIndex(root) == 0 && w.paramIndex(c.Call.Args[1]) == 2 && w.paramIndex(c.Call.Args[2]) == 3
		}
		retOf := func(pred func(ssa.Value) bool) func(ssa.Instruction) bool {
			return func(in ssa.Instruction) bool {
				ret, ok := in.(*ssa.Return)
				return ok && len(ret.Results) == 1 && pred(core.Result(ret, 0))
			}
		}
		isLoadAlive := func(v ssa.Value) bool {
			c, ok := core.Strip(v).(*ssa.Call)
			return ok && core.CalleeName(c) == "sync/atomic.LoadUint32" && isAliveAddr(c.Call.Args[0])
		}
		down := core.Cmp(token.EQL, isLoadAlive, core.IsConstInt(0))
		hDown, hUp := core.EdgesOf(f, down)
		o.Site(len(hDown))
		if len(hDown) == 0 {
			o.Fail(p.Pos(f.Pos()), "reserveN does not test redisAlive == 0")
		} else {
			if wv := core.ReachableFromEdges(hDown, isEval, nil); wv != nil {
				o.Fail(p.InstrPos(wv), "the script is evaluated although redisAlive == 0")
			}
			if wv := core.ReachableFromEdges(hDown, func(in ssa.Instruction) bool { _, ok := in.(*ssa.Return); return ok && !retOf(isRescue)(in) }, nil); wv != nil {
				o.Fail(p.InstrPos(wv), "with redisAlive == 0 the answer is not rescueLimiter.AllowN(now, n)")
			}
			if wv := core.ReachableFromEdges(hUp, retOf(isRescue), isEval); wv != nil {
				o.Fail(p.InstrPos(wv), "the in-process limiter answers although redisAlive != 0 and Redis was not asked")
			}
		}
		// after the evaluation
		isErr := func(v ssa.Value) bool { c, i := core.ResultOf(core.Forward(v)); return c == ev && i == 1 }
		isRNil := func(v ssa.Value) bool {
			// redis.Nil is a typed string constant of go-redis
			s, ok := core.ConstString(v)
			return ok && s == "redis: nil"
		}
		errNil := core.Cmp(token.EQL, isErr, core.IsNil)
		isFalse := retOf(func(v ssa.Value) bool {
			c, ok := v.(*ssa.Const)
			return ok && c.Value != nil && c.Value.String() == "false"
		})
		isStart := func(in ssa.Instruction) bool {
			c := core.AsCall(in)
			return c != nil && startMon != nil && c.Common().StaticCallee() == startMon
		}
		_, hErr := core.EdgesOf(f, errNil)
		o.Site(len(hErr))
		if len(hErr) == 0 {
			o.Fail(p.InstrPos(ev), "reserveN never tests err != nil after the evaluation")
		}
		// Which failures are refused and which fall back: evaluated, not matched. reserveN is
		// interpreted from the evaluation on with the facts of one scenario pinned (redisAlive = 1;
		// the error nil or not; err == redis.Nil; errors.Is(err, context.DeadlineExceeded / Canceled /
		// the caller's ctx.Err()); ctx.Err() nil or not; the reply an int64 or not); what is not pinned
		// is unknown and followed both ways. Every return reached in the scenario must be of the
		// expected class.
		isCtxErrCall := func(v ssa.Value) bool {
			c, ok := core.Forward(v).(*ssa.Call)
			if !ok || !c.Call.IsInvoke() || c.Call.Method.Name() != "Err" {
				return false
			}
			k := w.paramIndex(core.Forward(c.Call.Value))
			return k >= 1 && k == w.paramIndex(core.Forward(ev.Call.Args[1]))
		}
		// A context is live until it ends and done from then on: a reading of ctx.Err() that the evaluation does
		// not dominate can be taken before the script is sent (an early "the caller is gone already" exit), one
		// that it dominates is taken when the answer is back. A scenario's ctxDone is the state AFTER the round
		// trip; the state on entry is a second fact: live (the context ended in flight, if at all) or - only with
		// ctxDone - done already. Both histories are evaluated.
		ctxCallOf := func(v ssa.Value) *ssa.Call { c, _ := core.Forward(v).(*ssa.Call); return c }
		afterEval := func(c *ssa.Call) bool { return c != nil && c.Parent() == f && core.Dominates(ev, c) }
		nEarlyCtx := 0
		for _, in := range core.Instrs(f, func(in ssa.Instruction) bool {
			v, ok := in.(ssa.Value)
			return ok && isCtxErrCall(v) && ctxCallOf(v) == in
		}) {
			if !afterEval(in.(*ssa.Call)) {
				nEarlyCtx++
			}
		}
		type c08rescueV struct{}
		type scen struct {
			what                        string
			errNil, isRNil, isDE, isCan bool
			ctxDone                     bool
			ok                          int // 1 reply is int64, 0 it is not, -1 not pinned
			fallback                    bool
			why                         string
		}
		scens := []scen{
			{"the script refused (err == redis.Nil)", false, true, false, false, false, -1, false, ""},
			{"the caller's deadline expired (errors.Is(err, context.DeadlineExceeded), ctx.Err() != nil)", false, false, true, false, true, -1, false, ""},
			{"the caller cancelled (errors.Is(err, context.Canceled), ctx.Err() != nil)", false, false, false, true, true, -1, false, ""},
			{"Redis timed out while the caller's context is live (errors.Is(err, context.DeadlineExceeded) holds - net's dial/IO timeout matches it - but ctx.Err() == nil)", false, false, true, false, false, -1, true,
				"an unreachable Redis is taken for the caller's own deadline: every request is refused for the length of the outage and the in-process bucket is never used"},
			{"the Redis operation was cancelled while the caller's context is live (errors.Is(err, context.Canceled) holds but ctx.Err() == nil)", false, false, false, true, false, -1, true,
				"a failure of the Redis connection is taken for the caller's own cancellation: the request is refused instead of being answered by the in-process bucket"},
			{"Redis failed with an error that is neither redis.Nil nor a context error (caller's context live)", false, false, false, false, false, -1, true,
				"the limiter stops admitting instead of falling back"},
			{"Redis failed with an error that is neither redis.Nil nor a context error (caller's context done)", false, false, false, false, true, -1, true,
				"the limiter stops admitting instead of falling back"},
			{"the reply is not an int64", true, false, false, false, false, 0, true,
				"the limiter stops admitting instead of falling back"},
		}
		nCtxErr := len(core.Instrs(f, func(in ssa.Instruction) bool { v, ok := in.(ssa.Value); return ok && isCtxErrCall(v) }))
		type c08hist struct {
			sc          scen
			doneOnEntry bool
		}
		var hists []c08hist
		earlyReported := map[*ssa.Return]bool{}
		for _, sc := range scens {
			hists = append(hists, c08hist{sc, false})
			if sc.ctxDone && nEarlyCtx > 0 {
				sc.what += ", the caller's context being done on entry already"
				hists = append(hists, c08hist{sc, true})
			}
		}
		for _, h := range hists {
			sc, doneOnEntry := h.sc, h.doneOnEntry
			ctxDoneAt := func(c *ssa.Call) bool {
				if afterEval(c) {
					return sc.ctxDone
				}
				return doneOnEntry
			}
			it := c08exploreWatch(f, func(v ssa.Value) (any, bool) {
				b2c := func(b bool) (any, bool) { return constant.MakeBool(b), true }
				switch x := v.(type) {
				case *ssa.Extract:
					if c, i := core.ResultOf(x); c == ev && i == 1 {
						if sc.errNil {
							return c08nilV{}, true
						}
						return c08nonNilV{}, true
					}
					if ta, isTA := x.Tuple.(*ssa.TypeAssert); isTA && ta.CommaOk && sc.ok >= 0 {
						if c, i := core.ResultOf(core.Forward(ta.X)); c == ev && i == 0 && x.Index == 1 {
							return b2c(sc.ok == 1)
						}
					}
				case *ssa.BinOp:
					if (x.Op == token.EQL || x.Op == token.NEQ) && ((isErr(x.X) && isRNil(x.Y)) || (isErr(x.Y) && isRNil(x.X))) {
						return b2c(sc.isRNil == (x.Op == token.EQL))
					}
				case *ssa.Call:
					switch {
					case isLoadAlive(x):
						return constant.MakeInt64(1), true
					case isRescue(x):
						return c08rescueV{}, true
					case isCtxErrCall(x):
						if ctxDoneAt(ctxCallOf(x)) {
							return c08nonNilV{}, true
						}
						return c08nilV{}, true
					case core.CalleeName(x) == "errors.Is" && len(x.Call.Args) == 2 && isErr(x.Call.Args[0]):
						switch t := x.Call.Args[1]; {
						case core.IsGlobal("context", "DeadlineExceeded")(t):
							return b2c(sc.isDE)
						case core.IsGlobal("context", "Canceled")(t):
							return b2c(sc.isCan)
						case isCtxErrCall(t): // errors.Is(err, ctx.Err()): the error is the caller's own context error
							return b2c(ctxDoneAt(ctxCallOf(t)) && (sc.isDE || sc.isCan))
						case isRNil(t):
							return b2c(sc.isRNil)
						}
					}
				}
				return nil, false
			}, func(in ssa.Instruction) bool { return isStart(in) || in == ssa.Instruction(ev) })
			if it.failed != "" {
				o.Unres("reserveN when %s: %s", sc.what, it.failed)
				continue
			}
			o.Site(len(it.rets))
			if len(it.rets) == 0 {
				o.Fail(p.InstrPos(ev), "when %s reserveN has no way to return", sc.what)
			}
			for _, rt := range it.rets {
				if len(rt.vals) != 1 {
					continue
				}
				cv, isC := rt.vals[0].(constant.Value)
				refused := isC && cv.Kind() == constant.Bool && !constant.BoolVal(cv)
				_, rescued := rt.vals[0].(c08rescueV)
				started, asked := false, false
				for _, t := range rt.trace {
					if t == ssa.Instruction(ev) {
						asked = true
					} else {
						started = true
					}
				}
				switch {
				case !asked && doneOnEntry:
					// the caller was gone before the script was sent: Redis was not asked, so there is no error to
					// classify; the only answer that admits nothing and disturbs nothing is false
					if earlyReported[rt.ret] {
						break
					}
					earlyReported[rt.ret] = true
					if rescued || started {
						o.Fail(p.InstrPos(rt.ret), "when the caller's context is done on entry reserveN takes the fallback without having asked Redis (startMonitor called: %v, in-process limiter answers: %v): a caller that is gone is taken for a Redis outage, redisAlive drops to 0 and a full in-process bucket answers while Redis is healthy", started, rescued)
					} else if !refused {
						o.Fail(p.InstrPos(rt.ret), "when the caller's context is done on entry reserveN answers %s without having asked Redis, expected false: an event is admitted that no bucket was charged for", w.shape(core.Result(rt.ret, 0), nil))
					}
				case sc.fallback && refused:
					hint := ""
					if nCtxErr == 0 && !sc.errNil && (sc.isDE || sc.isCan) {
						hint = " (reserveN never consults the caller's ctx.Err(): whether a context error is the caller's own cannot be told from the error alone)"
					}
					o.Fail(p.InstrPos(rt.ret), "when %s the request is refused (false): %s%s", sc.what, sc.why, hint)
				case sc.fallback && rescued && !started:
					// reported by the startMonitor-precedes-fallback check below
				case sc.fallback && !rescued:
					o.Fail(p.InstrPos(rt.ret), "when %s reserveN answers %s instead of rescueLimiter.AllowN(now, n): %s", sc.what, w.shape(core.Result(rt.ret, 0), nil), sc.why)
				case !sc.fallback && (rescued || started):
					o.Fail(p.InstrPos(rt.ret), "when %s the fallback is taken (startMonitor called: %v, in-process limiter answers: %v): a refusal by the script / a caller's own context error is taken for a Redis outage, redisAlive drops to 0 and a full in-process bucket answers while Redis is healthy", sc.what, started, rescued)
				case !sc.fallback && !refused:
					o.Fail(p.InstrPos(rt.ret), "when %s reserveN answers %s, expected false", sc.what, w.shape(core.Result(rt.ret, 0), nil))
				}
			}
		}
		// verdict only under err == nil and a successful assertion
		isCode := func(v ssa.Value) bool {
			e, ok := core.Strip(v).(*ssa.Extract)
			if !ok || e.Index != 0 {
				return false
			}
			ta, ok := e.Tuple.(*ssa.TypeAssert)
			if !ok || !ta.CommaOk {
				return false
			}
			c, i := core.ResultOf(core.Forward(ta.X))
			return c == ev && i == 0
		}
		isVerdict := retOf(func(v ssa.Value) bool {
			b, ok := v.(*ssa.BinOp)
			return ok && b.Op == token.EQL && isCode(b.X) && core.IsConstInt(1)(b.Y)
		})
		nVerdict := 0
		for _, ret := range core.Returns(f) {
			in := ssa.Instruction(ret)
			if _, after := core.Reach(core.Q{From: []core.At{core.After(ev)}, Target: core.Is(in)}); !after {
				continue
			}
			switch {
			case isVerdict(in):
				nVerdict++
				if wv := core.Requires(f, core.Is(in), errNil); wv != nil {
					o.Fail(p.InstrPos(in), "the script's verdict is used although err may be non-nil")
				}
			case isFalse(in):
			case retOf(isRescue)(in):
				// startMonitor precedes the fallback answer
				if _, found := core.Reach(core.Q{From: []core.At{core.After(ev)}, Target: core.Is(in), Blocked: isStart}); found {
					o.Fail(p.InstrPos(in), "the in-process limiter answers after a Redis failure without startMonitor having been called: redisAlive stays 1 and every call keeps hitting the dead Redis / nobody watches for recovery")
				}
			default:
				o.Fail(p.InstrPos(in), "reserveN answers %s: neither the script's verdict code == 1, nor false, nor rescueLimiter.AllowN(now, n)", w.shape(core.Result(ret, 0), nil))
			}
		}
		if nVerdict == 0 {
			o.Fail(p.InstrPos(ev), "the script's verdict (code == 1) is never returned")
		}
		// a hard failure must not be answered by the verdict path or by false: from the err != nil edges only fallback returns
		if wv := core.ReachableFromEdges(hErr, isVerdict, nil); wv != nil {
			o.Fail(p.InstrPos(wv), "the verdict path is reachable with err != nil")
		}
	})
	c08r9(r, reserve, startMon, lim) // D4/K2/ctx-state-read-after-eval (seeding round 7)
	r.Check("D4/K3/monitor-once-and-ordered", "startMonitor: redisAlive is set to 0 and the waitForRedis goroutine is spawned only when monitorStarted was false, after monitorStarted = true, and the store of 0 precedes the spawn; monitorStarted is accessed only under rescueLock; redisAlive is written nowhere else to 0", func(o *core.O) {
		if !o.Need(startMon != nil, "TokenLimiter.startMonitor") || !o.Need(lim.has("redisAlive", "monitorStarted", "rescueLock"), "the limiter's redisAlive / monitorStarted / rescueLock fields") {
			return
		}
		f := startMon
		r.Fn(core.FuncName(f))
		// the monitor goroutine, by role: the spawned function (or closure) that sets redisAlive back to 1, directly or one call deep
		isGo := func(in ssa.Instruction) bool {
			g, ok := in.(*ssa.Go)
			if !ok {
				return false
			}
			t := g.Call.StaticCallee()
			if mc, isMC := g.Call.Value.(*ssa.MakeClosure); isMC {
				t = mc.Fn.(*ssa.Function)
			}
			if t == nil {
				return false
			}
			for _, h := range core.WithAnon(t) {
				if monitorFns[h] {
					return true
				}
				for _, c := range core.Calls(h, func(x ssa.Instruction) bool { return core.AsCall(x) != nil }) {
					if sc := c.Common().StaticCallee(); sc != nil && monitorFns[sc] {
						return true
					}
				}
			}
			return false
		}
		gos := core.Instrs(f, isGo)
		zero := core.Instrs(f, storeAlive(0))
		o.Site(len(gos) + len(zero))
		if len(gos) != 1 || len(zero) != 1 {
			o.Fail(p.Pos(f.Pos()), "startMonitor has %d monitor spawns and %d stores of 0 to redisAlive, expected one each", len(gos), len(zero))
			return
		}
		started := core.BoolVal(core.FieldLoad(lim.fld("monitorStarted")))
		for _, site := range append(gos, zero...) {
			if wv := core.Requires(f, core.Is(site), core.Not(started)); wv != nil {
				o.Fail(p.InstrPos(site), "reachable although monitorStarted is already true: a second monitor would be spawned / the flag reset under a running monitor")
			}
		}
		setTrue := func(in ssa.Instruction) bool {
			st, ok := in.(*ssa.Store)
			if !ok || core.FieldAddrName(st.Addr) != lim.fld("monitorStarted") {
				return false
			}
			c, isC := st.Val.(*ssa.Const)
			return isC && c.Value != nil && c.Value.String() == "true"
		}
		if wv := core.Precedes(f, setTrue, isGo); wv != nil {
			o.Fail(p.InstrPos(wv), "the monitor is spawned before monitorStarted is set")
		}
		if wv := core.Precedes(f, storeAlive(0), isGo); wv != nil {
			o.Fail(p.InstrPos(wv), "the monitor is spawned before redisAlive is set to 0: a fast successful ping would be overwritten and the limiter would stay on the in-process bucket forever")
		}
		// K5: writers of redisAlive
		for _, g := range p.PkgFuncs(c08pkg) {
			for _, in := range core.Instrs(g, storeAlive(-1)) {
				k, isC := core.ConstInt(in.(ssa.CallInstruction).Common().Args[1])
				switch {
				case !isC:
					o.Fail(p.InstrPos(in), "redisAlive is set to a non-constant")
				case k == 0 && g != f:
					o.Fail(p.InstrPos(in), "redisAlive is set to 0 outside startMonitor (%s): the limiter leaves Redis without a monitor that brings it back", core.FuncName(g))
				}
			}
			for _, st := range core.StoresToField(g, lim.fld("redisAlive")) {
				if g != newTok {
					o.Fail(p.InstrPos(st), "redisAlive is written non-atomically in %s", core.FuncName(g))
				}
			}
		}
		la := core.NewLockAnalysis(p, c08pkg)
		if lim.ownerType("monitorStarted") != lim.ownerType("rescueLock") {
			o.Unres("monitorStarted (%s) and rescueLock (%s) are not fields of one struct", lim.fld("monitorStarted"), lim.fld("rescueLock"))
			return
		}
		acc := la.CheckGuards([]core.Guard{{Type: lim.ownerType("monitorStarted"), Field: "monitorStarted", Lock: "rescueLock"}}, nil, nil)
		// an access inside a closure that is only ever called with the lock of the same object held
		core.ReportAccesses(o, p, lim.lockedClosureAccesses(la, acc, "rescueLock"))
	})
	r.Check("D4/K2/alive-only-after-ping", "redisAlive returns to 1 only on an edge where tl.store.Ping() answered true, only in the monitor goroutine, which then ends and (deferred, under rescueLock) clears monitorStarted", func(o *core.O) {
		if !o.Need(lim.has("redisAlive", "monitorStarted", "store"), "the limiter's redisAlive / monitorStarted / store fields") {
			return
		}
		n := 0
		for _, g := range p.PkgFuncs(c08pkg) {
			for _, in := range core.Instrs(g, storeAlive(1)) {
				if k, isC := core.ConstInt(in.(ssa.CallInstruction).Common().Args[1]); !isC || k != 1 {
					continue
				}
				n++
				r.Fn(core.FuncName(g))
				// a call that executes Redis.Ping on the limiter's store: written out, or through
				// a method value `x.store.Ping` bound before the monitor was started
				isPing := func(x ssa.Instruction) bool {
					c, ok := x.(*ssa.Call)
					if !ok {
						return false
					}
					callee, recv := lim.calleeOf(c)
					if callee == nil || recv == nil || core.Short(callee.String()) != "(*"+c12redisPkg+".Redis).Ping" {
						return false
					}
					_, isStore := lim.stateField(recv, "store")
					return isStore
				}
				ping := core.BoolVal(func(v ssa.Value) bool {
					c, ok := v.(*ssa.Call)
					return ok && isPing(c)
				})
				if wv := core.Requires(g, core.Is(in), ping); wv != nil {
					o.Fail(p.InstrPos(in), "%s sets redisAlive = 1 on a path where tl.store.Ping() did not just succeed", core.FuncName(g))
				}
				if wv, found := core.Reach(core.Q{From: []core.At{core.After(in)}, Target: func(x ssa.Instruction) bool {
					c := core.AsCall(x)
					return c != nil && (strings.HasSuffix(core.CalleeName(c), ".Ping") || isPing(x))
				}}); found {
					o.Fail(p.InstrPos(wv), "the monitor keeps pinging after it declared Redis alive")
				}
				// deferred reset of monitorStarted
				// (a deferred call that executes the store: the deferred closure itself, or a
				// function it calls, e.g. a lock helper applied to the closure holding the store)
				reset := false
				clears := func(x ssa.Instruction) bool {
					st, ok := x.(*ssa.Store)
					if !ok || core.FieldAddrName(st.Addr) != lim.fld("monitorStarted") {
						return false
					}
					c, isC := st.Val.(*ssa.Const)
					return isC && c.Value != nil && c.Value.String() == "false"
				}
				for _, d := range core.Instrs(g, func(x ssa.Instruction) bool { _, ok := x.(*ssa.Defer); return ok }) {
					if core.Dominates(d, in) && lim.executes(d.(*ssa.Defer), clears, 0) {
						reset = true
					}
				}
				if !reset {
					o.Fail(p.InstrPos(in), "%s does not clear monitorStarted (deferred) when it ends: the next outage would find no monitor", core.FuncName(g))
				}
				// the writer is only started as the monitor goroutine
				callers := 0
				for _, h := range p.PkgFuncs(c08pkg) {
					for _, c := range core.Calls(h, func(x ssa.Instruction) bool {
						c := core.AsCall(x)
						return c != nil && c.Common().StaticCallee() == g
					}) {
						callers++
						if _, isGo := c.(*ssa.Go); !isGo || h != startMon {
							o.Fail(p.InstrPos(c), "%s (which sets redisAlive = 1) is called from %s other than as startMonitor's goroutine", core.FuncName(g), core.FuncName(h))
						}
					}
				}
				if callers == 0 {
					o.Fail(p.Pos(g.Pos()), "%s is never started", core.FuncName(g))
				}
			}
		}
		o.Site(n)
		if n == 0 {
			o.Fail("lib/limit/tokenlimit.go", "redisAlive is never set back to 1: the limiter never returns to Redis")
		}
	})
	r.Check("D4/K8/rescue-same-rate-burst", "NewTokenLimiter stores rate and burst unchanged, starts with redisAlive = 1, and builds the in-process limiter with exactly the configured rate and burst: NewLimiter(Limit(rate), burst), the rate reaching it through value-preserving conversions only [the script refills rate tokens per second; a limit derived from an interval - Every(time.Second / rate) - is rounded to whole nanoseconds: rate 300000 refills at 300030/s, rates above 1e9 give an unlimited limiter, so the fallback is not a bucket of the same rate]", func(o *core.O) {
		if !o.Need(newTok != nil, "limit.NewTokenLimiter") {
			return
		}
		if !o.Need(lim.has("rate", "burst", "store", "redisAlive", "rescueLimiter"), "the limiter's rate / burst / store / redisAlive / rescueLimiter fields") {
			return
		}
		w := newC12fn(newTok)
		want := map[string]string{
			"rate":          "p0",
			"burst":         "p1",
			"store":         "p2",
			"redisAlive":    "1",
			"rescueLimiter": "golang.org/x/time/rate.NewLimiter(p0,p1)",
		}
		for fld, exp := range want {
			sts := core.StoresToField(newTok, lim.fld(fld))
			o.Site(len(sts))
			if len(sts) != 1 {
				o.Fail(p.Pos(newTok.Pos()), "NewTokenLimiter stores TokenLimiter.%s %d times", fld, len(sts))
				continue
			}
			if got := w.shape(sts[0].Val, nil); got != exp {
				why := ""
				if fld == "rescueLimiter" && strings.Contains(got, "rate.Every(") {
					why = ": a limit derived from an interval is rounded to whole nanoseconds, so the in-process bucket refills faster than rate tokens per second (300000 → 300030/s; above 1e9 unlimited)"
				}
				o.Fail(p.InstrPos(sts[0]), "TokenLimiter.%s is initialised with %s, expected %s (p0 = rate, p1 = burst)%s", fld, got, exp, why)
				continue
			}
			if fld != "rescueLimiter" {
				continue
			}
			// the conversions between the rate parameter and the limiter's Limit keep the value:
			// int → (int | int64 | float64 | Limit), nothing narrower in between
			if c, ok := core.Forward(sts[0].Val).(*ssa.Call); ok && len(c.Call.Args) == 2 {
				for v := core.Forward(c.Call.Args[0]); ; {
					var x ssa.Value
					switch y := v.(type) {
					case *ssa.Convert:
						x = y.X
					case *ssa.ChangeType:
						x = y.X
					}
					if x == nil {
						break
					}
					if bt, isB := v.Type().Underlying().(*types.Basic); !isB || (bt.Kind() != types.Int && bt.Kind() != types.Int64 && bt.Kind() != types.Float64) {
						o.Fail(p.InstrPos(sts[0]), "the rate reaches the in-process limiter through a conversion to %s, which does not keep every rate", v.Type())
					}
					v = core.Forward(x)
				}
			}
		}
	})
	_ = periodSite
	_ = tokenSite
}
