package props

import (
	"fmt"
	"sort"
	"strings"

	"godcheck/core"

	"golang.org/x/tools/go/ssa"
)

// c11R6: rules added after the sixth independent seeding round.
func c11R6(r *core.Run) {
	p := r.P
	defer c11R9(r)
	r.Explanation += " By evaluation (c11_eval.go) of the code that reads the `db` struct tag on sample tags: the name a field is registered under is the tag up to its first comma, empty for an untagged field."
	r.NotDecided += " Tag names: only the sample tags are evaluated (no option, one, two and three options, empty options, no tag); a tag whose name part is empty (`db:\",opt\"`) is not specified; the way from the parsed name into the tag map is followed only when the parser hands the raw tag on (accessor) or the parse is inlined into the map/slice builder; code that parses the tag through closures, reflection or packages other than strings is reported as not evaluable; out-of-range panics are reported only on paths without an undetermined branch."

	// The `db` tag is `name[,option]*` (lib/store/builder writes `db:"user_name,type=varchar,length=255"`):
	// the name a column is matched with is the part before the FIRST comma. Decided by evaluation
	// (c11_eval.go), not by the spelling of the cut.
	r.Check("D3/K13/tag-name-is-the-part-before-the-first-comma", "the name a destination field is registered under is its `db` tag up to the first comma, for any number of options after it, and empty for an untagged field: the code of lib/store/sqlx that reads the tag, evaluated on sample tags, yields exactly that name [rows map by column name through `db` tags: with any other cut a field with options is keyed by a string no column has, its column is scanned into a throw-away sink and the field stays zero without an error, strict or not]", func(o *core.O) {
		const tagKey = "db"
		isTagRead := func(in ssa.Instruction) bool {
			c := core.AsCall(in)
			if c == nil || c.Common().IsInvoke() {
				return false
			}
			nm := core.CalleeName(c)
			if nm != "(reflect.StructTag).Get" && nm != "(reflect.StructTag).Lookup" {
				return false
			}
			a := core.Args(c)
			if len(a) != 2 {
				return false
			}
			k, ok := core.ConstString(a[1])
			return ok && k == tagKey
		}
		var roots []*ssa.Function
		for _, f := range p.PkgFuncs(sqlx) {
			if len(core.Calls(f, isTagRead)) > 0 {
				roots = append(roots, f)
			}
		}
		if !o.Need(len(roots) > 0, "a function of lib/store/sqlx that reads the `db` struct tag ((reflect.StructTag).Get/Lookup)") {
			return
		}

		type sample struct {
			tag     string
			present bool
			want    string
			checked bool // false: the name of this tag is not specified (empty name before options)
		}
		samples := []sample{
			{"", false, "", true},
			{"", true, "", true},
			{"id", true, "id", true},
			{"id,opt", true, "id", true},
			{"id,a=b,c=d", true, "id", true},
			{"user_name,type=varchar,length=255", true, "user_name", true},
			{"Name,,", true, "Name", true},
			{"a,b,c,d", true, "a", true},
		}

		chain := map[*ssa.Function]bool{} // functions that hand the raw tag (or pieces that are not yet a name) to their callers
		isChainResult := func(v ssa.Value) bool {
			c, ok := v.(*ssa.Call)
			if !ok {
				return false
			}
			if isTagRead(c) {
				return true
			}
			callee := c.Call.StaticCallee()
			return callee != nil && chain[callee]
		}
		sinkOK := func(_ ssa.Instruction, v ssa.Value) bool { return core.DependsOn(v, isChainResult) }

		type result struct {
			obs        [][]c11Obs
			incomplete []string
			total      int
			reads      int
		}
		evaluate := func(f *ssa.Function) result {
			var res result
			for _, s := range samples {
				obs, inc, reads := c11Explore(f, tagKey, s.tag, s.present, sinkOK)
				res.obs = append(res.obs, obs)
				res.incomplete = append(res.incomplete, inc...)
				res.total += len(obs)
				res.reads += reads
			}
			return res
		}
		// passThrough: f hands the tag on unchanged (a small accessor): its callers are the ones
		// that make a name of it.
		passThrough := func(res result) bool {
			differs := false
			for i, s := range samples {
				for _, ob := range res.obs[i] {
					v, ok := c11Str(ob.val)
					if ob.kind != "return" || !ok || v != s.tag {
						return false
					}
					if s.tag != s.want {
						differs = true
					}
				}
			}
			return differs
		}
		callersOf := func(f *ssa.Function) []*ssa.Function {
			var out []*ssa.Function
			for _, g := range p.PkgFuncs(sqlx) {
				if g == f {
					continue
				}
				for _, c := range core.Calls(g, func(in ssa.Instruction) bool { return core.AsCall(in) != nil }) {
					if c.Common().StaticCallee() == f {
						out = append(out, g)
						break
					}
				}
			}
			return out
		}

		decided := 0
		var unseen []string
		done := map[*ssa.Function]bool{}
		work := roots
		for level := 0; level < 4 && len(work) > 0; level++ {
			var next []*ssa.Function
			for _, f := range work {
				if done[f] {
					continue
				}
				done[f] = true
				res := evaluate(f)
				if res.reads == 0 {
					unseen = append(unseen, core.FuncName(f)+": no path reaches the tag read")
					continue
				}
				if res.total == 0 || passThrough(res) {
					// nothing that looks like a name leaves f as a string (or the raw tag does): look at who uses f
					chain[f] = true
					cs := callersOf(f)
					if len(cs) == 0 {
						unseen = append(unseen, core.FuncName(f)+": reads the tag, but neither it nor a caller turns it into a name the rule can see"+c11Why(res.incomplete))
					}
					next = append(next, cs...)
					continue
				}
				decided++
				r.Fn(core.FuncName(f))
				reported := map[string]bool{}
				fail := func(at ssa.Instruction, format string, a ...any) {
					msg := fmt.Sprintf(format, a...)
					if !reported[msg] {
						reported[msg] = true
						o.Fail(p.InstrPos(at), "%s", msg)
					}
				}
				for i, s := range samples {
					if !s.checked {
						continue
					}
					tagText := "`db:\"" + s.tag + "\"`"
					if !s.present {
						tagText = "no `db` tag"
					}
					if len(res.obs[i]) == 0 && s.want != "" {
						if len(res.incomplete) > 0 {
							o.Unres("%s: no name observed for %s%s", core.FuncName(f), tagText, c11Why(res.incomplete))
						} else {
							fail(f.Blocks[0].Instrs[0], "%s: a field tagged %s is registered under no name at all (other tags are): its column is never copied into it", core.FuncName(f), tagText)
						}
						continue
					}
					for _, ob := range res.obs[i] {
						if ob.kind == "panic" {
							fail(ob.at, "%s panics for a field tagged %s (%v)", core.FuncName(f), tagText, ob.val)
							continue
						}
						got, ok := c11Str(ob.val)
						if !ok {
							o.Unres("%s: the name derived from %s cannot be evaluated (%s)", core.FuncName(f), tagText, p.InstrPos(ob.at))
							continue
						}
						if got != s.want {
							what := "the column " + fmt.Sprintf("%q", s.want) + " finds no field, is scanned into a throw-away sink and the field stays zero without an error"
							if s.want == "" {
								what = "an untagged field gets a name, the struct is no longer mapped by position"
							}
							fail(ob.at, "%s: a field tagged %s is registered under %q, not %q (the tag up to its first comma): %s", core.FuncName(f), tagText, got, s.want, what)
						}
					}
				}
			}
			work = next
		}
		if decided == 0 {
			sort.Strings(unseen)
			o.Unres("no function of lib/store/sqlx could be evaluated from the `db` tag to the field name: %s", strings.Join(unseen, "; "))
			return
		}
		o.Site(decided, sqlx)
	})
}

func c11Why(incomplete []string) string {
	if len(incomplete) == 0 {
		return ""
	}
	return " (paths not followed: " + strings.Join(incomplete, ", ") + ")"
}
