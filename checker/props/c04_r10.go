package props

// Round 10 (after seeded change C04-vm2): the producer side of engine.signatureVerifier's
// `enabled` flag.
//
// D3/K8/engine-signature decides the consumer: a route group is bound without the signature
// gate only when its setting says !enabled, or (no keys ∧ !Strict); a group with enabled ∧
// Strict ∧ no keys is refused (ErrSignatureConfig). That is a statement about the property only
// if `enabled` is true for every group that was configured as signature-protected. The flag is
// an unexported field of an unexported struct of package api, so the package's own stores are all
// there is. What is decided here, by evaluating the stored value under "the configured Strict is
// true" (not by its spelling): every value that may be stored into the flag on a path on which
// Strict may be true is true, and the public option built from a SignatureConfig cannot finish
// without such a store.

import (
	"go/constant"
	"go/token"
	"go/types"

	"godcheck/core"

	"golang.org/x/tools/go/ssa"
)

// c04SigTypes finds, by types: the exported configuration type api.SignatureConfig, the unexported
// struct type S of package api that carries one (as a field, embedded or not) and the boolean field(s)
// of S — the "this group is signature-protected" flag.
func c04SigTypes(p *core.Prog) (cfg *types.Named, s *types.Named, flags []int) {
	sp := p.Pkg("api")
	if sp == nil {
		return
	}
	if m, ok := sp.Members["SignatureConfig"].(*ssa.Type); ok {
		cfg, _ = m.Type().(*types.Named)
	}
	if cfg == nil {
		return
	}
	var found []*types.Named
	for _, m := range sp.Members {
		t, ok := m.(*ssa.Type)
		if !ok {
			continue
		}
		n, ok := t.Type().(*types.Named)
		if !ok || n == cfg || n.Obj().Exported() { // the exported Config carries one too: that is the file format, not a route group's setting
			continue
		}
		st, ok := n.Underlying().(*types.Struct)
		if !ok {
			continue
		}
		for i := 0; i < st.NumFields(); i++ {
			if types.Identical(st.Field(i).Type(), cfg) {
				found = append(found, n)
				break
			}
		}
	}
	if len(found) != 1 {
		return cfg, nil, nil
	}
	s = found[0]
	st := s.Underlying().(*types.Struct)
	for i := 0; i < st.NumFields(); i++ {
		if b, ok := st.Field(i).Type().Underlying().(*types.Basic); ok && b.Kind() == types.Bool {
			flags = append(flags, i)
		}
	}
	if len(flags) > 1 {
		// several booleans: the one the maintainers call enabled
		var named []int
		for _, i := range flags {
			if st.Field(i).Name() == "enabled" {
				named = append(named, i)
			}
		}
		flags = named
	}
	return
}

func c04Deref(t types.Type) types.Type {
	if pt, ok := t.Underlying().(*types.Pointer); ok {
		return pt.Elem()
	}
	return t
}

// c04IsFieldAddrOf: v is &x.f for x of (pointer to) named type n and field index f.
func c04IsFieldAddrOf(v ssa.Value, n *types.Named, f int) bool {
	fa, ok := v.(*ssa.FieldAddr)
	return ok && fa.Field == f && types.Identical(c04Deref(fa.X.Type()), n)
}

// c04CfgStrict: a read of the Strict field of a SignatureConfig that is *not* part of the
// setting being written (the option's own argument: a parameter, a captured copy, a local copy).
func c04CfgStrict(cfg, s *types.Named) func(ssa.Value) bool {
	idx := -1
	st := cfg.Underlying().(*types.Struct)
	for i := 0; i < st.NumFields(); i++ {
		if st.Field(i).Name() == "Strict" {
			idx = i
		}
	}
	insideS := func(v ssa.Value) bool {
		for i := 0; i < 8; i++ {
			fa, ok := v.(*ssa.FieldAddr)
			if !ok {
				return false
			}
			if types.Identical(c04Deref(fa.X.Type()), s) {
				return true
			}
			v = fa.X
		}
		return true
	}
	return func(v ssa.Value) bool {
		if idx < 0 {
			return false
		}
		v = core.Forward(core.Strip(v))
		switch x := v.(type) {
		case *ssa.UnOp:
			if x.Op != token.MUL {
				return false
			}
			return c04IsFieldAddrOf(x.X, cfg, idx) && !insideS(x.X.(*ssa.FieldAddr).X)
		case *ssa.Field:
			if x.Field != idx || !types.Identical(x.X.Type(), cfg) {
				return false
			}
			// a field of a struct value: the value must not be loaded out of the setting
			if l, ok := core.Forward(x.X).(*ssa.UnOp); ok && l.Op == token.MUL {
				return !insideS(l.X)
			}
			return true
		}
		return false
	}
}

// c04BoolUnder evaluates a boolean SSA value in function f under the assumption that every value
// matched by isTrue is true; notAssumed are the CFG edges that can only be taken when the
// assumption is false (φ-inputs entering through them do not count). +1 true, -1 false, 0 unknown.
func c04BoolUnder(f *ssa.Function, v ssa.Value, isTrue func(ssa.Value) bool, notAssumed []core.Edge, depth int) int {
	if depth > 12 {
		return 0
	}
	if isTrue(v) {
		return 1
	}
	v = core.Forward(core.Strip(v))
	if isTrue(v) {
		return 1
	}
	switch x := v.(type) {
	case *ssa.Const:
		if x.Value != nil && x.Value.Kind() == constant.Bool {
			if constant.BoolVal(x.Value) {
				return 1
			}
			return -1
		}
	case *ssa.UnOp:
		if x.Op == token.NOT {
			return -c04BoolUnder(f, x.X, isTrue, notAssumed, depth+1)
		}
	case *ssa.Phi:
		res, n := 0, 0
		for i, e := range x.Edges {
			if !gxEdgeReachable(f, core.Edge{From: x.Block().Preds[i], To: x.Block()}, notAssumed) {
				continue
			}
			r := c04BoolUnder(f, e, isTrue, notAssumed, depth+1)
			if n > 0 && r != res {
				return 0
			}
			res = r
			n++
		}
		if n == 0 {
			return 1 // no input can arrive while the assumption holds
		}
		return res
	}
	return 0
}

func c04r10(r *core.Run) {
	p := r.P
	r.Explanation += " (Route options) every value package api stores into the signature setting's enabled flag is true whenever the option's SignatureConfig.Strict may be true (evaluated under Strict, any spelling), and the option built from a SignatureConfig cannot return without such a store; every value stored into the JWT setting's flag is true and every function storing a JWT secret sets the flag on all paths."
	r.NotDecided += " That the option copies Strict / Expire / PrivateKeys of its SignatureConfig into the setting, and that a flag stored into a local setting value is the one assigned to the route group."
	r.Check("D3/K8/signature-option-enables-gate", "a route group configured as signature-protected is marked so whenever it is strict: in package api every value that can be stored into the `enabled` flag of the signature setting on a path on which the option's SignatureConfig.Strict may be true evaluates to true under Strict (the constant, Strict itself, `Strict || …` in any spelling), and the option the exported constructor builds from a SignatureConfig passes such a store on every path to its return [strict signature clause: engine.signatureVerifier binds a group whose flag is false with no ContentSecurityHandler at all and before its `Strict ∧ no keys → ErrSignatureConfig` refusal, so a strict group whose flag came out false — e.g. because its key list is empty — serves its handlers to unsigned and forged requests instead of never]", func(o *core.O) {
		cfg, s, flags := c04SigTypes(p)
		if !o.Need(cfg != nil, "type api.SignatureConfig") || !o.Need(s != nil, "the one unexported struct type of package api that carries a SignatureConfig") ||
			!o.Need(len(flags) == 1, "the boolean flag of "+func() string {
				if s != nil {
					return s.Obj().Name()
				}
				return "the signature setting"
			}()) {
			return
		}
		flag := flags[0]
		isFlagStore := func(in ssa.Instruction) bool {
			st, ok := in.(*ssa.Store)
			return ok && c04IsFieldAddrOf(st.Addr, s, flag)
		}
		isStrict := c04CfgStrict(cfg, s)
		fns := b2PkgFuncs(p, "api")
		n := 0

		// (a) the values stored
		for _, f := range fns {
			stores := core.Instrs(f, isFlagStore)
			if len(stores) == 0 {
				continue
			}
			r.Fn(core.FuncName(f))
			_, notStrict := core.EdgesOf(f, core.BoolVal(isStrict))
			for _, in := range stores {
				n++
				if _, ok := core.Reach(core.Q{From: []core.At{core.Entry(f)}, Target: core.Is(in), Cut: core.CutSet(notStrict)}); !ok {
					continue // only reached when the configured Strict is false
				}
				if c04BoolUnder(f, in.(*ssa.Store).Val, isStrict, notStrict, 0) != 1 {
					o.Fail(p.InstrPos(in), "%s stores %s into %s.%s on a path on which the configured Strict may be true: a strict signature-protected group can come out not enabled, engine.signatureVerifier then binds its routes without the signature gate (and never reaches the ErrSignatureConfig refusal for a strict group without keys) — unsigned and forged requests run the handlers",
						core.FuncName(f), core.Describe(in.(*ssa.Store).Val), s.Obj().Name(), s.Underlying().(*types.Struct).Field(flag).Name())
				}
			}
		}

		// (b) the public option cannot finish without the store
		allPass := func(f *ssa.Function, site func(ssa.Instruction) bool) bool {
			return f != nil && f.Blocks != nil && len(core.Instrs(f, site)) > 0 && core.MustPass(core.Entry(f), site, core.IsReturn) == nil
		}
		enables := func(in ssa.Instruction) bool {
			if isFlagStore(in) {
				return true
			}
			c := core.AsCall(in)
			if c == nil {
				return false
			}
			if _, isGo := in.(*ssa.Go); isGo {
				return false
			}
			h := c.Common().StaticCallee()
			if h == nil {
				if mc, ok := core.Forward(c.Common().Value).(*ssa.MakeClosure); ok && !c.Common().IsInvoke() {
					h, _ = mc.Fn.(*ssa.Function)
				}
			}
			return h != nil && h.Pkg == p.Pkg("api") && allPass(h, isFlagStore)
		}
		ctors := 0
		for _, m := range p.Pkg("api").Members {
			f, ok := m.(*ssa.Function)
			if !ok || f.Object() == nil || !f.Object().Exported() || f.Blocks == nil {
				continue
			}
			takesCfg := false
			for _, pa := range f.Params {
				if types.Identical(c04Deref(pa.Type()), cfg) {
					takesCfg = true
				}
			}
			res := f.Signature.Results()
			if !takesCfg || res.Len() != 1 {
				continue
			}
			if _, ok := res.At(0).Type().Underlying().(*types.Signature); !ok {
				continue
			}
			ctors++
			r.Fn(core.FuncName(f))
			for _, ret := range core.Returns(f) {
				n++
				var g *ssa.Function
				switch x := core.Strip(core.Forward(core.Strip(core.Result(ret, 0)))).(type) {
				case *ssa.MakeClosure:
					g, _ = x.Fn.(*ssa.Function)
				case *ssa.Function:
					g = x
				}
				if g == nil || g.Blocks == nil {
					o.Unres("%s returns %s: the option it builds is not resolved", core.FuncName(f), core.Describe(core.Result(ret, 0)))
					continue
				}
				r.Fn(core.FuncName(g))
				if w := core.MustPass(core.Entry(g), enables, core.IsReturn); w != nil {
					o.Fail(p.InstrPos(w), "the option built by %s can return without setting %s.%s: the group it was applied to is bound without the signature gate although it was configured as signature-protected (strict or not) — every request runs the handlers",
						core.FuncName(f), s.Obj().Name(), s.Underlying().(*types.Struct).Field(flag).Name())
				}
			}
		}
		if ctors == 0 {
			o.Unres("no exported function of package api builds an option from a SignatureConfig")
		}
		o.Site(n, "api")
	})

	r.Check("D2/K8/jwt-option-enables-gate", "a route group that is given a JWT secret is marked JWT-protected: the setting whose secret engine hands to handler.Authorize has one boolean flag; every value package api stores into that flag is true, and every function of the package that stores a secret into such a setting passes a store of the flag on every path to its return [JWT clause: engine.appendAuthHandler installs Authorize only when the flag is set, so a group configured with WithJwt / WithJwtTransition whose flag came out false — for some secret — is bound with no JWT gate and runs its handlers for requests without a token]", func(o *core.O) {
		// the setting type, by role: the struct whose string field is Authorize's secret
		var t *types.Named
		secret := -1
		fns := b2PkgFuncs(p, "api")
		for _, f := range fns {
			for _, c := range core.Calls(f, core.CallTo(c04HandlerPkg+".Authorize")) {
				a := core.Args(c)
				if len(a) == 0 {
					continue
				}
				if n, fld, ok := c04FieldRead(core.Forward(core.Strip(a[0]))); ok {
					if t != nil && (t != n || fld != secret) {
						o.Unres("handler.Authorize is given secrets of different settings (%s.%d, %s.%d)", t.Obj().Name(), secret, n.Obj().Name(), fld)
						return
					}
					t, secret = n, fld
				}
			}
		}
		if !o.Need(t != nil, "the setting whose field engine hands to handler.Authorize as the secret") {
			return
		}
		st := t.Underlying().(*types.Struct)
		var flags []int
		for i := 0; i < st.NumFields(); i++ {
			if b, ok := st.Field(i).Type().Underlying().(*types.Basic); ok && b.Kind() == types.Bool {
				flags = append(flags, i)
			}
		}
		if !o.Need(len(flags) == 1, "the one boolean flag of "+t.Obj().Name()) {
			return
		}
		flag := flags[0]
		isFlagStore := func(in ssa.Instruction) bool {
			s, ok := in.(*ssa.Store)
			return ok && c04IsFieldAddrOf(s.Addr, t, flag)
		}
		isSecretStore := func(in ssa.Instruction) bool {
			s, ok := in.(*ssa.Store)
			return ok && c04IsFieldAddrOf(s.Addr, t, secret)
		}
		never := func(ssa.Value) bool { return false }
		allPass := func(f *ssa.Function) bool {
			return f != nil && f.Blocks != nil && len(core.Instrs(f, isFlagStore)) > 0 && core.MustPass(core.Entry(f), isFlagStore, core.IsReturn) == nil
		}
		enables := func(in ssa.Instruction) bool {
			if isFlagStore(in) {
				return true
			}
			c := core.AsCall(in)
			if c == nil {
				return false
			}
			if _, isGo := in.(*ssa.Go); isGo {
				return false
			}
			h := c.Common().StaticCallee()
			return h != nil && h.Pkg == p.Pkg("api") && allPass(h)
		}
		n, setters := 0, 0
		for _, f := range fns {
			for _, in := range core.Instrs(f, isFlagStore) {
				n++
				r.Fn(core.FuncName(f))
				if c04BoolUnder(f, in.(*ssa.Store).Val, never, nil, 0) != 1 {
					o.Fail(p.InstrPos(in), "%s stores %s into %s.%s: a group that was given a JWT secret can come out not enabled, engine.appendAuthHandler then installs no Authorize gate — requests without a token run the handlers",
						core.FuncName(f), core.Describe(in.(*ssa.Store).Val), t.Obj().Name(), st.Field(flag).Name())
				}
			}
			if len(core.Instrs(f, isSecretStore)) == 0 {
				continue
			}
			setters++
			n++
			r.Fn(core.FuncName(f))
			if w := core.MustPass(core.Entry(f), enables, core.IsReturn); w != nil {
				o.Fail(p.InstrPos(w), "%s stores a JWT secret into a %s and can return without setting %s: the group is bound with no JWT gate although it was configured with a secret",
					core.FuncName(f), t.Obj().Name(), st.Field(flag).Name())
			}
		}
		if setters == 0 {
			o.Unres("no function of package api stores the secret of %s", t.Obj().Name())
		}
		o.Site(n, "api")
	})
}
