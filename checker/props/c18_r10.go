package props

import (
	"go/token"

	"godcheck/core"

	"golang.org/x/tools/go/ssa"
)

// ---------------------------------------------------------------------------
// Rule written in detection round 9 (dt9) for the missed change C18-vm3:
//
//   D4/K3/pool-destroy-before-budget-reuse — a resource that Pool discounts
//     from created is really destroyed (the destroy call has run, not merely
//     been scheduled with defer/go) before the freed budget can be used: before
//     a create call, before the lock is given up (cond.Wait, explicit Unlock)
//     and, for a spawned destroy, before the method returns.
//
// The counter Pool.created is what bounds the pool; the property is stated on
// LIVE resources (created by create() and not yet destroyed by destroy()).
// created >= live must therefore hold whenever created is consulted to admit a
// create — in this goroutine (the create call) or in another one (any moment
// the lock is not held). Lowering created for a resource that is still alive
// breaks that.
// ---------------------------------------------------------------------------

// c18PoolDecr matches the store created = created - k (k > 0) into Pool.created.
func c18PoolDecr(in ssa.Instruction) bool {
	st, ok := in.(*ssa.Store)
	if !ok || core.FieldAddrName(st.Addr) != "Pool.created" {
		return false
	}
	b, ok := core.Strip(st.Val).(*ssa.BinOp)
	if !ok {
		return false
	}
	switch b.Op {
	case token.SUB:
		c, isC := core.ConstInt(b.Y)
		return isC && c > 0 && core.IsFieldLoad(b.X, "Pool.created")
	case token.ADD: // created + (-1)
		if c, isC := core.ConstInt(b.Y); isC && c < 0 && core.IsFieldLoad(b.X, "Pool.created") {
			return true
		}
		if c, isC := core.ConstInt(b.X); isC && c < 0 && core.IsFieldLoad(b.Y, "Pool.created") {
			return true
		}
	}
	return false
}

// c18PoolOrder carries the per-package facts of the rule.
type c18PoolOrder struct {
	inPkg map[*ssa.Function]bool
	// memo of helper summaries
	destroys map[*ssa.Function]int // 1: every path through h runs destroy to completion, 2: not
	leaks    map[*ssa.Function]int // 1: h can return with an uncovered discount, 2: not
}

var c18IsPoolDestroy = core.CallOfValue(core.FieldLoad("Pool.destroy"))
var c18IsPoolCreate = core.CallOfValue(core.FieldLoad("Pool.create"))

func c18IsPoolWait(in ssa.Instruction) bool {
	c := core.AsCall(in)
	if c == nil || core.Short(core.CalleeName(c)) != "(*sync.Cond).Wait" {
		return false
	}
	a := core.Args(c)
	return len(a) > 0 && core.IsFieldLoad(a[0], "Pool.cond")
}

// helper returns the named in-package function a plain call instruction invokes.
func (x *c18PoolOrder) helper(in ssa.Instruction) *ssa.Function {
	c, ok := in.(*ssa.Call)
	if !ok {
		return nil
	}
	h := c.Call.StaticCallee()
	if h == nil || !x.inPkg[h] || h.Parent() != nil || len(h.Blocks) == 0 {
		return nil
	}
	return h
}

// ran: after this instruction a destroy has run to completion. A plain call of
// the destroy function, or a plain call of a helper every path through which
// runs destroy (inside a helper a deferred destroy counts: it runs when the
// helper returns, i.e. before the call instruction completes). A `defer` or
// `go` of destroy in the function itself does not count: nothing has been
// destroyed when the next instruction runs.
func (x *c18PoolOrder) ran(in ssa.Instruction) bool {
	if _, ok := in.(*ssa.Call); ok && c18IsPoolDestroy(in) {
		return true
	}
	h := x.helper(in)
	if h == nil {
		return false
	}
	if v := x.destroys[h]; v != 0 {
		return v == 1
	}
	x.destroys[h] = 2 // recursion guard
	inH := func(i ssa.Instruction) bool {
		if _, isGo := i.(*ssa.Go); isGo {
			return false
		}
		if c18IsPoolDestroy(i) { // Call or Defer
			return true
		}
		return x.ran(i)
	}
	if len(core.Instrs(h, inH)) > 0 && core.MustPass(core.Entry(h), inH, core.IsExit) == nil {
		x.destroys[h] = 1
	}
	return x.destroys[h] == 1
}

// scheduled: a destroy that will have run when the function has returned
// (deferred), or has run already.
func (x *c18PoolOrder) scheduled(in ssa.Instruction) bool {
	if _, ok := in.(*ssa.Defer); ok && c18IsPoolDestroy(in) {
		return true
	}
	return x.ran(in)
}

// reuse: the freed budget can be used at this instruction — a create call
// (here or in a helper), or the pool's lock is given up (cond.Wait here or in a
// helper, an explicit Unlock), after which any other Get may create.
func (x *c18PoolOrder) reuse(in ssa.Instruction) bool {
	if _, isDefer := in.(*ssa.Defer); isDefer {
		return false
	}
	if c18IsPoolCreate(in) || c18IsPoolWait(in) || c18UnlockOf("Pool.lock")(in) {
		return true
	}
	h := x.helper(in)
	if h == nil {
		return false
	}
	for _, g := range core.WithAnon(h) {
		if len(core.Instrs(g, core.Or(c18IsPoolCreate, c18IsPoolWait))) > 0 {
			return true
		}
	}
	return false
}

// creates: the instruction calls create, directly or in a helper.
func (x *c18PoolOrder) creates(in ssa.Instruction) bool {
	if c18IsPoolCreate(in) {
		return true
	}
	h := x.helper(in)
	if h == nil {
		return false
	}
	for _, g := range core.WithAnon(h) {
		if len(core.Instrs(g, c18IsPoolCreate)) > 0 {
			return true
		}
	}
	return false
}

// discounts: the instructions of f at which created has been lowered for a
// resource whose destroy has not run: a decrement of Pool.created, or the call
// of a helper that can return with such a decrement uncovered.
func (x *c18PoolOrder) discounts(f *ssa.Function) []ssa.Instruction {
	return core.Instrs(f, func(in ssa.Instruction) bool {
		if c18PoolDecr(in) {
			return true
		}
		h := x.helper(in)
		return h != nil && h != f && x.leaky(h)
	})
}

// uncovered: discount d of f is not preceded by a completed destroy on some
// path from the entry of f (the spelling destroy(x); created-- is as good as
// created--; destroy(x)).
func (x *c18PoolOrder) uncovered(f *ssa.Function, d ssa.Instruction) bool {
	_, ok := core.Reach(core.Q{From: []core.At{core.Entry(f)}, Target: core.Is(d), Blocked: x.ran})
	return ok
}

// leaky: helper h can return to its caller after a discount whose destroy has
// neither run nor been deferred inside h.
func (x *c18PoolOrder) leaky(h *ssa.Function) bool {
	if v := x.leaks[h]; v != 0 {
		return v == 1
	}
	x.leaks[h] = 2
	for _, d := range x.discounts(h) {
		if !x.uncovered(h, d) {
			continue
		}
		if _, ok := core.Reach(core.Q{From: []core.At{core.After(d)}, Target: core.IsReturn, Blocked: x.scheduled}); ok {
			x.leaks[h] = 1
			break
		}
	}
	return x.leaks[h] == 1
}

// c18R10 registers the rule of detection round 9.
func c18R10(r *core.Run, inPkg map[*ssa.Function]bool) {
	p := r.P
	r.Check("D4/K3/pool-destroy-before-budget-reuse", "a resource discounted from Pool.created is destroyed before the freed budget can be used: on every path from a decrement of created that is not preceded by a completed destroy call, destroy has run to completion (a plain call, directly or through a helper — not a `defer` or `go` statement, which only schedules it) before the next create call, before the pool's lock is given up (cond.Wait, explicit Unlock) and before the pool method returns with the destroy merely spawned [a pool never has more than its limit of live resources: created is the only bound on create calls; lowering it while the discounted resource is still alive lets this Get (created < limit → create) or, once the lock is free, any other Get create a replacement next to it — limit+1 resources alive, more if several idle ones expired together]", func(o *core.O) {
		x := &c18PoolOrder{inPkg: inPkg, destroys: map[*ssa.Function]int{}, leaks: map[*ssa.Function]int{}}
		n, decrs := 0, 0
		for _, f := range p.PkgFuncs(syncxPkg) {
			if len(f.Blocks) == 0 {
				continue
			}
			decrs += len(core.Instrs(f, c18PoolDecr))
			ds := x.discounts(f)
			if len(ds) == 0 {
				continue
			}
			r.Fn(core.FuncName(f))
			// a function that gives the result to the outside world: an exported
			// method/function. Elsewhere a discount still open at the return is
			// handed to the caller (leaky) and followed there.
			root := f.Parent() == nil && f.Object() != nil && f.Object().Exported()
			for _, d := range ds {
				n++
				if !x.uncovered(f, d) {
					continue
				}
				// report the create call when there is one (the lock hand-over is the weaker witness)
				w, ok := core.Reach(core.Q{From: []core.At{core.After(d)}, Target: func(in ssa.Instruction) bool { return x.reuse(in) && x.creates(in) }, Blocked: x.ran})
				what := "a resource is created"
				if !ok {
					w, ok = core.Reach(core.Q{From: []core.At{core.After(d)}, Target: x.reuse, Blocked: x.ran})
					what = "the pool's lock is given up (any other Get may create)"
				}
				if ok {
					o.Fail(p.InstrPos(w), "%s while the resource discounted from created at %s has not been destroyed yet (its destroy has not run on this path; a deferred or spawned destroy runs later): with the pool at its limit, limit+1 resources are alive at this moment", what, p.InstrPos(d))
					continue
				}
				if root {
					if w, ok := core.Reach(core.Q{From: []core.At{core.After(d)}, Target: core.IsReturn, Blocked: x.scheduled}); ok {
						o.Fail(p.InstrPos(w), "%s returns (and the lock is released) while the resource discounted from created at %s has not been destroyed — its destroy is not called or only spawned: the next Get creates a replacement next to a live resource", core.FuncName(f), p.InstrPos(d))
					}
				}
			}
		}
		o.Site(n, "discounts of Pool.created")
		if decrs == 0 {
			o.Unres("no decrement of Pool.created found in %s: how the pool gives budget back for a destroyed resource is not understood", syncxPkg)
		}
	})
	r.Explanation += " A resource discounted from Pool.created has been destroyed by a completed call (not a deferred or spawned one) before the next create call and before the pool's lock is given up."
	r.NotDecided += " Pool: a destroy deferred inside a function literal (only named helpers are summarised); whether a deferred destroy runs before the deferred Unlock when both are deferred in the same function (defer order); panics of destroy."
}
